(* C13 -- the flagged model (Model/C13_Fixed.v): (1) with both repairs off it IS the model of Model/C13_Geom.v, so every
   theorem about today's maps is a theorem about what the generated cases evaluate; (2) with the squeeze repair on, the
   round trips and shapes hold WITHOUT the singleton guards; with the Image2D repair on, fun2par is column-wise. *)
From CV Require Import Base.Tac Base.Cmp Base.LinAlg Base.QcLin Model.C13_Geom Model.C13_Float Model.C13_Fixed
     Proofs.C13_Lists Proofs.C13_Index Proofs.C13_Geom Proofs.C13_Step Proofs.C13_MatMap Proofs.C13_All.
From Coq Require Import QArith Qcanon.

(* ---------------- (1) flags off = today's model ---------------- *)
Lemma g_par2fun_m_off g : forall a, g_par2fun_m false g a = g_par2fun g a.
Proof. induction g; intros a; cbn [g_par2fun_m g_par2fun]; try reflexivity; rewrite IHg; reflexivity. Qed.

Lemma g_fun2par_m_off g : forall a, g_fun2par_m false false g a = g_fun2par g a.
Proof.
  induction g; intros a; cbn [g_fun2par_m g_fun2par]; try reflexivity.
  - destruct fi; [apply IHg | reflexivity].
  - destruct Mi; [|reflexivity]. destruct (matmap l a); [apply IHg | reflexivity].
Qed.

Lemma g_fun2vec_m_off g : forall a, g_fun2vec_m false g a = g_fun2vec g a.
Proof. induction g; intros a; cbn [g_fun2vec_m g_fun2vec]; try reflexivity; apply IHg. Qed.

Lemma g_fun_shape_m_off g : g_fun_shape_m false g = g_fun_shape g.
Proof. destruct g; cbn [g_fun_shape_m g_fun_shape]; try reflexivity; rewrite g_par2fun_m_off; reflexivity. Qed.

Lemma g_funvec_shape_m_off g : g_funvec_shape_m false false g = g_funvec_shape g.
Proof.
  destruct g; cbn [g_funvec_shape_m g_funvec_shape]; try reflexivity; rewrite g_par2fun_m_off;
    (destruct (g_par2fun _ _) as [b|]; [cbn [obind]; rewrite g_fun2vec_m_off; reflexivity | reflexivity]).
Qed.

Lemma omap_list_ext {X Y} (f g : X -> option Y) l : (forall x, f x = g x) -> omap_list f l = omap_list g l.
Proof. intros H. induction l as [|a l IH]; [reflexivity|]. cbn [omap_list]. rewrite H, IH. reflexivity. Qed.

Lemma convert_all_ext c1 c2 tgt S : (forall x, c1 x = c2 x) -> convert_all c1 tgt S = convert_all c2 tgt S.
Proof. intros H. unfold convert_all. f_equal. apply omap_list_ext. intros i. rewrite H. reflexivity. Qed.

Lemma samples_apply_m_off op g S : samples_apply_m false false op g S = samples_apply op g S.
Proof.
  destruct op; cbn [samples_apply_m samples_apply].
  - unfold samples_funvals_m, samples_funvals. rewrite g_fun_shape_m_off.
    destruct (negb (s_is_par S) && negb (s_is_vec S)); [reflexivity|]. destruct (g_fun_shape g); [|reflexivity].
    f_equal. apply convert_all_ext. intros x. destruct (s_is_par S); [apply g_par2fun_m_off | reflexivity].
  - unfold samples_vector_m, samples_vector. rewrite g_funvec_shape_m_off.
    destruct (s_is_vec S || s_is_par S); [reflexivity|]. destruct (g_funvec_shape g); [|reflexivity].
    f_equal. apply convert_all_ext. apply g_fun2vec_m_off.
  - unfold samples_parameters_m, samples_parameters. destruct (s_is_par S); [reflexivity|].
    f_equal. apply convert_all_ext. intros x. destruct (s_is_vec S); [|apply g_fun2par_m_off].
    destruct (g_vec2fun g x); [apply g_fun2par_m_off | reflexivity].
Qed.

Lemma samples_chain_m_off ops g : forall S, samples_chain_m false false ops g S = samples_chain ops g S.
Proof.
  induction ops as [|op ops IH]; intros S; [reflexivity|]. cbn [samples_chain_m samples_chain].
  rewrite samples_apply_m_off. destruct (samples_apply op g S); [apply IH | reflexivity].
Qed.

(* what the generated cases evaluate, with both repairs off, is exactly the checker of Model/C13_Geom.v *)
Theorem checkers_off :
  (forall exact m g x obs, check_map_m false false exact m g x obs = check_map exact m g x obs) /\
  (forall g a b c d e, check_shapes_m false false g a b c d e = check_shapes g a b c d e) /\
  (forall exact ops g S obs, check_samples_m false false exact ops g S obs = check_samples exact ops g S obs) /\
  (forall exact tp g a ip obs, check_cuqiarray_m false false exact tp g a ip obs = check_cuqiarray exact tp g a ip obs).
Proof.
  split; [|split; [|split]].
  - intros. unfold check_map_m, check_map. f_equal.
    destruct m; cbn [g_apply_m g_apply]; [apply g_par2fun_m_off | apply g_fun2par_m_off | apply g_fun2vec_m_off | reflexivity].
  - intros. unfold check_shapes_m, check_shapes. rewrite g_fun_shape_m_off, g_funvec_shape_m_off. reflexivity.
  - intros. unfold check_samples_m, check_samples. rewrite samples_chain_m_off. reflexivity.
  - intros. unfold check_cuqiarray_m, check_cuqiarray. f_equal. destruct tp.
    + unfold cuqiarray_parameters_m, cuqiarray_parameters. rewrite g_fun2par_m_off. reflexivity.
    + unfold cuqiarray_funvals_m, cuqiarray_funvals. rewrite g_par2fun_m_off. reflexivity.
Qed.

(* ---------------- (2) the squeeze repair: no singleton guards ---------------- *)
Lemma drop_last1_mk {A} N k (D : list A) : drop_last1 (mkArr [N; k] D) = mkArr (vb_shape N k) D.
Proof.
  unfold drop_last1, vb_shape. cbn [shp dat rev app].
  destruct k as [|[|k]]; reflexivity.
Qed.

Lemma drop_last1_mk3 {A} n1 n2 k (D : list A) :
  drop_last1 (mkArr [n1; n2; k] D) = mkArr (if (k =? 1)%nat then [n1; n2] else [n1; n2; k]) D.
Proof. unfold drop_last1. cbn [shp dat rev app]. destruct k as [|[|k]]; reflexivity. Qed.

(* Continuous2D, every grid with at least one node, vectors and batches *)
Theorem cont2d_roundtrip_fx n1 n2 k (a : arr Qc) : (1 <= n1 * n2)%nat -> shp a = vb_shape (n1 * n2) k ->
  obind (cont2d_par2fun_m true n1 n2 a) (cont2d_fun2par_m true n1 n2) = Some a.
Proof.
  intros Hm Hs. assert (Hp : prodn (shp a) = (k * (n1 * n2))%nat) by (rewrite Hs, prodn_vb; lia).
  unfold cont2d_par2fun_m, cont2d_fun2par_m, sq_arr.
  rewrite (reshape_tail_C 0%Qc [n1; n2] a k) by (try (cbn; lia); rewrite Hp; cbn; lia). cbn [option_map obind app].
  rewrite drop_last1_mk3.
  rewrite (reshape_tail_C 0%Qc [(n1 * n2)%nat] _ k); [|cbn; lia|].
  - cbn [option_map dat app]. rewrite drop_last1_mk. destruct a as [s x]; cbn [shp dat] in *; subst s. reflexivity.
  - cbn [shp]. destruct (k =? 1)%nat eqn:E; [apply Nat.eqb_eq in E; subst|]; cbn; lia.
Qed.

(* the reported fun_shape, also for grids with a singleton axis (1 x n, n x 1, 1 x 1) *)
Theorem cont2d_par2fun_shape_fx n1 n2 k (a : arr Qc) : (1 <= n1 * n2)%nat -> shp a = vb_shape (n1 * n2) k ->
  cont2d_par2fun_m true n1 n2 a = Some (mkArr (if (k =? 1)%nat then [n1; n2] else [n1; n2; k]) (dat a)).
Proof.
  intros Hm Hs. assert (Hp : prodn (shp a) = (k * (n1 * n2))%nat) by (rewrite Hs, prodn_vb; lia).
  unfold cont2d_par2fun_m, sq_arr.
  rewrite (reshape_tail_C 0%Qc [n1; n2] a k) by (try (cbn; lia); rewrite Hp; cbn; lia). cbn [option_map app].
  rewrite drop_last1_mk3. reflexivity.
Qed.

(* column-wise maps (KL, Step) with the repaired squeeze *)
Definition colwise_fx (N m : nat) (f : list Qc -> list Qc) (a : arr Qc) : option (arr Qc) :=
  match batch_in m a with
  | None => None
  | Some k => Some (drop_last1 (mkArr [N; k] (of_cols 0%Qc N (map f (cols_of 0%Qc m k (dat a))))))
  end.

Lemma colwise_fx_eq N m f k (a : arr Qc) : shp a = vb_shape m k ->
  colwise_fx N m f a = Some (mkArr (vb_shape N k) (of_cols 0%Qc N (map f (cols_of 0%Qc m k (dat a))))).
Proof.
  intros Hs. unfold colwise_fx. destruct a as [s x]; cbn [shp dat] in *; subst s.
  rewrite batch_in_vb, drop_last1_mk. reflexivity.
Qed.

Theorem colwise_fx_roundtrip N m f g k (a : arr Qc) :
  shp a = vb_shape m k -> length (dat a) = (m * k)%nat ->
  (forall c, length c = m -> length (f c) = N /\ g (f c) = c) ->
  obind (colwise_fx N m f a) (colwise_fx m N g) = Some a.
Proof.
  intros Hs Hl Hfg. rewrite (colwise_fx_eq N m f k) by assumption. cbn [obind].
  rewrite (colwise_fx_eq m N g k) by reflexivity. cbn [dat].
  destruct a as [s x]; cbn [shp dat] in *; subst s. f_equal. f_equal.
  pose proof (cols_of_of_cols 0%Qc N (map f (cols_of 0%Qc m k x))) as E.
  rewrite map_length, cols_of_length in E. rewrite E.
  - rewrite map_map. rewrite map_ext_in with (g := fun c => c).
    + rewrite map_id. apply of_cols_cols_of. exact Hl.
    + intros c Hc. apply Hfg. pose proof (cols_of_Forall 0%Qc m k x) as HF. rewrite Forall_forall in HF. apply HF. exact Hc.
  - apply Forall_forall. intros c Hc. apply in_map_iff in Hc as [c0 [<- Hc0]]. apply Hfg.
    pose proof (cols_of_Forall 0%Qc m k x) as HF. rewrite Forall_forall in HF. apply HF. exact Hc0.
Qed.

(* KLExpansion, any number of modes 1 <= m <= N (a single mode and a one-node grid included) *)
Theorem kl_roundtrip_fx (dst idst : list Qc -> list Qc) N m coefs tau k (a : arr Qc) :
  (forall x, length x = N -> length (idst x) = N) ->
  (forall x, length x = N -> dst (idst x) = map (fun v => qcn 2 * qcn N * v)%Qc x) ->
  (1 <= m)%nat -> (m <= N)%nat -> length coefs = m -> Forall (fun c => c <> 0%Qc) coefs -> tau <> 0%Qc ->
  shp a = vb_shape m k -> length (dat a) = (m * k)%nat ->
  obind (kl_par2fun_m true idst N m coefs tau a) (kl_fun2par_m true dst N m coefs tau) = Some a.
Proof.
  intros Hil Hlaw Hm HmN Hc Hnz Ht Hs Hl.
  assert (E1 : forall x, kl_par2fun_m true idst N m coefs tau x = colwise_fx N m (kl_par2fun_col idst N coefs tau) x).
  { intros x. unfold kl_par2fun_m, colwise_fx, sq_arr. destruct (m =? 0)%nat eqn:E; [apply Nat.eqb_eq in E; lia | reflexivity]. }
  assert (E2 : forall x, kl_fun2par_m true dst N m coefs tau x = colwise_fx m N (kl_fun2par_col dst N m coefs tau) x).
  { intros x. unfold kl_fun2par_m, colwise_fx, sq_arr. destruct (m =? 0)%nat eqn:E; [apply Nat.eqb_eq in E; lia | reflexivity]. }
  rewrite E1. rewrite (obind_ext _ _ _ E2).
  apply (colwise_fx_roundtrip N m _ _ k); try assumption.
  intros c Hcl. apply (kl_col_roundtrip dst idst N Hil Hlaw); try assumption; lia.
Qed.

(* StepExpansion, any partition into non-empty steps (a single step included), any number of nodes *)
Theorem step_roundtrip_fx N idx pr k (a : arr Qc) : step_wf N idx ->
  shp a = vb_shape (length idx) k -> length (dat a) = (length idx * k)%nat ->
  obind (step_par2fun_m true N idx a)
        (fun b => obind (step_fun2par_m true N idx pr b) (fun r => option_map (mkArr (shp r)) (all_some (dat r)))) = Some a.
Proof.
  intros Hwf Hs Hl. set (n := length idx) in *.
  unfold step_par2fun_m, sq_arr. fold n. destruct a as [s x]; cbn [shp dat] in *; subst s.
  rewrite batch_in_vb. cbn [obind dat]. rewrite drop_last1_mk.
  unfold step_fun2par_m, sq_arr. rewrite batch_in_vb. cbn [dat].
  set (cols0 := cols_of 0%Qc n k x).
  assert (HF0 : Forall (fun c => length c = n) cols0) by apply cols_of_Forall.
  pose proof (cols_of_of_cols 0%Qc N (map (step_par2fun_col N idx) cols0)) as E.
  assert (Hk0 : length cols0 = k) by apply cols_of_length.
  rewrite map_length, Hk0 in E. rewrite E
    by (apply Forall_forall; intros c Hc; apply in_map_iff in Hc as [c0 [<- _]]; apply step_par2fun_col_length).
  rewrite omap_list_map. rewrite (omap_list_some _ (map Some)).
  - cbn [obind]. fold n. rewrite drop_last1_mk. cbn [shp dat].
    rewrite of_cols_map_Some by exact HF0. rewrite all_some_map_Some. cbn [option_map].
    unfold cols0. rewrite of_cols_cols_of by exact Hl. reflexivity.
  - intros c Hc. apply step_col_roundtrip; [exact Hwf|].
    rewrite Forall_forall in HF0. apply HF0. exact Hc.
Qed.

(* ---------------- (2') the Image2D repair: fun2par keeps the batch axis and is column-wise ---------------- *)
Lemma reshape_tail_image_batch r c o k (a : arr Qc) : (0 < r * c)%nat -> shp a = [r; c; k] ->
  reshape_tail 0%Qc [(r * c)%nat] o a = Some (mkArr [(r * c)%nat; k]
     (match o with OC => dat a | OF => from_F 0%Qc [(r * c)%nat; k] (to_F 0%Qc [r; c; k] (dat a)) end)).
Proof.
  intros Hp Hs. unfold reshape_tail. rewrite Hs.
  replace (prodn [r; c; k]) with (k * (r * c))%nat by (cbn; lia).
  replace (prodn [(r * c)%nat]) with (r * c)%nat by (cbn; lia).
  destruct (r * c =? 0)%nat eqn:E0; [apply Nat.eqb_eq in E0; lia|].
  rewrite Nat.mod_mul by lia. cbn [Nat.eqb negb]. rewrite Nat.div_mul by lia. reflexivity.
Qed.

(* a batch of k >= 2 images: shape (r*c, k), and image j of the batch goes to column j *)
Theorem image_fun2par_fx_columnwise r c o k (a : arr Qc) :
  (0 < r * c)%nat -> (2 <= k)%nat -> shp a = [r; c; k] -> length (dat a) = (r * c * k)%nat ->
  exists b, image_fun2par_m true r c o false a = Some b /\ shp b = [(r * c)%nat; k] /\ length (dat b) = (r * c * k)%nat /\
    (* par2fun of the result gives the batch back, and column j is fun2par of image j *)
    image_par2fun 0%Qc r c o false b = Some a /\
    forall j, (j < k)%nat ->
      image_fun2par 0%Qc o false (mkArr [r; c] (col_of 0%Qc (r * c) k j (dat a)))
      = Some (mkArr [(r * c)%nat] (col_of 0%Qc (r * c) k j (dat b))).
Proof.
  intros Hp Hk Hs Hl.
  assert (P3 : prodn [r; c; k] = (r * c * k)%nat) by (cbn; lia).
  assert (P2 : prodn [(r * c)%nat; k] = (r * c * k)%nat) by (cbn; lia).
  set (D := match o with OC => dat a | OF => from_F 0%Qc [(r * c)%nat; k] (to_F 0%Qc [r; c; k] (dat a)) end).
  assert (HDl : length D = (r * c * k)%nat) by (unfold D; destruct o; [exact Hl | rewrite from_F_length; exact P2]).
  exists (mkArr [(r * c)%nat; k] D).
  assert (Hfun : image_fun2par_m true r c o false a = Some (mkArr [(r * c)%nat; k] D)).
  { unfold image_fun2par_m. rewrite (reshape_tail_image_batch r c o k a Hp Hs). cbn [option_map]. fold D.
    rewrite drop_last1_mk. unfold vb_shape. destruct (k =? 1)%nat eqn:E; [apply Nat.eqb_eq in E; lia | reflexivity]. }
  assert (Hback : match o with OC => D | OF => from_F 0%Qc [r; c; k] (to_F 0%Qc [(r * c)%nat; k] D) end = dat a).
  { unfold D. destruct o; [reflexivity|].
    rewrite to_F_from_F by (rewrite to_F_length; rewrite P3, P2; reflexivity).
    apply from_F_to_F. rewrite Hl, P3. reflexivity. }
  split; [exact Hfun|]. split; [reflexivity|]. split; [exact HDl|]. split.
  - unfold image_par2fun. rewrite (reshape_tail_batch 0%Qc r c o k (mkArr [(r * c)%nat; k] D) Hp eq_refl). cbn [shp dat].
    rewrite Hback. destruct k as [|[|k']]; [lia | lia |]. destruct a as [s x]; cbn [shp dat] in *; subst s. reflexivity.
  - intros j Hj. unfold image_fun2par. cbn [shp dat].
    replace (prodn [r; c]) with (r * c)%nat by (cbn; lia). f_equal. f_equal.
    destruct o; [reflexivity|]. cbn [dat].
    (* column j of the batch = from_F (column j of D), hence to_F (column j of the batch) = column j of D *)
    pose proof (col_of_from_F_batch 0%Qc r c k j D Hp Hj) as E. rewrite Hback in E. rewrite E.
    apply to_F_from_F. rewrite col_of_length. cbn; lia.
Qed.
