(* C14 -- what a Gibbs sweep records for a block that takes several inner transitions: the state of the block sampler
   after ALL of them (whether or not the last one moved).  No proofs. *)
From CV Require Import Base.Tac Base.Cmp Model.C14_Chain.

Section Block.
Variables Cfg St Rnd Acc : Type.
Variable step : Cfg -> St -> Rnd -> St * Acc.
(* the block's value after the inner transitions driven by rs, started from s *)
Definition block_after (c : Cfg) (s : St) (rs : list Rnd) : St := last (states Cfg St Rnd Acc step c s rs) s.
End Block.

(* recorded joint states (ids, one per sweep) against the joint state of the block samplers' own current points after
   each sweep, observed through the wrapped step methods -- and, re-read at the end, the same *)
Definition check_sweeps (blocks_after recorded : list Z) : bool := zl_eqb blocks_after recorded.
