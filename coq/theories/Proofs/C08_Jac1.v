(* C08 -- the Jacobian of one leapfrog step in dimension 1, for an arbitrary differentiable gradient function g
   (real analysis with Coquelicot): the four partial derivatives of (x, r) |-> (x1, r2) exist and their determinant is 1. *)
From Coq Require Import Reals Lra.
From Coquelicot Require Import Coquelicot.
Local Open Scope R_scope.

Section Jac1.
Variable g g' : R -> R.
Hypothesis g_derive : forall x, is_derive g x (g' x).
Variables h e : R.

Definition x1 (x r : R) : R := x + e * (r + h * g x).
Definition r2 (x r : R) : R := (r + h * g x) + h * g (x1 x r).

Lemma d_kick x r : is_derive (fun x => r + h * g x) x (h * g' x).
Proof.
  evar_last.
  - apply (is_derive_plus (fun _ => r) (fun x => h * g x)); [apply is_derive_const | apply (is_derive_scal g x h), g_derive].
  - unfold plus, zero, scal, mult; cbn. unfold mult; cbn. ring.
Qed.

Lemma d_x1_dx x r : is_derive (fun x => x1 x r) x (1 + e * (h * g' x)).
Proof.
  unfold x1. evar_last.
  - apply (is_derive_plus (fun x => x) (fun x => e * (r + h * g x))); [apply is_derive_id|].
    apply (is_derive_scal (fun x => r + h * g x) x e), d_kick.
  - unfold plus, one, scal, mult; cbn. unfold mult; cbn. ring.
Qed.

Lemma d_x1_dr x r : is_derive (fun r => x1 x r) r e.
Proof.
  unfold x1. evar_last.
  - apply (is_derive_plus (fun _ => x) (fun r => e * (r + h * g x))); [apply is_derive_const|].
    apply (is_derive_scal (fun r => r + h * g x) r e).
    apply (is_derive_plus (fun r => r) (fun _ => h * g x)); [apply is_derive_id | apply is_derive_const].
  - unfold plus, zero, one, scal, mult; cbn. unfold mult; cbn. ring.
Qed.

Lemma d_r2_dx x r : is_derive (fun x => r2 x r) x (h * g' x + h * (g' (x1 x r) * (1 + e * (h * g' x)))).
Proof.
  unfold r2. evar_last.
  - apply (is_derive_plus (fun x => r + h * g x) (fun x => h * g (x1 x r))); [apply d_kick|].
    apply (is_derive_scal (fun x => g (x1 x r)) x h).
    apply (is_derive_comp g (fun x => x1 x r)); [apply g_derive | apply d_x1_dx].
  - unfold plus, scal, mult; cbn. unfold mult; cbn. ring.
Qed.

Lemma d_r2_dr x r : is_derive (fun r => r2 x r) r (1 + h * (g' (x1 x r) * e)).
Proof.
  unfold r2. evar_last.
  - apply (is_derive_plus (fun r => r + h * g x) (fun r => h * g (x1 x r))).
    + apply (is_derive_plus (fun r => r) (fun _ => h * g x)); [apply is_derive_id | apply is_derive_const].
    + apply (is_derive_scal (fun r => g (x1 x r)) r h).
      apply (is_derive_comp g (fun r => x1 x r)); [apply g_derive | apply d_x1_dr].
  - unfold plus, zero, one, scal, mult; cbn. unfold mult; cbn. ring.
Qed.

Theorem leapfrog_jacobian_1d x r :
  (1 + e * (h * g' x)) * (1 + h * (g' (x1 x r) * e))
  - e * (h * g' x + h * (g' (x1 x r) * (1 + e * (h * g' x)))) = 1.
Proof. ring. Qed.
End Jac1.
