(* C08 -- time reversibility of the leapfrog integrator for gradient functions that preserve ONE dimension d
   (a Gaussian target with d precisions is not defined on longer vectors), and the concrete phase-space model of
   the correspondence as an instance of the orbit abstraction. *)
From CV Require Import Base.Tac Base.Ext Base.LinAlg Base.QcLin Model.C08_NUTS Proofs.C08_Prog Proofs.C08_Sim.
From Coq Require Import Ring QArith Qcanon.

Section Vec.
Variable R : Type.
Variables (r0 r1 : R) (radd rmul rsub : R -> R -> R) (ropp : R -> R).
Hypothesis Rth : ring_theory r0 r1 radd rmul rsub ropp (@eq R).
Add Ring RringC08d : Rth.

Lemma vcancel_d c : forall a b, length a = length b ->
  vadd radd (vadd radd a (vscale rmul c b)) (vscale rmul (ropp c) b) = a.
Proof.
  induction a as [|x a IH]; intros [|y b] Hl; cbn in *; try reflexivity; try discriminate.
  f_equal; [ring | apply IH; congruence].
Qed.

Lemma vadd_len_d : forall a b : list R, length a = length b -> length (vadd radd a b) = length a.
Proof. induction a as [|x a IH]; intros [|y b] Hl; cbn in *; try reflexivity; try discriminate. f_equal. apply IH. congruence. Qed.

Lemma opp_double_d h : radd (ropp h) (ropp h) = ropp (radd h h).
Proof. ring. Qed.

Lemma opp_opp_d h : ropp (ropp h) = h.
Proof. ring. Qed.
End Vec.

Section LeapDim.
Variable R : Type.
Variables (r0 r1 : R) (radd rmul rsub : R -> R -> R) (ropp : R -> R).
Hypothesis Rth : ring_theory r0 r1 radd rmul rsub ropp (@eq R).
Variable grad : list R -> list R.
Variable d : nat.
Hypothesis grad_len : forall x, length x = d -> length (grad x) = d.

Notation lf := (leapfrog radd rmul grad).

(* well-shaped in dimension d, with the cached gradient belonging to the point *)
Definition ok_d (s : ps R) : Prop :=
  length (ps_x s) = d /\ length (ps_r s) = d /\ length (ps_g s) = d /\ ps_g s = grad (ps_x s).

Lemma vscale_len_d c (a : list R) : length (vscale rmul c a) = length a.
Proof. apply map_length. Qed.

Lemma leapfrog_ok_d h s : ok_d s -> ok_d (lf h s).
Proof.
  intros (Hx & Hr & Hg & Hc). unfold ok_d, leapfrog. cbn [ps_x ps_r ps_g].
  assert (L1 : length (vadd radd (ps_r s) (vscale rmul h (ps_g s))) = d).
  { rewrite vadd_len_d; [exact Hr | rewrite vscale_len_d; congruence]. }
  assert (L2 : length (vadd radd (ps_x s) (vscale rmul (radd h h) (vadd radd (ps_r s) (vscale rmul h (ps_g s))))) = d).
  { rewrite vadd_len_d; [exact Hx | rewrite vscale_len_d; congruence]. }
  repeat split.
  - exact L2.
  - rewrite vadd_len_d; [exact L1 | rewrite vscale_len_d, (grad_len _ L2); exact L1].
  - apply grad_len, L2.
Qed.

Theorem leapfrog_reverse_d h s : ok_d s -> lf (ropp h) (lf h s) = s.
Proof.
  intros (Hx & Hr & Hg & Hc). destruct s as [x r g]. cbn [ps_x ps_r ps_g] in *.
  unfold leapfrog. cbn [ps_x ps_r ps_g].
  set (ra := vadd radd r (vscale rmul h g)).
  assert (Lra : length ra = d).
  { unfold ra. rewrite vadd_len_d; [exact Hr | rewrite vscale_len_d; congruence]. }
  set (xa := vadd radd x (vscale rmul (radd h h) ra)).
  assert (Lxa : length xa = d).
  { unfold xa. rewrite vadd_len_d; [exact Hx | rewrite vscale_len_d; congruence]. }
  rewrite (vcancel_d R r0 r1 radd rmul rsub ropp Rth h ra (grad xa)) by (rewrite (grad_len _ Lxa); exact Lra).
  assert (E2 : vadd radd xa (vscale rmul (radd (ropp h) (ropp h)) ra) = x).
  { unfold xa. rewrite (opp_double_d R r0 r1 radd rmul rsub ropp Rth). apply (vcancel_d R r0 r1 radd rmul rsub ropp Rth). congruence. }
  rewrite E2, <- Hc.
  assert (E3 : vadd radd ra (vscale rmul (ropp h) g) = r).
  { unfold ra. apply (vcancel_d R r0 r1 radd rmul rsub ropp Rth). congruence. }
  rewrite E3. reflexivity.
Qed.

(* the two directions of the tree, eps and -eps, undo each other *)
Theorem leapfrog_back_d h (v : bool) s : ok_d s ->
  lf (if negb v then h else ropp h) (lf (if v then h else ropp h) s) = s.
Proof.
  intros Hs. destruct v; cbn [negb].
  - apply leapfrog_reverse_d, Hs.
  - pose proof (leapfrog_reverse_d (ropp h) s Hs) as E.
    rewrite (opp_opp_d R r0 r1 radd rmul rsub ropp Rth) in E. exact E.
Qed.
End LeapDim.

(* ---------------- the concrete model of the correspondence is an instance of the orbit abstraction ---------------- *)
(* a target is d-dimensional if its gradient maps d-vectors to d-vectors *)
Definition target_dim (t : target) (d : nat) : Prop := forall x, length x = d -> length (t_grad t x) = d.

Theorem concrete_orbit_exact (t : target) (d : nat) (guard : bool) (md : nat) (heps : Qc) (x z : list Qc) (e : Q)
        (f : top cstate -> Q) :
  target_dim t d -> length x = d -> length z = d ->
  let s0 := c_init t x z in
  let logu := ext_sub (c_ham t s0) (Fin e) in
  let phi := orb cstate (c_leap t heps) s0 in
  phi 0%Z = s0 /\
  dist (c_transition t guard md heps x z e) f
  == dist (otransition (Hz cstate (c_ham t) phi) (Lz cstate (c_lgd t) phi) (Uz cstate c_uturn_ok phi)
                       (Az cstate (fun _ => 0) phi) logu guard md 0%Z)
          (fun st => f (topmap cstate phi st)).
Proof.
  intros Ht Hx Hz s0 logu phi. unfold c_transition. fold s0. fold logu.
  apply (orbit_abstraction_exact cstate (c_leap t heps) (c_ham t) (c_lgd t) c_uturn_ok (fun _ => 0) logu
           (ok_d Qc (t_grad t) d)).
  - intros v s Hs. unfold c_leap. apply (leapfrog_ok_d Qc Qcplus Qcmult (t_grad t) d Ht). exact Hs.
  - intros v s Hs. unfold c_leap.
    exact (leapfrog_back_d Qc 0%Qc 1%Qc Qcplus Qcmult Qcminus Qcopp Qcrt (t_grad t) d Ht heps v s Hs).
  - unfold s0, c_init, ok_d. cbn [ps_x ps_r ps_g]. repeat split; try assumption. apply Ht, Hx.
Qed.

(* the targets of the correspondence are d-dimensional when their parameter vectors have length d *)
Fixpoint wf_target (t : target) (d : nat) : Prop :=
  match t with
  | TGauss p => length p = d
  | TQuartic => True
  | TSplit pl pr => length pl = d /\ length pr = d
  | TQuad P => length P = d /\ Forall (fun row => length row = d) P
  | TBox p _ _ => length p = d
  | TLin b t' => length b = d /\ wf_target t' d
  | TShift _ t' => wf_target t' d
  end.

Lemma vmul_len : forall x y : list Qc, length x = length y -> length (vmul x y) = length x.
Proof. induction x as [|a x IH]; intros [|b y] Hl; cbn in *; try reflexivity; try discriminate. f_equal. apply IH. congruence. Qed.

Lemma vside_len : forall pl pr x : list Qc, length pl = length x -> length pr = length x -> length (vside pl pr x) = length x.
Proof.
  induction pl as [|a pl IH]; intros [|b pr] [|c x] H1 H2; cbn in *; try reflexivity; try discriminate.
  f_equal. apply IH; congruence.
Qed.

Lemma qvneg_len (x : list Qc) : length (qvneg x) = length x.
Proof. apply map_length. Qed.

Theorem wf_target_dim t d : wf_target t d -> target_dim t d.
Proof.
  induction t as [p | | pl pr | P | p b bad | b t IH | c t IH]; intros Hw x Hx; cbn in *.
  - rewrite qvneg_len, vmul_len; congruence.
  - rewrite qvneg_len, vmul_len; [exact Hx | rewrite vmul_len; reflexivity].
  - destruct Hw as [H1 H2]. rewrite qvneg_len, vmul_len; rewrite ?vside_len; congruence.
  - destruct Hw as [H1 H2]. unfold qvscale, qvadd, qmatvec, qmattvec.
    rewrite vscale_length.
    assert (L1 : length (matvec 0%Qc Qcplus Qcmult P x) = d) by (rewrite matvec_length; exact H1).
    assert (L2 : length (mattvec 0%Qc Qcplus Qcmult (length x) P x) = d).
    { rewrite Hx. eapply mattvec_length; eauto. }
    rewrite vadd_length; congruence.
  - rewrite qvneg_len, vmul_len; congruence.
  - destruct Hw as [H1 H2]. unfold qvadd. rewrite vadd_length; [apply (IH H2 x Hx) | rewrite (IH H2 x Hx); congruence].
  - apply (IH Hw x Hx).
Qed.
