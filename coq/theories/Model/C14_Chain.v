(* C14 -- chains are continuous, resumable from a checkpoint, and recorded faithfully.
   Executable models, no proofs:
     1. the generic stateful sampler of cuqi.experimental.mcmc (Sampler.sample / warmup / get_state /
        set_state / callback / history lists), abstract in the transition `step`;
     2. the stateless (legacy) interface: `_sample(N, Nb)` loops with x0 as first sample, burn-in slice,
        callback indices, and the column-aliasing quirk of legacy CWMH.single_update;
     3. the Gibbs samplers' continuation bookkeeping;
     4. attribute stores and the footprint facts extracted by harness/tr_footprint.py (checker `footprint_ok`);
     5. the trace instance (state = position in a reference chain) used by the generated case files. *)
From CV Require Import Base.Tac Base.Cmp.
From Coq Require String.
Notation string := String.string.

(* ------------------------------------------------------------------------------------------ *)
(* 1. generic stateful sampler                                                                *)
(* ------------------------------------------------------------------------------------------ *)
Section Machine.
Variables Cfg St Rnd Pt Acc : Type.
Variable step : Cfg -> St -> Rnd -> St * Acc.            (* one transition: new state, acceptance info *)
Variable tune : Cfg -> St -> list Acc -> nat -> nat -> St. (* tune(skip_len, update_count); may read _acc *)
Variable point : St -> Pt.                                (* current_point *)

(* sampler object: state, the two history lists, plus (harness side) the log of callback and tune calls *)
Record sampler := mkS {
  st : St;
  smp : list Pt;                 (* _samples *)
  accs : list Acc;               (* _acc *)
  cbl : list (Pt * nat);         (* callback(sample, index) invocations, in order *)
  tunes : list (nat * nat * nat) (* (idx, skip_len, update_count) of every tune call *)
}.

(* body of the loop in Sampler.sample *)
Definition sample_step (c : Cfg) (s : sampler) (r : Rnd) : sampler :=
  let sa := step c (st s) r in
  let smp' := smp s ++ [point (fst sa)] in
  mkS (fst sa) smp' (accs s ++ [snd sa]) (cbl s ++ [(point (fst sa), length smp' - 1)]) (tunes s).

Definition sample (c : Cfg) (s : sampler) (rs : list Rnd) : sampler := fold_left (sample_step c) rs s.

(* tune_interval = max(int(tune_freq * Nb), 1), tune_freq = fn/fd *)
Definition tune_interval (fn fd nb : nat) : nat := Nat.max (fn * nb / fd) 1.

(* body of the loop in Sampler.warmup: step, tune (BEFORE the acceptance value is appended), record *)
Definition warmup_step (c : Cfg) (ti : nat) (s : sampler) (ir : nat * Rnd) : sampler :=
  let idx := fst ir in
  let sa := step c (st s) (snd ir) in
  let tuned := ((idx + 1) mod ti =? 0)%nat in
  let st' := if tuned then tune c (fst sa) (accs s) ti (idx / ti) else fst sa in
  let smp' := smp s ++ [point st'] in
  mkS st' smp' (accs s ++ [snd sa]) (cbl s ++ [(point st', length smp' - 1)])
      (if tuned then tunes s ++ [(idx, ti, idx / ti)%nat] else tunes s).

Definition warmup (c : Cfg) (ti : nat) (s : sampler) (rs : list Rnd) : sampler :=
  fold_left (warmup_step c ti) (combine (seq 0 (length rs)) rs) s.

Inductive op := OSample (rs : list Rnd) | OWarmup (ti : nat) (rs : list Rnd).

Definition run_op (c : Cfg) (s : sampler) (o : op) : sampler :=
  match o with OSample rs => sample c s rs | OWarmup ti rs => warmup c ti s rs end.

Definition run_ops (c : Cfg) (s : sampler) (ops : list op) : sampler := fold_left (run_op c) ops s.

(* the states visited by a sequence of transitions *)
Fixpoint states (c : Cfg) (s : St) (rs : list Rnd) : list St :=
  match rs with
  | [] => []
  | r :: rs' => let s' := fst (step c s r) in s' :: states c s' rs'
  end.

(* checkpoints: get_state = proj, set_state = inject into an initialised sampler *)
Variable Key : Type.
Variable proj : St -> Key.
Variable inject : Key -> St -> St.

Definition load (k : Key) (fresh : sampler) : sampler :=
  mkS (inject k (st fresh)) (smp fresh) (accs fresh) (cbl fresh) (tunes fresh).

(* ---------------------------------------------------------------------------------------- *)
(* 2. stateless interface: _sample(N, Nb)                                                     *)
(* ---------------------------------------------------------------------------------------- *)
(* Ns = N + Nb columns: x0 followed by Ns-1 transitions *)
Definition legacy_chain (c : Cfg) (s0 : St) (rs : list Rnd) : list St := s0 :: states c s0 rs.

(* legacy CWMH.single_update writes the accepted components into its argument, which is a view of the
   previous column: after the loop column s holds state s+1 (s < Ns-1), the last column state Ns-1 *)
Definition alias_shift {A} (l : list A) : list A :=
  match l with [] => [] | x :: t => t ++ [last t x] end.

Definition legacy_record {A} (aliased : bool) (l : list A) : list A := if aliased then alias_shift l else l.

Definition legacy_sample (c : Cfg) (aliased : bool) (s0 : St) (rs : list Rnd) (nb : nat) : list Pt :=
  skipn nb (legacy_record aliased (map point (legacy_chain c s0 rs))).

(* callback(samples[:, s+1], s+1) after every transition; index counts from x0 = 0, burn-in included *)
Definition legacy_cb (c : Cfg) (s0 : St) (rs : list Rnd) : list (Pt * nat) :=
  combine (map point (states c s0 rs)) (seq 1 (length rs)).

(* ---------------------------------------------------------------------------------------- *)
(* 3. Gibbs continuation (legacy Gibbs.sample called repeatedly; HybridGibbs keeps current_samples) *)
(* ---------------------------------------------------------------------------------------- *)
(* stored chain so far (warm-up part, sampling part); the next call starts from the last stored state *)
Definition gibbs_start (init : St) (warm stored : list St) : St := last (warm ++ stored) init.

Definition gibbs_sample (c : Cfg) (init : St) (warm stored : list St) (rs : list Rnd) : list St :=
  stored ++ states c (gibbs_start init warm stored) rs.

Definition gibbs_first (c : Cfg) (init : St) (rs_warm rs : list Rnd) : list St * list St :=
  let w := states c init rs_warm in (w, gibbs_sample c init w [] rs).
End Machine.

Arguments mkS {St Pt Acc}.
Arguments st {St Pt Acc}. Arguments smp {St Pt Acc}. Arguments accs {St Pt Acc}.
Arguments cbl {St Pt Acc}. Arguments tunes {St Pt Acc}.
Arguments OSample {Rnd}. Arguments OWarmup {Rnd}.

(* ------------------------------------------------------------------------------------------ *)
(* 4. attribute stores and extracted footprints                                               *)
(* ------------------------------------------------------------------------------------------ *)
Definition mem (a : string) (l : list string) : bool := existsb (String.eqb a) l.
Definition subset (l1 l2 : list string) : bool := forallb (fun a => mem a l2) l1.
Definition disjointb (l1 l2 : list string) : bool := forallb (fun a => negb (mem a l2)) l1.

(* what harness/tr_footprint.py extracts from the source of one sampler class (over-approximations) *)
Record facts := mkFacts {
  f_state : list string;        (* _STATE_KEYS plus the backing attributes of state properties *)
  f_hist : list string;         (* _HISTORY_KEYS *)
  f_step_r : list string;       (* attributes read by step and, transitively, its helpers/properties/closures *)
  f_step_w : list string;       (* attributes (re)bound by step and helpers *)
  f_step_wfirst : list string;  (* attributes whose first access in step is an unconditional own write (scratch) *)
  f_step_append : list string;  (* attributes used only as self.X.append(...) *)
  f_step_inplace : list string; (* attributes mutated in place (subscript store, augmented assignment, mutating method, alias) *)
  f_step_argmut : list string;  (* "method.param": parameters mutated in place by a helper *)
  f_tune_r : list string;
  f_tune_w : list string;       (* writes of tune, _pre_sample, _pre_warmup (incl. in-place) *)
  f_init_r : list string;       (* reads of initialize/_initialize and helpers that are not preceded by an own write *)
  f_init_w : list string;
  f_hidden_random : list string (* attributes bound in _initialize to a value computed from a random source *)
}.

(* everything a run (step / tune / pre-hooks / sample loop) may modify *)
Definition run_writes (f : facts) : list string :=
  f_step_w f ++ f_step_append f ++ f_step_inplace f ++ f_tune_w f ++ f_hist f.

(* the reads that can carry information from before the step *)
Definition sem_reads (f : facts) : list string :=
  filter (fun a => negb (mem a (f_step_wfirst f))) (f_step_r f).

(* (1) every attribute step reads is saved state or is never modified by a run (configuration);
   (2) no read attribute is a randomised initialisation result outside the saved state (`excused`:
       attributes covered by a listed finding);
   (3) step appends only to declared history;
   (4) no saved attribute is mutated in place and no helper mutates an argument (history aliasing) *)
Definition reads_ok (f : facts) : bool :=
  forallb (fun a => mem a (f_state f) || negb (mem a (run_writes f))) (sem_reads f).
Definition random_ok (excused : list string) (f : facts) : bool :=
  forallb (fun a => negb (mem a (f_hidden_random f)) || mem a (f_state f) || mem a excused) (sem_reads f).
Definition append_ok (f : facts) : bool := subset (f_step_append f) (f_hist f).
Definition alias_ok (f : facts) : bool :=
  disjointb (f_step_inplace f) (f_state f) && match f_step_argmut f with [] => true | _ => false end.

Definition footprint_ok (excused : list string) (f : facts) : bool :=
  reads_ok f && random_ok excused f && append_ok f && alias_ok f.

(* everything tune and the pre-hooks modify is part of the checkpoint, or is never read by step *)
Definition tune_ok (f : facts) : bool :=
  forallb (fun a => mem a (f_state f) || negb (mem a (sem_reads f))) (f_tune_w f).

(* reinitialize (every state/history key := None, then initialize): every cleared key -- with the backing attribute of
   a state property -- is re-bound by initialize (otherwise it stays at whatever `None` turns into: the defect of
   NUTS.max_depth), and initialize reads nothing a run modifies except what reinitialize clears first *)
Definition reinit_ok (f : facts) : bool :=
  subset (f_state f) (f_init_w f) &&
  subset (f_hist f) (f_init_w f) &&
  forallb (fun a => negb (mem a (run_writes f)) || mem a (f_state f) || mem a (f_hist f)) (f_init_r f).

(* stateless samplers: helpers that receive a view of the stored chain must not mutate it *)
Definition legacy_alias_ok (argmut : list string) : bool := match argmut with [] => true | _ => false end.

Section Store.
Variable V : Type.
Definition store := string -> V.
Definition agree (X : list string) (s1 s2 : store) : Prop := forall a, In a X -> s1 a = s2 a.
(* set_state(get_state(mid)) on an initialised sampler `fresh` *)
Definition load_store (K : list string) (mid fresh : store) : store :=
  fun a => if mem a K then mid a else fresh a.
(* reinitialize: state and history keys := None, then initialize *)
Definition clear_store (none : V) (X : list string) (s : store) : store :=
  fun a => if mem a X then none else s a.
End Store.
Arguments agree {V}. Arguments load_store {V}. Arguments clear_store {V}.

(* ------------------------------------------------------------------------------------------ *)
(* 5. the trace instance evaluated by the generated case files                                *)
(* ------------------------------------------------------------------------------------------ *)
(* A state is its position in the reference chain `ref` (list of canonical ids of the bit patterns of the
   states of the uninterrupted run; ref[0] = initial point).  One transition advances the position. *)
Definition tr_step (_ : unit) (k : nat) (_ : unit) : nat * unit := (S k, tt).
Definition tr_tune (_ : unit) (k : nat) (_ : list unit) (_ _ : nat) : nat := k.
Definition tr_point (ref : list Z) (k : nat) : Z := nth k ref (-1)%Z.
Definition units (n : nat) : list unit := repeat tt n.

Inductive top := TSample (n : nat) | TWarmup (n fn fd : nat) | TResume.

Definition tsampler := @sampler nat Z unit.
Definition t_init : tsampler := mkS 0%nat [] [tt] [] [].

Definition t_run_op (ref : list Z) (s : tsampler) (o : top) : tsampler :=
  match o with
  | TSample n => sample unit nat unit Z unit tr_step (tr_point ref) tt s (units n)
  | TWarmup n fn fd => warmup unit nat unit Z unit tr_step tr_tune (tr_point ref) tt (tune_interval fn fd n) s (units n)
  | TResume => load nat Z unit nat (fun k _ => k) (st s) (mkS 0%nat [] [tt] (cbl s) (tunes s))
  end.
Definition t_run (ref : list Z) (ops : list top) : tsampler := fold_left (t_run_op ref) ops t_init.

Definition pair_eqb {A B} (ea : A -> A -> bool) (eb : B -> B -> bool) (x y : A * B) : bool :=
  ea (fst x) (fst y) && eb (snd x) (snd y).
Definition cb_eqb := list_eqb (pair_eqb Z.eqb Nat.eqb).
Definition tune_eqb := list_eqb (pair_eqb (pair_eqb Nat.eqb Nat.eqb) Nat.eqb).

(* experimental interface: observed _samples (ids), len(_acc), callback log, tune log after `ops` *)
Definition check_exp (ref : list Z) (ops : list top) (obs_smp : list Z) (obs_nacc : nat)
           (obs_cb : list (Z * nat)) (obs_tunes : list (nat * nat * nat)) : bool :=
  let s := t_run ref ops in
  zl_eqb (smp s) obs_smp && Nat.eqb (length (accs s)) obs_nacc && cb_eqb (cbl s) obs_cb &&
  tune_eqb (tunes s) obs_tunes.

(* stateless interface: returned chain (ids) and callback log of sample(N, Nb); Ns = N + Nb >= 1 *)
Definition check_legacy (ref : list Z) (aliased : bool) (n nb : nat) (obs_smp : list Z) (obs_cb : list (Z * nat)) : bool :=
  let rs := units (n + nb - 1) in
  zl_eqb (legacy_sample unit nat unit Z unit tr_step (tr_point ref) tt aliased 0%nat rs nb) obs_smp &&
  cb_eqb (legacy_cb unit nat unit Z unit tr_step (tr_point ref) tt 0%nat rs) obs_cb.

(* Gibbs: chain stored after the calls sample(n1[,nb]); sample(n2); ... (ids of the joint state) *)
Fixpoint t_gibbs_calls (warm stored : list nat) (calls : list nat) : list nat :=
  match calls with
  | [] => stored
  | n :: r => t_gibbs_calls warm (gibbs_sample unit nat unit unit tr_step tt 0%nat warm stored (units n)) r
  end.
Definition check_gibbs (ref : list Z) (nb : nat) (calls : list nat) (obs : list Z) : bool :=
  let warm := states unit nat unit unit tr_step tt 0%nat (units nb) in
  zl_eqb (map (tr_point ref) (t_gibbs_calls warm [] calls)) obs.

(* burn-in + thinning of the experimental interface is Samples.burnthin on the recorded chain *)
Definition check_len (expected observed : nat) : bool := Nat.eqb expected observed.
