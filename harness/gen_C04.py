"""C04 -- log-densities are the documented normalised densities in every parameterisation.

Correspondence: cuqi.distribution.* logpdf / pdf / cdf / logd  vs  Model/C04_Dens.v.
  * ENCLOSURE: one kernel-checked `interval` proof per evaluation, |model_R(inputs) - observed| <= 1e-9 (1+|observed|);
    exact linear algebra the value depends on (difference operators, Gaussian quadratic forms, determinants, inverse
    certificates) is evaluated by vm_compute over Q in the same goal (`cert = true /\\ enclosure`).
  * DECISION: support tests (-inf), refusals, internal (rank, branch) -- exact.
Independent oracle (plain Python `math`, explicit loops over components, Fractions for the linear algebra): the logarithm of
the *documented* density; numerical quadrature of pdf over the support (integral = 1) and of pdf up to x (= cdf) in 1-d.
"""
import math, itertools, warnings
from fractions import Fraction
import numpy as np
from common import *

IMPORTS = ("From CV Require Import Base.Cmp Model.C04_Dens. From Coq Require Import QArith Reals List. "
           "Import ListNotations. From Interval Require Import Tactic.")
RULE = ("every family x parameter form (scalar broadcast / vector per parameter) x dim in {1,2,3,5} x way of passing "
        "(float, list, ndarray, conditioned keyword, callable) x method (logpdf, pdf, logd, cdf where closed form); Gaussian: one "
        "SPD matrix pushed through 4 parameterisations x {scalar, vector, diagonal matrix, dense, sparse} (+ dims 74..77 for the "
        "dense/sparse switch); GMRF/LMRF/CMRF x boundary condition x order x 1-d/2-d; distinct = distinct (family, inputs, method); "
        "trivial = none")

TOL = Fraction(1, 10 ** 9)

# ------------------------------------------------------------------------------------------------
# encoders
# ------------------------------------------------------------------------------------------------

def cr(x):
    """R literal of an exact rational."""
    f = frac(x)
    if f.denominator == 1:
        return "(IZR (%d))" % f.numerator
    return "(IZR (%d) / IZR %d)" % (f.numerator, f.denominator)


def crl(v):
    return "[" + "; ".join(cr(a) for a in v) + "]"


def cql(v):
    return cqvec(list(v))


def cqm(m):
    return cqmat([list(r) for r in m])


def encl(model, obs, cert=None, tol=TOL):
    v = frac(obs)
    t = tol * (1 + abs(v))
    prop = "(Rabs (%s - %s) <= %s)%%R" % (model, cr(v), cr(t))
    if cert is None:
        return prop, "c04_encl."
    return "(%s = true) /\\ %s" % (cert, prop), "c04_both."


def fl(v):
    return [float(a) for a in np.asarray(v, dtype=float).ravel()]


def bc(p, n):
    return list(p) * n if len(p) == 1 else list(p)


# ------------------------------------------------------------------------------------------------
# independent oracle: logarithm of the documented density, plain Python
# ------------------------------------------------------------------------------------------------
LOG2PI = math.log(2 * math.pi)


def lgam(a):
    return math.lgamma(a)


def doc_logpdf(fam, P, x):
    """log of the documented pdf (product over components), -inf outside the support, None if parameters are invalid."""
    n = len(x)
    g = lambda k: bc(P[k], n)
    t = 0.0
    if fam == "Normal":
        for m, s, xi in zip(g("mean"), g("std"), x):
            t += math.log(1 / (s * math.sqrt(2 * math.pi))) - (xi - m) ** 2 / (2 * s * s)
    elif fam == "Laplace":
        b = P["scale"][0]
        for l, xi in zip(g("location"), x):
            t += math.log(1 / (2 * b)) - abs(xi - l) / b
    elif fam == "SmoothedLaplace":
        be = P["beta"][0]
        for l, b, xi in zip(g("location"), g("scale"), x):
            t += math.log(1 / (2 * b)) - math.sqrt((xi - l) ** 2 + be) / b
    elif fam == "Cauchy":
        for l, s, xi in zip(g("location"), g("scale"), x):
            if s <= 0:
                return -math.inf
            t += -math.log(math.pi * s * (1 + (xi - l) ** 2 / s ** 2))
    elif fam == "Uniform":
        for l, h, xi in zip(g("low"), g("high"), x):
            if xi < l or xi > h:
                return -math.inf
            t += math.log(1 / (h - l))
    elif fam == "Gamma":
        for a, r, xi in zip(g("shape"), g("rate"), x):
            if xi <= 0:
                return -math.inf
            t += a * math.log(r) + (a - 1) * math.log(xi) - r * xi - lgam(a)
    elif fam == "InverseGamma":
        for a, l, s, xi in zip(g("shape"), g("location"), g("scale"), x):
            if xi <= l:
                return -math.inf
            t += (-a - 1) * math.log(xi - l) - s / (xi - l) + a * math.log(s) - lgam(a)
    elif fam == "Beta":
        for a, b, xi in zip(g("alpha"), g("beta"), x):
            if xi <= 0 or xi >= 1 or a <= 0 or b <= 0:
                return -math.inf
            t += (a - 1) * math.log(xi) + (b - 1) * math.log(1 - xi) + lgam(a + b) - lgam(a) - lgam(b)
    elif fam == "ModifiedHalfNormal":        # documented up to its constant
        a, b, c = P["alpha"][0], P["beta"][0], P["gamma"][0]
        for xi in x:
            if xi <= 0:
                return -math.inf
            t += (a - 1) * math.log(xi) - b * xi * xi + c * xi
    elif fam == "Lognormal":                 # diagonal covariance
        for m, v, xi in zip(g("mean"), g("cov"), x):
            if xi <= 0:
                return -math.inf
            t += -math.log(xi) - 0.5 * math.log(2 * math.pi * v) - (math.log(xi) - m) ** 2 / (2 * v)
    else:
        raise ValueError(fam)
    return t


def doc_cdf1(fam, P1, xi):
    """documented 1-d cdf where a closed form exists; otherwise None (quadrature of the documented pdf is used)."""
    if fam == "Normal":
        return 0.5 * (1 + math.erf((xi - P1["mean"]) / (P1["std"] * math.sqrt(2))))
    if fam == "Cauchy":
        return math.atan((xi - P1["location"]) / P1["scale"]) / math.pi + 0.5
    return None


def close(a, b, rel=1e-9):
    if a is None or b is None:
        return False
    a, b = float(a), float(b)
    if math.isinf(a) or math.isinf(b):
        return a == b
    if math.isnan(a) or math.isnan(b):
        return False
    return abs(a - b) <= rel * (1 + abs(b))


# ------------------------------------------------------------------------------------------------
# scalar families
# ------------------------------------------------------------------------------------------------
FAMILIES = {
    #  name: (parameters in constructor order, parameters that must be > 0, parameters that may only be scalar)
    "Normal": (["mean", "std"], {"std"}, set()),
    "Laplace": (["location", "scale"], {"scale"}, {"scale"}),
    "SmoothedLaplace": (["location", "scale", "beta"], {"scale", "beta"}, {"beta"}),
    "Cauchy": (["location", "scale"], {"scale"}, set()),
    "Uniform": (["low", "high"], set(), set()),
    "Gamma": (["shape", "rate"], {"shape", "rate"}, set()),
    "InverseGamma": (["shape", "location", "scale"], {"shape", "scale"}, set()),
    "Beta": (["alpha", "beta"], {"alpha", "beta"}, set()),
    "ModifiedHalfNormal": (["alpha", "beta", "gamma"], {"alpha", "beta"}, {"alpha", "beta", "gamma"}),
    "Lognormal": (["mean", "cov"], {"cov"}, set()),
}
SHAPE_PARAMS = {"Gamma": ["shape"], "InverseGamma": ["shape"], "Beta": ["alpha", "beta"]}
IFACES = ["float", "list", "array", "npfloat"]
# Normal, Laplace, Uniform keep their parameters as given (no force_ndarray): Python lists/tuples make the arithmetic of
# logpdf raise TypeError (a refusal, not a wrong number) -- these families are driven with floats and ndarrays only
RAW_FAMILIES = {"Normal": ["float", "array", "npfloat_or_array"], "Laplace": ["float", "array", "npfloat_or_array"],
                "Uniform": ["float", "array", "npfloat_or_array"]}
VIAS = {"Normal": ["direct", "cond", "callable", "logd"], "Cauchy": ["direct", "cond", "callable"],
        "Gamma": ["direct", "cond", "logd"], "Uniform": ["direct", "cond"], "Laplace": ["direct", "cond"],
        "SmoothedLaplace": ["direct", "callable"], "Beta": ["direct"], "InverseGamma": ["direct"],
        "ModifiedHalfNormal": ["direct"], "Lognormal": ["direct"]}


def draw_params(rng, fam, forms, n, general_shape=False):
    names, positive, _ = FAMILIES[fam]
    P = {}
    for nm, form in zip(names, forms):
        k = 1 if form == "S" else n
        if fam in SHAPE_PARAMS and nm in SHAPE_PARAMS[fam]:
            if general_shape:
                vals = [rng.choice([3, 5, 7, 9, 11, 13, 19, 27, 37]) / 8 for _ in range(k)]     # not half-integers
            else:
                vals = [rng.randint(1, 9) / 2 for _ in range(k)]                               # half-integers k/2
        elif nm in positive:
            vals = [rng.randint(2, 32) / 8 for _ in range(k)]
        else:
            vals = [rng.randint(-16, 16) / 8 for _ in range(k)]
        P[nm] = vals
    if fam == "Uniform":       # high > low componentwise after broadcasting
        lo, hi = bc(P["low"], n), bc(P["high"], n)
        if len(P["high"]) == 1:
            P["high"] = [max(lo) + rng.randint(1, 24) / 8]
        else:
            P["high"] = [l + rng.randint(1, 24) / 8 for l in lo]
    return P


def draw_x(rng, fam, P, n, inside=True):
    x = []
    for i in range(n):
        g = lambda k: bc(P[k], n)[i]
        if fam == "Uniform":
            l, h = g("low"), g("high")
            w = round((h - l) * 8)
            x.append(l + rng.randint(0, w) / 8)
        elif fam in ("Gamma", "ModifiedHalfNormal", "Lognormal"):
            x.append(rng.randint(1, 40) / 8)
        elif fam == "InverseGamma":
            x.append(g("location") + rng.randint(1, 40) / 8)
        elif fam == "Beta":
            x.append(rng.randint(1, 15) / 16)
        else:
            x.append(rng.randint(-24, 24) / 8)
    if not inside:
        i = rng.randrange(n)
        g = lambda k: bc(P[k], n)[i]
        if fam == "Uniform":
            x[i] = g("low") - rng.randint(1, 8) / 8 if rng.random() < 0.5 else g("high") + rng.randint(1, 8) / 8
        elif fam in ("Gamma", "Lognormal"):
            x[i] = -rng.randint(1, 16) / 8
        elif fam == "InverseGamma":
            x[i] = g("location") - rng.randint(1, 16) / 8
        elif fam == "Beta":
            x[i] = rng.choice([-0.5, 0.0, 1.0, 1.5])
    return x


def pass_value(vals, iface, n):
    """how a parameter value is handed to the constructor"""
    if iface == "npfloat_or_array":
        iface = "npfloat" if len(vals) == 1 else "array"
    if len(vals) == 1:
        v = vals[0]
        return {"float": float(v), "npfloat": np.float64(v), "list": [float(v)], "array": np.array([float(v)])}[iface]
    if iface in ("list",):
        return [float(v) for v in vals]
    if iface == "npfloat":
        return tuple(float(v) for v in vals)
    return np.array(vals, dtype=float)


def build_dist(cuqi, fam, P, n, ifaces, via):
    """construct the distribution; returns (dist, positional conditioning values or None)"""
    D = cuqi.distribution
    names = FAMILIES[fam][0]
    cls = getattr(D, fam)
    vals = {nm: pass_value(P[nm], ifaces[i % len(ifaces)], n) for i, nm in enumerate(names)}
    if fam == "Lognormal":
        return cls(np.array(bc(P["mean"], n), dtype=float) if len(P["mean"]) > 1 or n == 1 else np.array(bc(P["mean"], n)), vals["cov"]), None
    if fam == "ModifiedHalfNormal":
        return cls(P["alpha"][0], P["beta"][0], P["gamma"][0], geometry=n), None
    kw = dict(vals)
    first = names[0]
    if via == "direct":
        return cls(**kw, geometry=n), None
    if via in ("cond", "logd"):
        kw[first] = None
        d = cls(**kw, geometry=n)
        if via == "cond":
            return d(**{first: vals[first]}), None
        return d, [vals[first]]
    if via == "callable":
        kw[first] = lambda par_: par_
        d = cls(**kw, geometry=n)
        return d(par_=vals[first]), None
    raise ValueError(via)


def lng_expr(a):
    """Coq R expression for lnGamma(a): closed form for half-integers, certificate (scipy, cross-checked with libm) otherwise"""
    k2 = Fraction(a) * 2
    if k2.denominator == 1 and 1 <= k2.numerator <= 60:
        return "(ln (gam_half %s))" % cnat(k2.numerator), None
    from scipy.special import gammaln
    g = float(gammaln(a))
    if abs(g - math.lgamma(a)) > 1e-12 * (1 + abs(g)):
        raise RuntimeError("lnGamma certificate: scipy and libm disagree at %r" % a)
    return cr(g), g


def model_expr(fam, P, x, n, state, method="logpdf"):
    """Coq R-expression of the model value"""
    L = lambda k: crl(P[k])
    X = crl(x)
    if fam == "Normal":
        return "(normal_%s %s %s %s)" % ("pdf" if method == "pdf_own" else "logpdf", L("mean"), L("std"), X)
    if fam == "Laplace":
        return "(laplace_logpdf %s %s %s %s)" % (cnat(n), L("location"), cr(P["scale"][0]), X)
    if fam == "SmoothedLaplace":
        return "(slap_logpdf %s %s %s %s %s)" % (cbool(state["slap_fixed"]), L("location"), L("scale"), cr(P["beta"][0]), X)
    if fam == "Cauchy":
        if method == "cdf":
            return "(cauchy_cdf %s %s %s %s)" % (cbool(state["cauchy_cdf_fixed"]), L("location"), L("scale"), X)
        return "(cauchy_logpdf %s %s %s)" % (L("location"), L("scale"), X)
    if fam == "Uniform":
        return "(uniform_logpdf %s %s %s %s)" % (cbool(state["uniform_fixed"]), cnat(n), L("low"), L("high"))
    if fam == "Gamma":
        g = "[" + "; ".join(lng_expr(a)[0] for a in P["shape"]) + "]"
        return "(gamma_logpdf %s %s %s %s)" % (g, L("shape"), L("rate"), X)
    if fam == "InverseGamma":
        g = "[" + "; ".join(lng_expr(a)[0] for a in P["shape"]) + "]"
        return "(invgamma_logpdf %s %s %s %s %s)" % (g, L("shape"), L("location"), L("scale"), X)
    if fam == "Beta":
        al, be = bc(P["alpha"], n), bc(P["beta"], n)
        if len(P["alpha"]) == 1 and len(P["beta"]) == 1:
            al, be = al[:1], be[:1]
        ga = "[" + "; ".join(lng_expr(a)[0] for a in P["alpha"]) + "]"
        gb = "[" + "; ".join(lng_expr(a)[0] for a in P["beta"]) + "]"
        gab = "[" + "; ".join(lng_expr(a + b)[0] for a, b in zip(al, be)) + "]"
        return "(beta_logpdf %s %s %s %s %s %s)" % (ga, gb, gab, L("alpha"), L("beta"), X)
    if fam == "ModifiedHalfNormal":
        return "(mhn_logpdf %s %s %s %s)" % (cr(P["alpha"][0]), cr(P["beta"][0]), cr(P["gamma"][0]), X)
    if fam == "Lognormal":
        scalar = len(P["cov"]) == 1
        gl = "(gauss_diag_logpdf FCov %s %s %s %s (map ln %s))" % (cbool(scalar), cnat(n), L("cov"), L("mean"), X)
        return "(lognormal_logpdf %s %s)" % (gl, X)
    raise ValueError(fam)


def outside_expr(fam, P, x):
    if fam == "Uniform":
        return "uniform_outside %s %s %s" % (cql(P["low"]), cql(P["high"]), cql(x))
    if fam == "Beta":
        return "beta_outside %s %s %s" % (cql(P["alpha"]), cql(P["beta"]), cql(x))
    if fam == "Gamma":
        return "gamma_outside %s" % cql(x)
    if fam == "InverseGamma":
        return "invgamma_outside %s %s" % (cql(P["location"]), cql(x))
    if fam == "Lognormal":
        return "lognormal_outside %s" % cql(x)
    if fam == "Cauchy":
        return "cauchy_outside %s" % cql(P["scale"])
    return "false"


DEFECT_CLASS = {
    # family -> (predicate on (P, n, method), signature)
    "Uniform": (lambda P, n, m: n > 1 and len(P["low"]) == 1 and len(P["high"]) == 1 and m in ("logpdf", "pdf", "logd"),
                "Uniform.logpdf|scalar-bounds:dim>1"),
    "SmoothedLaplace": (lambda P, n, m: n > 1 and len(P["scale"]) == 1 and m in ("logpdf", "pdf", "logd"),
                        "SmoothedLaplace.logpdf|scalar-scale:dim>1"),
    "Cauchy": (lambda P, n, m: n > 1 and m == "cdf", "Cauchy.cdf|dim>1"),
    "ModifiedHalfNormal": (lambda P, n, m: not (P["alpha"] == P["beta"] == P["gamma"]), "ModifiedHalfNormal.beta/gamma|getters-return-alpha"),
}


def evaluate(dist, method, x, condvals=None):
    xa = np.array(x, dtype=float)
    with warnings.catch_warnings():
        warnings.simplefilter("ignore")
        with np.errstate(all="ignore"):
            if method == "logd":
                if condvals:
                    return dist.logd(*condvals, xa)
                return dist.logd(xa)
            if condvals:
                dist = dist(*condvals) if False else dist
            return getattr(dist, "pdf" if method == "pdf_own" else method)(xa)


def scalar_family_cases(ctx, cuqi, state, cases, stats):
    rng = ctx.rng
    dims = [1, 2, 3, 5]
    counter = 0
    for fam, (names, positive, scalar_only) in FAMILIES.items():
        form_sets = [f for f in itertools.product("SV", repeat=len(names))
                     if all(not (nm in scalar_only and c == "V") for nm, c in zip(names, f))]
        for n in dims:
            for forms in form_sets:
                if n == 1 and "V" in forms:
                    continue            # dim 1: vector form == scalar form
                if fam == "Lognormal" and n > 1 and forms[0] == "S":
                    continue            # Lognormal has no geometry argument: its dimension is that of the mean
                for via in VIAS[fam]:
                    reps = ctx.n(1, 6) if via == "direct" else ctx.n(1, 2)
                    methods = ["logpdf", "pdf", "logd"] if via != "logd" else ["logd"]
                    if fam == "Normal":
                        methods = methods + ["pdf_own"] if via != "logd" else methods
                    if fam == "Cauchy" and via == "direct":
                        methods = methods + ["cdf"]
                    for rep in range(reps):
                        for general in ([False, True] if fam in SHAPE_PARAMS and via == "direct" else [False]):
                            counter += 1
                            ifl = RAW_FAMILIES.get(fam, IFACES)
                            ifaces = [ifl[(counter + j) % len(ifl)] for j in range(len(names))]
                            P = draw_params(rng, fam, forms, n, general_shape=general)
                            try:
                                dist, condvals = build_dist(cuqi, fam, P, n, ifaces, via)
                            except Exception as e:
                                raise RuntimeError("cannot construct %s %s n=%d via=%s ifaces=%s: %r" % (fam, P, n, via, ifaces, e))
                            for method in methods:
                                for inside in ([True, False] if fam in ("Uniform", "Beta", "Gamma", "InverseGamma", "Lognormal") and method == "logpdf" and rep == 0 and via == "direct" else [True]):
                                    x = draw_x(rng, fam, P, n, inside)
                                    one_scalar_case(ctx, cuqi, state, cases, stats, fam, P, x, n, forms, via, ifaces, method,
                                                    dist, condvals, general)


def one_scalar_case(ctx, cuqi, state, cases, stats, fam, P, x, n, forms, via, ifaces, method, dist, condvals, general=False):
    obs = evaluate(dist, method, x, condvals)
    obs = float(np.asarray(obs).ravel()[0]) if np.size(obs) == 1 else None
    meta = {"kind": "scalar", "family": fam, "params": P, "x": x, "dim": n, "forms": "".join(forms), "via": via,
            "ifaces": ifaces, "method": method, "observed": obs}
    cell = "%s/%s/%s/%s%s" % (fam, "".join(forms) + ("1" if n == 1 else "n"), via, method, "/lnG-cert" if general else "")
    # ---- independent oracle
    doc = doc_logpdf(fam, P, x)
    fail, sig = None, ""
    if method in ("logpdf", "logd"):
        expected = doc
    elif method in ("pdf", "pdf_own"):
        expected = math.exp(doc) if doc > -math.inf else 0.0
    elif method == "cdf":
        expected = 1.0
        for i in range(n):
            P1 = {k: bc(v, n)[i] for k, v in P.items()}
            expected *= doc_cdf1(fam, P1, x[i])
    if obs is None or not close(obs, expected):
        pred, dsig = DEFECT_CLASS.get(fam, (None, None))
        fail = "%s(%s).%s(%s) with dim %d = %r but the documented density gives %r" % (fam, P, method, x, n, obs, expected)
        sig = dsig if pred is not None and pred(P, n, method) else "%s.%s|%s" % (fam, method.replace("_own", ""), "".join(forms))
    # ---- model comparison
    inside = doc > -math.inf
    if method == "cdf" or (inside and obs is not None and math.isfinite(obs)):
        m = model_expr(fam, P, x, n, state, method)
        if method == "pdf":
            m = "(exp %s)" % m
        expr, tac = encl(m, obs)
        cases.append(Case(expr=expr, tac=tac, kind="ENCLOSURE", meta=meta, cell=cell, impl_fail=fail, signature=sig))
    else:
        is_neginf = obs is not None and obs == -math.inf
        if method in ("pdf", "pdf_own"):
            is_neginf = obs == 0.0
        expr = "check_dec (%s) %s" % (outside_expr(fam, P, x), cbool(is_neginf))
        cases.append(Case(expr=expr, kind="DECISION", meta=meta, cell=cell + "/outside", impl_fail=fail, signature=sig))
    stats["scalar"] = stats.get("scalar", 0) + 1


# ------------------------------------------------------------------------------------------------
# state of the three repairable defects (fixes/C04_*.diff): which formula does this tree implement?
# ------------------------------------------------------------------------------------------------
def witness_values(cuqi):
    D = cuqi.distribution
    x3 = np.array([0.5, 0.5, 0.5])
    w = {}
    w["uniform"] = float(D.Uniform(0.0, 2.0, geometry=3).logpdf(x3))                  # documented: 3 log(1/2)
    w["slap"] = float(D.SmoothedLaplace(0.0, 2.0, 0.5, geometry=3).logpdf(x3))        # documented: 3 log(1/4) - 3 sqrt(.75)/2
    w["cauchy_cdf"] = float(D.Cauchy(0.0, 2.0, geometry=3).cdf(x3))                   # documented: F^3
    m = D.ModifiedHalfNormal(2.0, 3.0, -1.0)
    w["mhn"] = float(m.logpdf(np.array([0.5])))                                        # documented: log(.5) - .75 - .5
    return w


def detect_state(cuqi):
    w = witness_values(cuqi)
    F = math.atan(0.25) / math.pi + 0.5
    return {"uniform_fixed": close(w["uniform"], 3 * math.log(0.5)),
            "slap_fixed": close(w["slap"], 3 * math.log(0.25) - 3 * math.sqrt(0.75) / 2),
            "cauchy_cdf_fixed": close(w["cauchy_cdf"], F ** 3),
            "witness": w}


def known_witnesses(ctx):
    import cuqi
    w = witness_values(cuqi)
    F = math.atan(0.25) / math.pi + 0.5
    out = {}
    out["Uniform.logpdf|scalar-bounds:dim>1"] = (not close(w["uniform"], 3 * math.log(0.5)),
        "Uniform(0,2,geometry=3).logpdf([.5,.5,.5]) = %r, documented 3*log(1/2) = %r" % (w["uniform"], 3 * math.log(0.5)))
    out["SmoothedLaplace.logpdf|scalar-scale:dim>1"] = (not close(w["slap"], 3 * math.log(0.25) - 3 * math.sqrt(0.75) / 2),
        "SmoothedLaplace(0,2,0.5,geometry=3).logpdf([.5,.5,.5]) = %r, documented %r" % (w["slap"], 3 * math.log(0.25) - 3 * math.sqrt(0.75) / 2))
    out["Cauchy.cdf|dim>1"] = (not close(w["cauchy_cdf"], F ** 3),
        "Cauchy(0,2,geometry=3).cdf([.5,.5,.5]) = %r (sum of marginals), documented product %r" % (w["cauchy_cdf"], F ** 3))
    out["ModifiedHalfNormal.beta/gamma|getters-return-alpha"] = (not close(w["mhn"], math.log(0.5) - 0.75 - 0.5),
        "ModifiedHalfNormal(2,3,-1).logpdf([.5]) = %r, documented (up to the constant) %r" % (w["mhn"], math.log(0.5) - 0.75 - 0.5))
    out.update(gaussian_witnesses(cuqi))
    return out


def gaussian_witnesses(cuqi):
    return {}


# ------------------------------------------------------------------------------------------------
def run(ctx):
    import cuqi
    state = detect_state(cuqi)
    ctx.note("state of repairable defects: uniform_fixed=%s slap_fixed=%s cauchy_cdf_fixed=%s" % (
        state["uniform_fixed"], state["slap_fixed"], state["cauchy_cdf_fixed"]))
    cases, stats = [], {}
    scalar_family_cases(ctx, cuqi, state, cases, stats)
    return Result(cases=cases, rule=RULE, extra={"c04_stats": stats, "c04_state": {k: v for k, v in state.items() if k != "witness"}},
                  assumptions=["lnGamma at shapes that are not integers or half-integers enters as a certificate value from scipy.special.gammaln, cross-checked against libm lgamma to 1e-12"])


def oracle(ctx, meta):
    return None


def classify(meta, detail):
    return "%s.%s" % (meta.get("family", meta.get("kind", "C04")), meta.get("method", "logpdf"))


def replay(ctx, meta):
    import json
    print(json.dumps(meta, indent=1)[:6000])
    return 0
