(* C05 -- change of variables in differential form: for every family whose _sample is a transformation of a base variate of
   the numpy generator, the transformation (as the code and the generator it calls apply it, with the parameter conventions
   the code hands over) pushes the base law forward to the density the class documents / reports.

   `pushes supp_b supp g ginv dginv base pdf` (Model/C05_Push.v) says: g maps the base support one-to-one onto the support
   with inverse ginv, g is strictly monotone, ginv is differentiable on the support with derivative dginv <> 0, and
        base (ginv x) * |dginv x| = pdf x        at every point x of the support.
   The Q-level functions the correspondence evaluates on the twin stream of base variates (cells push/...) are mapped by Q2R to
   the R-level g of these theorems (C05_push_q_R).

   NOT formalised: the measure-theoretic step from this differential identity to "P(X in A) = integral of pdf over A", and the
   base laws of the numpy bit-generator streams (standard normal, uniform, standard Gamma) themselves. *)
From CV Require Import Model.C05_SampleR Model.C05_Push Proofs.C05_Wiring Proofs.C05_Push.
From Coq Require Import Reals Lra QArith Qreals.
From Coquelicot Require Import Coquelicot.
Open Scope R_scope.

(* Normal: rng.normal(mean, std) = mean + std * z *)
Theorem C05_push_normal : forall mean std, 0 < std ->
  pushes everywhere everywhere (normal_push mean std) (affine_inv mean std) (fun _ => / std) std_normal_pdf
         (fun x => exp (cuqi_normal_logpdf mean std x)).
Proof. exact push_normal. Qed.
Print Assumptions C05_push_normal.

(* Uniform: rng.uniform(low, high) = low + (high - low) * u, u in [0,1) -> [low, high) *)
Theorem C05_push_uniform : forall low high, low < high ->
  pushes unit_half_open (fun x => low <= x < high) (uniform_push low high) (affine_inv low (high - low))
         (fun _ => / (high - low)) std_uniform_pdf (fun _ => exp (cuqi_uniform_logpdf low high)).
Proof. exact push_uniform. Qed.
Print Assumptions C05_push_uniform.

(* Gamma: rng.gamma(shape, scale = 1/rate) = (1/rate) * g, g standard Gamma(shape): the documented RATE-parameterised density *)
Theorem C05_push_gamma : forall Gam shape rate, 0 < rate -> Gam <> 0 ->
  pushes positive_R positive_R (gamma_push rate) (gamma_inv rate) (fun _ => rate) (std_gamma_pdf Gam shape)
         (cuqi_gamma_pdf Gam shape rate).
Proof. exact push_gamma. Qed.
Print Assumptions C05_push_gamma.

(* Laplace: numpy's inversion of a uniform, both branches, differentiable also at x = loc *)
Theorem C05_push_laplace : forall loc scale, 0 < scale ->
  pushes unit_open everywhere (laplace_push loc scale) (laplace_inv loc scale) (fun x => np_laplace_pdf loc scale x)
         std_uniform_pdf (fun x => exp (cuqi_laplace_logpdf loc scale x)).
Proof. exact push_laplace. Qed.
Print Assumptions C05_push_laplace.

(* Cauchy: scipy's rvs = loc + scale * tan(pi u - pi/2) *)
Theorem C05_push_cauchy : forall loc scale, 0 < scale ->
  pushes unit_open everywhere (cauchy_push loc scale) (cauchy_inv loc scale) (fun x => sp_cauchy_pdf loc scale x)
         std_uniform_pdf (fun x => exp (cuqi_cauchy_logpdf loc scale x)).
Proof. exact push_cauchy. Qed.
Print Assumptions C05_push_cauchy.

(* Lognormal: exp of the Gaussian draw (one component) *)
Theorem C05_push_lognormal : forall mean std,
  pushes everywhere positive_R exp ln (fun x => / x) (normal_pdf mean std) (cuqi_lognormal_pdf mean std).
Proof. exact push_lognormal. Qed.
Print Assumptions C05_push_lognormal.

(* any loc/scale family drawn by inversion (scipy's default rvs): x = loc + scale * Finv(u) *)
Theorem C05_push_ppf : forall (F f Finv : R -> R) (suppy : R -> Prop) loc scale, 0 < scale ->
  (forall y, suppy y -> is_derive F y (f y) /\ 0 < f y /\ 0 < F y < 1 /\ Finv (F y) = y) ->
  (forall u, 0 < u < 1 -> suppy (Finv u) /\ F (Finv u) = u) ->
  (forall u v, 0 < u < 1 -> 0 < v < 1 -> u < v -> Finv u < Finv v) ->
  pushes unit_open (fun x => suppy ((x - loc) / scale)) (ppf_push Finv loc scale) (ppf_inv F loc scale)
         (fun x => f ((x - loc) / scale) / scale) std_uniform_pdf (fun x => f ((x - loc) / scale) / scale).
Proof. exact push_ppf. Qed.
Print Assumptions C05_push_ppf.

(* InverseGamma as scipy 1.12 draws it (inversion; F / Finv = scipy's special-function cdf / ppf of the standard law, assumed to
   be a distribution function with the standard density and its inverse): the documented density of the class *)
Theorem C05_push_invgamma : forall (F Finv : R -> R) Gam a loc scale, 0 < scale -> 0 < Gam ->
  (forall y, 0 < y -> is_derive F y (sp_invgamma_std_pdf Gam a y) /\ 0 < F y < 1 /\ Finv (F y) = y) ->
  (forall u, 0 < u < 1 -> 0 < Finv u /\ F (Finv u) = u) ->
  (forall u v, 0 < u < 1 -> 0 < v < 1 -> u < v -> Finv u < Finv v) ->
  pushes unit_open (fun x => loc < x) (ppf_push Finv loc scale) (ppf_inv F loc scale)
         (fun x => sp_invgamma_pdf Gam a loc scale x) std_uniform_pdf (cuqi_invgamma_pdf Gam a loc scale).
Proof. exact push_invgamma. Qed.
Print Assumptions C05_push_invgamma.

(* ... and the law-equivalent form loc + scale / G, G standard Gamma(a) (decreasing transformation) *)
Theorem C05_push_recip_gamma : forall Gam a loc scale, 0 < scale -> Gam <> 0 ->
  pushes positive_R (fun x => loc < x) (recip_push loc scale) (fun x => scale / (x - loc)) (fun x => - (scale / (x - loc) ^ 2))
         (std_gamma_pdf Gam a) (cuqi_invgamma_pdf Gam a loc scale).
Proof. exact push_recip_gamma. Qed.
Print Assumptions C05_push_recip_gamma.

(* Beta = Ga / (Ga + Gb): 2-d change of variables; _partial: the marginalisation over s = Ga + Gb is not formalised *)
Theorem C05_push_beta_joint_partial : forall Ga Gb Gab a b x s, 0 < x < 1 -> 0 < s -> Ga <> 0 -> Gb <> 0 -> Gab <> 0 ->
  let ga := beta_ga x s in let gb := beta_gb x s in
  (0 < ga /\ 0 < gb /\ beta_push ga gb = x /\ ga + gb = s) /\
  (is_derive (fun t => beta_ga t s) x s /\ is_derive (fun t => beta_ga x t) s x /\
   is_derive (fun t => beta_gb t s) x (- s) /\ is_derive (fun t => beta_gb x t) s (1 - x) /\
   s * (1 - x) - x * (- s) = s) /\
  std_gamma_pdf Ga a ga * std_gamma_pdf Gb b gb * Rabs s = cuqi_beta_pdf Ga Gb Gab a b x * std_gamma_pdf Gab (a + b) s.
Proof. exact push_beta_joint. Qed.
Print Assumptions C05_push_beta_joint_partial.

Theorem C05_push_beta_bijection : forall ga gb, 0 < ga -> 0 < gb ->
  let x := beta_push ga gb in let s := ga + gb in 0 < x < 1 /\ 0 < s /\ beta_ga x s = ga /\ beta_gb x s = gb.
Proof. exact beta_pair_bijection. Qed.
Print Assumptions C05_push_beta_bijection.

(* ModifiedHalfNormal, scheme 1: X = sqrt T with T ~ Gamma(a/2, rate d) has the proposal density the scheme assumes *)
Theorem C05_push_mhn_sqrt_gamma : forall lnGam a d,
  pushes positive_R positive_R sqrt (fun x => x ^ 2) (fun x => 2 * x) (fun t => exp (gamma_logpdf lnGam (a / 2) d t))
         (fun x => exp (mhn_gam_logg lnGam a d x)).
Proof. exact push_mhn_sqrt_gamma. Qed.
Print Assumptions C05_push_mhn_sqrt_gamma.

(* the rational transformations evaluated by the correspondence (check_push) are these R-level transformations *)
Theorem C05_push_q_R : forall m s z l h u r g ga gb,
  Q2R (normal_push_q m s z) = normal_push (Q2R m) (Q2R s) (Q2R z) /\
  Q2R (uniform_push_q l h u) = uniform_push (Q2R l) (Q2R h) (Q2R u) /\
  (~ (r == 0)%Q -> Q2R (gamma_push_q r g) = gamma_push (Q2R r) (Q2R g)) /\
  (~ (ga + gb == 0)%Q -> Q2R (beta_push_q ga gb) = beta_push (Q2R ga) (Q2R gb)).
Proof.
  intros. split; [apply normal_push_q_R|]. split; [apply uniform_push_q_R|]. split; [apply gamma_push_q_R | apply beta_push_q_R].
Qed.
Print Assumptions C05_push_q_R.

(* ---------------- non-vacuity ---------------- *)
(* the hypotheses of C05_push_ppf are satisfiable: the standard Cauchy triple *)
Example C05_push_ppf_example :
  (forall y, everywhere y -> is_derive std_cauchy_cdf y (std_cauchy_pdf y) /\ 0 < std_cauchy_pdf y /\
                             0 < std_cauchy_cdf y < 1 /\ std_cauchy_ppf (std_cauchy_cdf y) = y) /\
  (forall u, 0 < u < 1 -> everywhere (std_cauchy_ppf u) /\ std_cauchy_cdf (std_cauchy_ppf u) = u).
Proof. exact push_ppf_hyps_example. Qed.
(* a concrete instance: Gamma(shape 2, rate 4) -- the draw (1/4) g at g = 2 is 1/2, whose pre-image under gamma_inv is 2 *)
Example C05_push_gamma_example : gamma_push 4 2 = 1 / 2 /\ gamma_inv 4 (1 / 2) = 2 /\ positive_R (1 / 2).
Proof. unfold gamma_push, gamma_inv, positive_R. repeat split; lra. Qed.
