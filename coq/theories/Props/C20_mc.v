(* C20 -- log-determinant through the triangular factor (mathcomp, every size n, any commutative ring).
   GMRF.__init__ (zero BC): _chol = sparse_cholesky(P).T (lower), _logdet = 2*sum(log(diag(_chol))). *)
From mathcomp Require Import all_ssreflect all_algebra.
From CVmc Require Import C20_Det.
Set Implicit Arguments.
Unset Strict Implicit.
Unset Printing Implicit Defensive.
Import GRing.Theory.
Local Open Scope ring_scope.

(* det (L L^T) = (prod_i l_ii)^2 for a lower-triangular L *)
Theorem C20_logdet_cholesky : forall (R : comRingType) (n : nat) (L : 'M[R]_n),
  is_trig_mx L -> \det (L *m L^T) = (\prod_i L i i) ^+ 2.
Proof. exact det_chol_lower. Qed.
Print Assumptions C20_logdet_cholesky.

(* the same for the upper factor U (P = U^T U) that sparse_cholesky returns *)
Theorem C20_logdet_cholesky_upper : forall (R : comRingType) (n : nat) (U : 'M[R]_n),
  is_trig_mx U^T -> \det (U^T *m U) = (\prod_i U i i) ^+ 2.
Proof. exact det_chol_upper. Qed.
Print Assumptions C20_logdet_cholesky_upper.

(* det (prec * P) = prec^n det P: the `rank * log(prec)` term of logpdf for full rank *)
Theorem C20_det_scaled : forall (R : comRingType) (n : nat) (c : R) (P : 'M[R]_n),
  \det (c *: P) = c ^+ n * \det P.
Proof. exact det_scale. Qed.
Print Assumptions C20_det_scaled.
