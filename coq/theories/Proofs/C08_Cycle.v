(* C08 -- from one unbounded orbit to a CLOSED orbit (a cycle): the lift of the orbit theorem to finite state spaces.
   On a finite state space on which the two directions of the integrator undo each other every orbit closes up: the
   orbit map phi : Z -> S is periodic, the trajectory of a transition may wrap around the cycle and visit a state more
   than once.  Here: (1) the transition only depends on the values of the Hamiltonian / log-density / U-turn predicate
   (congruence), (2) it commutes with translations of the orbit, (3) a transition started at i stays within
   2^(max_depth+1) of i, and from these and C08_Alive.orbit_stationary: (4) the kernel folded onto the cycle leaves the
   counting measure on the in-slice states of the cycle invariant -- every period, every depth (trajectories longer than
   the cycle included), every U-turn predicate. *)
From CV Require Import Base.Tac Base.Ext Model.C08_NUTS Proofs.C08_Prog Proofs.C08_Tree Proofs.C08_Top Proofs.C08_Law
                       Proofs.C08_Orbit Proofs.C08_Block Proofs.C08_Alive Proofs.C08_Sim.
From Coq Require Import QArith Qabs Qminmax Lqa Qfield.
Local Open Scope Z_scope.

(* ---------------- (1) the transition depends on the labelling only through its values ---------------- *)
Section Ext.
Variable S : Type.
Variable leap : bool -> S -> S.
Variables ham ham' lgd lgd' : S -> ext.
Variables uturn uturn' : S -> S -> bool.
Variables alpha alpha' : S -> Q.
Variable logu : ext.
Hypothesis Eh : forall s, ham' s = ham s.
Hypothesis El : forall s, lgd' s = lgd s.
Hypothesis Eu : forall a b, uturn' a b = uturn a b.
Hypothesis Ea : forall s, alpha' s = alpha s.

Theorem build_ext : forall j s v,
  peq (build S leap ham' uturn' alpha' logu s v j) (build S leap ham uturn alpha logu s v j).
Proof.
  induction j as [|j IH]; intros s v.
  - cbn. unfold in_slice, not_diverged. rewrite Eh, Ea. reflexivity.
  - cbn [build]. apply peq_bind; [apply IH|]. intros t1. destruct (t_ok t1); [|apply peq_refl].
    apply peq_bind; [apply IH|]. intros t2. cbn [peq]. repeat split. intros b. cbn [peq]. rewrite Eu. reflexivity.
Qed.

Theorem doublings_ext guard : forall k st,
  peq (doublings S leap ham' lgd' uturn' alpha' logu guard k st) (doublings S leap ham lgd uturn alpha logu guard k st).
Proof.
  induction k as [|k IH]; intros st; cbn [doublings]; [reflexivity|].
  destruct (p_s st); cbn [negb]; [|reflexivity].
  apply peq_bind; [|intros st1; apply IH].
  unfold doubling. cbn [peq]. repeat split. intros v. unfold doubling_dir.
  apply peq_bind; [apply build_ext|]. intros t. destruct (t_ok t).
  - cbn [peq]. repeat split. intros b. cbn [peq]. unfold top_update, finite_logd. rewrite Eu, El. reflexivity.
  - cbn [peq]. unfold top_update. rewrite Eu. reflexivity.
Qed.

Theorem transition_ext guard md s0 :
  peq (transition S leap ham' lgd' uturn' alpha' logu guard md s0) (transition S leap ham lgd uturn alpha logu guard md s0).
Proof. apply doublings_ext. Qed.
End Ext.

(* ---------------- (3) a transition started at i ends within 2^(max_depth+1) of i ---------------- *)
Section Reach.
Variable H : Z -> ext.
Variable L : Z -> ext.
Variable U : Z -> Z -> bool.
Variable A : Z -> Q.
Variable logu : ext.
Variable guard : bool.

Definition inv_reach (i : Z) (st : top Z) : Prop :=
  i - pw (p_j st) < p_minus st /\ p_plus st < i + pw (p_j st) /\ p_minus st <= p_cur st <= p_plus st.

Lemma inv_reach_step i st : inv_reach i st -> p_s st = true ->
  all_out (inv_reach i) (doubling Z zleap H L U A logu guard st).
Proof.
  intros (Hm & Hp & Hc) _. apply doubling_inv_update. intros v t a K Lf _.
  apply skel_fields in K. destruct K as (M & P & _ & _ & _ & _ & LL & _).
  unfold dir_skel, dir_start in *.
  destruct (dbuild_orbit H U A logu (p_j st) (if v then p_plus st else p_minus st) v) as (m & Bm & L1 & _ & M1 & P1).
  rewrite <- LL in L1. rewrite <- M in M1. rewrite <- P in P1.
  rewrite L1 in Lf. apply oleaves_In in Lf as (tt & Ht & Es).
  unfold inv_reach. cbn [top_update p_minus p_plus p_cur p_j]. rewrite pw_S.
  assert (Hmz : Z.of_nat m <= pw (p_j st)) by (unfold pw; lia).
  pose proof (pw_pos (p_j st)) as Hpos.
  unfold opos in Es.
  destruct v, a; rewrite ?P1, ?M1, ?Es; lia.
Qed.

Theorem transition_reach md i :
  all_out (fun st => i - pw (Datatypes.S md) < p_cur st < i + pw (Datatypes.S md)) (transition Z zleap H L U A logu guard md i).
Proof.
  eapply all_out_impl; [| apply all_out_and;
    [apply (doublings_inv Z zleap H L U A logu guard (inv_reach i) (inv_reach_step i) (Datatypes.S md) (top_init i))
    | apply (doublings_pj H L U A logu guard (Datatypes.S md) (top_init i))]].
  - intros st ((Hm & Hp & Hc) & (Hj & _)). cbn [top_init p_j] in Hj.
    assert (pw (p_j st) <= pw (Datatypes.S md)).
    { destruct (Nat.eq_dec (p_j st) (Datatypes.S md)) as [-> | Hne]; [lia|].
      pose proof (pw_mono false (p_j st) (Datatypes.S md)). pose proof (pw_pos (p_j st)). lia. }
    lia.
  - unfold inv_reach. cbn [top_init p_j p_minus p_plus p_cur]. unfold pw. cbn. lia.
Qed.
End Reach.

(* ---------------- (2) + (4): periodic labellings ---------------- *)
Section Periodic.
Variable H : Z -> ext.
Variable L : Z -> ext.
Variable U : Z -> Z -> bool.
Variable A : Z -> Q.
Variable logu : ext.
Variable guard : bool.
Variable N : nat.
Hypothesis Npos : (0 < N)%nat.
Notation NZ := (Z.of_nat N).
Hypothesis perH : forall i, H (i + NZ) = H i.
Hypothesis perL : forall i, L (i + NZ) = L i.
Hypothesis perU : forall a b, U (a + NZ) (b + NZ) = U a b.
Hypothesis perA : forall i, A (i + NZ) = A i.
Hypothesis Hfin : guard = false \/ forall i, finite_logd Z L i = true.
Hypothesis Hsl : forall i, sl H logu i = true -> nd H logu i = true.

Notation sl := (sl H logu).
Notation curi := (cur_ind Z Z.eqb).

Definition PZ (md : nat) (i k : Z) : Q := dist (transition Z zleap H L U A logu guard md i) (curi k).

Lemma PZ_shift1 md i k : (PZ md (i + NZ) (k + NZ) == PZ md i k)%Q.
Proof.
  unfold PZ.
  assert (phi_leap : forall v z, zleap v (z + NZ) = zleap v z + NZ) by (intros v z; unfold zleap; destruct v; lia).
  rewrite (transition_dist Z zleap H L U A logu (fun z => z + NZ) phi_leap guard md i (curi (k + NZ))).
  unfold otransition.
  rewrite (peq_dist _ _ _ (transition_ext Z zleap H (Hz Z H (fun z => z + NZ)) L (Lz Z L (fun z => z + NZ))
                             U (Uz Z U (fun z => z + NZ)) A (Az Z A (fun z => z + NZ)) logu
                             (fun s => perH s) (fun s => perL s) (fun a b => perU a b) (fun s => perA s) guard md i)).
  apply dist_ext. intros st. unfold cur_ind, topmap. cbn [p_cur].
  destruct (p_cur st + NZ =? k + NZ) eqn:E1, (p_cur st =? k) eqn:E2; try reflexivity; lia.
Qed.

Lemma PZ_shift_nat md : forall (m : nat) i k, (PZ md (i + Z.of_nat m * NZ) (k + Z.of_nat m * NZ) == PZ md i k)%Q.
Proof.
  induction m as [|m IH]; intros i k.
  - replace (i + Z.of_nat 0 * NZ) with i by lia. replace (k + Z.of_nat 0 * NZ) with k by lia. reflexivity.
  - replace (i + Z.of_nat (Datatypes.S m) * NZ) with (i + Z.of_nat m * NZ + NZ) by lia.
    replace (k + Z.of_nat (Datatypes.S m) * NZ) with (k + Z.of_nat m * NZ + NZ) by lia.
    rewrite PZ_shift1. apply IH.
Qed.

Lemma PZ_shift md (m i k : Z) : (PZ md (i + m * NZ) (k + m * NZ) == PZ md i k)%Q.
Proof.
  destruct (Z_le_gt_dec 0 m) as [Hm | Hm].
  - replace m with (Z.of_nat (Z.to_nat m)) by lia. apply PZ_shift_nat.
  - rewrite <- (PZ_shift_nat md (Z.to_nat (- m)) (i + m * NZ) (k + m * NZ)).
    replace (i + m * NZ + Z.of_nat (Z.to_nat (- m)) * NZ) with i by lia.
    replace (k + m * NZ + Z.of_nat (Z.to_nat (- m)) * NZ) with k by lia. reflexivity.
Qed.

Lemma sl_shift_nat : forall (m : nat) i, sl (i + Z.of_nat m * NZ) = sl i.
Proof.
  induction m as [|m IH]; intros i.
  - f_equal. lia.
  - replace (i + Z.of_nat (Datatypes.S m) * NZ) with (i + Z.of_nat m * NZ + NZ) by lia.
    unfold C08_Block.sl, in_slice. rewrite perH. apply IH.
Qed.

Lemma sl_shift (m i : Z) : sl (i + m * NZ) = sl i.
Proof.
  destruct (Z_le_gt_dec 0 m) as [Hm | Hm].
  - replace m with (Z.of_nat (Z.to_nat m)) by lia. apply sl_shift_nat.
  - rewrite <- (sl_shift_nat (Z.to_nat (- m)) (i + m * NZ)). f_equal. lia.
Qed.

(* congruent modulo the period *)
Definition cg (x y : Z) : bool := (x - y) mod NZ =? 0.

Lemma cg_mult x y : cg x y = true -> exists m, x = y + m * NZ.
Proof.
  unfold cg. intros E. apply Z.eqb_eq in E. exists ((x - y) / NZ).
  pose proof (Z.div_mod (x - y) NZ ltac:(lia)) as D. rewrite E in D. lia.
Qed.

Lemma mult_cg x y m : x = y + m * NZ -> cg x y = true.
Proof. intros ->. unfold cg. apply Z.eqb_eq. replace (y + m * NZ - y) with (m * NZ) by lia. apply Z.mod_mul. lia. Qed.

(* every fundamental domain contains exactly one representative of each class *)
Lemma residue_one a x : (qs (fun i => b2q (cg i x)) (zr a N) == 1)%Q.
Proof.
  set (k := a + (x - a) mod NZ).
  pose proof (Z.mod_pos_bound (x - a) NZ ltac:(lia)) as Hb.
  pose proof (Z.div_mod (x - a) NZ ltac:(lia)) as D.
  assert (Ek : k = x + (- ((x - a) / NZ)) * NZ) by (unfold k; lia).
  rewrite (qs_single _ _ k (zr_NoDup _ _)).
  - destruct (in_dec Z.eq_dec k (zr a N)) as [_ | Hout].
    + rewrite (mult_cg k x _ Ek). reflexivity.
    + exfalso. apply Hout. apply zr_In. unfold k. lia.
  - intros i Hi Hne. apply zr_In in Hi. destruct (cg i x) eqn:E; [|reflexivity]. exfalso.
    apply cg_mult in E as (m & Em).
    assert (Ed : i - k = (m + (x - a) / NZ) * NZ) by lia.
    set (d := m + (x - a) / NZ) in *. assert (- NZ < i - k < NZ) by (unfold k; lia).
    destruct (Z_lt_le_dec d 0); [nia|]. destruct (Z.eq_dec d 0); [subst d; nia | nia].
Qed.

(* the kernel folded onto the cycle: probability of ending in the class of k0 *)
Definition PC (md : nat) (i k0 : Z) : Q :=
  dist (transition Z zleap H L U A logu guard md i) (fun st => b2q (cg (p_cur st) k0)).

Notation W md k0 := (zr (k0 - pw (Datatypes.S md)) (2 * 2 ^ Datatypes.S md + 1)).

Lemma PC_unfold md i k0 :
  (PC md i k0 == qs (fun i' => b2q (cg i i') * PZ md i' k0) (W md k0))%Q.
Proof.
  unfold PC.
  rewrite (dist_partition _ (fun st => cg (p_cur st) k0) (fun st => i + k0 - p_cur st) (W md k0) (zr_NoDup _ _)).
  2:{ eapply all_out_impl; [| apply (transition_reach H L U A logu guard md i)].
      intros st Hr _. apply zr_In. unfold pw in *. lia. }
  apply qs_ext. intros i' _.
  destruct (cg i i') eqn:Ec; cbn [b2q].
  - apply cg_mult in Ec as (m & Em).
    rewrite Qmult_1_l. rewrite <- (PZ_shift md m i' k0). rewrite <- Em. unfold PZ.
    apply dist_ext. intros st. unfold cur_ind.
    destruct (i + k0 - p_cur st =? i') eqn:E1.
    + apply Z.eqb_eq in E1. replace (p_cur st =? k0 + m * NZ) with true by (symmetry; apply Z.eqb_eq; lia).
      rewrite (mult_cg (p_cur st) k0 m) by lia. reflexivity.
    + rewrite andb_false_r. replace (p_cur st =? k0 + m * NZ) with false by (symmetry; apply Z.eqb_neq; apply Z.eqb_neq in E1; lia).
      reflexivity.
  - rewrite Qmult_0_l. transitivity (dist (transition Z zleap H L U A logu guard md i) (fun _ => 0%Q)); [|apply dist_const].
    apply dist_ext. intros st.
    destruct (i + k0 - p_cur st =? i') eqn:E1; [|rewrite andb_false_r; reflexivity].
    apply Z.eqb_eq in E1. destruct (cg (p_cur st) k0) eqn:E2; [|reflexivity]. exfalso.
    apply cg_mult in E2 as (m & Em).
    rewrite (mult_cg i i' m) in Ec by lia. discriminate.
Qed.

(* INVARIANCE ON A CYCLE: the sum over the in-slice members i of ANY fundamental domain [a, a+N) of the probability
   of ending in the class of an in-slice k0 is 1 *)
Theorem zcycle_stationary md a k0 : sl k0 = true ->
  (qs (fun i => if sl i then PC md i k0 else 0) (zr a N) == 1)%Q.
Proof.
  intros Hk.
  rewrite (qs_ext _ (fun i => qs (fun i' => b2q (cg i i') * (if sl i' then PZ md i' k0 else 0)) (W md k0))%Q).
  2:{ intros i _. destruct (sl i) eqn:Es.
      - rewrite PC_unfold. apply qs_ext. intros i' _. destruct (cg i i') eqn:Ec; cbn [b2q]; [|ring].
        apply cg_mult in Ec as (m & Em). rewrite Em, sl_shift in Es. rewrite Es. reflexivity.
      - symmetry. apply qs_zero. intros i' _. destruct (cg i i') eqn:Ec; cbn [b2q]; [|ring].
        apply cg_mult in Ec as (m & Em). rewrite Em, sl_shift in Es. rewrite Es. ring. }
  rewrite (qs_swap (fun i i' => b2q (cg i i') * (if sl i' then PZ md i' k0 else 0))%Q (zr a N) (W md k0)).
  rewrite (qs_ext _ (fun i' => if sl i' then PZ md i' k0 else 0)%Q).
  2:{ intros i' _.
      rewrite (qs_ext _ (fun i => (if sl i' then PZ md i' k0 else 0) * b2q (cg i i'))%Q) by (intros; ring).
      rewrite qs_scale, residue_one. ring. }
  exact (orbit_stationary H L U A logu guard Hfin Hsl md k0 Hk).
Qed.
End Periodic.

(* ---------------- the same over any state space: a closed leapfrog orbit ---------------- *)
(* phi enumerates a closed orbit of N distinct states (eqb decides equality on it: phi i = phi j iff i = j mod N);
   the uniform distribution on the in-slice states of the cycle is invariant under the transition over S. *)
Theorem cycle_stationary (S : Type) (leap : bool -> S -> S) (ham lgd : S -> ext) (uturn : S -> S -> bool)
        (alpha : S -> Q) (logu : ext) (guard : bool) (phi : Z -> S) (N : nat) (eqb : S -> S -> bool) :
  (forall v i, leap v (phi i) = phi (zleap v i)) ->
  (0 < N)%nat ->
  (forall i, phi (i + Z.of_nat N) = phi i) ->
  (forall i j, eqb (phi i) (phi j) = ((i - j) mod Z.of_nat N =? 0)) ->
  guard = false \/ (forall i, finite_logd S lgd (phi i) = true) ->
  (forall i, in_slice S ham logu (phi i) = true -> not_diverged S ham logu (phi i) = true) ->
  forall (md : nat) (a k0 : Z), in_slice S ham logu (phi k0) = true ->
  (qs (fun i => if in_slice S ham logu (phi i)
                then dist (transition S leap ham lgd uturn alpha logu guard md (phi i))
                          (fun tp => b2q (eqb (p_cur tp) (phi k0)))
                else 0) (zr a N) == 1)%Q.
Proof.
  intros Hleap Npos Hper Heq Hfin Hsl md a k0 Hk.
  pose proof (zcycle_stationary (Hz S ham phi) (Lz S lgd phi) (Uz S uturn phi) (Az S alpha phi) logu guard N Npos) as Z0.
  specialize (Z0 (fun i => f_equal ham (Hper i)) (fun i => f_equal lgd (Hper i))
                 (fun x y => f_equal2 uturn (Hper x) (Hper y)) (fun i => f_equal alpha (Hper i))).
  assert (Hfin' : guard = false \/ (forall i, finite_logd Z (Lz S lgd phi) i = true))
    by (destruct Hfin as [Hf | Hf]; [left; exact Hf | right; intros i; apply Hf]).
  specialize (Z0 Hfin' (fun i => Hsl i) md a k0 Hk).
  rewrite <- Z0. apply qs_ext. intros i _.
  change (sl (Hz S ham phi) logu i) with (in_slice S ham logu (phi i)).
  destruct (in_slice S ham logu (phi i)); [|reflexivity].
  unfold PC.
  rewrite (transition_dist S leap ham lgd uturn alpha logu phi Hleap guard md i).
  apply dist_ext. intros st. unfold topmap. cbn [p_cur]. rewrite Heq. reflexivity.
Qed.
