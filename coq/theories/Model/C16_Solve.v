(* C16 -- executable model of cuqi/solver/_solver.py: CGLS, PCGLS, FISTA/ISTA, LM, the two
   projections, soft-thresholding, and the result translation of the SciPy wrappers.
   One generic section over a carrier with ring operations, a division and a decidable <=;
   it is instantiated at Qc (to run, bottom of this file) and at R (Proofs/C16_Prox.v, for the
   variational inequalities).  No proofs here.

   Conventions.  Vectors are lists, matrices lists of rows (Base/LinAlg.v).  LA.norm(v)**2 is
   modelled as the exact sum of squares; a test `LA.norm(u) <= c*LA.norm(v)` with c >= 0 is modelled
   by its square.  tol, abstol, gradtol are assumed >= 0 (documented domain). *)
From CV Require Import Base.Tac Base.LinAlg Base.Cmp Base.QcLin.
From Coq Require Import QArith Qcanon Qabs Qround.
From Coq Require String.

Section Solve.
Variable R : Type.
Variables (r0 r1 : R) (radd rmul rsub : R -> R -> R) (ropp : R -> R).
Variable rdiv : R -> R -> R.
Variable rleb : R -> R -> bool.          (* a <= b *)
Variable reps : R.                       (* np.finfo(float).eps *)

Local Notation "x + y" := (radd x y).
Local Notation "x * y" := (rmul x y).
Local Notation "x - y" := (rsub x y).
Local Notation "- x" := (ropp x).
Local Notation "x / y" := (rdiv x y).
Local Notation vec := (list R).
Local Notation mat := (list (list R)).
Local Notation Dot := (dot r0 radd rmul).
Local Notation Nsq := (normsq r0 radd rmul).
Local Notation Vadd := (vadd radd).
Local Notation Vsub := (vsub rsub).
Local Notation Vscale := (vscale rmul).

(* ---------------- scalars (numpy ufuncs) ---------------- *)
Definition req (a b : R) : bool := rleb a b && rleb b a.
Definition rltb (a b : R) : bool := negb (rleb b a).
Definition rmax (a b : R) : R := if rleb b a then a else b.        (* np.maximum *)
Definition rmin (a b : R) : R := if rleb a b then a else b.        (* np.minimum *)
Definition rabs (a : R) : R := if rleb r0 a then a else - a.       (* np.abs *)
Definition rsign (a : R) : R :=                                    (* np.sign *)
  if rleb a r0 then (if rleb r0 a then r0 else - r1) else r1.
Fixpoint rofnat (k : nat) : R := match k with O => r0 | S k' => rofnat k' + r1 end.

(* ---------------- projections and soft-thresholding ---------------- *)
(* ProximalL1(x, gamma) = sign(x) * maximum(|x| - gamma, 0) *)
Definition soft (gamma a : R) : R := rsign a * rmax (rabs a - gamma) r0.
Definition prox_l1 (x : vec) (gamma : R) : vec := map (soft gamma) x.

(* ProjectNonnegative(x) = maximum(x, 0) *)
Definition project_nonneg (x : vec) : vec := map (fun a => rmax a r0) x.

(* ProjectBox(x, lower, upper) = minimum(maximum(x, lower), upper); None -> zeros / ones;
   scalars are broadcast by numpy *)
Inductive bound := BNone | BScalar (c : R) | BVec (v : vec).
Definition expand_bound (dflt : R) (n : nat) (bd : bound) : vec :=
  match bd with BNone => repeat dflt n | BScalar c => repeat c n | BVec v => v end.
Definition clip (l u a : R) : R := rmin (rmax a l) u.
Fixpoint clip_vec (x lo up : vec) : vec :=
  match x, lo, up with
  | a :: x', l :: lo', u :: up' => clip l u a :: clip_vec x' lo' up'
  | _, _, _ => []
  end.
Definition project_box (x : vec) (lower upper : bound) : vec :=
  clip_vec x (expand_bound r0 (length x) lower) (expand_bound r1 (length x) upper).

(* ---------------- CGLS / PCGLS ---------------- *)
Section CG.
Variables (fwd adj : vec -> vec).        (* A(x,1) / A @ x   and   A(y,2) / A.T @ y *)
Variables (b : vec) (shift : R).

Record cg_state := mk_cg { cg_x : vec; cg_r : vec; cg_s : vec; cg_p : vec; cg_gamma : R }.

Definition cgls_init (x0 : vec) : cg_state :=
  let r := Vsub b (fwd x0) in
  let s := Vsub (adj r) (Vscale shift x0) in
  mk_cg x0 r s s (Nsq s).

(* delta_cgls, with `elif delta_cgls == 0: delta_cgls = eps` (the `< 0` branch only sets a flag
   that never reaches the caller: the ValueError objects are built but not raised) *)
Definition safe_delta (d : R) : R := if req d r0 then reps else d.

Definition cgls_step (st : cg_state) : cg_state :=
  let p := cg_p st in
  let q := fwd p in
  let alpha := cg_gamma st / safe_delta (Nsq q + shift * Nsq p) in
  let x := Vadd (cg_x st) (Vscale alpha p) in
  let r := Vsub (cg_r st) (Vscale alpha q) in
  let s := Vsub (adj r) (Vscale shift x) in
  let gamma := Nsq s in
  mk_cg x r s (Vadd s (Vscale (gamma / cg_gamma st) p)) gamma.

Fixpoint cgls_iter (k : nat) (st : cg_state) : cg_state :=
  match k with O => st | S k' => cgls_step (cgls_iter k' st) end.

(* flag = (norms <= norms0*tol) or (normx*tol >= 1) *)
Definition cg_stop (tol gamma0 : R) (st : cg_state) : bool :=
  rleb (cg_gamma st) (gamma0 * (tol * tol)) || rleb r1 (Nsq (cg_x st) * (tol * tol)).

Section Loop.
Variable step : cg_state -> cg_state.
Fixpoint cg_loop (fuel k : nat) (tol gamma0 : R) (st : cg_state) : vec * nat :=
  match fuel with
  | O => (cg_x st, k)
  | S f => let st' := step st in
           if cg_stop tol gamma0 st' then (cg_x st', S k) else cg_loop f (S k) tol gamma0 st'
  end.
End Loop.

(* CGLS(A, b, x0, maxit, tol, shift).solve() = (x, k) *)
Definition cgls_solve (x0 : vec) (maxit : nat) (tol : R) : vec * nat :=
  let st := cgls_init x0 in cg_loop cgls_step maxit 0 tol (cg_gamma st) st.

(* PCGLS: t = P^-1 p, q = A t, s = P^-T A^T r.  `shift` is stored by __init__ and never read. *)
Variables (pinv pinvT : vec -> vec).     (* _apply_Pinv(., 1) and _apply_Pinv(., 2) *)

Definition pcgls_init (x0 : vec) : cg_state :=
  let r := Vsub b (fwd x0) in
  let s := pinvT (adj r) in
  mk_cg x0 r s s (Nsq s).

Definition pcgls_step (st : cg_state) : cg_state :=
  let p := cg_p st in
  let t := pinv p in
  let q := fwd t in
  let alpha := cg_gamma st / safe_delta (Nsq q) in
  let x := Vadd (cg_x st) (Vscale alpha t) in
  let r := Vsub (cg_r st) (Vscale alpha q) in
  let s := pinvT (adj r) in
  let gamma := Nsq s in
  mk_cg x r s (Vadd s (Vscale (gamma / cg_gamma st) p)) gamma.

Fixpoint pcgls_iter (k : nat) (st : cg_state) : cg_state :=
  match k with O => st | S k' => pcgls_step (pcgls_iter k' st) end.

Definition pcgls_solve (shift_ignored : R) (x0 : vec) (maxit : nat) (tol : R) : vec * nat :=
  let st := pcgls_init x0 in cg_loop pcgls_step maxit 0 tol (cg_gamma st) st.
End CG.

(* ---------------- FISTA / ISTA ---------------- *)
Section Fista.
Variables (fwd adj : vec -> vec) (b : vec).
Variable prox : vec -> R -> vec.         (* proximal(x, gamma) *)
Variables (t abstol : R) (adaptive : bool).

Definition ls_grad (x : vec) : vec := adj (Vsub (fwd x) b).
(* the proximal-gradient map  x |-> proximal(x - t*grad, t) *)
Definition pg_map (x : vec) : vec := prox (Vsub x (Vscale t (ls_grad x))) t.

(* LA.norm(x_new - x_old) <= abstol *)
Definition fista_close (xn xo : vec) : bool :=
  rleb r0 abstol && rleb (Nsq (Vsub xn xo)) (abstol * abstol).

(* x_new + ((k-1)/(k+2)) * (x_new - x_old) *)
Definition fista_extrap (k : nat) (xn xo : vec) : vec :=
  if adaptive then Vadd xn (Vscale (rofnat (k - 1) / rofnat (k + 2)) (Vsub xn xo)) else xn.

(* rem = iterations still allowed after this one; k = iterations done so far *)
Fixpoint fista_loop (rem k : nat) (x : vec) : vec * nat :=
  let k' := S k in
  let xn := pg_map x in
  match rem with
  | O => (xn, k')
  | S rem' => if fista_close xn x then (xn, k') else fista_loop rem' k' (fista_extrap k' xn x)
  end.

(* `while True: ... if close or k >= maxit: return` : at least one iteration even for maxit <= 1 *)
Definition fista_solve (x0 : vec) (maxit : nat) : vec * nat := fista_loop (maxit - 1) 0 x0.
End Fista.

(* ---------------- Levenberg-Marquardt ---------------- *)
Section LMs.
Variables (F : vec -> vec) (Jf : vec -> mat).    (* A(x), jacfun(x) *)
Variable solve : mat -> vec -> vec.              (* LA.solve / spsolve : oracle *)
Variable rnorm : vec -> R.                       (* LA.norm : oracle *)
Variable n : nat.
Variables (nu0 gradtol : R).

Record lm_state := mk_lm { lm_x : vec; lm_r : vec; lm_J : mat; lm_f : R; lm_nu : R; lm_g : vec; lm_ng : R }.

Definition rtwo : R := r1 + r1.
Definition rhalf : R := r1 / rtwo.
Definition half_sq (r : vec) : R := rhalf * Dot r r.
(* J.T @ J + nu * I *)
Definition add_diag (nu : R) (M : mat) : mat :=
  map (fun ir => Vadd (snd ir) (Vscale nu (unit_vec r0 r1 n (fst ir)))) (combine (seq 0 (length M)) M).
Definition lm_matrix (J : mat) (nu : R) : mat :=
  add_diag nu (matmul r0 radd rmul n (transpose r0 n J) J).

Definition lm_init (x0 : vec) : lm_state :=
  let r := F x0 in let J := Jf x0 in
  let g := mattvec r0 radd rmul n J r in
  let ng := rnorm g in
  mk_lm x0 r J (half_sq r) ng g ng.

Definition lm_ratio (f ftemp : R) (x xtemp g : vec) : R :=
  let num := f - ftemp in
  let den := Dot (Vsub xtemp x) g in
  if negb (req num r0) && negb (req den r0) then (- rtwo) * (num / den) else r0.

Definition quarter : R := r1 / (rtwo + rtwo).
Definition three_quarters : R := (rtwo + r1) / (rtwo + rtwo).

Definition lm_step (st : lm_state) : lm_state :=
  let x := lm_x st in let nu := lm_nu st in
  let s := solve (lm_matrix (lm_J st) nu) (lm_g st) in
  let xtemp := Vsub x s in
  let rtemp := F xtemp in
  let Jtemp := Jf xtemp in
  let ftemp := half_sq rtemp in
  let ratio := lm_ratio (lm_f st) ftemp x xtemp (lm_g st) in
  let '(x', r', J', f', nu') :=
    if rltb ratio r0 then (x, lm_r st, lm_J st, lm_f st, rmax (rtwo * nu) nu0)
    else (xtemp, rtemp, Jtemp, ftemp,
          if rltb ratio quarter then rmax (rtwo * nu) nu0
          else if rltb three_quarters ratio then
                 (let nu2 := rhalf * nu in if rltb nu2 nu0 then r0 else nu2)
               else nu) in
  let g := mattvec r0 radd rmul n J' r' in
  mk_lm x' r' J' f' nu' g (rnorm g).

(* while (ng/ng0) > gradtol and i < maxit   (ng0 = 0 gives nan > gradtol = False) *)
Definition lm_continue (ng0 : R) (st : lm_state) : bool :=
  negb (req ng0 r0) && rltb gradtol (lm_ng st / ng0).

Fixpoint lm_loop (fuel i : nat) (ng0 : R) (st : lm_state) : lm_state * nat :=
  match fuel with
  | O => (st, i)
  | S f => if lm_continue ng0 st then lm_loop f (S i) ng0 (lm_step st) else (st, i)
  end.

Definition lm_solve (x0 : vec) (maxit : nat) : lm_state * nat :=
  let st := lm_init x0 in lm_loop maxit 0 (lm_ng st) st.

Fixpoint lm_iter (k : nat) (st : lm_state) : lm_state :=
  match k with O => st | S k' => lm_step (lm_iter k' st) end.
End LMs.

End Solve.

(* ---------------- result translation of the SciPy wrappers ---------------- *)
Notation string := String.string.

(* what scipy.optimize.minimize hands back (the fields the wrappers read) *)
Record sp_result := mk_sp { sp_x : list Q; sp_fun : Q; sp_jac : option (list Q); sp_nit : Z; sp_nfev : Z;
                            sp_success : bool; sp_message : string }.
(* (solution, info) of minimize / maximize *)
Record wr_info := mk_info { in_success : bool; in_message : string; in_func : Q; in_grad : option (list Q);
                            in_nit : Z; in_nfev : Z }.

(* minimize.solve: info = {success, message, func: solution['fun'], grad: solution['jac'], nit, nfev}.
   `solution['jac']` raises KeyError when SciPy's result carries no Jacobian (the derivative-free
   methods Nelder-Mead / Powell / COBYLA that the docstring lists): None = the call raises. *)
Definition minimize_translate (s : sp_result) : option (list Q * wr_info) :=
  match sp_jac s with
  | None => None
  | Some j => Some (sp_x s, mk_info (sp_success s) (sp_message s) (sp_fun s) (Some j) (sp_nit s) (sp_nfev s))
  end.
(* the repaired translation (fixes/C16_minimize_nojac.diff: solution.get('jac')) *)
Definition minimize_translate_get (s : sp_result) : list Q * wr_info :=
  (sp_x s, mk_info (sp_success s) (sp_message s) (sp_fun s) (sp_jac s) (sp_nit s) (sp_nfev s)).

(* the repaired maximize.solve (fixes/C16_maximize_info_sign.diff): "func" and "grad" of the info are
   negated back so that they refer to the maximised function *)
Definition maximize_translate_fixed (s : sp_result) : list Q * wr_info :=
  (sp_x s, mk_info (sp_success s) (sp_message s) (- sp_fun s)%Q (option_map (map Qopp) (sp_jac s)) (sp_nit s) (sp_nfev s)).

(* maximize(func, x0, gradfunc) = minimize(-func, x0, -gradfunc): the optimiser is an oracle that is
   handed the negated objective; the info it returns is passed on untouched (so "func"/"grad"
   are those of the NEGATED objective: faithful to the code) *)
Section Maximize.
Variable X : Type.
Variable optimiser : (X -> Q) -> option (X -> list Q) -> X -> X * Q.   (* returns argmin and value *)
Definition neg_fun (f : X -> Q) : X -> Q := fun x => (- f x)%Q.
Definition neg_grad (g : X -> list Q) : X -> list Q := fun x => map Qopp (g x).
Definition minimize_solve (f : X -> Q) (g : option (X -> list Q)) (x0 : X) : X * Q := optimiser f g x0.
Definition maximize_solve (f : X -> Q) (g : option (X -> list Q)) (x0 : X) : X * Q :=
  minimize_solve (neg_fun f) (option_map neg_grad g) x0.
(* repaired: the reported value is negated back *)
Definition maximize_solve_fixed (f : X -> Q) (g : option (X -> list Q)) (x0 : X) : X * Q :=
  let '(x, v) := maximize_solve f g x0 in (x, (- v)%Q).
End Maximize.

(* L_BFGS_B: warnflag -> (success, message) *)
Import String.StringSyntax.
Open Scope string_scope.
Definition lbfgsb_status (warnflag : Z) (task : string) : Z * string :=
  if (warnflag =? 0)%Z then (1%Z, "Optimization terminated successfully.")
  else if (warnflag =? 1)%Z then (0%Z, "Terminated due to too many function evaluations or too many iterations.")
  else (0%Z, task).
Close Scope string_scope.

(* ---------------- argument / option translation of the wrappers: the call SciPy receives ---------------- *)
(* L_BFGS_B.solve: fmin_l_bfgs_b(func, x0, fprime = gradfunc, approx_grad = (1 if gradfunc is None else 0), **kwargs):
   every documented keyword (m, factr, pgtol, epsilon, iprint, maxfun, maxiter, disp, maxls, bounds, callback, args) is handed on
   under its own name with its own value; nothing is renamed, rescaled or defaulted *)
Record lb_call := mk_lb { lb_fprime_given : bool; lb_approx_grad : Z; lb_options : list (string * Q) }.
Definition lbfgsb_call (grad_given : bool) (kwargs : list (string * Q)) : lb_call :=
  mk_lb grad_given (if grad_given then 0%Z else 1%Z) kwargs.
(* LS.solve: least_squares(func, x0, jac = jacfun, method = method, loss = loss, xtol = tol, max_nfev = int(maxit));
   ftol, gtol and every other option keep SciPy's defaults (none is passed) *)
Record ls_call := mk_lsc { lsc_method : string; lsc_loss : string; lsc_options : list (string * Q) }.
Import String.StringSyntax.
Open Scope string_scope.
Definition ls_translate (method loss : string) (tol maxit : Q) : ls_call :=
  mk_lsc method loss [("max_nfev", inject_Z (Qfloor maxit)); ("xtol", tol)].
Definition ls_option_names : list string := ["max_nfev"; "xtol"].
Close Scope string_scope.
(* minimize.solve / maximize.solve: opt.minimize(func, x0, jac = gradfunc, method = method, **kwargs) *)
Record mz_call := mk_mz { mz_method : option string; mz_jac_given : bool; mz_options : list (string * Q) }.
Definition minimize_call (method : option string) (grad_given : bool) (kwargs : list (string * Q)) : mz_call := mk_mz method grad_given kwargs.

Definition opt_eqb_list (a b : list (string * Q)) : bool :=
  list_eqb (fun u v => String.eqb (fst u) (fst v) && Qeq_bool (snd u) (snd v)) a b.
(* the recorded call (options sorted by name by the harness, numeric ones) equals the model's *)
Definition check_lbfgsb_call (grad_given : bool) (kwargs : list (string * Q)) (obs_fprime : bool) (obs_approx : Z) (obs_opts : list (string * Q)) : bool :=
  let c := lbfgsb_call grad_given kwargs in
  Bool.eqb (lb_fprime_given c) obs_fprime && Z.eqb (lb_approx_grad c) obs_approx && opt_eqb_list (lb_options c) obs_opts.
Definition check_ls_call (method loss : string) (tol maxit : Q) (obs_method obs_loss : string) (obs_opts : list (string * Q)) : bool :=
  let c := ls_translate method loss tol maxit in
  String.eqb (lsc_method c) obs_method && String.eqb (lsc_loss c) obs_loss && opt_eqb_list (lsc_options c) obs_opts.
Definition check_minimize_call (method : option string) (grad_given : bool) (kwargs : list (string * Q))
           (obs_method : option string) (obs_jac : bool) (obs_opts : list (string * Q)) : bool :=
  let c := minimize_call method grad_given kwargs in
  opt_eqb String.eqb (mz_method c) obs_method && Bool.eqb (mz_jac_given c) obs_jac && opt_eqb_list (mz_options c) obs_opts.

(* ================= instance at Qc and the comparison functions of the harness ================= *)
Definition qc_leb (a b : Qc) : bool := Qle_bool (this a) (this b).
Definition qc_eps : Qc := qc (1 # 4503599627370496).      (* 2^-52 *)

Definition q_prox_l1 := prox_l1 Qc 0%Qc 1%Qc Qcmult Qcminus Qcopp qc_leb.
Definition q_project_nonneg := project_nonneg Qc 0%Qc qc_leb.
Definition q_project_box := project_box Qc 0%Qc 1%Qc qc_leb.
Definition q_bound := bound Qc.

Definition q_cgls_init := cgls_init Qc 0%Qc Qcplus Qcmult Qcminus.
Definition q_cgls_step := cgls_step Qc 0%Qc Qcplus Qcmult Qcminus Qcdiv qc_leb qc_eps.
Definition q_cgls_solve := cgls_solve Qc 0%Qc 1%Qc Qcplus Qcmult Qcminus Qcdiv qc_leb qc_eps.
Definition q_pcgls_init := pcgls_init Qc 0%Qc Qcplus Qcmult Qcminus.
Definition q_pcgls_step := pcgls_step Qc 0%Qc Qcplus Qcmult Qcminus Qcdiv qc_leb qc_eps.
Definition q_pcgls_solve := pcgls_solve Qc 0%Qc 1%Qc Qcplus Qcmult Qcminus Qcdiv qc_leb qc_eps.
Definition q_fista_solve := fista_solve Qc 0%Qc 1%Qc Qcplus Qcmult Qcminus Qcdiv qc_leb.
Definition q_pg_map := pg_map Qc Qcmult Qcminus.
Definition q_cg_state := cg_state Qc.

Definition qb (o : option (list Q)) : q_bound :=
  match o with None => BNone Qc | Some [c] => BScalar Qc (qc c) | Some v => BVec Qc (qvec v) end.
(* bounds as the harness writes them: None | scalar | vector *)
Inductive hbound := HNone | HScalar (c : Q) | HVec (v : list Q).
Definition hb (h : hbound) : q_bound :=
  match h with HNone => BNone Qc | HScalar c => BScalar Qc (qc c) | HVec v => BVec Qc (qvec v) end.

(* the proximal callables the harness passes to FISTA (the forms RegularizedGaussian builds) *)
Inductive proxk := PxL1 (strength : Q) | PxNonneg | PxBox (lo up : hbound).
Definition q_prox (pk : proxk) (x : list Qc) (gamma : Qc) : list Qc :=
  match pk with
  | PxL1 s => q_prox_l1 x (gamma * qc s)%Qc
  | PxNonneg => q_project_nonneg x
  | PxBox lo up => q_project_box x (hb lo) (hb up)
  end.

(* --- exact comparisons of the projections / soft-thresholding (dyadic data) --- *)
Definition check_prox_l1 (x : list Q) (gamma : Q) (obs : list Q) : bool :=
  qcl_eqb (q_prox_l1 (qvec x) (qc gamma)) (qvec obs).
Definition check_project_nonneg (x obs : list Q) : bool :=
  qcl_eqb (q_project_nonneg (qvec x)) (qvec obs).
Definition check_project_box (x : list Q) (lo up : hbound) (obs : list Q) : bool :=
  qcl_eqb (q_project_box (qvec x) (hb lo) (hb up)) (qvec obs).

(* --- CGLS: iterates x_0 .. x_K (observed by running with maxit = 0..K, tol = 0) --- *)
(* Float CG loses orthogonality: the deviation of the float iterates from the exact ones grows by a factor
   ~cond^(3/4) per iteration (observed 4e-16, 1e-13, 8e-11, 2e-6 on a cond 2e4 problem).  Iterates 0..2 -- which
   already exercise every formula of the recurrences, including beta -- are compared tightly (`base`); later ones only
   grossly (1e-3); the end result is checked by the solve cases through the exact optimality certificate. *)
Definition iter_tol (base : Q) (j : nat) : Q := if Nat.leb j 2 then base else (1 # 1000).
Fixpoint check_iterates_from (j : nat) (step : q_cg_state -> q_cg_state) (base : Q) (st : q_cg_state) (obs : list (list Q)) : bool :=
  match obs with
  | [] => true
  | o :: rest => qcl_close (iter_tol base j) (qvec o) (cg_x Qc st) &&
                 match rest with [] => true | _ => check_iterates_from (S j) step base (step st) rest end
  end.
Definition check_iterates (step : q_cg_state -> q_cg_state) (base : Q) (st : q_cg_state) (obs : list (list Q)) : bool :=
  check_iterates_from 0 step base st obs.

Definition check_cgls_iters (n : nat) (A : list (list Q)) (b x0 : list Q) (shift : Q) (obs : list (list Q)) : bool :=
  let Am := qmat A in
  let fwd := qmatvec Am in let adj := qmattvec n Am in
  check_iterates (q_cgls_step fwd adj (qc shift)) tol9 (q_cgls_init fwd adj (qvec b) (qc shift) (qvec x0)) obs.

(* residual of the shifted normal equations at an observed point, exactly *)
Definition ne_residual (n : nat) (A : list (list Qc)) (b : list Qc) (shift : Qc) (x : list Qc) : list Qc :=
  qvsub (qmattvec n A (qvsub b (qmatvec A x))) (qvscale shift x).

Definition qcsq (a : Qc) : Qc := (a * a)%Qc.
Definition slack : Qc := qc (1001 # 1000).

(* one-step margin: the stopping comparison is closer than 1e-6 relative (a float run may
   legitimately decide differently there) *)
Definition cg_margin (tol gamma0 : Qc) (st : q_cg_state) : bool :=
  let g := cg_gamma Qc st in let thr := (gamma0 * (tol * tol))%Qc in
  q_close tol6 (this g) (this thr) && Qle_bool (Qabs (this g - this thr)) ((1 # 1000000) * Qabs (this thr))
  || (let nx := (qnormsq (cg_x Qc st) * (tol * tol))%Qc in Qle_bool (Qabs (this nx - 1)) (1 # 1000000)).

(* run to the stopping rule.  The observed point must satisfy the optimality certificate whenever the float run
   stopped by its residual clause (`cert`): the shifted normal equations hold to tol * |s_0| on the observed rationals
   (`certok`, evaluated exactly and independently of the recurrences).  In addition the run is compared with the
   exact-arithmetic run of the model: same iteration count and the same point up to what the tolerance of the solve
   leaves open (max(1e-6, 1000 tol)); the counts may differ only when the stopping comparison is within 1e-6 of
   equality (cg_margin), or by ONE iteration between two runs that both converged (float CG near convergence:
   loss of orthogonality) provided the certificate holds on the observed point. *)
Definition qmaxq (a b : Q) : Q := if Qle_bool a b then b else a.
Definition nat_absdiff (a b : nat) : nat := (a - b) + (b - a).
Definition check_cg_result (res : list Qc * nat) (iter : nat -> q_cg_state) (tol gamma0 : Qc)
           (obs_x : list Q) (obs_k : nat) (cert certok : bool) (maxit : nat) : bool :=
  let '(mx, mk) := res in
  if Nat.eqb mk obs_k then qcl_close (qmaxq tol6 ((1000 # 1) * this tol)) (qvec obs_x) mx
  else if cg_margin tol gamma0 (iter (Nat.min mk obs_k)) then true
  else cert && certok && Nat.ltb mk maxit && Nat.leb (nat_absdiff mk obs_k) 1.

Definition check_cgls_solve (n : nat) (A : list (list Q)) (b x0 : list Q) (shift : Q) (maxit : nat) (tol : Q)
           (obs_x : list Q) (obs_k : nat) (cert : bool) : bool :=
  let Am := qmat A in
  let fwd := qmatvec Am in let adj := qmattvec n Am in
  let st0 := q_cgls_init fwd adj (qvec b) (qc shift) (qvec x0) in
  let g0 := cg_gamma Qc st0 in
  let certok := qc_leb (qnormsq (ne_residual n Am (qvec b) (qc shift) (qvec obs_x))) (g0 * qcsq (qc tol * slack))%Qc in
  check_cg_result (q_cgls_solve fwd adj (qvec b) (qc shift) (qvec x0) maxit (qc tol))
                  (fun k => cgls_iter Qc 0%Qc Qcplus Qcmult Qcminus Qcdiv qc_leb qc_eps fwd adj (qc shift) k st0)
                  (qc tol) g0 obs_x obs_k cert certok maxit
  && (negb cert || certok).

(* --- PCGLS: P and its exact inverse are supplied; the model checks P * Pinv = I first --- *)
Definition is_inverse (n : nat) (P Pinv : list (list Qc)) : bool :=
  qcll_eqb (qmatmul n P Pinv) (map (qunit n) (seq 0 n)) && Nat.eqb (length P) n && Nat.eqb (length Pinv) n.

Definition check_pcgls_iters (n : nat) (A : list (list Q)) (b x0 : list Q) (P Pinv : list (list Q)) (obs : list (list Q)) : bool :=
  let Am := qmat A in let Pi := qmat Pinv in
  let fwd := qmatvec Am in let adj := qmattvec n Am in
  let pinv := qmatvec Pi in let pinvT := qmattvec n Pi in
  is_inverse n (qmat P) Pi &&
  (* 1e-6: the preconditioner may worsen the conditioning (cond(P) <= 50, so cond(P^-T A^T A P^-1) up to ~1e7);
     the float iterates at k ~ n then carry relative errors up to ~1e-9 *)
  check_iterates (q_pcgls_step fwd adj pinv pinvT) tol6 (q_pcgls_init fwd adj (qvec b) pinvT (qvec x0)) obs.

Definition check_pcgls_solve (n : nat) (A : list (list Q)) (b x0 : list Q) (P Pinv : list (list Q)) (shift : Q)
           (maxit : nat) (tol : Q) (obs_x : list Q) (obs_k : nat) (cert : bool) : bool :=
  let Am := qmat A in let Pi := qmat Pinv in
  let fwd := qmatvec Am in let adj := qmattvec n Am in
  let pinv := qmatvec Pi in let pinvT := qmattvec n Pi in
  let st0 := q_pcgls_init fwd adj (qvec b) pinvT (qvec x0) in
  let g0 := cg_gamma Qc st0 in
  (* preconditioned normal equations  P^-T A^T (b - A x) ; the shift does not enter (faithful) *)
  let certok := qc_leb (qnormsq (pinvT (qmattvec n Am (qvsub (qvec b) (qmatvec Am (qvec obs_x)))))) (g0 * qcsq (qc tol * slack))%Qc in
  is_inverse n (qmat P) Pi &&
  check_cg_result (q_pcgls_solve fwd adj (qvec b) pinv pinvT (qc shift) (qvec x0) maxit (qc tol))
                  (fun k => pcgls_iter Qc 0%Qc Qcplus Qcmult Qcminus Qcdiv qc_leb qc_eps fwd adj pinv pinvT k st0)
                  (qc tol) g0 obs_x obs_k cert certok maxit
  && (negb cert || certok).

(* --- FISTA / ISTA: (x, k) returned for maxit = 1..K --- *)
Definition check_fista_runs (n : nat) (A : list (list Q)) (b x0 : list Q) (pk : proxk) (t abstol : Q) (adaptive : bool)
           (obs : list (nat * (list Q * nat))) : bool :=
  let Am := qmat A in
  let fwd := qmatvec Am in let adj := qmattvec n Am in
  (* the float run may meet `|x_new - x_old| <= abstol` by rounding (e.g. x_new == x_old exactly with abstol = 0) one or
     more iterations before exact arithmetic does: the observed (x, k) must match the exact run with abstol or with
     abstol + 1e-9 *)
  forallb (fun o => let '(maxit, (ox, ok)) := o in
                    let agrees (a : Q) :=
                      let '(mx, mk) := q_fista_solve fwd adj (qvec b) (q_prox pk) (qc t) (qc a) adaptive (qvec x0) maxit in
                      Nat.eqb mk ok && qcl_close tol9 (qvec ox) mx in
                    if agrees abstol then true else agrees (abstol + (1 # 1000000000))) obs.

(* optimality certificate of a converged run: the observed point is an (almost) fixed point of the
   model's proximal-gradient map, |T(x) - x| <= bound, evaluated exactly *)
Definition check_fista_cert (n : nat) (A : list (list Q)) (b : list Q) (pk : proxk) (t : Q) (obs_x : list Q) (bound : Q) : bool :=
  let Am := qmat A in
  let fwd := qmatvec Am in let adj := qmattvec n Am in
  let x := qvec obs_x in
  qc_leb (qnormsq (qvsub (q_pg_map fwd adj (qvec b) (q_prox pk) (qc t) x) x)) (qcsq (qc bound)).

(* --- LM with one unknown (n = 1): LA.norm is |.|, LA.solve is a division --- *)
Definition q_norm1 (v : list Qc) : Qc := match v with [a] => if qc_leb 0%Qc a then a else (- a)%Qc | _ => 0%Qc end.
Definition q_solve1 (M : list (list Qc)) (g : list Qc) : list Qc :=
  match M, g with [[a]], [c] => [(c / a)%Qc] | _, _ => [] end.
(* residuals r_i(x) = a_i x^2 + b_i x + c_i  (one unknown) *)
Definition quadF (co : list (Qc * Qc * Qc)) (x : list Qc) : list Qc :=
  match x with [v] => map (fun abc => let '(a, b, c) := abc in (a * v * v + b * v + c)%Qc) co | _ => [] end.
Definition quadJ (co : list (Qc * Qc * Qc)) (x : list Qc) : list (list Qc) :=
  match x with [v] => map (fun abc => let '(a, b, c) := abc in [((1 + 1) * a * v + b)%Qc]) co | _ => [] end.
Definition q_lm_state := lm_state Qc.
Definition q_lm_init co := lm_init Qc 0%Qc 1%Qc Qcplus Qcmult Qcdiv (quadF co) (quadJ co) q_norm1 1.
Definition q_lm_step co nu0 := lm_step Qc 0%Qc 1%Qc Qcplus Qcmult Qcminus Qcopp Qcdiv qc_leb (quadF co) (quadJ co) q_solve1 q_norm1 1 nu0.
Definition q_lm_solve co nu0 gradtol :=
  lm_solve Qc 0%Qc 1%Qc Qcplus Qcmult Qcminus Qcopp Qcdiv qc_leb (quadF co) (quadJ co) q_solve1 q_norm1 1 nu0 gradtol.

Definition qco (co : list (Q * Q * Q)) := map (fun abc => let '(a, b, c) := abc in (qc a, qc b, qc c)) co.

(* x after maxit = 0..K iterations (gradtol = 0 keeps the loop going) *)
Fixpoint check_lm_states (step : q_lm_state -> q_lm_state) (st : q_lm_state) (obs : list (list Q)) : bool :=
  match obs with
  | [] => true
  | o :: rest => qcl_close tol9 (qvec o) (lm_x Qc st) &&
                 match rest with [] => true | _ => check_lm_states step (step st) rest end
  end.
Definition check_lm_iters (co : list (Q * Q * Q)) (x0 : Q) (nu0 : Q) (obs : list (list Q)) : bool :=
  check_lm_states (q_lm_step (qco co) (qc nu0)) (q_lm_init (qco co) [qc x0]) obs.

(* --- LM: step-by-step trace of (x_i, J^T J + nu_i I, nu_i == 0) over arbitrarily many iterations ---
   One-step correspondence from the OBSERVED point: the model is re-started at every observed x_i (exact rational of the
   float) with its own nu_i (nu takes only the values |g_0| 2^k, nu0 2^k and 0, which are exact in floating point), so no
   rational blow-up and no drift; it must reproduce the matrix handed to the linear solver, whether nu is zero, and the
   next point x_{i+1}.  When a branch decision of the step is within rounding of flipping (the gain ratio within 1e-6 of
   0, 1/4, 3/4; f - ftemp in the cancellation regime |num| <= 1e-9 |f|; the user's residual
   polynomial itself evaluated with >= 6 digits of cancellation at the current or the trial point) the float run may
   legitimately take the other branch and the comparison of this trace ends there. *)
Definition q_half_sq := half_sq Qc 0%Qc 1%Qc Qcplus Qcmult Qcdiv.
Definition q_lm_state_at (co : list (Qc * Qc * Qc)) (x nu : Qc) : q_lm_state :=
  let xv := [x] in let r := quadF co xv in let J := quadJ co xv in
  let g := qmattvec 1 J r in
  mk_lm Qc xv r J (q_half_sq r) nu g (q_norm1 g).
Definition q_near (a : Qc) (c : Q) (eps : Q) : bool := Qle_bool (Qabs (this a - c)) eps.
Definition q_lm_matrix (st : q_lm_state) : list (list Qc) := lm_matrix Qc 0%Qc 1%Qc Qcplus Qcmult 1 (lm_J Qc st) (lm_nu Qc st).
(* the float evaluation of a residual a x^2 + b x + c (the USER's function, not LM) loses >= 6 digits by cancellation *)
Definition quad_cancels (co : list (Qc * Qc * Qc)) (x : list Qc) : bool :=
  match x with
  | [v] => existsb (fun abc => let '(a, b, c) := abc in
                      let S := (Qabs (this (a * v * v)%Qc) + Qabs (this (b * v)%Qc) + Qabs (this c))%Q in
                      negb (Qle_bool S 0) && Qle_bool (Qabs (this (a * v * v + b * v + c)%Qc)) ((1 # 1000000) * S)) co
  | _ => false
  end.
Definition lm_undecidable (co : list (Qc * Qc * Qc)) (nu0 : Qc) (st : q_lm_state) : bool :=
  let x := lm_x Qc st in let nu := lm_nu Qc st in
  let s := q_solve1 (q_lm_matrix st) (lm_g Qc st) in
  let xtemp := qvsub x s in
  let ftemp := q_half_sq (quadF co xtemp) in
  let num := (lm_f Qc st - ftemp)%Qc in
  let ratio := lm_ratio Qc 0%Qc 1%Qc Qcplus Qcmult Qcminus Qcopp Qcdiv qc_leb (lm_f Qc st) ftemp x xtemp (lm_g Qc st) in
  quad_cancels co x || quad_cancels co xtemp
  || Qle_bool (Qabs (this num)) ((1 # 1000000000) * Qabs (this (lm_f Qc st)))
  || q_near ratio 0 (1 # 1000000) || q_near ratio (1 # 4) (1 # 1000000) || q_near ratio (3 # 4) (1 # 1000000).
  (* no margin on `nu/2 < nu0`: nu only takes the values |g0| 2^k, nu0 2^k, 0, exact in floating point, so that comparison
     is decided identically by the float run -- including the boundary nu/2 == nu0 (corpus cell nu-halves-onto-nu0) *)
Definition m11 (M : list (list Qc)) : Qc := match M with [[a]] => a | _ => 0%Qc end.
Fixpoint check_lm_trace (co : list (Qc * Qc * Qc)) (nu0 nu : Qc) (xs : list Q) (Ms : list (Q * bool)) : bool :=
  match xs with
  | [] => true
  | x :: rest =>
      match rest, Ms with
      | x' :: _, (M, z) :: Ms' =>
          let st := q_lm_state_at co (qc x) nu in
          let Mm := m11 (q_lm_matrix st) in
          qc_close tol9 (qc M) Mm &&
          (* `nu == 0` as observed (the matrix equals the float J^T J bit for bit); not decidable from the matrix when
             a non-zero nu is below the rounding of J^T J *)
          (Bool.eqb z (qc_eqb nu 0%Qc) || (negb (qc_eqb nu 0%Qc) && Qle_bool (this nu) ((1 # 1000000000000) * Qabs (this Mm)))) &&
          (if lm_undecidable co nu0 st then true
           else let st' := q_lm_step co nu0 st in
                qcl_close tol9 (qvec [x']) (lm_x Qc st') && check_lm_trace co nu0 (lm_nu Qc st') rest Ms')
      | _, _ => true
      end
  end.
Definition check_lm_trace_run (co : list (Q * Q * Q)) (x0 nu0 : Q) (xs : list Q) (Ms : list (Q * bool)) : bool :=
  let c := qco co in
  match xs with
  | x :: _ => Qeq_bool x x0 && check_lm_trace c (qc nu0) (lm_nu Qc (q_lm_init c [qc x0])) xs Ms
  | [] => false
  end.

(* --- LM with two unknowns: the residual family of the harness (lm2_funcs), LA.solve by Cramer's rule, and the same one-step
   trace correspondence as for one unknown.  LA.norm enters LM only through nu_0 = |g_0| (irrational in general): the harness
   supplies the float ng0 as a CERTIFICATE and the model checks ng0^2 = |g_0|^2 to 1e-9 before using it; every later nu is
   ng0 2^k, nu0 2^k or 0 (exact). *)
Definition q_lm2F (p : Qc * Qc * Qc * Qc * Qc) (x : list Qc) : list Qc :=
  let '(sg, a, b, c, d) := p in
  match x with [x0; x1] => [sg * (a * (x1 - x0 * x0)); sg * (b - x0); sg * (c * x0 * x1 - d)]%Qc | _ => [] end.
Definition q_lm2J (p : Qc * Qc * Qc * Qc * Qc) (x : list Qc) : list (list Qc) :=
  let '(sg, a, b, c, d) := p in
  match x with [x0; x1] => [[sg * (- (1 + 1) * a * x0); sg * a]; [sg * - (1); sg * 0]; [sg * (c * x1); sg * (c * x0)]]%Qc | _ => [] end.
Definition q_solve2 (M : list (list Qc)) (g : list Qc) : list Qc :=
  match M, g with
  | [[m11; m12]; [m21; m22]], [g1; g2] =>
      let det := (m11 * m22 - m12 * m21)%Qc in
      [((g1 * m22 - m12 * g2) / det)%Qc; ((m11 * g2 - m21 * g1) / det)%Qc]
  | _, _ => []
  end.
Definition q_norm_unused (v : list Qc) : Qc := 0%Qc.      (* LA.norm inside a step only fills a field no decision of the step reads *)
Definition q_lm_step2 p nu0 := lm_step Qc 0%Qc 1%Qc Qcplus Qcmult Qcminus Qcopp Qcdiv qc_leb (q_lm2F p) (q_lm2J p) q_solve2 q_norm_unused 2 nu0.
Definition q_lm_state_at2 (p : Qc * Qc * Qc * Qc * Qc) (x : list Qc) (nu : Qc) : q_lm_state :=
  let r := q_lm2F p x in let J := q_lm2J p x in
  let g := qmattvec 2 J r in
  mk_lm Qc x r J (q_half_sq r) nu g 0%Qc.
Definition q_lm_matrix2 (st : q_lm_state) : list (list Qc) := lm_matrix Qc 0%Qc 1%Qc Qcplus Qcmult 2 (lm_J Qc st) (lm_nu Qc st).
Definition lm2_cancels (p : Qc * Qc * Qc * Qc * Qc) (x : list Qc) : bool :=
  let '(sg, a, b, c, d) := p in
  match x with
  | [x0; x1] =>
      let small (r S : Qc) := negb (Qle_bool (this S) 0) && Qle_bool (Qabs (this r)) ((1 # 1000000) * this S) in
      let ab (q : Qc) : Qc := Q2Qc (Qabs (this q)) in
      small (x1 - x0 * x0)%Qc (ab x1 + ab (x0 * x0))%Qc || small (b - x0)%Qc (ab b + ab x0)%Qc
      || small (c * x0 * x1 - d)%Qc (ab (c * x0 * x1) + ab d)%Qc
  | _ => false
  end.
Definition lm_undecidable2 (p : Qc * Qc * Qc * Qc * Qc) (nu0 : Qc) (st : q_lm_state) : bool :=
  let x := lm_x Qc st in
  let s := q_solve2 (q_lm_matrix2 st) (lm_g Qc st) in
  let xtemp := qvsub x s in
  let ftemp := q_half_sq (q_lm2F p xtemp) in
  let num := (lm_f Qc st - ftemp)%Qc in
  let ratio := lm_ratio Qc 0%Qc 1%Qc Qcplus Qcmult Qcminus Qcopp Qcdiv qc_leb (lm_f Qc st) ftemp x xtemp (lm_g Qc st) in
  lm2_cancels p x || lm2_cancels p xtemp
  || Qle_bool (Qabs (this num)) ((1 # 1000000000) * Qabs (this (lm_f Qc st)))
  || q_near ratio 0 (1 # 1000000) || q_near ratio (1 # 4) (1 # 1000000) || q_near ratio (3 # 4) (1 # 1000000).
Definition diag2 (M : list (list Qc)) : Qc * Qc * Qc := match M with [[a; b]; [_; d]] => (a, b, d) | _ => (0, 0, 0)%Qc end.
(* observed per iteration: (M11, M12, M22) of the matrix handed to LA.solve and the flag `nu == 0` *)
Fixpoint check_lm_trace2 (p : Qc * Qc * Qc * Qc * Qc) (nu0 nu : Qc) (xs : list (list Q)) (Ms : list (Q * Q * Q * bool)) : bool :=
  match xs with
  | [] => true
  | x :: rest =>
      match rest, Ms with
      | x' :: _, (M11, M12, M22, z) :: Ms' =>
          let st := q_lm_state_at2 p (qvec x) nu in
          let '(m11, m12, m22) := diag2 (q_lm_matrix2 st) in
          qc_close tol9 (qc M11) m11 && qc_close tol9 (qc M12) m12 && qc_close tol9 (qc M22) m22 &&
          (Bool.eqb z (qc_eqb nu 0%Qc) || (negb (qc_eqb nu 0%Qc) && Qle_bool (this nu) ((1 # 1000000000000) * Qabs (this m11)))) &&
          (if lm_undecidable2 p nu0 st then true
           else let st' := q_lm_step2 p nu0 st in
                qcl_close tol9 (qvec x') (lm_x Qc st') && check_lm_trace2 p nu0 (lm_nu Qc st') rest Ms')
      | _, _ => true
      end
  end.
Definition check_lm_trace2_run (sg a b c d : Q) (x0 : list Q) (nu0 ng0 : Q) (xs : list (list Q)) (Ms : list (Q * Q * Q * bool)) : bool :=
  let p := (qc sg, qc a, qc b, qc c, qc d) in
  let g0 := qmattvec 2 (q_lm2J p (qvec x0)) (q_lm2F p (qvec x0)) in
  match xs with
  | x :: _ => ql_eqb x x0 &&
              (* certificate of LA.norm(g_0): ng0 >= 0 and ng0^2 = |g_0|^2 up to 1e-9 relative *)
              Qle_bool 0 ng0 && q_close tol9 (ng0 * ng0) (this (qnormsq g0)) &&
              check_lm_trace2 p (qc nu0) (qc ng0) xs Ms
  | [] => false
  end.

(* --- wrappers --- *)
Definition q_eqb_opt (a b : option (list Q)) : bool := opt_eqb ql_eqb a b.
Definition info_eqb (a b : wr_info) : bool :=
  Bool.eqb (in_success a) (in_success b) && String.eqb (in_message a) (in_message b) &&
  Qeq_bool (in_func a) (in_func b) && q_eqb_opt (in_grad a) (in_grad b) &&
  Z.eqb (in_nit a) (in_nit b) && Z.eqb (in_nfev a) (in_nfev b).
(* what SciPy returned (captured) vs what the wrapper returned *)
Definition check_minimize (s : sp_result) (obs_x : list Q) (obs_info : wr_info) : bool :=
  match minimize_translate s with
  | Some (mx, mi) => ql_eqb mx obs_x && info_eqb mi obs_info
  | None => false
  end.
Definition check_minimize_nojac (s : sp_result) (obs_x : list Q) (obs_info : wr_info) : bool :=
  let '(mx, mi) := minimize_translate_get s in ql_eqb mx obs_x && info_eqb mi obs_info.
Definition check_maximize_fixed (s : sp_result) (obs_x : list Q) (obs_info : wr_info) : bool :=
  let '(mx, mi) := maximize_translate_fixed s in ql_eqb mx obs_x && info_eqb mi obs_info.
(* maximize: the objective/gradient SciPy was handed, probed at points, are the negations *)
Definition check_negated (probes : list (Q * Q)) : bool :=
  forallb (fun fp => Qeq_bool (snd fp) (- fst fp)) probes.
Definition check_negated_grad (probes : list (list Q * list Q)) : bool :=
  forallb (fun fp => ql_eqb (snd fp) (map Qopp (fst fp))) probes.
Definition check_lbfgsb (warnflag : Z) (task : string) (obs_success : Z) (obs_message : string) : bool :=
  let '(s, m) := lbfgsb_status warnflag task in Z.eqb s obs_success && String.eqb m obs_message.

(* ================= third deepening round: comparison functions for the new theorem families ================= *)

(* --- LM, one iteration as the theorems describe it (C16_lm_step_descent): from the OBSERVED current point x, the OBSERVED system
   (M, g) handed to the linear solver and the OBSERVED next point x':
     g is the model's gradient J(x)^T F(x) (to 1e-9 |J| |F|, unless the residual itself cancels);  with s the exact solution of M s = g:  <s, g> > 0;
     the step was accepted (x' <> x) IFF the model's objective at x - s does not exceed the one at x;  if accepted, x' = x - s;
     the model's objective at x' does not exceed the one at x.
   Rounding margins: decisions within 1e-9 relative of equality, residual polynomials evaluated with >= 6 digits of cancellation, steps
   below 1e-12 |x| (x - s == x in floating point) and (nearly) singular systems are not judged. *)
Definition frob2 (J : list (list Qc)) : Qc := fold_right (fun row acc => (qnormsq row + acc)%Qc) 0%Qc J.
Definition check_lm_descent_gen (F : list Qc -> list Qc) (Jf : list Qc -> list (list Qc)) (solve : list (list Qc) -> list Qc -> list Qc)
           (n : nat) (cancels : list Qc -> bool) (sing : list (list Qc) -> bool)
           (obs : list (list Q * list (list Q) * list Q * list Q)) : bool :=
  forallb (fun o => let '(x, M, g, x') := o in
     let xv := qvec x in let r := F xv in let J := Jf xv in
     let gm := qmattvec n J r in
     let f := q_half_sq r in
     let gv := qvec g in
     let Mm := qmat M in
     let s := solve Mm gv in
     let xt := qvsub xv s in
     let ft := q_half_sq (F xt) in
     let f' := q_half_sq (F (qvec x')) in
     let moved := negb (ql_eqb x x') in
     let sg := qdot s gv in
     let tiny_step := qc_leb (qnormsq s) (qc (1 # 1000000000000000000000000) * qnormsq xv)%Qc in
     let near := Qle_bool (Qabs (this (f - ft)%Qc)) ((1 # 1000000000) * Qabs (this f)) in
     let hard := cancels xv || cancels xt || cancels (qvec x') in
     Nat.eqb (length x) n && Nat.eqb (length g) n && Nat.eqb (length x') n &&
     (cancels xv || qc_leb (qnormsq (qvsub gv gm)) (qc (1 # 1000000000000000000) * (frob2 J * qnormsq r))%Qc) &&
     (sing Mm || hard ||
        ((qc_eqb (qnormsq gv) 0%Qc || negb (qc_leb sg 0%Qc)) &&
         (if near || tiny_step then true else Bool.eqb moved (qc_leb ft f)) &&
         (if moved then qc_leb (qnormsq (qvsub (qvec x') xt)) (qc (1 # 1000000000000) * (qnormsq xv + qnormsq s))%Qc else true))) &&
     (hard || qc_leb f' (f * qc (1000000002 # 1000000000))%Qc)) obs.

Definition check_lm_descent1 (co : list (Q * Q * Q)) (obs : list (list Q * list (list Q) * list Q * list Q)) : bool :=
  let c := qco co in
  check_lm_descent_gen (quadF c) (quadJ c) q_solve1 1 (quad_cancels c)
    (fun M => match M with [[a]] => qc_eqb a 0%Qc | _ => true end) obs.
Definition check_lm_descent2 (sg a b c d : Q) (obs : list (list Q * list (list Q) * list Q * list Q)) : bool :=
  let p := (qc sg, qc a, qc b, qc c, qc d) in
  check_lm_descent_gen (q_lm2F p) (q_lm2J p) q_solve2 2 (lm2_cancels p)
    (fun M => match M with
              | [[m11; m12]; [m21; m22]] =>
                  Qle_bool (Qabs (this (m11 * m22 - m12 * m21)%Qc)) ((1 # 1000000) * (Qabs (this (m11 * m22)%Qc) + Qabs (this (m12 * m21)%Qc)))
              | _ => true end) obs.

(* --- CGLS / PCGLS: which of the three exits (C16_cgls_exit_paths) a run took.  The class of the model's run must be the class
   the harness computed independently from the observed point (unless a stopping comparison is within the rounding margin) --- *)
Inductive exitc := ExR | ExX | ExM.
Definition exitc_eqb (a b : exitc) : bool := match a, b with ExR, ExR | ExX, ExX | ExM, ExM => true | _, _ => false end.
Definition exit_class (res_ok normx : bool) (k : nat) : exitc :=
  if Nat.ltb 0 k && res_ok then ExR else if Nat.ltb 0 k && normx then ExX else ExM.
Definition check_exit_class (res : list Qc * nat) (iter : nat -> q_cg_state) (resid : list Qc -> list Qc) (tol g0 : Qc) (maxit : nat)
           (obs_k : nat) (obs_res_ok obs_normx : bool) : bool :=
  let '(mx, mk) := res in
  let t2 := (tol * tol)%Qc in
  let res_ok := qc_leb (qnormsq (resid mx)) (g0 * t2)%Qc in
  let normx := qc_leb 1%Qc (qnormsq mx * t2)%Qc in
  let cm := exit_class res_ok normx mk in
  (* the model run itself obeys the theorem: exit M only at k = maxit, and both clauses false at every earlier iterate *)
  (match cm with ExM => Nat.eqb mk maxit | _ => true end) &&
  forallb (fun j => let xj := cg_x Qc (iter j) in
                    negb (qc_leb (qnormsq (resid xj)) (g0 * t2)%Qc) && negb (qc_leb 1%Qc (qnormsq xj * t2)%Qc)) (seq 1 (mk - 1)) &&
  (cg_margin tol g0 (iter (Nat.min mk obs_k)) || cg_margin tol g0 (iter mk) || exitc_eqb cm (exit_class obs_res_ok obs_normx obs_k)).

Definition check_cgls_exit (n : nat) (A : list (list Q)) (b x0 : list Q) (shift : Q) (maxit : nat) (tol : Q)
           (obs_k : nat) (obs_res_ok obs_normx : bool) : bool :=
  let Am := qmat A in
  let fwd := qmatvec Am in let adj := qmattvec n Am in
  let st0 := q_cgls_init fwd adj (qvec b) (qc shift) (qvec x0) in
  check_exit_class (q_cgls_solve fwd adj (qvec b) (qc shift) (qvec x0) maxit (qc tol))
                   (fun k => cgls_iter Qc 0%Qc Qcplus Qcmult Qcminus Qcdiv qc_leb qc_eps fwd adj (qc shift) k st0)
                   (ne_residual n Am (qvec b) (qc shift)) (qc tol) (cg_gamma Qc st0) maxit obs_k obs_res_ok obs_normx.

Definition check_pcgls_exit (n : nat) (A : list (list Q)) (b x0 : list Q) (P Pinv : list (list Q)) (shift : Q) (maxit : nat) (tol : Q)
           (obs_k : nat) (obs_res_ok obs_normx : bool) : bool :=
  let Am := qmat A in let Pi := qmat Pinv in
  let fwd := qmatvec Am in let adj := qmattvec n Am in
  let pinv := qmatvec Pi in let pinvT := qmattvec n Pi in
  let st0 := q_pcgls_init fwd adj (qvec b) pinvT (qvec x0) in
  is_inverse n (qmat P) Pi &&
  check_exit_class (q_pcgls_solve fwd adj (qvec b) pinv pinvT (qc shift) (qvec x0) maxit (qc tol))
                   (fun k => pcgls_iter Qc 0%Qc Qcplus Qcmult Qcminus Qcdiv qc_leb qc_eps fwd adj pinv pinvT k st0)
                   (fun v => pinvT (qmattvec n Am (qvsub (qvec b) (qmatvec Am v)))) (qc tol) (cg_gamma Qc st0) maxit obs_k obs_res_ok obs_normx.

(* --- PCGLS = CGLS on the preconditioned operator (C16_pcgls_is_cgls_preconditioned): the observed PCGLS iterates started at
   x0 = P^-1 y0 are P^-1 times the model's CGLS iterates of the operator A P^-1 (adjoint P^-T A^T, shift 0) started at y0 --- *)
Fixpoint check_mapped_iterates (j : nat) (step : q_cg_state -> q_cg_state) (mapx : list Qc -> list Qc) (st : q_cg_state) (obs : list (list Q)) : bool :=
  match obs with
  | [] => true
  | o :: rest => (let m := mapx (cg_x Qc st) in let t := qc (iter_tol tol6 j) in
                  (* norm-wise closeness: the data may be in large units (dyadic scale cells), a component of the exact iterate may be 0 *)
                  Nat.eqb (length o) (length m) && qc_leb (qnormsq (qvsub (qvec o) m)) (t * t * (1 + qnormsq m))%Qc) &&
                 match rest with [] => true | _ => check_mapped_iterates (S j) step mapx (step st) rest end
  end.
Definition check_pcgls_as_cgls (n : nat) (A : list (list Q)) (b y0 : list Q) (P Pinv : list (list Q)) (obs : list (list Q)) : bool :=
  let Am := qmat A in let Pi := qmat Pinv in
  let pinv := qmatvec Pi in let pinvT := qmattvec n Pi in
  let fwd' := fun y => qmatvec Am (pinv y) in let adj' := fun z => pinvT (qmattvec n Am z) in
  is_inverse n (qmat P) Pi &&
  check_mapped_iterates 0 (q_cgls_step fwd' adj' 0%Qc) pinv (q_cgls_init fwd' adj' (qvec b) 0%Qc (qvec y0)) obs.

(* --- result translation of L_BFGS_B.solve and LS.solve (third deepening round): what SciPy returned -> (solution, info) --- *)
(* fmin_l_bfgs_b returns (x, f, d) with d = {grad, task, funcalls, nit, warnflag} *)
Record lb_result := mk_lbr { lbr_x : list Q; lbr_f : Q; lbr_grad : list Q; lbr_task : string; lbr_funcalls : Z; lbr_nit : Z; lbr_warnflag : Z }.
Record lb_info := mk_lbi { lbi_success : Z; lbi_message : string; lbi_func : Q; lbi_grad : list Q; lbi_nit : Z; lbi_nfev : Z }.
Definition lbfgsb_translate (r : lb_result) : list Q * lb_info :=
  let '(s, m) := lbfgsb_status (lbr_warnflag r) (lbr_task r) in
  (lbr_x r, mk_lbi s m (lbr_f r) (lbr_grad r) (lbr_nit r) (lbr_funcalls r)).
(* least_squares returns an OptimizeResult; LS.solve reads success, message, fun, jac, nfev and x *)
Record ls_result := mk_lsr { lsr_x : list Q; lsr_fun : list Q; lsr_jac : list (list Q); lsr_nfev : Z; lsr_success : bool; lsr_message : string }.
Record ls_info := mk_lsi { lsi_success : bool; lsi_message : string; lsi_func : list Q; lsi_jac : list (list Q); lsi_nfev : Z }.
Definition ls_result_translate (r : ls_result) : list Q * ls_info :=
  (lsr_x r, mk_lsi (lsr_success r) (lsr_message r) (lsr_fun r) (lsr_jac r) (lsr_nfev r)).
(* the `jac` argument least_squares receives: the user's callable, or SciPy's default scheme '2-point' when jacfun is None
   (repaired: fixes/C16_ls_default_jacobian.diff, applied) *)
Inductive ls_jac := LsCallable | LsTwoPoint.
Definition ls_jac_arg (jacfun_given : bool) : ls_jac := if jacfun_given then LsCallable else LsTwoPoint.
Definition ls_jac_eqb (a b : ls_jac) : bool := match a, b with LsCallable, LsCallable | LsTwoPoint, LsTwoPoint => true | _, _ => false end.

Definition check_lbfgsb_result (r : lb_result) (obs_x : list Q) (obs : lb_info) : bool :=
  let '(mx, mi) := lbfgsb_translate r in
  ql_eqb mx obs_x && Z.eqb (lbi_success mi) (lbi_success obs) && String.eqb (lbi_message mi) (lbi_message obs) &&
  Qeq_bool (lbi_func mi) (lbi_func obs) && ql_eqb (lbi_grad mi) (lbi_grad obs) && Z.eqb (lbi_nit mi) (lbi_nit obs) && Z.eqb (lbi_nfev mi) (lbi_nfev obs).
Definition check_ls_result (r : ls_result) (jacfun_given : bool) (obs_jac_arg : ls_jac) (obs_x : list Q) (obs : ls_info) : bool :=
  let '(mx, mi) := ls_result_translate r in
  ql_eqb mx obs_x && Bool.eqb (lsi_success mi) (lsi_success obs) && String.eqb (lsi_message mi) (lsi_message obs) &&
  ql_eqb (lsi_func mi) (lsi_func obs) && list_eqb ql_eqb (lsi_jac mi) (lsi_jac obs) && Z.eqb (lsi_nfev mi) (lsi_nfev obs) &&
  ls_jac_eqb (ls_jac_arg jacfun_given) obs_jac_arg.
