(* C08 -- volume preservation of the leapfrog integrator, matrix part (mathcomp / ssreflect style; logical path CVmc).
   One leapfrog step (x, r) |-> (x1, r2),  r1 = r + h g(x),  x1 = x + e r1,  r2 = r1 + h g(x1)  (e = 2h in the code) is the
   composition kick . drift . kick of three shears (Props/C08.v, C08_leapfrog_shear_partial).  If G1, G2 are the Jacobian
   matrices of the gradient function g at x and at x1, the Jacobian matrices of the three shears with respect to (x, r)
   are the block matrices below, and by the chain rule the Jacobian of the step is their product.  Here: that product
   has determinant 1, in every dimension n, over every commutative ring, for all matrices G1, G2 (no symmetry needed),
   all h and e. *)
From mathcomp Require Import all_ssreflect all_algebra.
Set Implicit Arguments.
Unset Strict Implicit.
Unset Printing Implicit Defensive.
Import GRing.Theory.
Local Open Scope ring_scope.

Section LeapfrogJacobian.
Variable R : comRingType.
Variable n : nat.

(* d(x, r + h g(x)) / d(x, r) *)
Definition jac_kick (h : R) (G : 'M[R]_n) : 'M[R]_(n + n) := block_mx 1%:M 0 (h *: G) 1%:M.
(* d(x + e r, r) / d(x, r) *)
Definition jac_drift (e : R) : 'M[R]_(n + n) := block_mx 1%:M (e *: 1%:M) 0 1%:M.

Lemma det_jac_kick h G : \det (jac_kick h G) = 1.
Proof. by rewrite /jac_kick det_lblock !det1 mulr1. Qed.

Lemma det_jac_drift e : \det (jac_drift e) = 1.
Proof. by rewrite /jac_drift det_ublock !det1 mulr1. Qed.

(* the Jacobian of one leapfrog step has determinant 1 *)
Theorem det_jac_leapfrog (h e : R) (G1 G2 : 'M[R]_n) :
  \det (jac_kick h G2 *m jac_drift e *m jac_kick h G1) = 1.
Proof. by rewrite !det_mulmx !det_jac_kick det_jac_drift !mulr1. Qed.

(* ... and so has the Jacobian of any number of steps (a whole trajectory) *)
Theorem det_jac_trajectory (h e : R) (Gs : seq ('M[R]_n * 'M[R]_n)) :
  \det (foldr (fun G12 J => (jac_kick h G12.2 *m jac_drift e *m jac_kick h G12.1) *m J) 1%:M Gs) = 1.
Proof.
  elim: Gs => [|G12 Gs IH] /=; first by rewrite det1.
  by rewrite det_mulmx det_jac_leapfrog IH mulr1.
Qed.

(* For a LINEAR gradient g(x) = G x (every Gaussian target, g = - precision * x) the step itself is the linear map
   with that matrix -- so for these targets "the leapfrog step has a Jacobian of determinant 1" holds without any
   appeal to the chain rule, in every dimension. *)
Lemma kick_linear (h : R) (G : 'M[R]_n) (x r : 'cV[R]_n) :
  jac_kick h G *m col_mx x r = col_mx x (r + h *: (G *m x)).
Proof.
  rewrite /jac_kick mul_block_col !mul1mx mul0mx addr0 -scalemxAl addrC. by [].
Qed.

Lemma drift_linear (e : R) (x r : 'cV[R]_n) :
  jac_drift e *m col_mx x r = col_mx (x + e *: r) r.
Proof.
  by rewrite /jac_drift mul_block_col !mul1mx mul0mx add0r -scalemxAl mul1mx.
Qed.

Theorem leapfrog_linear_matrix (h e : R) (G : 'M[R]_n) (x r : 'cV[R]_n) :
  let r1 := r + h *: (G *m x) in
  let x1 := x + e *: r1 in
  let r2 := r1 + h *: (G *m x1) in
  (jac_kick h G *m jac_drift e *m jac_kick h G) *m col_mx x r = col_mx x1 r2
  /\ \det (jac_kick h G *m jac_drift e *m jac_kick h G) = 1.
Proof.
  split; last exact: det_jac_leapfrog.
  by rewrite -!mulmxA kick_linear drift_linear kick_linear.
Qed.

End LeapfrogJacobian.
