"""Shared machinery of the CUQIpy verification harness (see DESIGN.md section 2).

Everything a property module (harness/gen_Cxx.py) needs:
  * exact encoders from Python numbers to Coq literals (Z, Q),
  * Case objects and the shard runner (cases_Cxx_NNN.v evaluated by coqc / vm_compute,
    or one kernel-checked `interval` proof per ENCLOSURE case),
  * the static stage (rebuild Props/Cxx.v, parse Print Assumptions, forbidden-word guard),
  * scripted randomness (patching numpy.random attributes, no source hooks),
  * known-findings matching, replay files, evidence writer.
"""
import os, sys, re, json, time, hashlib, random, subprocess, fcntl, shutil, glob, math
from fractions import Fraction
from dataclasses import dataclass, field

VERIF = os.path.dirname(os.path.dirname(os.path.abspath(__file__)))
COQ = os.path.join(VERIF, "coq")
GEN = os.path.join(COQ, "gen")
REPLAYS = os.path.join(VERIF, "replays")
EVIDENCE = os.path.join(VERIF, "evidence")
def _default_jobs():
    try:
        load = os.getloadavg()[0]
    except OSError:
        load = 0
    return max(4, min(16, 20 - int(load)))          # busy machine: fewer parallel coqc processes


NPROC = int(os.environ.get("VERIF_JOBS", "0")) or _default_jobs()

COQC_TIMEOUT = 600

# Axioms of the standard library that may appear under Print Assumptions (DESIGN section 7).
AXIOM_ALLOW = [
    r"ClassicalDedekindReals\.sig_forall_dec", r"ClassicalDedekindReals\.sig_not_dec",
    r"FunctionalExtensionality\.functional_extensionality_dep",
    r"Classical_Prop\.classic", r"ClassicalEpsilon\.constructive_indefinite_description",
    r"ProofIrrelevance\.proof_irrelevance", r"Eqdep\.Eq_rect_eq\.eq_rect_eq", r"JMeq\.JMeq_eq",
    r"PropExtensionality\.propositional_extensionality",
    r"Uint63\.\w+", r"PrimInt63\.\w+", r"PrimFloat\.\w+", r"FloatAxioms\.\w+", r"FloatOps\.\w+",
    r"Sint63\.\w+", r"PArray\.\w+", r"SpecFloat\.\w+",
    r"Rdefinitions\.\w+", r"Raxioms\.\w+", r"RIneq\.\w+", r"Rtrigo1\.\w+",
    # short names printed when the module is imported
    r"sig_forall_dec", r"sig_not_dec", r"functional_extensionality_dep", r"classic",
    r"constructive_indefinite_description", r"proof_irrelevance", r"eq_rect_eq", r"JMeq_eq",
    r"propositional_extensionality",
    r"(add|sub|mul|div|mod|land|lor|lxor|lsl|lsr|eqb|ltb|leb|compare|head0|tail0|addc|addcarryc|subc|subcarryc|mulc|diveucl|diveucl_21|addmuldiv|of_Z|to_Z)(_spec|_correct|_def|_eq)?",
    r"\w+_spec", r"eqb_correct", r"eqb_refl", r"int", r"float",
]
_AX_RE = re.compile(r"^(?:" + "|".join(AXIOM_ALLOW) + r")$")


def _ax_ok(name):
    """allow-list test on a possibly fully qualified axiom name (coqchk prints Coq.Floats.PrimFloat.sqrt)"""
    parts = name.split(".")
    return any(_AX_RE.match(".".join(parts[k:])) for k in range(len(parts)))

FORBIDDEN = re.compile(
    r"\b(Admitted|admit|Axiom|Axioms|Parameter|Parameters|Conjecture|Conjectures|Admit Obligations)\b"
    r"|Unset Guard|bypass_check|type-in-type|impredicative-set|Unset Positivity|Unset Universe Checking")


# ------------------------------------------------------------------------------------------
# encoders
# ------------------------------------------------------------------------------------------

def frac(x):
    """Exact rational value of a Python/numpy number (floats are exact binary rationals)."""
    if isinstance(x, Fraction):
        return x
    if isinstance(x, (bool,)):
        return Fraction(int(x))
    if isinstance(x, int):
        return Fraction(x)
    try:
        import numpy as np
        if isinstance(x, np.integer):
            return Fraction(int(x))
        if isinstance(x, np.floating):
            x = float(x)
        if isinstance(x, np.ndarray) and x.ndim == 0:
            x = float(x)
    except ImportError:
        pass
    if isinstance(x, float):
        if math.isnan(x) or math.isinf(x):
            raise ValueError("non-finite float has no rational value: %r" % x)
        return Fraction(*x.as_integer_ratio())
    raise TypeError("frac: unsupported %r" % type(x))


def cz(n):
    """Coq Z literal."""
    n = int(n)
    return "(%d)%%Z" % n


def cnat(n):
    n = int(n)
    assert 0 <= n < 5000, "nat literal too large: %d" % n
    return "%d%%nat" % n


def cq(x):
    """Coq Q literal (n # d)."""
    f = frac(x)
    return "(%d # %d)%%Q" % (f.numerator, f.denominator)


def cext(x):
    """Coq `ext` literal (Base/Ext.v): NaN | NInf | PInf | Fin q."""
    xf = float(x)
    if math.isnan(xf):
        return "NaN"
    if math.isinf(xf):
        return "PInf" if xf > 0 else "NInf"
    return "(Fin %s)" % cq(x)


def cbool(b):
    return "true" if b else "false"


def clist(items):
    return "[" + "; ".join(items) + "]"


def czvec(v):
    return clist([cz(a) for a in v])


def cqvec(v):
    return clist([cq(a) for a in v])


def czmat(m):
    return clist([czvec(r) for r in m])


def cqmat(m):
    return clist([cqvec(r) for r in m])


def cstr(s):
    assert '"' not in s
    return '"%s"' % s


def copt(x, enc):
    return "None" if x is None else "(Some %s)" % enc(x)


def is_dyadic_small(x, bits=50):
    f = frac(x)
    d = f.denominator
    return d & (d - 1) == 0 and f.numerator.bit_length() <= bits and d.bit_length() <= bits


# ------------------------------------------------------------------------------------------
# cases
# ------------------------------------------------------------------------------------------

@dataclass
class Case:
    """One correspondence case.

    expr   : Coq term of type bool (model evaluated on the inputs == what the implementation did),
             or for kind == 'ENCLOSURE' a Coq proposition closed by `tac`.
    meta   : JSON-able description sufficient to re-run the implementation (replay).
    key    : canonical string identifying the input (distinctness).
    cell   : configuration-lattice cell name (histogram).
    trivial: property trivially true on this case (stated per property in RULE).
    impl_fail: None, or a description of how the *property itself* fails on the implementation
               for this case (from the independent oracle).
    """
    expr: str
    meta: dict
    key: str = ""
    cell: str = ""
    trivial: bool = False
    kind: str = "EXACT"
    tac: str = ""
    impl_fail: object = None
    signature: str = ""

    def __post_init__(self):
        if not self.key:
            self.key = hashlib.sha1(json.dumps(self.meta, sort_keys=True, default=str).encode()).hexdigest()


@dataclass
class Result:
    cases: list
    rule: str
    extra: dict = field(default_factory=dict)
    generated_obligations: int = 0          # translator obligations (C05/C11/C14)
    generated_failed: list = field(default_factory=list)   # descriptions
    assumptions: list = field(default_factory=list)


class Ctx:
    def __init__(self, pid, tier, seed, repo):
        self.pid, self.tier, self.seed, self.repo = pid, tier, seed, repo
        self.rng = random.Random((seed * 1000003) ^ int(hashlib.sha1(pid.encode()).hexdigest()[:8], 16))
        self.t0 = time.time()
        self.log = []

    @property
    def thorough(self):
        return self.tier == "thorough"

    def n(self, quick, thorough):
        return thorough if self.thorough else quick

    def note(self, s):
        self.log.append(s)
        print("  [%s] %s" % (self.pid, s), flush=True)


# ------------------------------------------------------------------------------------------
# coq build / static stage
# ------------------------------------------------------------------------------------------

class Lock:
    def __init__(self, name=".lock"):
        self.path = os.path.join(VERIF, name)

    def __enter__(self):
        self.f = open(self.path, "w")
        fcntl.flock(self.f, fcntl.LOCK_EX)
        return self

    def __exit__(self, *a):
        fcntl.flock(self.f, fcntl.LOCK_UN)
        self.f.close()


def sh(cmd, timeout=COQC_TIMEOUT, cwd=None):
    try:
        p = subprocess.run(cmd, shell=isinstance(cmd, str), cwd=cwd, stdout=subprocess.PIPE,
                           stderr=subprocess.STDOUT, timeout=timeout, text=True)
        return p.returncode, p.stdout
    except subprocess.TimeoutExpired as e:
        out = e.stdout if isinstance(e.stdout, str) else (e.stdout or b"").decode(errors="replace")
        return 124, out + "\n[timeout after %ss]" % timeout


def coq_flags():
    return ["-Q", os.path.join(COQ, "theories"), "CV", "-Q", os.path.join(COQ, "mc"), "CVmc", "-Q", os.path.join(COQ, "gen"), "CVgen",
            "-w", "-notation-overridden,-deprecated-hint-without-locality,-ambiguous-paths,-deprecated-instance-without-locality,-deprecated-hint-rewrite-without-locality,-redundant-canonical-projection,-projection-no-head-constant"]


def ensure_makefile():
    sh(os.path.join(VERIF, "bin", "mkproject"))
    mk = os.path.join(COQ, "Makefile")
    proj = os.path.join(COQ, "_CoqProject")
    if not os.path.exists(mk) or os.path.getmtime(mk) < os.path.getmtime(proj):
        rc, out = sh("coq_makefile -f _CoqProject -o Makefile", cwd=COQ)
        if rc != 0:
            raise RuntimeError("coq_makefile failed:\n" + out)


def make_target(target=None, jobs=NPROC, timeout=3000):
    """Full .vo build (never -vos) of one target and its dependencies, or of everything."""
    with Lock():
        ensure_makefile()
        cmd = "make -j%d %s" % (jobs, target or "")
        rc, out = sh(cmd, cwd=COQ, timeout=timeout)
    return rc, out


def props_files(pid):
    """Property-theorem files of a property: Props/Cxx.v plus optional Props/Cxx_*.v."""
    base = os.path.join(COQ, "theories", "Props")
    fs = sorted(glob.glob(os.path.join(base, pid + ".v")) + glob.glob(os.path.join(base, pid + "_*.v")))
    return fs


def parse_assumptions(out):
    """Return list of blocks; each block is [] (closed) or list of axiom names."""
    blocks = []
    lines = out.splitlines()
    i = 0
    while i < len(lines):
        ln = lines[i]
        if ln.startswith("Closed under the global context"):
            blocks.append([])
        elif ln.startswith("Axioms:"):
            names = []
            i += 1
            while i < len(lines):
                l2 = lines[i]
                if l2.startswith("Closed under the global context") or l2.startswith("Axioms:"):
                    i -= 1
                    break
                m = re.match(r"^([A-Za-z_][\w\.']*)\s*(:|$)", l2)
                if m and not l2.startswith(" "):
                    names.append(m.group(1))
                i += 1
            blocks.append(names)
        i += 1
    return blocks


def dependency_closure(files):
    """All .v files of this development that the given files (transitively) Require."""
    seen, todo = set(), list(files)
    while todo:
        f = todo.pop()
        if f in seen or not os.path.exists(f):
            continue
        seen.add(f)
        txt = re.sub(r"\(\*.*?\*\)", "", open(f).read(), flags=re.S)
        for m in re.finditer(r"From\s+(CV|CVmc)\s+Require\s+(?:Import\s+|Export\s+)?(.*?)\.(?=\s|$)", txt, flags=re.S):
            root = "theories" if m.group(1) == "CV" else "mc"
            for name in m.group(2).split():
                todo.append(os.path.join(COQ, root, *name.split(".")) + ".v")
        for m in re.finditer(r"Require\s+(?:Import\s+|Export\s+)?((?:CV|CVmc)\.[\w\.]+)", txt):
            parts = m.group(1).split(".")
            root = "theories" if parts[0] == "CV" else "mc"
            todo.append(os.path.join(COQ, root, *parts[1:]) + ".v")
    return sorted(seen)


def static_stage(pid, thorough=False):
    """Rebuild the theory a property depends on, re-check its Props files, return a report dict.

    report = {ok, theorems:[names], obligations, discharged, axioms:{thm:[...]}, errors:[...]}"""
    rep = {"ok": True, "theorems": [], "obligations": 0, "discharged": 0, "axioms": {}, "errors": [],
           "wall_s": 0.0}
    t0 = time.time()
    files = props_files(pid)
    if not files:
        rep["ok"] = False
        rep["errors"].append("no Props file for %s" % pid)
        return rep
    # forbidden words anywhere in the files this property's theorems depend on (bin/setup scans all)
    for path in dependency_closure(files):
        txt = open(path).read()
        txt_nc = re.sub(r"\(\*.*?\*\)", "", txt, flags=re.S)
        m = FORBIDDEN.search(txt_nc)
        if m:
            rep["ok"] = False
            rep["errors"].append("forbidden construct %r in %s" % (m.group(0), os.path.relpath(path, COQ)))
    for f in files:
        rel = os.path.relpath(f, COQ)
        txt = open(f).read()
        txt_nc = re.sub(r"\(\*.*?\*\)", "", txt, flags=re.S)
        thms = re.findall(r"^\s*(?:Theorem|Example)\s+([\w']+)", txt_nc, flags=re.M)
        prints = re.findall(r"^\s*Print Assumptions\s+([\w']+)\s*\.", txt_nc, flags=re.M)
        only_thms = re.findall(r"^\s*Theorem\s+([\w']+)", txt_nc, flags=re.M)
        rep["obligations"] += len(only_thms)
        for t in only_thms:
            if t not in prints:
                rep["ok"] = False
                rep["errors"].append("%s: theorem %s has no Print Assumptions" % (rel, t))
        # build dependencies (incremental, full .vo), then re-check the property file itself
        vo = rel[:-2] + ".vo"
        rc, out = make_target(vo)
        if rc != 0:
            rep["ok"] = False
            rep["errors"].append("build of %s failed:\n%s" % (vo, out[-3000:]))
            continue
        rdir = os.path.join(GEN, "recheck_%s_%d" % (pid, os.getpid()))
        os.makedirs(rdir, exist_ok=True)
        outvo = os.path.join(rdir, os.path.basename(f)[:-2] + ".vo")
        rc, out = sh(["coqc"] + coq_flags() + ["-o", outvo, f], timeout=COQC_TIMEOUT)
        shutil.rmtree(rdir, ignore_errors=True)
        if rc != 0:
            rep["ok"] = False
            rep["errors"].append("re-check of %s failed:\n%s" % (rel, out[-3000:]))
            continue
        blocks = parse_assumptions(out)
        if len(blocks) != len(prints):
            rep["ok"] = False
            rep["errors"].append("%s: %d Print Assumptions commands but %d reports" % (rel, len(prints), len(blocks)))
            continue
        for name, axs in zip(prints, blocks):
            bad = [a for a in axs if not _ax_ok(a)]
            rep["axioms"][name] = axs
            if bad:
                rep["ok"] = False
                rep["errors"].append("%s: theorem %s depends on axioms outside the allow-list: %s" % (rel, name, bad))
            elif name in only_thms:
                rep["discharged"] += 1
        rep["theorems"] += only_thms
    if thorough and rep["ok"]:
        # second, independent checker: coqchk re-checks the compiled property files and everything they depend
        # on, and reports the axioms of the whole loaded context (a superset of what Print Assumptions lists
        # per theorem: it includes axioms of every library file that was merely loaded)
        mods = []
        for f in files:
            rel = os.path.relpath(f, COQ)[:-2].split(os.sep)
            mods.append(("CV." if rel[0] == "theories" else "CVmc.") + ".".join(rel[1:]))
        rc, out = sh(["coqchk", "-silent", "-o", "-Q", os.path.join(COQ, "theories"), "CV",
                      "-Q", os.path.join(COQ, "mc"), "CVmc"] + mods, timeout=3000)
        m = re.search(r"\* Axioms:(.*?)\n\s*\n\* Constants/Inductives relying on type-in-type:(.*?)\n\s*\n"
                      r"\* Constants/Inductives relying on unsafe \(co\)fixpoints:(.*?)\n\s*\n"
                      r"\* Inductives whose positivity is assumed:(.*?)\n", out + "\n\n", flags=re.S)
        if rc != 0 or not m:
            rep["ok"] = False
            rep["errors"].append("coqchk failed (rc=%s):\n%s" % (rc, out[-2000:]))
        else:
            axs = [a.strip() for a in m.group(1).strip().splitlines() if a.strip() and a.strip() != "<none>"]
            rep["coqchk"] = {"modules": mods, "axioms_of_loaded_context": axs,
                             "type_in_type": m.group(2).strip(), "unsafe_fixpoints": m.group(3).strip(),
                             "assumed_positivity": m.group(4).strip()}
            for k in ("type_in_type", "unsafe_fixpoints", "assumed_positivity"):
                if rep["coqchk"][k] != "<none>":
                    rep["ok"] = False
                    rep["errors"].append("coqchk: %s = %s" % (k, rep["coqchk"][k]))
            bad = [a for a in axs if not _ax_ok(a)]
            if bad:
                rep["ok"] = False
                rep["errors"].append("coqchk: axioms outside the allow-list in the loaded context: %s" % bad)
    rep["wall_s"] = round(time.time() - t0, 2)
    return rep


# ------------------------------------------------------------------------------------------
# shard runner
# ------------------------------------------------------------------------------------------

SHARD = 400


def _write_exact_shard(path, imports, cases, idxs):
    with open(path, "w") as f:
        f.write("(* generated by the harness on every run; do not edit *)\n")
        f.write(imports + "\n")
        f.write("From Coq Require Import List. Import ListNotations.\n")
        for k, i in enumerate(idxs):
            f.write("Definition c%d : bool := %s.\n" % (k, cases[i].expr))
        f.write("Definition all_cases : list bool := [%s].\n" % "; ".join("c%d" % k for k in range(len(idxs))))
        f.write("Fixpoint fails (k : nat) (l : list bool) : list nat := match l with [] => [] "
                "| b :: r => if b then fails (S k) r else k :: fails (S k) r end.\n")
        f.write("Definition result : list nat := Eval vm_compute in fails 0 all_cases.\n")
        f.write("Print result.\n")


def _parse_fail_list(out):
    m = re.search(r"result\s*=\s*(.*?)\s*:\s*list nat", out, flags=re.S)
    if not m:
        return None
    return [int(x) for x in re.findall(r"\d+", m.group(1))]


def _run_coqc_file(path, timeout=COQC_TIMEOUT):
    rc, out = sh(["coqc"] + coq_flags() + [path], timeout=timeout)
    return rc, out


def _cleanup_compiled(path):
    b = path[:-2]
    d, n = os.path.split(b)
    for p in (b + ".vo", b + ".vok", b + ".vos", b + ".glob", os.path.join(d, "." + n + ".aux")):
        try:
            os.remove(p)
        except OSError:
            pass


def run_shards(ctx, imports, cases):
    """Evaluate all cases in Coq.  Returns (failing_indices, shard_reports)."""
    from concurrent.futures import ThreadPoolExecutor
    pid = ctx.pid
    # one directory per run, so that concurrent runs of the same property (e.g. against scratch copies) never
    # clobber each other's shards; the previous run's directory of THIS process id cannot exist
    GENRUN = os.path.join(GEN, "run_%s_%d" % (pid, os.getpid()))
    os.makedirs(GENRUN, exist_ok=True)
    for old in glob.glob(os.path.join(GEN, "run_%s_*" % pid)):
        # remove stale directories of dead processes
        try:
            opid = int(old.rsplit("_", 1)[1])
            if opid != os.getpid() and not os.path.exists("/proc/%d" % opid):
                shutil.rmtree(old, ignore_errors=True)
        except ValueError:
            pass
    exact = [i for i, c in enumerate(cases) if c.kind != "ENCLOSURE"]
    encl = [i for i, c in enumerate(cases) if c.kind == "ENCLOSURE"]
    jobs = []
    # a generator whose cases are individually heavy (exact Gauss-Jordan per case, ...) may ask for smaller shards
    shard = int(getattr(sys.modules.get("gen_" + pid), "SHARD_SIZE", 0) or SHARD)
    for s in range(0, len(exact), shard):
        jobs.append(("X", exact[s:s + shard]))
    ENC_SHARD = 60
    for s in range(0, len(encl), ENC_SHARD):
        jobs.append(("E", encl[s:s + ENC_SHARD]))
    failing, reports = [], []

    def work(jn):
        j, (kind, idxs) = jn
        path = os.path.join(GENRUN, "cases_%s_%03d.v" % (pid, j))
        t0 = time.time()
        bad = []
        err = None
        if kind == "X":
            _write_exact_shard(path, imports, cases, idxs)
            rc, out = _run_coqc_file(path)
            fl = _parse_fail_list(out) if rc == 0 else None
            if fl is None:
                # the shard itself does not compile / evaluate: locate the offending case(s) by
                # compiling each case alone (slow path; only on breakage)
                err = out[-1500:]
                for i in idxs:
                    p1 = os.path.join(GENRUN, "cases_%s_%03d_one.v" % (pid, j))
                    _write_exact_shard(p1, imports, cases, [i])
                    rc1, out1 = _run_coqc_file(p1, timeout=120)
                    fl1 = _parse_fail_list(out1) if rc1 == 0 else None
                    if fl1 is None or fl1:
                        bad.append(i)
                    _cleanup_compiled(p1)
                    try:
                        os.remove(p1)
                    except OSError:
                        pass
            else:
                bad = [idxs[k] for k in fl]
        else:
            remaining = list(idxs)
            while True:
                with open(path, "w") as f:
                    f.write("(* generated by the harness on every run; do not edit *)\n" + imports + "\n")
                    linemap = {}
                    line = 3
                    for i in remaining:
                        txt = "Goal %s.\nProof. %s Qed.\n" % (cases[i].expr.replace("\n", " "), cases[i].tac.replace("\n", " "))
                        linemap[line] = i
                        linemap[line + 1] = i
                        f.write(txt)
                        line += 2
                rc, out = _run_coqc_file(path)
                if rc == 0:
                    break
                m = re.search(r'line (\d+), characters', out)
                if not m or int(m.group(1)) not in linemap:
                    err = out[-1500:]
                    bad += remaining
                    break
                bi = linemap[int(m.group(1))]
                bad.append(bi)
                remaining.remove(bi)
                if not remaining:
                    break
        _cleanup_compiled(path)
        return {"shard": os.path.basename(path), "kind": kind, "cases": len(idxs), "failing": bad,
                "error": err, "wall_s": round(time.time() - t0, 2)}

    with ThreadPoolExecutor(max_workers=NPROC) as ex:
        for rep in ex.map(work, list(enumerate(jobs))):
            reports.append(rep)
            failing += rep["failing"]
    if not failing and not any(r["error"] for r in reports):
        shutil.rmtree(GENRUN, ignore_errors=True)      # kept for inspection only when something disagreed
    return sorted(failing), reports


def eval_in_coq(imports, term, timeout=120, tag="eval"):
    """Evaluate one Coq term with vm_compute and return coqc's printed output (for replays)."""
    path = os.path.join(GEN, "%s_%d.v" % (tag, os.getpid()))
    with open(path, "w") as f:
        f.write(imports + "\nFrom Coq Require Import List. Import ListNotations.\n")
        f.write("Eval vm_compute in (%s).\n" % term)
    rc, out = _run_coqc_file(path, timeout=timeout)
    _cleanup_compiled(path)
    try:
        os.remove(path)
    except OSError:
        pass
    return rc, out.strip()


# ------------------------------------------------------------------------------------------
# scripted randomness
# ------------------------------------------------------------------------------------------

class ScriptedRandom:
    """Replace numpy.random's module-level generators by a scripted stream.

    `script` is a function (kind, shape, index) -> array-like or None; by default values come
    from a private numpy Generator seeded by `seed`, so two runs with equal seeds see equal
    streams irrespective of how many numbers each call asks for *per call order*.
    Every call is logged as (kind, shape)."""
    KINDS = ["rand", "randn", "standard_normal", "normal", "uniform", "exponential", "gamma",
             "standard_gamma", "beta", "laplace", "lognormal", "standard_cauchy", "random", "random_sample",
             "standard_exponential", "binomial", "randint", "choice", "multivariate_normal"]

    def __init__(self, seed=0, script=None):
        import numpy as np
        self.np = np
        self.gen = np.random.RandomState(seed)
        self.script = script
        self.log = []
        self.saved = {}

    def _mk(self, kind):
        np = self.np
        real = getattr(self.gen, kind)

        def f(*a, **k):
            idx = len(self.log)
            self.log.append((kind, repr(a), repr(sorted(k.items()))))
            if self.script is not None:
                v = self.script(kind, a, k, idx)
                if v is not None:
                    return v
            return real(*a, **k)
        return f

    def __enter__(self):
        np = self.np
        for kind in self.KINDS:
            if hasattr(np.random, kind):
                self.saved[kind] = getattr(np.random, kind)
                setattr(np.random, kind, self._mk(kind))
        return self

    def __exit__(self, *a):
        for kind, f in self.saved.items():
            setattr(self.np.random, kind, f)
        self.saved = {}


# ------------------------------------------------------------------------------------------
# known findings, replays, evidence
# ------------------------------------------------------------------------------------------

def load_known(pid):
    path = os.path.join(VERIF, "known_findings.tsv")
    out = {"finding": {}, "fixed": {}}
    if not os.path.exists(path):
        return out
    for ln in open(path):
        ln = ln.rstrip("\n")
        if not ln or ln.startswith("#"):
            continue
        m = re.match(r"^fixed: property=(\S+) (\S+) (.*?) \[sig=(.*)\]\s*$", ln)
        if m:       # "fixed: property=<id> <commit> <what failed> [sig=<signature>]"
            if m.group(1) == pid:
                out["fixed"][m.group(4)] = m.group(2) + " " + m.group(3)
            continue
        parts = ln.split("\t")
        if len(parts) < 4:
            continue
        status, p, sig, what = parts[0], parts[1], parts[2], parts[3]
        if p.replace("property=", "") != pid:
            continue
        out.setdefault(status, {})[sig] = what
    return out


def write_replay(pid, name, payload):
    os.makedirs(REPLAYS, exist_ok=True)
    h = hashlib.sha1(json.dumps(payload, sort_keys=True, default=str).encode()).hexdigest()[:10]
    path = os.path.join(REPLAYS, "%s_%s_%s.json" % (pid, re.sub(r"[^\w\-]+", "_", name)[:60], h))
    payload = dict(payload)
    payload["replay_cmd"] = "bin/check %s --replay %s" % (pid, path)
    with open(path, "w") as f:
        json.dump(payload, f, indent=1, default=str)
    return path


def write_evidence(pid, ev):
    os.makedirs(EVIDENCE, exist_ok=True)
    path = os.path.join(EVIDENCE, pid + ".json")
    tmp = path + ".tmp%d" % os.getpid()
    with open(tmp, "w") as f:
        json.dump(ev, f, indent=1, default=str)
    os.replace(tmp, path)
    return path


def setup_python_env(repo):
    os.environ.setdefault("TQDM_DISABLE", "1")
    os.environ.setdefault("MPLBACKEND", "Agg")
    os.environ["PYTHONPATH"] = repo
    if sys.path[0:1] != [repo]:
        sys.path.insert(0, repo)
    import warnings
    warnings.filterwarnings("ignore")
    import importlib
    # arviz (imported by cuqi) rewrites ~/.cache/arviz/daily_warning non-atomically w.r.t. concurrent
    # processes (all use the same .tmp name): pre-write today's stamp under a lock so it never writes.
    try:
        import datetime
        from platformdirs import user_cache_dir
        d = user_cache_dir("arviz", "arviz")
        os.makedirs(d, exist_ok=True)
        with Lock(".arviz.lock"):
            stamp = os.path.join(d, "daily_warning")
            today = datetime.date.today().isoformat()
            try:
                cur = open(stamp).read().strip()
            except OSError:
                cur = None
            if cur != today:
                tmp = stamp + ".verif%d" % os.getpid()
                with open(tmp, "w") as f:
                    f.write(today)
                os.replace(tmp, stamp)
    except Exception:
        pass
    for attempt in range(5):
        try:
            cuqi = importlib.import_module("cuqi")
            break
        except FileNotFoundError:
            if attempt == 4:
                raise
            time.sleep(0.5 + attempt)
    p = os.path.dirname(os.path.abspath(cuqi.__file__))
    if os.path.dirname(p) != os.path.abspath(repo):
        raise RuntimeError("cuqi imported from %s, expected %s" % (p, repo))
    return cuqi
