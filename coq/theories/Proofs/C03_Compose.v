(* C03 -- composites.  (1) the directional sum rule for ANY number of densities (multiple-likelihood posterior);
   (2) what the model of Posterior / MultipleLikelihoodPosterior gradient (check_sum_obs, Model/C03_GradQ.v) lets through:
   a finite vector only if every factor handed back a finite vector (then it is their sum), NaN as soon as one factor is
   outside its support, a refusal as soon as one factor refuses or the Posterior's own geometry guard fails;
   (3) the dispatch model and the support-test model agree on the bounded-support families. *)
From CV Require Import Base.Tac Base.LinAlg Base.Cmp Model.C03_GradR Model.C03_GradQ Model.C03_Support Proofs.C03_GradR Proofs.C03_Quad Proofs.C03_QuadR.
From Coq Require Import Reals Lra QArith.
From Coquelicot Require Import Coquelicot.

(* ---------- (2) the sum model ---------- *)
Lemma all_vecs_some : forall os gs, all_vecs os = Some gs -> forallb is_vec_or_nan os = true /\ existsb is_nan_obs os = false.
Proof.
  induction os as [|o os IH]; intros gs H; cbn in *; [split; reflexivity|].
  destruct o; try discriminate H. destruct (all_vecs os) as [gs'|] eqn:E; [|discriminate H].
  destruct (IH gs' eq_refl) as [H1 H2]. cbn. rewrite H1, H2. split; reflexivity.
Qed.

Lemma all_vecs_total : forall os, forallb is_vec_or_nan os = true -> existsb is_nan_obs os = false -> exists gs, all_vecs os = Some gs /\ length gs = length os.
Proof.
  induction os as [|o os IH]; intros H1 H2; cbn in *; [exists []; split; reflexivity|].
  apply andb_true_iff in H1 as [Ho H1]. apply orb_false_iff in H2 as [Hn H2].
  destruct (IH H1 H2) as [gs [E L]]. destruct o; try discriminate Ho; try discriminate Hn.
  rewrite E. eexists; split; [reflexivity | cbn; f_equal; exact L].
Qed.

(* a finite vector comes out only if EVERY factor produced a finite vector and the guard passed; it is then their sum *)
Theorem sum_obs_vector guard parts t : check_sum_obs guard parts (ObsVec t) = true ->
  guard = true /\ exists gs, all_vecs parts = Some gs /\ length gs = length parts /\ check_sum gs t = true.
Proof.
  unfold check_sum_obs. destruct guard; cbn [negb orb]; [|discriminate].
  destruct (forallb is_vec_or_nan parts) eqn:Hv; cbn [negb]; [|discriminate].
  destruct (existsb is_nan_obs parts) eqn:Hn; [discriminate|].
  intros H. split; [reflexivity|]. destruct (all_vecs_total parts Hv Hn) as [gs [E L]]. rewrite E in H. exists gs. auto.
Qed.

(* one factor outside its support (NaN), nobody refusing: the composite's answer is NaN -- the clause on composites *)
Theorem sum_obs_nan parts total : check_sum_obs true parts total = true ->
  forallb is_vec_or_nan parts = true -> existsb is_nan_obs parts = true -> total = ObsNaN.
Proof.
  unfold check_sum_obs. cbn [negb orb]. intros H Hv Hn. rewrite Hv, Hn in H. cbn [negb] in H. destruct total; try discriminate H. reflexivity.
Qed.

(* a refusing factor (no gradient function, an EvaluatedDensity, a raised guard) or the Posterior's own guard: refusal *)
Theorem sum_obs_refusal guard parts total : check_sum_obs guard parts total = true ->
  guard = false \/ forallb is_vec_or_nan parts = false -> total = ObsRaised.
Proof.
  unfold check_sum_obs. intros H Hc.
  assert (E : negb guard || negb (forallb is_vec_or_nan parts) = true).
  { destruct Hc as [-> | ->]; [reflexivity | apply orb_true_r]. }
  rewrite E in H. destruct total; try discriminate H. reflexivity.
Qed.

(* ---------- (3) dispatch vs. support tests ---------- *)
Definition dfam_of (f : dfamily) : option dfam :=
  match f with
  | Cauchy => Some DCauchy | Beta => Some DBeta | InvGamma => Some DInvGamma | MHN => Some DMHN
  | LognormalDiag => Some DLognormal | Uniform => Some DUniform | SmoothedLaplace => Some DSmoothedLaplace | NormalKernel => None
  end.

(* fed with the decision of the support test, the dispatch model answers "formula" exactly when the support model answers
   "vector" and NaN otherwise: identity geometry, constant parameters, unconditional, analytic route, every repair state *)
Theorem dispatch_support_tie fx f df r (a b c xs : list Q) :
  dfam_of f = Some df -> bounded_support df = true ->
  dispatch fx df GeoIdentity MeanConst r false false (sep_guard f a b c xs) =
  match sep_kind f a b c xs with SVec => OGrad | SNaN => ONaN end.
Proof.
  intros Hf Hb. unfold sep_kind. destruct (sep_guard f a b c xs); destruct f; cbn in Hf; inversion Hf; subst df; try discriminate Hb; reflexivity.
Qed.

(* ---------- (1) directional sum rule, any number of densities ---------- *)
Open Scope R_scope.

Fixpoint rvsum (n : nat) (gs : list (list R)) : list R :=
  match gs with [] => repeat 0 n | g :: r => rvadd g (rvsum n r) end.

Lemma rvsum_length n gs : List.Forall (fun g : list R => length g = n) gs -> length (rvsum n gs) = n.
Proof.
  intros H. induction H as [|g gs Hg H IH]; cbn; [apply repeat_length|].
  unfold rvadd. rewrite vadd_length; [exact Hg | rewrite IH; exact Hg].
Qed.

Lemma rdot_rvsum n d gs : List.Forall (fun g : list R => length g = n) gs ->
  rdot (rvsum n gs) d = rsum (map (fun g => rdot g d) gs).
Proof.
  intros H. induction H as [|g gs Hg H IH]; cbn [rvsum map rsum].
  - apply (dot_vzero_l R 0 1 Rplus Rmult Rminus Ropp RTheory).
  - rewrite rdot_vadd by (rewrite rvsum_length by exact H; exact Hg). rewrite IH. reflexivity.
Qed.

(* MultipleLikelihoodPosterior.gradient = sum of the gradients of all densities: if <g_i, d> is the derivative of the
   i-th log-density along d, then <sum_i g_i, d> is the derivative of (constant + sum of all log-densities) along d *)
Theorem mlp_directional (n : nat) (fs : list (R -> R)) (gs : list (list R)) (d : list R) (c : R) :
  List.Forall (fun g : list R => length g = n) gs ->
  Forall2 (fun f g => is_derive f 0 (rdot g d)) fs gs ->
  is_derive (fun t => c + fsum fs t) 0 (rdot (rvsum n gs) d).
Proof.
  intros Hl H. rewrite (rdot_rvsum n d gs Hl). apply sum_rule.
  induction H as [|f g fs gs Hfg H IH]; cbn [map]; constructor; [exact Hfg | apply IH; exact (Forall_inv_tail Hl)].
Qed.
