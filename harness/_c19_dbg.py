import sys, os
sys.path.insert(0, "/verif/harness")
import common
from common import Ctx
repo = "/repo"
cuqi = common.setup_python_env(repo)
import gen_C19 as g
import random
rng = random.Random(5)
bad = 0
for h in range(int(sys.argv[1])):
    m = g.gen_history(rng, h, 10, plots=(h % 4 == 3))
    c, res = g.history_case(cuqi, m)
    rc, out = common.eval_in_coq(g.IMPORTS, c.expr, tag="c19dbg%d" % h)
    ok = "= true" in out
    if not ok:
        bad += 1
        print(h, m["geom"], m["rootkind"], m["ops"], out[-600:], res["fail"])
        if bad > 2: break
print("bad", bad)
