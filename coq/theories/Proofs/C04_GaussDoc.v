(* C04 -- proofs, part 13: `logpdf = ln (documented pdf)` for the Gaussian storage kinds that had no direct theorem:
   scalar storage (all four parameterisations) and DENSE / sparse full matrices (canonical form with logdet = ln det Sigma and the
   quadratic form d^T Sigma^-1 d, which the per-case certificate gauss_dense_cert pins down for cov / prec / sqrtcov / sqrtprec). *)
From CV Require Import Base.Tac Base.Cmp Model.C04_Dens Proofs.C04_Dens Proofs.C04_Gauss Proofs.C04_More.
From Coq Require Import QArith Reals Lra.
Local Open Scope R_scope.

Theorem gauss_scalar_ln_pdf f v mean x :
  (length mean = 1%nat \/ length mean = length x) -> 0 < v ->
  gauss_diag_logpdf f true (length x) (gparam f v :: nil) mean x = ln (normal_pdf mean (sqrt v :: nil) x).
Proof.
  intros Hm Hv. rewrite gauss_diag_scalar_doc by assumption. apply normal_logpdf_doc.
  constructor; [apply sqrt_lt_R0; exact Hv | constructor].
Qed.

(* documented multivariate normal density with covariance determinant dcov and quadratic form quad = d^T Sigma^-1 d *)
Definition mvn_pdf (n : nat) (dcov quad : R) : R := / sqrt ((2 * PI) ^ n * dcov) * exp (- / 2 * quad).

Theorem gauss_dense_ln_pdf (n : nat) (dcov quad : R) : 0 < dcov ->
  gauss_canon n (ln dcov) quad = ln (mvn_pdf n dcov quad).
Proof.
  intros Hd. unfold gauss_canon, gauss_logupdf, mvn_pdf. pose proof PI_RGT_0.
  assert (Hp : 0 < (2 * PI) ^ n) by (apply pow_lt; lra).
  assert (Hm : 0 < (2 * PI) ^ n * dcov) by (apply Rmult_lt_0_compat; assumption).
  assert (Hs : 0 < sqrt ((2 * PI) ^ n * dcov)) by (apply sqrt_lt_R0; exact Hm).
  rewrite (ln_mult (/ sqrt ((2 * PI) ^ n * dcov))); [| apply Rinv_0_lt_compat; exact Hs | apply exp_pos].
  rewrite ln_exp, ln_Rinv by exact Hs. rewrite ln_sqrt_half by exact Hm.
  rewrite (ln_mult ((2 * PI) ^ n)) by assumption. rewrite ln_pow_nat by lra. lra.
Qed.

(* precision-type inputs: the code's logdet is - ln det(precision); with dprec * dcov = 1 it is the same number *)
Theorem gauss_dense_ln_pdf_prec (n : nat) (dprec dcov quad : R) : 0 < dprec -> dprec * dcov = 1 ->
  gauss_canon n (- ln dprec) quad = ln (mvn_pdf n dcov quad).
Proof.
  intros Hp E. assert (Hd : dcov = / dprec) by (apply Rmult_eq_reg_l with dprec; [rewrite E; field; lra | lra]).
  assert (0 < dcov) by (rewrite Hd; apply Rinv_0_lt_compat; exact Hp).
  rewrite <- gauss_dense_ln_pdf by assumption. f_equal. rewrite Hd, ln_Rinv by exact Hp. reflexivity.
Qed.

(* what an accepted certificate says (exact, over Q): the observed rank is n, 0 < dcov, and (dcov, quad) are the determinant of the
   covariance and the quadratic form of its inverse for the matrix M in the given parameterisation *)
Lemma Qlt_bool_true a b : Qlt_bool a b = true <-> (a < b)%Q.
Proof.
  unfold Qlt_bool. rewrite Bool.negb_true_iff. split.
  - intros H. apply Qnot_le_lt. intros Hle. apply Qle_bool_iff in Hle. congruence.
  - intros H. destruct (Qle_bool b a) eqn:E; [|reflexivity]. apply Qle_bool_iff in E. exfalso. apply (Qlt_not_le _ _ H E).
Qed.

Theorem gauss_dense_cert_sound f n M y d dcov quad r : gauss_dense_cert f n M y d dcov quad r = true ->
  r = n /\ (0 < dcov)%Q /\
  match f with
  | FCov => ql_eqb (qmv M y) d = true /\ (qdet M == dcov)%Q /\ (qdotq d y == quad)%Q
  | FPrec => (qdet M * dcov == 1)%Q /\ (qdotq d (qmv M d) == quad)%Q
  | FSqrtcov => ql_eqb (qmv (qmm n M (qtr n M)) y) d = true /\ (qdet (qmm n M (qtr n M)) == dcov)%Q /\ (qdotq d y == quad)%Q
  | FSqrtprec => (qdet (qmm n M (qtr n M)) * dcov == 1)%Q /\ (qdotq (qmv M d) (qmv M d) == quad)%Q
  end.
Proof.
  unfold gauss_dense_cert. intros H.
  apply Bool.andb_true_iff in H. destruct H as [H Hf]. apply Bool.andb_true_iff in H. destruct H as [Hr Hd].
  apply Nat.eqb_eq in Hr. apply Qlt_bool_true in Hd. split; [exact Hr|]. split; [exact Hd|].
  destruct f; cbv zeta in Hf; repeat (apply Bool.andb_true_iff in Hf; destruct Hf as [Hf ?]);
    repeat match goal with H : Qeq_bool _ _ = true |- _ => apply Qeq_bool_iff in H end; repeat split; assumption.
Qed.
