From CV Require Import Base.Tac Base.Cmp Model.C14_Chain Model.C14_Gibbs Proofs.C14_Chain.

Section BlockProofs.
Variables Cfg St Rnd Acc : Type.
Variable step : Cfg -> St -> Rnd -> St * Acc.
Notation block_after := (block_after Cfg St Rnd Acc step).
Notation states := (states Cfg St Rnd Acc step).

Lemma block_after_nil c s : block_after c s [] = s.
Proof. reflexivity. Qed.

(* the value recorded after k+1 inner transitions is the (k+1)-th transition applied to the value after k of them --
   in particular it does not depend on whether that last transition was accepted *)
Lemma block_after_snoc c s rs r : block_after c s (rs ++ [r]) = fst (step c (block_after c s rs) r).
Proof.
  unfold C14_Gibbs.block_after. rewrite (states_app Cfg St Rnd Acc step c rs s [r]).
  cbn [C14_Chain.states]. rewrite last_app_default. reflexivity.
Qed.

Lemma block_after_app c s rs1 rs2 : block_after c s (rs1 ++ rs2) = block_after c (block_after c s rs1) rs2.
Proof.
  unfold C14_Gibbs.block_after. rewrite (states_app Cfg St Rnd Acc step c rs1 s rs2), last_app_default. reflexivity.
Qed.
End BlockProofs.

Section SweepProofs.
Variables Bs V Rnd K : Type.
Variable bstep : nat -> list V -> Bs -> Rnd -> Bs.
Variable point : Bs -> V.
Variable proj : Bs -> K.            (* get_state of a block sampler *)
Variable pk : K -> V.
Hypothesis point_proj : forall b, point b = pk (proj b).     (* current_point is a saved key *)
Hypothesis FPb : forall i vs b1 b2 r, proj b1 = proj b2 -> proj (bstep i vs b1 r) = proj (bstep i vs b2 r).
Notation inner := (inner Bs V Rnd bstep).
Notation sweep_aux := (sweep_aux Bs V Rnd bstep point).
Notation sweep := (sweep Bs V Rnd bstep point).
Notation gibbs_chain := (gibbs_chain Bs V Rnd bstep point).

Lemma inner_proj i vs rs : forall b1 b2, proj b1 = proj b2 -> proj (inner i vs b1 rs) = proj (inner i vs b2 rs).
Proof. induction rs as [|r rs IH]; intros b1 b2 E; [exact E|]. cbn. apply IH. apply FPb. exact E. Qed.

Lemma map_point_proj l1 l2 : map proj l1 = map proj l2 -> map point l1 = map point l2.
Proof.
  intros E. rewrite (map_ext point (fun b => pk (proj b)) point_proj l1), (map_ext point (fun b => pk (proj b)) point_proj l2).
  rewrite <- !(map_map proj pk). rewrite E. reflexivity.
Qed.

Lemma sweep_aux_proj t1 : forall d1 d2 t2 rss, map proj d1 = map proj d2 -> map proj t1 = map proj t2 ->
  map proj (sweep_aux d1 t1 rss) = map proj (sweep_aux d2 t2 rss).
Proof.
  induction t1 as [|b1 t1 IH]; intros d1 d2 t2 rss Ed Et.
  - destruct t2 as [|b2 t2]; [|discriminate]. cbn. rewrite !app_nil_r. exact Ed.
  - destruct t2 as [|b2 t2]; [discriminate|]. cbn [map] in Et. injection Et as Eb Et.
    destruct rss as [|rs rss].
    + cbn. rewrite !map_app. cbn [map]. rewrite Ed, Eb, Et. reflexivity.
    + assert (L : length d1 = length d2) by (rewrite <- (map_length proj d1), Ed, map_length; reflexivity).
      assert (Vs : map point (d1 ++ b1 :: t1) = map point (d2 ++ b2 :: t2)).
      { apply map_point_proj. rewrite !map_app. cbn [map]. rewrite Ed, Eb, Et. reflexivity. }
      cbn [C14_Gibbs.sweep_aux]. rewrite L, Vs. apply IH; [|exact Et].
      rewrite (map_app proj d1), (map_app proj d2). cbn [map]. rewrite Ed. f_equal. f_equal.
      apply inner_proj. exact Eb.
Qed.

Lemma sweep_proj l1 l2 rss : map proj l1 = map proj l2 -> map proj (sweep l1 rss) = map proj (sweep l2 rss).
Proof. intros E. apply sweep_aux_proj; [reflexivity | exact E]. Qed.

(* composite checkpoint: block samplers that agree on what get_state saves record the same chain from then on *)
Lemma gibbs_chain_proj rsss : forall l1 l2, map proj l1 = map proj l2 -> gibbs_chain l1 rsss = gibbs_chain l2 rsss.
Proof.
  induction rsss as [|rss r IH]; intros l1 l2 E; [reflexivity|].
  cbn [C14_Gibbs.gibbs_chain]. pose proof (sweep_proj l1 l2 rss E) as E'. f_equal; [apply map_point_proj; exact E' | apply IH; exact E'].
Qed.

(* and sweeps compose: N sweeps then M sweeps record the chain of N + M sweeps *)
Fixpoint after (bl : list Bs) (rsss : list (list (list Rnd))) : list Bs :=
  match rsss with [] => bl | rss :: r => after (sweep bl rss) r end.
Lemma gibbs_chain_app r1 : forall bl r2, gibbs_chain bl (r1 ++ r2) = gibbs_chain bl r1 ++ gibbs_chain (after bl r1) r2.
Proof. induction r1 as [|rss r1 IH]; intros bl r2; [reflexivity|]. cbn. rewrite IH. reflexivity. Qed.
End SweepProofs.
