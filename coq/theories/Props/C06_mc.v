(* C06 -- the part of the property that needs an inverse (mathcomp; every size, any field).
   One transition of LinearRTO with the inner solver run to convergence returns a solution x of the normal
   equations  M^T M x = M^T (b~ + e)  of the stacked system M = [L1 A; L2], b~ = [L1 b; L2 mu]
   (that M^T M and M^T b~ are the posterior's  H = sum A_i^T Lam_i A_i + P  and  sum A_i^T Lam_i b_i + P mu  for
   1..k likelihoods of all sizes is Props/C06.v, C06_normal_equations_model / C06_forms_agree, over lists).
   Here: x is an affine function of e, offset = posterior mean H^-1 (A^T Lam b + P mu), linear part G with
   G G^T = H^-1 = posterior covariance, independent of the state the solver started from. *)
From mathcomp Require Import all_ssreflect all_algebra.
From CVmc Require Import C06_Normal.
Set Implicit Arguments.
Unset Strict Implicit.
Unset Printing Implicit Defensive.
Import GRing.Theory.
Local Open Scope ring_scope.

(* the block form of one likelihood (k likelihoods: A = [A_1;..;A_k], L1 = blockdiag, see C06_block_two) *)
Theorem C06_normal_equations :
  forall (F : fieldType) (m r n : nat) (A : 'M[F]_(m, n)) (L1 : 'M[F]_m) (L2 : 'M[F]_(r, n))
         (b : 'cV[F]_m) (mu : 'cV[F]_n) (e : 'cV[F]_(m + r)) (x : 'cV[F]_n),
  let M := col_mx (L1 *m A) L2 in
  let bt := col_mx (L1 *m b) (L2 *m mu) in
  let Lam := L1^T *m L1 in let P := L2^T *m L2 in
  let Hp := A^T *m Lam *m A + P in
  let G := invmx Hp *m M^T in
  Hp \in unitmx -> M^T *m M *m x = M^T *m (bt + e) ->
  x = invmx Hp *m (A^T *m Lam *m b + P *m mu) + G *m e /\ G *m G^T = invmx Hp.
Proof. exact rto_normal_equations. Qed.
Print Assumptions C06_normal_equations.

(* any stacked operator M (any number of blocks): the converged point is the affine image of e ... *)
Theorem C06_affine : forall (F : fieldType) (p n : nat) (M : 'M[F]_(p, n)) (b e : 'cV[F]_p) (x : 'cV[F]_n),
  M^T *m M \in unitmx -> M^T *m M *m x = M^T *m (b + e) ->
  x = invmx (M^T *m M) *m (M^T *m b) + (invmx (M^T *m M) *m M^T) *m e.
Proof. exact rto_affine. Qed.
Print Assumptions C06_affine.

(* ... the affine image does solve the normal equations (so the read-off e -> x(e) characterises the draw) ... *)
Theorem C06_affine_solves : forall (F : fieldType) (p n : nat) (M : 'M[F]_(p, n)) (b e : 'cV[F]_p),
  M^T *m M \in unitmx ->
  M^T *m M *m (invmx (M^T *m M) *m (M^T *m b) + (invmx (M^T *m M) *m M^T) *m e) = M^T *m (b + e).
Proof. exact rto_affine_solves. Qed.
Print Assumptions C06_affine_solves.

(* ... its linear part reproduces the covariance (M^T M)^-1 ... *)
Theorem C06_covariance : forall (F : fieldType) (p n : nat) (M : 'M[F]_(p, n)),
  M^T *m M \in unitmx ->
  (invmx (M^T *m M) *m M^T) *m (invmx (M^T *m M) *m M^T)^T = invmx (M^T *m M).
Proof. exact rto_cov. Qed.
Print Assumptions C06_covariance.

(* ... and it does not depend on the current state: the normal equations have exactly one solution, so two
   converged runs from different starting points with the same perturbation return the same point *)
Theorem C06_state_independent : forall (F : fieldType) (p n : nat) (M : 'M[F]_(p, n)) (y : 'cV[F]_p) (x x' : 'cV[F]_n),
  M^T *m M \in unitmx -> M^T *m M *m x = M^T *m y -> M^T *m M *m x' = M^T *m y -> x = x'.
Proof. exact rto_unique. Qed.
Print Assumptions C06_state_independent.

(* the offset is the posterior mean and H the posterior precision: with m the solution for e = 0,
   |M x - b~|^2 (= -2 log posterior density + const: sum |L_i (A_i x - b_i)|^2 + |L2 (x - mu)|^2)
   = |M m - b~|^2 + (x - m)^T H (x - m)  for every x *)
Theorem C06_posterior_is_gaussian : forall (F : fieldType) (p n : nat) (M : 'M[F]_(p, n)) (b : 'cV[F]_p) (m x : 'cV[F]_n),
  M^T *m M *m m = M^T *m b ->
  (M *m x - b)^T *m (M *m x - b) = (M *m m - b)^T *m (M *m m - b) + (x - m)^T *m (M^T *m M) *m (x - m).
Proof. exact rto_complete_square. Qed.
Print Assumptions C06_posterior_is_gaussian.

(* the blocks: M^T M and M^T b~ of the stacked system; two likelihoods = one with stacked model *)
Theorem C06_blocks : forall (F : fieldType) (m r n : nat) (A : 'M[F]_(m, n)) (L1 : 'M[F]_m) (L2 : 'M[F]_(r, n))
         (b : 'cV[F]_m) (mu : 'cV[F]_n),
  (col_mx (L1 *m A) L2)^T *m col_mx (L1 *m A) L2 = A^T *m (L1^T *m L1) *m A + L2^T *m L2 /\
  (col_mx (L1 *m A) L2)^T *m col_mx (L1 *m b) (L2 *m mu) = A^T *m (L1^T *m L1) *m b + (L2^T *m L2) *m mu.
Proof. by move=> F m r n A L1 L2 b mu; split; [exact: block_H | exact: block_rhs]. Qed.
Print Assumptions C06_blocks.

Theorem C06_block_two : forall (F : fieldType) (m n m2 : nat) (A : 'M[F]_(m, n)) (L1 : 'M[F]_m)
         (A2 : 'M[F]_(m2, n)) (K1 : 'M[F]_m2),
  col_mx (L1 *m A) (K1 *m A2) = block_mx L1 0 0 K1 *m col_mx A A2.
Proof. by move=> F m n m2 A L1 A2 K1; exact: block_two. Qed.
Print Assumptions C06_block_two.

(* non-vacuity: the hypotheses are satisfiable: M = I_2 over the rationals has M^T M invertible and x = b + e
   solves its normal equations *)
Example C06_mc_example : forall (b e : 'cV[rat]_2),
  let M : 'M[rat]_2 := 1%:M in
  M^T *m M \in unitmx /\ M^T *m M *m (b + e) = M^T *m (b + e).
Proof. by move=> b e /=; rewrite trmx1 !mul1mx unitmx1. Qed.
