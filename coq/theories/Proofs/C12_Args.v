(* C12 -- get_non_default_args and the call `func(x)`: the one argument the model names is the parameter that
   receives the model input. *)
From CV Require Import Base.Tac Base.Cmp Model.C12_Args.
From Coq Require String.
Import String.StringSyntax.
Local Open Scope string_scope.

Lemma nda_by_kind sg : non_default_args false sg = map pa_name (filter required sg).
Proof. reflexivity. Qed.

Lemma split_pos_spec sg pre r post : split_pos sg = Some (pre, r, post) ->
  sg = pre ++ r :: post /\ positional (pa_kind r) = true /\ (forall p, In p pre -> positional (pa_kind p) = false).
Proof.
  revert pre r post; induction sg as [|p sg IH]; intros pre r post H; simpl in H; [discriminate|].
  destruct (positional (pa_kind p)) eqn:Ep.
  - inversion H; subst. repeat split; [exact Ep | intros ? []].
  - destruct (split_pos sg) as [[[a x] b]|] eqn:Es; [|discriminate]. inversion H; subst.
    destruct (IH a r post eq_refl) as (E1 & E2 & E3). subst sg. repeat split; [exact E2|].
    intros p0 [<- | Hin]; [exact Ep | apply E3; exact Hin].
Qed.

Lemma split_pos_none sg : split_pos sg = None -> forall p, In p sg -> positional (pa_kind p) = false.
Proof.
  induction sg as [|p sg IH]; intros H p0 Hin; [destruct Hin|]. simpl in H.
  destruct (positional (pa_kind p)) eqn:Ep; [discriminate|].
  destruct (split_pos sg) as [[[a x] b]|]; [discriminate|].
  destruct Hin as [<- | Hin]; [exact Ep | apply IH; [reflexivity | exact Hin]].
Qed.

Lemma pdo_skip b pre l : (forall p, In p pre -> positional (pa_kind p) = false) ->
  pos_defaults_ok b (pre ++ l) = pos_defaults_ok b l.
Proof.
  induction pre as [|p pre IH]; intros H; [reflexivity|]. simpl.
  rewrite (H p (or_introl eq_refl)). apply IH. intros p0 Hp0. apply H. right. exact Hp0.
Qed.

Lemma pdo_true_in l p : pos_defaults_ok true l = true -> In p l -> positional (pa_kind p) = true -> pa_default p = true.
Proof.
  induction l as [|a l IH]; intros H Hin Hp; [destruct Hin|]. simpl in H.
  destruct Hin as [<- | Hin].
  - rewrite Hp in H. apply andb_prop in H as [H _]. exact H.
  - destruct (positional (pa_kind a)).
    + apply andb_prop in H as [_ H]. apply IH; assumption.
    + apply IH; assumption.
Qed.

Lemma filter_app_cons {A} (f : A -> bool) pre r post :
  filter f (pre ++ r :: post) = filter f pre ++ (if f r then [r] else []) ++ filter f post.
Proof. rewrite filter_app. simpl. destruct (f r); reflexivity. Qed.

Lemma required_positional_no_default p : positional (pa_kind p) = true -> required p = negb (pa_default p).
Proof. unfold required. destruct (pa_kind p); simpl; try discriminate; reflexivity. Qed.

(* MAIN: a well-formed signature whose only required parameter is p0.  The model names exactly [p0]; the call
   func(x) that _apply_func makes hands x to p0 and leaves every other parameter at its default (no required
   parameter is missing) when p0 takes positional arguments, and is refused (TypeError) when p0 is keyword-only. *)
Theorem forward_call_binds_named_argument sg p0 :
  pos_defaults_ok false sg = true ->
  filter required sg = [p0] ->
  non_default_args false sg = [pa_name p0] /\
  (positional (pa_kind p0) = true -> call1 sg = Some (BoundParam (pa_name p0))) /\
  (pa_kind p0 = KKwOnly -> call1 sg = None).
Proof.
  intros Hok Hreq. split; [rewrite nda_by_kind, Hreq; reflexivity|]. split.
  - intros Hp0. unfold call1. destruct (split_pos sg) as [[[pre r] post]|] eqn:Es.
    + destruct (split_pos_spec sg pre r post Es) as (E & Hr & Hpre). subst sg.
      rewrite filter_app_cons in Hreq.
      assert (Hin0 : In p0 (filter required pre ++ (if required r then [r] else []) ++ filter required post))
        by (rewrite Hreq; left; reflexivity).
      destruct (required r) eqn:Er.
      * (* r is required: it is the only one *)
        destruct (filter required pre) as [|a l] eqn:Epre.
        -- simpl in Hreq. inversion Hreq; subst. rewrite filter_app, Epre, H1. reflexivity.
        -- simpl in Hreq. inversion Hreq as [[Ea El]]. destruct l; discriminate El.
      * (* r has a default: p0 would be a positional parameter without default after it *)
        exfalso. rewrite required_positional_no_default in Er by exact Hr.
        apply negb_false_iff in Er.
        rewrite pdo_skip in Hok by exact Hpre. simpl in Hok. rewrite Hr, Er in Hok. simpl in Hok.
        simpl in Hin0. apply in_app_or in Hin0 as [Hin0 | Hin0]; apply filter_In in Hin0 as [Hin0 Hrq].
        -- rewrite (Hpre p0 Hin0) in Hp0. discriminate.
        -- pose proof (pdo_true_in post p0 Hok Hin0 Hp0) as Hd.
           unfold required in Hrq. rewrite Hd in Hrq. rewrite andb_false_r in Hrq. discriminate.
    + exfalso. assert (Hin : In p0 sg).
      { assert (H : In p0 (filter required sg)) by (rewrite Hreq; left; reflexivity). apply filter_In in H as [H _]. exact H. }
      rewrite (split_pos_none sg Es p0 Hin) in Hp0. discriminate.
  - intros Hk. assert (Hin : In p0 (filter required sg)) by (rewrite Hreq; left; reflexivity).
    apply filter_In in Hin as [Hin Hrq].
    unfold call1. destruct (split_pos sg) as [[[pre r] post]|] eqn:Es.
    + destruct (split_pos_spec sg pre r post Es) as (E & Hr & Hpre). subst sg.
      assert (Hin' : In p0 (filter required (pre ++ post))).
      { apply filter_In. split; [|exact Hrq]. apply in_app_or in Hin as [H | [H | H]].
        - apply in_or_app; left; exact H.
        - subst r. rewrite Hk in Hr. discriminate.
        - apply in_or_app; right; exact H. }
      destruct (filter required (pre ++ post)); [destruct Hin' | reflexivity].
    + rewrite Hreq. destruct (find (fun p => is_varpos (pa_kind p)) sg); reflexivity.
Qed.

(* conversely: whenever the call func(x) succeeds, every argument the model names is the parameter that
   received x (so the model names at most that one) *)
Theorem call_receiver_is_named sg b : call1 sg = Some b ->
  forall a, In a (non_default_args false sg) -> b = BoundParam a.
Proof.
  intros H a Ha. rewrite nda_by_kind in Ha. unfold call1 in H.
  destruct (split_pos sg) as [[[pre r] post]|] eqn:Es.
  - destruct (split_pos_spec sg pre r post Es) as (E & Hr & Hpre). subst sg.
    destruct (filter required (pre ++ post)) eqn:Ef; [|discriminate]. inversion H; subst b.
    rewrite filter_app in Ef. apply app_eq_nil in Ef as [E1 E2].
    rewrite filter_app_cons, E1, E2 in Ha. simpl in Ha. rewrite app_nil_r in Ha.
    destruct (required r); simpl in Ha; [destruct Ha as [<- | []]; reflexivity | destruct Ha].
  - destruct (find (fun p => is_varpos (pa_kind p)) sg); [|discriminate].
    destruct (filter required sg); [destruct Ha | discriminate].
Qed.

(* Model.forward on top: with the single name [a] and a callable that accepts one positional argument, the input
   may be given positionally or under the keyword a, and under no other keyword *)
Theorem forward_accepts_named sg a bnd : call1 sg = Some bnd ->
  forward_accepts [a] sg 1 [] = true /\ forward_accepts [a] sg 0 [a] = true /\
  (forall k, k <> a -> forward_accepts [a] sg 0 [k] = false) /\
  (forall k k' ks, forward_accepts [a] sg 0 (k :: k' :: ks) = false) /\
  (forall n k ks, forward_accepts [a] sg (S n) (k :: ks) = false) /\
  (forall n, forward_accepts [a] sg (S (S n)) [] = false).
Proof.
  intros H. unfold forward_accepts, strs_all. rewrite H. cbn [forallb]. rewrite String.eqb_refl.
  split; [reflexivity|]. split; [reflexivity|]. split.
  - intros k Hk. destruct (String.eqb k a) eqn:E; [apply String.eqb_eq in E; contradiction | reflexivity].
  - split; [reflexivity|]. split; [intros [|n] k ks; reflexivity | reflexivity].
Qed.

(* a callable with several required parameters (a "multiple-input model"): this Model class supports one input only, and every
   way of calling forward is refused -- never a silent binding of the input to one of them *)
Theorem forward_refuses_several_inputs nda sg npos kws :
  NoDup nda -> (2 <= length nda)%nat -> forward_accepts nda sg npos kws = false.
Proof.
  intros Hnd Hl. destruct nda as [|a [|b r]]; simpl in Hl; try lia.
  unfold forward_accepts. destruct npos as [|[|n]]; destruct kws as [|k [|k' ks]]; try reflexivity.
  unfold strs_all. cbn [forallb].
  destruct (String.eqb k a) eqn:Ea; [|reflexivity]. destruct (String.eqb k b) eqn:Eb; [|reflexivity].
  apply String.eqb_eq in Ea. apply String.eqb_eq in Eb. subst a b.
  inversion Hnd as [|x l Hin _]; subst. exfalso. apply Hin. left. reflexivity.
Qed.

Lemma NoDup_map_filter {A B} (f : A -> B) (p : A -> bool) l : NoDup (map f l) -> NoDup (map f (filter p l)).
Proof.
  induction l as [|a l IH]; intros H; [constructor|]. cbn [map] in H. inversion H as [|x xs Hin Hnd]; subst.
  cbn [filter]. destruct (p a); [|apply IH; exact Hnd]. cbn [map]. constructor; [|apply IH; exact Hnd].
  intros Hc. apply Hin. apply in_map_iff in Hc as (y & Hy & Hyin). apply filter_In in Hyin as [Hyin _].
  apply in_map_iff. exists y. split; assumption.
Qed.

(* a callable with several required parameters, stated on the signature (Python forbids duplicate parameter names) *)
Theorem several_required_parameters_refused sg npos kws :
  NoDup (map pa_name sg) -> (2 <= length (filter required sg))%nat ->
  forward_accepts (non_default_args false sg) sg npos kws = false.
Proof.
  intros Hnd Hl. apply forward_refuses_several_inputs.
  - rewrite nda_by_kind. apply NoDup_map_filter. exact Hnd.
  - rewrite nda_by_kind, map_length. exact Hl.
Qed.

Theorem no_required_parameter_refused sg npos kws : forward_accepts [] sg npos kws = false.
Proof. destruct npos as [|[|n]]; destruct kws as [|k [|k' ks]]; reflexivity. Qed.

(* complete characterisation: a positional input is accepted exactly when the callable has ONE required parameter and that
   parameter takes positional arguments *)
Theorem forward_accepts_iff sg :
  pos_defaults_ok false sg = true ->
  (forward_accepts (non_default_args false sg) sg 1 [] = true <->
   exists p0, filter required sg = [p0] /\ positional (pa_kind p0) = true).
Proof.
  intros Hok. split.
  - intros H. rewrite nda_by_kind in H. unfold forward_accepts in H.
    destruct (filter required sg) as [|p0 [|p1 r]] eqn:Ef; cbn [map] in H; try discriminate.
    exists p0. split; [reflexivity|].
    destruct (forward_call_binds_named_argument sg p0 Hok Ef) as (_ & _ & Hkw).
    assert (Hreq : required p0 = true).
    { assert (Hin : In p0 (filter required sg)) by (rewrite Ef; left; reflexivity). apply filter_In in Hin. tauto. }
    unfold required in Hreq. destruct (pa_kind p0) eqn:Ek; try reflexivity; try discriminate Hreq.
    rewrite (Hkw eq_refl) in H. discriminate H.
  - intros (p0 & Ef & Hp).
    destruct (forward_call_binds_named_argument sg p0 Hok Ef) as (Hn & Hc & _).
    rewrite Hn. unfold forward_accepts. rewrite (Hc Hp). reflexivity.
Qed.

(* the old test (by name) and today's (by kind) agree exactly on the signatures that follow the naming
   convention: a parameter is called args/kwargs iff it is variadic *)
Theorem by_name_agrees_under_convention sg :
  (forall p, In p sg -> is_variadic (pa_kind p) = (String.eqb (pa_name p) "args" || String.eqb (pa_name p) "kwargs")) ->
  non_default_args true sg = non_default_args false sg.
Proof.
  intros H. unfold non_default_args. f_equal. apply filter_ext_in. intros p Hp. unfold nda_keeps.
  rewrite (H p Hp). rewrite negb_orb. reflexivity.
Qed.

(* the defect repaired by /repo commit 074a70c: an ordinary argument CALLED args (or kwargs) was dropped, a variadic
   parameter called anything else was listed *)
Definition sg_args := [mkParam "args" KPosOrKw false].
Definition sg_rest := [mkParam "x" KPosOrKw false; mkParam "rest" KVarPos false; mkParam "options" KVarKw false].
Lemma witness_by_name :
  non_default_args true sg_args = [] /\ non_default_args false sg_args = ["args"] /\
  call1 sg_args = Some (BoundParam "args") /\
  forward_accepts (non_default_args true sg_args) sg_args 1 [] = false /\
  forward_accepts (non_default_args false sg_args) sg_args 1 [] = true /\
  non_default_args true sg_rest = ["x"; "rest"; "options"] /\ non_default_args false sg_rest = ["x"] /\
  forward_accepts (non_default_args true sg_rest) sg_rest 1 [] = false /\
  forward_accepts (non_default_args false sg_rest) sg_rest 1 [] = true.
Proof. vm_compute. repeat split; reflexivity. Qed.

(* non-vacuity: def f(a, /, *rest, scale=1, **options) -- every parameter kind but a second required one *)
Definition sg_example :=
  [mkParam "a" KPosOnly false; mkParam "rest" KVarPos false; mkParam "scale" KKwOnly true; mkParam "options" KVarKw false].
Lemma args_example :
  pos_defaults_ok false sg_example = true /\ filter required sg_example = [mkParam "a" KPosOnly false] /\
  call1 sg_example = Some (BoundParam "a").
Proof. vm_compute. repeat split; reflexivity. Qed.
