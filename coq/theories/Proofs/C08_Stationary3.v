(* C08 (tier 2) -- max_depth = 1, U-turn test never firing: stationarity of the counting measure on the
   slice for EVERY labelling (in slice / outside / divergent) of the 12 positions around an in-slice
   position 0 that a transition towards 0 can see (3^12 = 531441 labellings). *)
From CV Require Import Base.Tac Base.Ext Model.C08_NUTS Proofs.C08_Stationary Proofs.C08_Stat3a Proofs.C08_Stat3b Proofs.C08_Stat3c.
From Coq Require Import QArith.

Theorem stationary_md1 : forall l : list lab, length l = 12%nat ->
  (colsum (win_get 6 (centred l 6)) (fun _ _ => true) false 1 3 == 1)%Q.
Proof.
  intros l Hl. destruct l as [|a l]; [discriminate|]. injection Hl as Hl.
  assert (H : md1_check false (a :: l) = true).
  { destruct a.
    - assert (H1 := check_md1_a). apply forall_labs_sound with (l := l) in H1; [exact H1 | exact Hl].
    - assert (H1 := check_md1_b). apply forall_labs_sound with (l := l) in H1; [exact H1 | exact Hl].
    - assert (H1 := check_md1_c). apply forall_labs_sound with (l := l) in H1; [exact H1 | exact Hl]. }
  apply Qeq_bool_iff. exact H.
Qed.
