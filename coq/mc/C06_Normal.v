(* C06 -- the normal equations of the stacked RTO system, for matrices of every size over any field
   (mathcomp / ssreflect style; logical path CVmc).

   One transition of LinearRTO returns x = CGLS(M, b~ + e, x_cur).  When the inner solver has converged, x
   satisfies  M^T M x = M^T (b~ + e)  (C16).  With H = M^T M invertible this determines x:
       x = H^-1 M^T b~  +  (H^-1 M^T) e
   an affine function of the standard-normal e, independent of x_cur, whose offset is the minimiser of
   |M x - b~|^2 (the posterior mean) and whose linear part G satisfies G G^T = H^-1 (the posterior covariance).
   For the block form M = [L1 A; L2], b~ = [L1 b; L2 mu]:  H = A^T (L1^T L1) A + L2^T L2,
   M^T b~ = A^T (L1^T L1) b + (L2^T L2) mu. *)
From mathcomp Require Import all_ssreflect all_algebra.
Set Implicit Arguments.
Unset Strict Implicit.
Unset Printing Implicit Defensive.
Import GRing.Theory.
Local Open Scope ring_scope.

Section Normal.
Variable F : fieldType.

Section General.
Variables (p n : nat) (M : 'M[F]_(p, n)).
Let H := M^T *m M.

Lemma H_sym : H^T = H.
Proof. by rewrite /H trmx_mul trmxK. Qed.

(* the converged point is the affine image of e *)
Theorem rto_affine (b e : 'cV[F]_p) (x : 'cV[F]_n) :
  H \in unitmx -> H *m x = M^T *m (b + e) ->
  x = invmx H *m (M^T *m b) + (invmx H *m M^T) *m e.
Proof.
move=> U E.
by rewrite -mulmxA -mulmxDr -mulmxDr -E mulKmx.
Qed.

(* ... conversely the affine image solves the normal equations: the read-off characterises the draw *)
Theorem rto_affine_solves (b e : 'cV[F]_p) :
  H \in unitmx -> H *m (invmx H *m (M^T *m b) + (invmx H *m M^T) *m e) = M^T *m (b + e).
Proof.
move=> U.
by rewrite -mulmxA -mulmxDr -mulmxDr mulKVmx.
Qed.

(* the linear part reproduces the covariance H^-1 *)
Theorem rto_cov : H \in unitmx -> (invmx H *m M^T) *m (invmx H *m M^T)^T = invmx H.
Proof.
move=> U.
rewrite trmx_mul trmxK trmx_inv H_sym.
by rewrite mulmxA -(mulmxA (invmx H) M^T M) -/H mulVmx // mul1mx.
Qed.

(* the draw does not depend on the state the solver was started from: the normal equations have one solution *)
Theorem rto_unique (y : 'cV[F]_p) (x x' : 'cV[F]_n) :
  H \in unitmx -> H *m x = M^T *m y -> H *m x' = M^T *m y -> x = x'.
Proof.
move=> U E E'.
by rewrite -[x](mulKmx U) -[x'](mulKmx U) E E'.
Qed.

(* the offset m = H^-1 M^T b is the centre of the quadratic |M x - b|^2 = -2 log posterior + const, whose
   Hessian is H: completing the square, for every x *)
Theorem rto_complete_square (b : 'cV[F]_p) (m x : 'cV[F]_n) :
  H *m m = M^T *m b ->
  (M *m x - b)^T *m (M *m x - b) = (M *m m - b)^T *m (M *m m - b) + (x - m)^T *m H *m (x - m).
Proof.
move=> E.
set u := M *m m - b; set v := x - m.
have -> : M *m x - b = u + M *m v by rewrite /u /v mulmxBr [RHS]addrC addrA subrK.
have Z : M^T *m u = 0 by rewrite /u mulmxBr mulmxA -/H E subrr.
have Z' : u^T *m M = 0 by apply: trmx_inj; rewrite trmx_mul trmxK Z trmx0.
rewrite [(u + _)^T]raddfD /= mulmxDl 2!mulmxDr.
rewrite [u^T *m (M *m v)]mulmxA Z' mul0mx addr0.
rewrite !trmx_mul -[v^T *m M^T *m u]mulmxA Z mulmx0 add0r.
by rewrite -!mulmxA [M^T *m (M *m _)]mulmxA.
Qed.
End General.

(* block form: one likelihood (A, L1, b) and the prior (L2, mu); k likelihoods are the same with
   A = [A_1; ...; A_k], L1 = blockdiag(L1_1, ..., L1_k), b = [b_1; ...; b_k] *)
Section Blocks.
Variables (m r n : nat).
Variables (A : 'M[F]_(m, n)) (L1 : 'M[F]_m) (L2 : 'M[F]_(r, n)) (b : 'cV[F]_m) (mu : 'cV[F]_n).

Lemma block_H : (col_mx (L1 *m A) L2)^T *m col_mx (L1 *m A) L2 = A^T *m (L1^T *m L1) *m A + L2^T *m L2.
Proof. by rewrite tr_col_mx mul_row_col trmx_mul !mulmxA. Qed.

Lemma block_rhs : (col_mx (L1 *m A) L2)^T *m col_mx (L1 *m b) (L2 *m mu)
                  = A^T *m (L1^T *m L1) *m b + (L2^T *m L2) *m mu.
Proof. by rewrite tr_col_mx mul_row_col trmx_mul !mulmxA. Qed.

(* two likelihoods stacked = one likelihood with stacked model and block-diagonal square root *)
Lemma block_two (m2 : nat) (A2 : 'M[F]_(m2, n)) (K1 : 'M[F]_m2) :
  col_mx (L1 *m A) (K1 *m A2) = block_mx L1 0 0 K1 *m col_mx A A2.
Proof. by rewrite mul_block_col !mul0mx addr0 add0r. Qed.

(* C06_normal_equations: with Lam = L1^T L1 (noise precision), P = L2^T L2 (prior precision),
   Hp = A^T Lam A + P invertible, every solution of the normal equations of the stacked system is
       x = Hp^-1 (A^T Lam b + P mu) + G e,   G G^T = Hp^-1,
   whatever point the solver started from. *)
Theorem rto_normal_equations (e : 'cV[F]_(m + r)) (x : 'cV[F]_n) :
  let M := col_mx (L1 *m A) L2 in
  let bt := col_mx (L1 *m b) (L2 *m mu) in
  let Lam := L1^T *m L1 in let P := L2^T *m L2 in
  let Hp := A^T *m Lam *m A + P in
  let G := invmx Hp *m M^T in
  Hp \in unitmx -> M^T *m M *m x = M^T *m (bt + e) ->
  x = invmx Hp *m (A^T *m Lam *m b + P *m mu) + G *m e /\ G *m G^T = invmx Hp.
Proof.
move=> M bt Lam P Hp G U E.
have EH : M^T *m M = Hp by rewrite /M block_H.
have U' : M^T *m M \in unitmx by rewrite EH.
split.
- rewrite /G -EH -[A^T *m Lam *m b + P *m mu]block_rhs -/M -/bt.
  exact: (rto_affine U' E).
- rewrite /G -EH; exact: (rto_cov U').
Qed.
End Blocks.

End Normal.
