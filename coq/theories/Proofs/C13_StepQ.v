(* C13 -- StepExpansion.__init__ in exact rational arithmetic: on every regular grid the interval tests
   produce exactly the documented partition (node k in step ceil(k n/(N-1)) - 1), for all N, n, offsets, spacings. *)
From CV Require Import Base.Tac Base.Cmp Base.QcLin Model.C13_Geom Model.C13_Float Proofs.C13_Lists Proofs.C13_Step.
From Coq Require Import QArith Qabs.

(* regular grid x0, x0+h, ..., x0+(N-1)h *)
Definition reg_grid (x0 h : Q) (N : nat) : list Q := map (fun k => x0 + q_nat k * h)%Q (seq 0 N).
(* step_of, idx_of_fun (the documented step of node k) are defined in Model/C13_Geom.v *)

(* ---------------- np.where over a grid given by a formula ---------------- *)
Lemma combine_seq_map {B} (g : nat -> B) a n : combine (seq a n) (map g (seq a n)) = map (fun k => (k, g k)) (seq a n).
Proof. revert a. induction n as [|n IH]; intros a; [reflexivity|]. cbn [seq map combine]. rewrite IH. reflexivity. Qed.

Lemma filter_map_comm {X Y} (h : X -> Y) (P : Y -> bool) l : filter P (map h l) = map h (filter (fun x => P (h x)) l).
Proof. induction l as [|a l IH]; [reflexivity|]. cbn [map filter]. destruct (P (h a)); cbn [map]; rewrite IH; reflexivity. Qed.

Lemma np_where_map_seq {F} (f : F -> bool) (g : nat -> F) N :
  np_where f (map g (seq 0 N)) = filter (fun k => f (g k)) (seq 0 N).
Proof.
  unfold np_where. rewrite map_length, seq_length, combine_seq_map, filter_map_comm, map_map. cbn [fst snd]. apply map_id.
Qed.

Lemma last_map_seq {B} (g : nat -> B) n d : last (map g (seq 0 (S n))) d = g n.
Proof.
  rewrite seq_S, map_app. cbn [map Nat.add]. apply last_last.
Qed.

(* ---------------- the comparisons, in integers ---------------- *)
Lemma q_nat_mul a b : q_nat a * q_nat b == q_nat (a * b).
Proof. unfold q_nat. rewrite Nat2Z.inj_mul, inject_Z_mult. reflexivity. Qed.

Lemma q_nat_le a b : q_nat a <= q_nat b <-> (a <= b)%nat.
Proof. unfold q_nat. rewrite <- Zle_Qle. lia. Qed.
Lemma q_nat_lt a b : q_nat a < q_nat b <-> (a < b)%nat.
Proof. unfold q_nat. rewrite <- Zlt_Qlt. lia. Qed.

Lemma q_nat_pos n : (0 < n)%nat -> 0 < q_nat n.
Proof. intros H. change 0 with (q_nat 0). apply q_nat_lt. exact H. Qed.

Section Cmp.
Variables (x0 h : Q) (N1 n : nat).
Hypotheses (Hh : 0 < h) (Hn : (0 < n)%nat).
Let g (k : nat) : Q := x0 + q_nat k * h.
Let L : Q := g N1 - g 0.

Lemma start_eq i : step_start Qplus Qmult Qdiv q_nat (g 0) L n i == x0 + (q_nat (i * N1) / q_nat n) * h.
Proof.
  unfold step_start, L, g. rewrite <- q_nat_mul.
  assert (Hq : ~ q_nat n == 0) by (intros E; pose proof (q_nat_pos n Hn) as P; rewrite E in P; apply (Qlt_irrefl 0); exact P).
  change (q_nat 0) with 0. field. exact Hq.
Qed.

Lemma node_eq k : g k == x0 + (q_nat (k * n) / q_nat n) * h.
Proof.
  unfold g. rewrite <- q_nat_mul.
  assert (Hq : ~ q_nat n == 0) by (intros E; pose proof (q_nat_pos n Hn) as P; rewrite E in P; apply (Qlt_irrefl 0); exact P).
  field. exact Hq.
Qed.

Lemma cmp_le a b : x0 + (q_nat a / q_nat n) * h <= x0 + (q_nat b / q_nat n) * h <-> (a <= b)%nat.
Proof.
  rewrite Qplus_le_r. rewrite Qmult_le_r by exact Hh.
  unfold Qdiv. rewrite Qmult_le_r by (apply Qinv_lt_0_compat; apply q_nat_pos; exact Hn). apply q_nat_le.
Qed.

Lemma cmp_lt a b : x0 + (q_nat a / q_nat n) * h < x0 + (q_nat b / q_nat n) * h <-> (a < b)%nat.
Proof.
  rewrite Qplus_lt_r. rewrite Qmult_lt_r by exact Hh.
  unfold Qdiv. rewrite Qmult_lt_r by (apply Qinv_lt_0_compat; apply q_nat_pos; exact Hn). apply q_nat_lt.
Qed.

Lemma fle_start_node i k : q_le (step_start Qplus Qmult Qdiv q_nat (g 0) L n i) (g k) = (i * N1 <=? k * n)%nat.
Proof.
  unfold q_le. apply eq_true_iff_eq. rewrite Qle_bool_iff, start_eq, node_eq, cmp_le. symmetry. apply Nat.leb_le.
Qed.

Lemma flt_start_node i k : q_lt (step_start Qplus Qmult Qdiv q_nat (g 0) L n i) (g k) = (i * N1 <? k * n)%nat.
Proof.
  unfold q_lt. apply eq_true_iff_eq. rewrite negb_true_iff. rewrite Nat.ltb_lt.
  rewrite <- not_true_iff_false, Qle_bool_iff, start_eq, node_eq, cmp_le. lia.
Qed.

Lemma fle_node_end i k : q_le (g k) (step_start Qplus Qmult Qdiv q_nat (g 0) L n (S i)) = (k * n <=? S i * N1)%nat.
Proof.
  unfold q_le. apply eq_true_iff_eq. rewrite Qle_bool_iff, start_eq, node_eq, cmp_le. symmetry. apply Nat.leb_le.
Qed.

Lemma in_step_node i k : in_step Qplus Qmult Qdiv q_le q_lt q_nat (g 0) L n i (g k)
  = ((if (i =? 0)%nat then (i * N1 <=? k * n)%nat else (i * N1 <? k * n)%nat) && (k * n <=? S i * N1)%nat).
Proof. unfold in_step. rewrite fle_start_node, flt_start_node, fle_node_end. reflexivity. Qed.
End Cmp.

(* ---------------- the arithmetic of the documented step ---------------- *)
Lemma in_step_step_of N1 n i k : (1 <= N1)%nat -> (1 <= n)%nat ->
  ((if (i =? 0)%nat then (i * N1 <=? k * n)%nat else (i * N1 <? k * n)%nat) && (k * n <=? S i * N1)%nat)
  = (step_of (S N1) n k =? i)%nat.
Proof.
  intros HN Hn. unfold step_of. replace (S N1 - 1)%nat with N1 by lia.
  destruct (k =? 0)%nat eqn:Ek.
  - apply Nat.eqb_eq in Ek. subst k. destruct i as [|i]; cbn [Nat.eqb Nat.mul Nat.add].
    + reflexivity.
    + cbn [Nat.ltb Nat.leb]. reflexivity.
  - apply Nat.eqb_neq in Ek.
    set (c := ((k * n + N1 - 1) / N1)%nat).
    assert (Hc : (c * N1 <= k * n + N1 - 1 < (c + 1) * N1)%nat).
    { unfold c. pose proof (Nat.div_mod (k * n + N1 - 1) N1 ltac:(lia)) as E.
      pose proof (Nat.mod_upper_bound (k * n + N1 - 1) N1 ltac:(lia)) as B. nia. }
    assert (Hkn : (1 <= k * n)%nat) by nia.
    apply eq_true_iff_eq. rewrite andb_true_iff, Nat.eqb_eq, Nat.leb_le.
    destruct i as [|i]; cbn [Nat.eqb].
    + rewrite Nat.leb_le. split; [intros [_ H] | intros H; split; [lia|]]; nia.
    + rewrite Nat.ltb_lt. split; [intros [H1 H2] | intros H; split]; nia.
Qed.

Theorem step_of_lt N n k : (2 <= N)%nat -> (1 <= n)%nat -> (k < N)%nat -> (step_of N n k < n)%nat.
Proof.
  intros HN Hn Hk. unfold step_of. destruct (k =? 0)%nat eqn:Ek; [lia|]. apply Nat.eqb_neq in Ek.
  set (N1 := (N - 1)%nat). assert (HN1 : (1 <= N1)%nat) by (unfold N1; lia). assert (HkN1 : (k <= N1)%nat) by (unfold N1; lia).
  set (c := ((k * n + N1 - 1) / N1)%nat).
  assert (Hc : (c * N1 <= k * n + N1 - 1)%nat).
  { unfold c. pose proof (Nat.div_mod (k * n + N1 - 1) N1 ltac:(lia)) as E. nia. }
  assert (c <= n)%nat by nia. assert (1 <= c)%nat.
  { unfold c. apply Nat.div_le_lower_bound; nia. }
  lia.
Qed.

(* "no step is empty": needs n <= N *)
Theorem step_of_surj N n i : (2 <= N)%nat -> (1 <= n)%nat -> (n <= N)%nat -> (i < n)%nat ->
  exists k, (k < N)%nat /\ step_of N n k = i.
Proof.
  intros HN Hn HnN Hi. destruct N as [|N1]; [lia|]. assert (HN1 : (1 <= N1)%nat) by lia.
  destruct i as [|i]; [exists 0%nat; split; [lia | reflexivity]|].
  assert (Hchar : forall k, (k < S N1)%nat -> (S i * N1 < k * n)%nat -> (k * n <= S (S i) * N1)%nat -> step_of (S N1) n k = S i).
  { intros k Hk H1 H2. apply Nat.eqb_eq. rewrite <- in_step_step_of by lia. cbn [Nat.eqb].
    apply andb_true_iff. split; [apply Nat.ltb_lt; exact H1 | apply Nat.leb_le; exact H2]. }
  destruct (Nat.eq_dec n (S N1)) as [E|E].
  - (* n = N: node i+1 *)
    exists (S i). split; [lia|]. apply Hchar; [lia | nia | nia].
  - (* n <= N-1: the first node right of the left boundary *)
    set (q := (S i * N1 / n)%nat).
    assert (Hq : (q * n <= S i * N1 < (q + 1) * n)%nat).
    { unfold q. pose proof (Nat.div_mod (S i * N1) n ltac:(lia)) as Ed.
      pose proof (Nat.mod_upper_bound (S i * N1) n ltac:(lia)) as B. nia. }
    exists (q + 1)%nat. assert (Hlt : (q + 1 < S N1)%nat) by nia.
    split; [exact Hlt|]. apply Hchar; [exact Hlt | nia | nia].
Qed.

(* ---------------- StepExpansion.__init__ on a regular grid, exactly ---------------- *)
Theorem step_indices_Q_regular (x0 h : Q) (N n : nat) : 0 < h -> (2 <= N)%nat -> (1 <= n)%nat ->
  step_indices_Q (reg_grid x0 h N) n = idx_of_fun N n (step_of N n).
Proof.
  intros Hh HN Hn. destruct N as [|N1]; [lia|]. assert (HN1 : (1 <= N1)%nat) by lia.
  unfold step_indices_Q, step_indices, reg_grid, idx_of_fun.
  remember (map (fun k : nat => x0 + q_nat k * h) (seq 0 (S N1))) as grid eqn:Eg.
  destruct grid as [|g0 rest] eqn:Egrid; [cbn in Eg; discriminate|].
  assert (Eg0 : g0 = x0 + q_nat 0 * h) by (cbn [seq map] in Eg; inversion Eg; reflexivity).
  rewrite <- Egrid in *. clear Egrid rest.
  assert (Elast : last grid g0 = x0 + q_nat N1 * h) by (rewrite Eg; apply (last_map_seq (fun k => x0 + q_nat k * h))).
  rewrite Elast, Eg0. apply map_ext_in. intros i Hi. rewrite Eg.
  rewrite (np_where_map_seq _ (fun k => x0 + q_nat k * h)).
  apply filter_ext_in. intros k Hk.
  rewrite (in_step_node x0 h N1 n Hh ltac:(lia) i k). apply in_step_step_of; lia.
Qed.

(* ---------------- consequences for any index family of the form idx_of_fun ---------------- *)
Lemma idx_of_fun_length N n s : length (idx_of_fun N n s) = n.
Proof. unfold idx_of_fun. rewrite map_length, seq_length. reflexivity. Qed.

Lemma nth_idx_of_fun N n s i : (i < n)%nat -> nth i (idx_of_fun N n s) [] = filter (fun k => (s k =? i)%nat) (seq 0 N).
Proof. intros Hi. unfold idx_of_fun. rewrite nth_map_seq by exact Hi. reflexivity. Qed.

Lemma In_idx_of_fun N n s i t : (i < n)%nat -> (In t (nth i (idx_of_fun N n s) []) <-> (t < N)%nat /\ s t = i).
Proof.
  intros Hi. rewrite nth_idx_of_fun by exact Hi. rewrite filter_In, in_seq, Nat.eqb_eq. lia.
Qed.

Theorem idx_of_fun_wf N n s : (forall i, (i < n)%nat -> exists k, (k < N)%nat /\ s k = i) -> step_wf N (idx_of_fun N n s).
Proof.
  intros Hsurj. unfold step_wf. rewrite idx_of_fun_length. split.
  - intros i Hi E. destruct (Hsurj i Hi) as [k [Hk Hs]].
    assert (Hin : In k (nth i (idx_of_fun N n s) [])) by (apply In_idx_of_fun; [exact Hi | split; assumption]).
    rewrite E in Hin. exact Hin.
  - intros i t Hi Ht. apply In_idx_of_fun in Ht as [HtN Hst]; [|exact Hi]. split; [exact HtN|].
    intros j Hj Tj. apply In_idx_of_fun in Tj as [_ Hsj]; [|exact Hj]. congruence.
Qed.

Lemma count_eq_seq v a n : length (filter (fun i => (v =? i)%nat) (seq a n)) = (if ((a <=? v) && (v <? a + n))%nat then 1 else 0)%nat.
Proof.
  revert a. induction n as [|n IH]; intros a.
  - cbn [seq filter length]. destruct ((a <=? v)%nat && (v <? a + 0)%nat) eqn:E; [|reflexivity].
    apply andb_true_iff in E as [E1 E2]. apply Nat.leb_le in E1. apply Nat.ltb_lt in E2. lia.
  - cbn [seq filter]. destruct (v =? a)%nat eqn:E.
    + apply Nat.eqb_eq in E. subst v. cbn [length]. rewrite IH.
      replace (S a <=? a)%nat with false by (symmetry; apply Nat.leb_gt; lia). cbn [andb].
      replace (a <=? a)%nat with true by (symmetry; apply Nat.leb_le; lia).
      replace (a <? a + S n)%nat with true by (symmetry; apply Nat.ltb_lt; lia). reflexivity.
    + apply Nat.eqb_neq in E. rewrite IH.
      destruct (S a <=? v)%nat eqn:E1, (a <=? v)%nat eqn:E2, (v <? S a + n)%nat eqn:E3, (v <? a + S n)%nat eqn:E4; cbn [andb]; try reflexivity;
        repeat match goal with
               | H : (_ <=? _)%nat = true |- _ => apply Nat.leb_le in H
               | H : (_ <=? _)%nat = false |- _ => apply Nat.leb_gt in H
               | H : (_ <? _)%nat = true |- _ => apply Nat.ltb_lt in H
               | H : (_ <? _)%nat = false |- _ => apply Nat.ltb_ge in H
               end; lia.
Qed.

Theorem idx_of_fun_partition N n s : (forall k, (k < N)%nat -> (s k < n)%nat) -> is_partition N (idx_of_fun N n s) = true.
Proof.
  intros Hs. unfold is_partition. apply forallb_forall. intros t Ht. apply in_seq in Ht. apply Nat.eqb_eq.
  unfold count_in, idx_of_fun. rewrite filter_map_comm, map_length.
  rewrite filter_ext_in with (g := fun i => (s t =? i)%nat).
  - rewrite count_eq_seq. cbn [Nat.leb Nat.add andb]. specialize (Hs t ltac:(lia)).
    replace (s t <? n)%nat with true by (symmetry; apply Nat.ltb_lt; exact Hs). reflexivity.
  - intros i Hi. apply in_seq in Hi. apply eq_true_iff_eq. rewrite memb_In, filter_In, in_seq, !Nat.eqb_eq. lia.
Qed.

Theorem idx_of_fun_no_empty N n s : (forall i, (i < n)%nat -> exists k, (k < N)%nat /\ s k = i) -> no_empty_step (idx_of_fun N n s) = true.
Proof.
  intros Hsurj. unfold no_empty_step. apply forallb_forall. intros ids Hin.
  apply (In_nth _ _ []) in Hin as [i [Hi E]]. rewrite idx_of_fun_length in Hi. subst ids.
  destruct (Hsurj i Hi) as [k [Hk Hsk]].
  assert (Hink : In k (nth i (idx_of_fun N n s) [])) by (apply In_idx_of_fun; [exact Hi | split; assumption]).
  destruct (nth i (idx_of_fun N n s) []); [contradiction | reflexivity].
Qed.

(* every node in exactly one step -- all offsets, spacings, sizes, step counts *)
Theorem step_partition_exact (x0 h : Q) (N n : nat) : 0 < h -> (2 <= N)%nat -> (1 <= n)%nat ->
  is_partition N (step_indices_Q (reg_grid x0 h N) n) = true.
Proof.
  intros Hh HN Hn. rewrite step_indices_Q_regular by assumption.
  apply idx_of_fun_partition. intros k Hk. apply step_of_lt; assumption.
Qed.

Theorem step_no_empty_exact (x0 h : Q) (N n : nat) : 0 < h -> (2 <= N)%nat -> (1 <= n)%nat -> (n <= N)%nat ->
  no_empty_step (step_indices_Q (reg_grid x0 h N) n) = true.
Proof.
  intros Hh HN Hn HnN. rewrite step_indices_Q_regular by assumption.
  apply idx_of_fun_no_empty. intros i Hi. apply step_of_surj; assumption.
Qed.

Theorem step_wf_exact (x0 h : Q) (N n : nat) : 0 < h -> (2 <= N)%nat -> (1 <= n)%nat -> (n <= N)%nat ->
  step_wf N (step_indices_Q (reg_grid x0 h N) n) /\ length (step_indices_Q (reg_grid x0 h N) n) = n.
Proof.
  intros Hh HN Hn HnN. rewrite step_indices_Q_regular by assumption. split; [|apply idx_of_fun_length].
  apply idx_of_fun_wf. intros i Hi. apply step_of_surj; assumption.
Qed.

(* the grid passes _check_grid_setup, so __init__ (over Q) returns exactly these indices *)
Lemma qdiffs_reg x0 h a n : Forall (fun dd => dd == h) (qdiffs (map (fun k => x0 + q_nat k * h) (seq a n))).
Proof.
  revert a. induction n as [|n IH]; intros a; [constructor|].
  cbn [seq map]. destruct n as [|n]; [constructor|]. cbn [seq map qdiffs]. constructor.
  - unfold q_nat. rewrite Nat2Z.inj_succ. unfold Z.succ. rewrite inject_Z_plus. ring.
  - apply (IH (S a)).
Qed.

Theorem step_init_Q_regular (x0 h : Q) (N n : nat) : 0 < h -> (2 <= N)%nat -> (1 <= n)%nat -> (n <= N)%nat ->
  step_init_Q (reg_grid x0 h N) n = Some (idx_of_fun N n (step_of N n)).
Proof.
  intros Hh HN Hn HnN. unfold step_init_Q.
  assert (Hok : step_grid_ok (reg_grid x0 h N) n = true).
  { unfold step_grid_ok, reg_grid. rewrite map_length, seq_length.
    apply andb_true_iff. split; [apply Nat.leb_le; exact HnN|].
    destruct N as [|[|N2]]; try lia. pose proof (qdiffs_reg x0 h 0 (S (S N2))) as HF.
    remember (qdiffs (map (fun k : nat => x0 + q_nat k * h) (seq 0 (S (S N2))))) as ds eqn:Eds. clear Eds.
    cbn [seq map]. apply forallb_forall. intros dd Hdd. rewrite Forall_forall in HF. specialize (HF dd Hdd).
    apply Qle_bool_iff.
    assert (E : dd - (x0 + q_nat 1 * h - (x0 + q_nat 0 * h)) == 0) by (rewrite HF; change (q_nat 1) with 1; change (q_nat 0) with 0; ring).
    rewrite E. cbn [Qabs.Qabs Z.abs Qnum Qden]. change (Qabs.Qabs 0) with 0.
    apply Qle_trans with (y := (1 # 100000000) + 0).
    - rewrite Qplus_0_r. discriminate.
    - apply Qplus_le_r. apply Qmult_le_0_compat; [discriminate | apply Qabs.Qabs_nonneg]. }
  rewrite Hok. f_equal. apply step_indices_Q_regular; assumption.
Qed.

(* the node-number partition (Model: step_indices_ideal; what fixes/C13_step_partition.diff computes) is the exact-
   arithmetic result and a partition into non-empty steps, for every N >= 2 and 1 <= n <= N *)
Theorem step_indices_ideal_wf N n : (2 <= N)%nat -> (1 <= n)%nat -> (n <= N)%nat ->
  step_wf N (step_indices_ideal N n) /\ length (step_indices_ideal N n) = n /\
  is_partition N (step_indices_ideal N n) = true /\ no_empty_step (step_indices_ideal N n) = true.
Proof.
  intros HN Hn HnN. unfold step_indices_ideal.
  assert (Hs : forall i, (i < n)%nat -> exists k, (k < N)%nat /\ step_of N n k = i) by (intros i Hi; apply step_of_surj; assumption).
  split; [apply idx_of_fun_wf; exact Hs|]. split; [apply idx_of_fun_length|].
  split; [apply idx_of_fun_partition; intros k Hk; apply step_of_lt; assumption | apply idx_of_fun_no_empty; exact Hs].
Qed.
