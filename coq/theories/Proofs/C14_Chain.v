(* C14 -- lemmas about the generic sampler, the stateless loops, Gibbs continuation and footprints. *)
From CV Require Import Base.Tac Base.Cmp Model.C14_Chain.
From Coq Require String.

(* ---------------------------------------------------------------------------------------------- *)
(* small list facts                                                                               *)
(* ---------------------------------------------------------------------------------------------- *)
Lemma last_indep {A} (x : list A) (d d' : A) : x <> [] -> last x d = last x d'.
Proof.
  induction x as [|y x IH]; intros H; [congruence|].
  destruct x as [|z x]; [reflexivity|]. cbn [last] in *. apply IH. discriminate.
Qed.

Lemma last_app_default {A} (l x : list A) (d : A) : last (l ++ x) d = last x (last l d).
Proof.
  destruct x as [|y x]; [rewrite app_nil_r; reflexivity|].
  induction l as [|a l IH]; [reflexivity|].
  rewrite (last_indep (y :: x) (last (a :: l) d) d) by discriminate.
  rewrite (last_indep (y :: x) (last l d) d) in IH by discriminate.
  rewrite <- IH. cbn [app]. destruct (l ++ y :: x) eqn:E; [destruct l; discriminate|]. reflexivity.
Qed.

Lemma map_last_eq {A B} (f : A -> B) (l : list A) (d : A) : f (last l d) = last (map f l) (f d).
Proof.
  induction l as [|x l IH]; [reflexivity|]. destruct l as [|y l]; [reflexivity|].
  cbn [map last] in *. exact IH.
Qed.

Lemma map_fst_combine {A B} (l : list A) (m : list B) : length l = length m -> map fst (combine l m) = l.
Proof.
  revert m. induction l as [|a l IH]; intros [|b m] H; cbn in *; try discriminate; [reflexivity|].
  f_equal. apply IH. lia.
Qed.

Lemma last_nth_cons {A} (t : list A) : forall x d, last t x = nth (length t) (x :: t) d.
Proof.
  induction t as [|y t IH]; intros x d; [reflexivity|].
  change (nth (length (y :: t)) (x :: y :: t) d) with (nth (length t) (y :: t) d). rewrite <- (IH y d).
  destruct t as [|z t]; [reflexivity|].
  change (last (y :: z :: t) x) with (last (z :: t) x). apply last_indep. discriminate.
Qed.

Lemma combine_app {A B} (l1 l2 : list A) (m1 m2 : list B) :
  length l1 = length m1 -> combine (l1 ++ l2) (m1 ++ m2) = combine l1 m1 ++ combine l2 m2.
Proof.
  revert m1. induction l1 as [|a l1 IH]; intros [|b m1] H; cbn in *; try discriminate; [reflexivity|].
  f_equal. apply IH. lia.
Qed.

Lemma seq_snoc (a n : nat) : seq a (S n) = seq a n ++ [a + n]%nat.
Proof. rewrite seq_S. reflexivity. Qed.

(* ---------------------------------------------------------------------------------------------- *)
(* generic sampler                                                                                *)
(* ---------------------------------------------------------------------------------------------- *)
Section MachineProofs.
Variables Cfg St Rnd Pt Acc : Type.
Variable step : Cfg -> St -> Rnd -> St * Acc.
Variable point : St -> Pt.

Notation sampler := (@sampler St Pt Acc).
Notation sample_step := (sample_step Cfg St Rnd Pt Acc step point).
Notation sample := (sample Cfg St Rnd Pt Acc step point).
Notation states := (states Cfg St Rnd Acc step).

(* acceptance values produced along a run *)
Fixpoint outs (c : Cfg) (s : St) (rs : list Rnd) : list Acc :=
  match rs with [] => [] | r :: rs' => snd (step c s r) :: outs c (fst (step c s r)) rs' end.

Lemma sample_app c s rs1 rs2 : sample c s (rs1 ++ rs2) = sample c (sample c s rs1) rs2.
Proof. unfold C14_Chain.sample. apply fold_left_app. Qed.

Lemma states_length c rs : forall s, length (states c s rs) = length rs.
Proof. induction rs as [|r rs IH]; intros s; cbn; [reflexivity|]. rewrite IH. reflexivity. Qed.

Lemma outs_length c rs : forall s, length (outs c s rs) = length rs.
Proof. induction rs as [|r rs IH]; intros s; cbn; [reflexivity|]. rewrite IH. reflexivity. Qed.

Lemma states_app c rs1 : forall s rs2,
  states c s (rs1 ++ rs2) = states c s rs1 ++ states c (last (states c s rs1) s) rs2.
Proof.
  induction rs1 as [|r rs1 IH]; intros s rs2; [reflexivity|].
  cbn [app C14_Chain.states]. rewrite IH. cbn [app]. f_equal. f_equal. f_equal.
  destruct (states c (fst (step c s r)) rs1) as [|x l] eqn:E; [reflexivity|].
  change (last (fst (step c s r) :: x :: l) s) with (last (x :: l) s). apply last_indep. discriminate.
Qed.

(* state i+1 of the run is one transition from state i, with the (i+1)-th random input *)
Lemma states_consecutive c rs : forall s i d r0, (i < length rs)%nat ->
  nth i (states c s rs) d = fst (step c (nth i (s :: states c s rs) d) (nth i rs r0)).
Proof.
  induction rs as [|r rs IH]; intros s i d r0 Hi; cbn in Hi; [lia|].
  destruct i as [|i]; [reflexivity|].
  cbn [C14_Chain.states nth]. rewrite (IH _ i d r0) by lia. reflexivity.
Qed.

(* explicit form of Sampler.sample *)
Lemma sample_spec c rs : forall s : sampler,
  st (sample c s rs) = last (states c (st s) rs) (st s) /\
  smp (sample c s rs) = smp s ++ map point (states c (st s) rs) /\
  accs (sample c s rs) = accs s ++ outs c (st s) rs /\
  cbl (sample c s rs) = cbl s ++ combine (map point (states c (st s) rs)) (seq (length (smp s)) (length rs)) /\
  tunes (sample c s rs) = tunes s.
Proof.
  induction rs as [|r rs IH]; intros s.
  - cbn. rewrite !app_nil_r. repeat split; reflexivity.
  - change (sample c s (r :: rs)) with (sample c (sample_step c s r) rs).
    destruct (IH (sample_step c s r)) as (H1 & H2 & H3 & H4 & H5).
    rewrite H1, H2, H3, H4, H5. clear IH H1 H2 H3 H4 H5.
    cbn [C14_Chain.sample_step st smp accs cbl tunes C14_Chain.states outs map length].
    rewrite app_length. cbn [length].
    replace (length (smp s) + 1 - 1)%nat with (length (smp s)) by lia.
    replace (length (smp s) + 1)%nat with (S (length (smp s))) by lia.
    repeat split.
    + destruct (states c (fst (step c (st s) r)) rs) as [|x l]; [reflexivity|].
      change (last (fst (step c (st s) r) :: x :: l) (st s)) with (last (x :: l) (st s)).
      apply last_indep. discriminate.
    + rewrite <- app_assoc. reflexivity.
    + rewrite <- app_assoc. reflexivity.
    + rewrite <- app_assoc. cbn [seq combine app]. reflexivity.
Qed.

Lemma sample_length c rs (s : sampler) :
  length (smp (sample c s rs)) = (length (smp s) + length rs)%nat /\
  length (accs (sample c s rs)) = (length (accs s) + length rs)%nat /\
  length (cbl (sample c s rs)) = (length (cbl s) + length rs)%nat.
Proof.
  destruct (sample_spec c rs s) as (_ & H2 & H3 & H4 & _). rewrite H2, H3, H4.
  rewrite !app_length, map_length, states_length, outs_length, combine_length, map_length, states_length, seq_length.
  repeat split; lia.
Qed.

(* invariant of every loop body: the history grows by exactly one entry, the callback receives that entry
   and its index, nothing already recorded changes *)
Definition grows (s s' : sampler) (n : nat) : Prop :=
  exists tail, length tail = n /\ smp s' = smp s ++ tail /\
               cbl s' = cbl s ++ combine tail (seq (length (smp s)) n) /\
               length (accs s') = (length (accs s) + n)%nat.

Lemma grows_refl s : grows s s 0.
Proof. exists []. cbn. rewrite !app_nil_r. repeat split; lia. Qed.

Lemma grows_trans s1 s2 s3 n m : grows s1 s2 n -> grows s2 s3 m -> grows s1 s3 (n + m).
Proof.
  intros (t1 & L1 & S1 & C1 & A1) (t2 & L2 & S2 & C2 & A2).
  exists (t1 ++ t2). rewrite app_length. repeat split; try lia.
  - rewrite S2, S1, app_assoc. reflexivity.
  - rewrite C2, C1, S1, app_length, L1, <- app_assoc. f_equal.
    rewrite seq_app, combine_app by (rewrite seq_length; exact L1). reflexivity.
Qed.

Lemma sample_step_grows c s r : grows s (sample_step c s r) 1.
Proof.
  exists [point (fst (step c (st s) r))]. cbn [C14_Chain.sample_step smp cbl accs length seq combine].
  rewrite !app_length. cbn [length]. repeat split; try lia.
  replace (length (smp s) + 1 - 1)%nat with (length (smp s)) by lia. reflexivity.
Qed.

Lemma fold_grows {X} (f : sampler -> X -> sampler) :
  (forall s x, grows s (f s x) 1) -> forall l s, grows s (fold_left f l s) (length l).
Proof.
  intros Hf l. induction l as [|x l IH]; intros s; [apply grows_refl|].
  cbn [fold_left length]. change (S (length l)) with (1 + length l)%nat.
  eapply grows_trans; [apply Hf | apply IH].
Qed.

Lemma sample_grows c s rs : grows s (sample c s rs) (length rs).
Proof. apply fold_grows. intros; apply sample_step_grows. Qed.

(* consequences of `grows` in the vocabulary of the property *)
Lemma grows_entries s s' n : grows s s' n ->
  length (smp s') = (length (smp s) + n)%nat /\
  (forall i d, (i < length (smp s))%nat -> nth i (smp s') d = nth i (smp s) d) /\
  length (cbl s') = (length (cbl s) + n)%nat /\
  (forall j d e, (j < n)%nat ->
     nth (length (cbl s) + j) (cbl s') (d, e) = (nth (length (smp s) + j) (smp s') d, (length (smp s) + j)%nat)).
Proof.
  intros (t & L & S & C & A). repeat split.
  - rewrite S, app_length. lia.
  - intros i d Hi. rewrite S, app_nth1 by exact Hi. reflexivity.
  - rewrite C, app_length, combine_length, seq_length. lia.
  - intros j d e Hj. rewrite C, S, !app_nth2 by lia.
    replace (length (cbl s) + j - length (cbl s))%nat with j by lia.
    replace (length (smp s) + j - length (smp s))%nat with j by lia.
    rewrite combine_nth by (rewrite seq_length; exact L).
    rewrite seq_nth by exact Hj. reflexivity.
Qed.

(* ------------------------------- stateless interface ------------------------------- *)
Notation legacy_chain := (legacy_chain Cfg St Rnd Acc step).
Notation legacy_sample := (legacy_sample Cfg St Rnd Pt Acc step point).
Notation legacy_cb := (legacy_cb Cfg St Rnd Pt Acc step point).

Lemma alias_shift_length {A} (l : list A) : length (alias_shift l) = length l.
Proof. destruct l as [|x t]; [reflexivity|]. cbn. rewrite app_length. cbn. lia. Qed.

Lemma legacy_chain_length c s0 rs : length (legacy_chain c s0 rs) = S (length rs).
Proof. cbn. rewrite states_length. reflexivity. Qed.

Lemma legacy_sample_length c a s0 rs nb : length (legacy_sample c a s0 rs nb) = (S (length rs) - nb)%nat.
Proof.
  unfold C14_Chain.legacy_sample, legacy_record. rewrite skipn_length.
  destruct a; [rewrite alias_shift_length|]; rewrite map_length, legacy_chain_length; reflexivity.
Qed.

Lemma nth_skipn {A} (l : list A) n i d : nth i (skipn n l) d = nth (n + i) l d.
Proof.
  revert l. induction n as [|n IH]; intros l; [reflexivity|].
  destruct l as [|x l]; [destruct i; reflexivity|]. cbn [skipn plus nth]. apply IH.
Qed.

Lemma legacy_sample_nth c s0 rs nb i d :
  nth i (legacy_sample c false s0 rs nb) (point d) = point (nth (nb + i) (legacy_chain c s0 rs) d).
Proof.
  unfold C14_Chain.legacy_sample, legacy_record. rewrite nth_skipn. apply map_nth.
Qed.

Lemma legacy_cb_spec c s0 rs :
  length (legacy_cb c s0 rs) = length rs /\
  forall k d e, (k < length rs)%nat ->
    nth k (legacy_cb c s0 rs) (point d, e) = (point (nth (S k) (legacy_chain c s0 rs) d), S k).
Proof.
  unfold C14_Chain.legacy_cb. split.
  - rewrite combine_length, map_length, states_length, seq_length. lia.
  - intros k d e Hk. rewrite combine_nth by (rewrite map_length, states_length, seq_length; reflexivity).
    rewrite seq_nth by exact Hk. rewrite map_nth. reflexivity.
Qed.

(* what the aliased loop records: entry i is state min(i+1, Ns-1) *)
Lemma alias_shift_nth {A} (l : list A) i d : (i < length l)%nat ->
  nth i (alias_shift l) d = nth (Nat.min (S i) (length l - 1)) l d.
Proof.
  destruct l as [|x t]; cbn [length]; [lia|]. intros Hi. cbn [alias_shift].
  replace (S (length t) - 1)%nat with (length t) by lia.
  destruct (Nat.lt_ge_cases i (length t)) as [H|H].
  - rewrite app_nth1 by exact H. rewrite Nat.min_l by lia. reflexivity.
  - assert (i = length t) by lia. subst i. rewrite app_nth2 by lia. rewrite Nat.sub_diag. cbn [nth].
    rewrite Nat.min_r by lia.
    apply last_nth_cons.
Qed.

(* ------------------------------- Gibbs continuation ------------------------------- *)
Notation gibbs_sample := (gibbs_sample Cfg St Rnd Acc step).

Lemma gibbs_continue c init warm stored rs1 rs2 :
  gibbs_sample c init warm (gibbs_sample c init warm stored rs1) rs2 =
  gibbs_sample c init warm stored (rs1 ++ rs2).
Proof.
  unfold C14_Chain.gibbs_sample, gibbs_start.
  rewrite states_app, <- app_assoc. f_equal. f_equal. f_equal.
  rewrite app_assoc, last_app_default. reflexivity.
Qed.

Lemma gibbs_length c init warm stored rs :
  length (gibbs_sample c init warm stored rs) = (length stored + length rs)%nat.
Proof. unfold C14_Chain.gibbs_sample. rewrite app_length, states_length. reflexivity. Qed.
End MachineProofs.

Section WarmupProofs.
Variables Cfg St Rnd Pt Acc : Type.
Variable step : Cfg -> St -> Rnd -> St * Acc.
Variable tune : Cfg -> St -> list Acc -> nat -> nat -> St.
Variable point : St -> Pt.
Notation sampler := (@sampler St Pt Acc).
Notation sample := (sample Cfg St Rnd Pt Acc step point).
Notation warmup_step := (warmup_step Cfg St Rnd Pt Acc step tune point).
Notation warmup := (warmup Cfg St Rnd Pt Acc step tune point).
Notation run_op := (run_op Cfg St Rnd Pt Acc step tune point).
Notation run_ops := (run_ops Cfg St Rnd Pt Acc step tune point).
Notation grows := (grows St Pt Acc).
Notation grows_refl := (grows_refl St Pt Acc).
Notation grows_trans := (grows_trans St Pt Acc).
Notation fold_grows := (fold_grows St Pt Acc).
Notation sample_grows := (sample_grows Cfg St Rnd Pt Acc step point).

Lemma warmup_step_grows c ti s ir : grows s (warmup_step c ti s ir) 1.
Proof.
  unfold C14_Chain.warmup_step.
  match goal with |- grows _ (mkS ?st' _ _ _ _) _ => exists [point st'] end.
  cbn [smp cbl accs length seq combine]. rewrite !app_length. cbn [length]. repeat split; try lia.
  replace (length (smp s) + 1 - 1)%nat with (length (smp s)) by lia. reflexivity.
Qed.

Lemma warmup_grows c ti s rs : grows s (warmup c ti s rs) (length rs).
Proof.
  unfold C14_Chain.warmup.
  replace (length rs) with (length (combine (seq 0 (length rs)) rs)) at 2
    by (rewrite combine_length, seq_length; lia).
  apply fold_grows. intros; apply warmup_step_grows.
Qed.

Definition op_len (o : op Rnd) : nat := match o with OSample rs => length rs | OWarmup _ rs => length rs end.
Definition ops_len (ops : list (op Rnd)) : nat := fold_right (fun o n => (op_len o + n)%nat) 0%nat ops.

Lemma run_ops_grows c ops : forall s, grows s (run_ops c s ops) (ops_len ops).
Proof.
  induction ops as [|o ops IH]; intros s; [apply grows_refl|].
  cbn [C14_Chain.run_ops fold_left ops_len fold_right].
  eapply grows_trans; [|apply IH].
  destruct o; cbn [C14_Chain.run_op op_len]; [apply sample_grows | apply warmup_grows].
Qed.

End WarmupProofs.

Section ResumeProofs.
Variables Cfg St Rnd Pt Acc : Type.
Variable step : Cfg -> St -> Rnd -> St * Acc.
Variable point : St -> Pt.
Notation sampler := (@sampler St Pt Acc).
Notation sample := (sample Cfg St Rnd Pt Acc step point).
Notation states := (states Cfg St Rnd Acc step).
Notation outs := (outs Cfg St Rnd Acc step).
Notation sample_spec := (sample_spec Cfg St Rnd Pt Acc step point).
Notation states_length := (states_length Cfg St Rnd Acc step).
(* ------------------------------- checkpoints ------------------------------- *)
Variable Key : Type.
Variable proj : St -> Key.
Variable inject : Key -> St -> St.
Hypothesis inject_proj : forall k s, proj (inject k s) = k.
(* semantic footprint hypothesis: a transition depends on the state only through what get_state saves
   (the configuration c being equal), and current_point is part of what is saved *)
Hypothesis FP : forall c s1 s2 r, proj s1 = proj s2 ->
  proj (fst (step c s1 r)) = proj (fst (step c s2 r)) /\ snd (step c s1 r) = snd (step c s2 r).
Hypothesis point_proj : forall s1 s2, proj s1 = proj s2 -> point s1 = point s2.

Notation load := (load St Pt Acc Key inject).

Lemma states_proj c rs : forall s1 s2, proj s1 = proj s2 ->
  map proj (states c s1 rs) = map proj (states c s2 rs) /\
  map point (states c s1 rs) = map point (states c s2 rs) /\
  outs c s1 rs = outs c s2 rs /\
  proj (last (states c s1 rs) s1) = proj (last (states c s2 rs) s2).
Proof.
  induction rs as [|r rs IH]; intros s1 s2 E; [repeat split; assumption|].
  destruct (FP c s1 s2 r E) as [E1 E2].
  destruct (IH _ _ E1) as (I1 & I2 & I3 & I4).
  assert (M : map proj (states c s1 (r :: rs)) = map proj (states c s2 (r :: rs))).
  { cbn [C14_Chain.states map]. rewrite E1, I1. reflexivity. }
  repeat split.
  - exact M.
  - cbn [C14_Chain.states map]. rewrite I2, (point_proj _ _ E1). reflexivity.
  - cbn [outs]. rewrite I3, E2. reflexivity.
  - rewrite !(map_last_eq proj), M, E. reflexivity.
Qed.

Lemma resume c (mid fresh : sampler) rs :
  let r1 := sample c (load (proj (st mid)) fresh) rs in
  let r2 := sample c mid rs in
  proj (st r1) = proj (st r2) /\
  (exists x, smp r1 = smp fresh ++ x /\ smp r2 = smp mid ++ x /\ length x = length rs) /\
  (exists a, accs r1 = accs fresh ++ a /\ accs r2 = accs mid ++ a) /\
  map fst (skipn (length (cbl fresh)) (cbl r1)) = map fst (skipn (length (cbl mid)) (cbl r2)).
Proof.
  intros r1 r2. subst r1 r2.
  destruct (sample_spec c rs (load (proj (st mid)) fresh)) as (A1 & A2 & A3 & A4 & _).
  destruct (sample_spec c rs mid) as (B1 & B2 & B3 & B4 & _).
  cbn [C14_Chain.load st smp accs cbl] in A1, A2, A3, A4.
  assert (E : proj (inject (proj (st mid)) (st fresh)) = proj (st mid)) by apply inject_proj.
  destruct (states_proj c rs _ _ E) as (P1 & P2 & P3 & P4).
  repeat split.
  - rewrite A1, B1. exact P4.
  - exists (map point (states c (st mid) rs)). rewrite A2, B2, P2, map_length, states_length. repeat split.
  - exists (outs c (st mid) rs). rewrite A3, B3, P3. split; reflexivity.
  - rewrite A4, B4, P2.
    rewrite !skipn_app, !skipn_all, !Nat.sub_diag. cbn [app skipn].
    rewrite !map_fst_combine by (rewrite map_length, states_length, seq_length; reflexivity). reflexivity.
Qed.

(* checkpoint at ANY position of a run: saving after rs1, loading into an initialised sampler `fresh` and drawing rs2
   adds to fresh's history exactly the entries the uninterrupted run rs1 ++ rs2 records after position |rs1|, and ends
   in the same saved state *)
Lemma checkpoint_any_position c (s fresh : sampler) rs1 rs2 :
  let full := sample c s (rs1 ++ rs2) in
  let mid := sample c s rs1 in
  let res := sample c (load (proj (st mid)) fresh) rs2 in
  smp full = smp mid ++ skipn (length (smp fresh)) (smp res) /\
  length (skipn (length (smp fresh)) (smp res)) = length rs2 /\
  proj (st res) = proj (st full).
Proof.
  intros full mid res. subst full mid res.
  rewrite (sample_app Cfg St Rnd Pt Acc step point c s rs1 rs2).
  destruct (resume c (sample c s rs1) fresh rs2) as (E & (x & X1 & X2 & X3) & _ & _).
  rewrite X1, X2, skipn_app, skipn_all, Nat.sub_diag. cbn [app skipn]. repeat split; assumption.
Qed.

End ResumeProofs.

(* ---------------------------------------------------------------------------------------------- *)
(* attribute stores: from footprint sets to the semantic hypothesis                               *)
(* ---------------------------------------------------------------------------------------------- *)
Lemma mem_In a l : mem a l = true <-> In a l.
Proof.
  unfold mem. rewrite existsb_exists. split.
  - intros (x & Hx & E). apply String.eqb_eq in E. subst. exact Hx.
  - intros H. exists a. split; [exact H | apply String.eqb_refl].
Qed.

Lemma mem_false a l : mem a l = false <-> ~ In a l.
Proof. rewrite <- mem_In. destruct (mem a l); split; congruence. Qed.

Lemma reads_ok_sound f : reads_ok f = true ->
  forall a, In a (sem_reads f) -> In a (f_state f) \/ ~ In a (run_writes f).
Proof.
  unfold reads_ok. rewrite forallb_forall. intros H a Ha. specialize (H a Ha).
  apply orb_true_iff in H as [H|H]; [left; apply mem_In; exact H|].
  right. apply mem_false. destruct (mem a (run_writes f)); [discriminate | reflexivity].
Qed.

Lemma footprint_ok_reads ex f : footprint_ok ex f = true -> reads_ok f = true.
Proof. unfold footprint_ok. intros H. repeat (apply andb_true_iff in H as [H ?]). exact H. Qed.

Lemma footprint_ok_alias ex f : footprint_ok ex f = true ->
  (forall a, In a (f_step_inplace f) -> ~ In a (f_state f)) /\ f_step_argmut f = [] /\
  (forall a, In a (f_step_append f) -> In a (f_hist f)).
Proof.
  unfold footprint_ok, alias_ok, append_ok, disjointb, subset. intros H.
  repeat (apply andb_true_iff in H as [H ?]).
  match goal with X : _ && _ = true |- _ => apply andb_true_iff in X as [X1 X2] end.
  repeat split.
  - rewrite forallb_forall in X1. intros a Ha. apply mem_false. specialize (X1 a Ha).
    destruct (mem a (f_state f)); [discriminate | reflexivity].
  - destruct (f_step_argmut f); [reflexivity | discriminate].
  - match goal with X : forallb _ (f_step_append f) = true |- _ => rewrite forallb_forall in X;
      intros a Ha; apply mem_In; exact (X a Ha) end.
Qed.

Lemma footprint_ok_random ex f : footprint_ok ex f = true ->
  forall a, In a (sem_reads f) -> In a (f_hidden_random f) -> In a (f_state f) \/ In a ex.
Proof.
  unfold footprint_ok, random_ok. intros H. repeat (apply andb_true_iff in H as [H ?]).
  match goal with X : forallb _ (sem_reads f) = true |- _ => rewrite forallb_forall in X; rename X into R end.
  intros a Ha Hr. specialize (R a Ha). apply mem_In in Hr. rewrite Hr in R. cbn in R.
  apply orb_true_iff in R as [R|R]; [left | right]; apply mem_In; exact R.
Qed.

Section StoreProofs.
Variables V Rnd : Type.
Variable stepS : store V -> Rnd -> store V.
Variables K Rsem W : list string.
(* semantic footprint of a transition: it modifies only W, and what it leaves in the saved keys K depends only
   on the attributes in Rsem.  (Trusted bridge: the extracted syntactic sets over-approximate these.) *)
Hypothesis frame : forall s r a, ~ In a W -> stepS s r a = s a.
Hypothesis dep : forall s1 s2 r, agree Rsem s1 s2 -> agree K (stepS s1 r) (stepS s2 r).
Hypothesis reads : forall a, In a Rsem -> In a K \/ ~ In a W.

Definition runS (s : store V) (rs : list Rnd) : store V := fold_left stepS rs s.

Lemma step_agree s1 s2 r : agree (K ++ Rsem) s1 s2 -> agree (K ++ Rsem) (stepS s1 r) (stepS s2 r).
Proof.
  intros H a Ha.
  assert (HR : agree Rsem s1 s2) by (intros b Hb; apply H; apply in_or_app; right; exact Hb).
  apply in_app_or in Ha as [Ha|Ha]; [apply (dep _ _ r HR); exact Ha|].
  destruct (reads a Ha) as [Hk|Hw]; [apply (dep _ _ r HR); exact Hk|].
  rewrite !frame by exact Hw. apply HR. exact Ha.
Qed.

Lemma run_agree rs : forall s1 s2, agree (K ++ Rsem) s1 s2 -> agree (K ++ Rsem) (runS s1 rs) (runS s2 rs).
Proof.
  induction rs as [|r rs IH]; intros s1 s2 H; [exact H|]. cbn. apply IH. apply step_agree. exact H.
Qed.

Lemma run_frame rs : forall s a, ~ In a W -> runS s rs a = s a.
Proof.
  induction rs as [|r rs IH]; intros s a Ha; [reflexivity|].
  change (runS s (r :: rs) a) with (runS (stepS s r) rs a). rewrite IH by exact Ha. apply frame. exact Ha.
Qed.

(* loading the saved keys of `mid` into an initialised sampler `fresh` of the same configuration as the sampler
   `orig` that `mid` was reached from: all further transitions coincide on saved keys and on everything read *)
Lemma resume_store orig fresh rs1 rs2 :
  (forall a, ~ In a W -> fresh a = orig a) ->
  let mid := runS orig rs1 in
  agree (K ++ Rsem) (runS (load_store K mid fresh) rs2) (runS mid rs2).
Proof.
  intros Hcfg mid. apply run_agree. intros a Ha. unfold load_store.
  destruct (mem a K) eqn:E; [reflexivity|].
  apply in_app_or in Ha as [Ha|Ha]; [apply mem_In in Ha; congruence|].
  destruct (reads a Ha) as [Hk|Hw]; [apply mem_In in Hk; congruence|].
  rewrite Hcfg by exact Hw. unfold mid. rewrite run_frame by exact Hw. reflexivity.
Qed.

(* every prefix of the continued run: the same statement holds after each further transition *)
Lemma resume_store_pointwise orig fresh rs1 rs2 a :
  (forall b, ~ In b W -> fresh b = orig b) -> In a K ->
  runS (load_store K (runS orig rs1) fresh) rs2 a = runS (runS orig rs1) rs2 a.
Proof.
  intros Hcfg Ha. apply (resume_store orig fresh rs1 rs2 Hcfg). apply in_or_app. left. exact Ha.
Qed.

(* reinitialize = clear state and history keys, then initialize *)
Variable initS : store V -> store V.
Variables Ri Wi X : list string.
Hypothesis init_frame : forall s a, ~ In a Wi -> initS s a = s a.
Hypothesis init_dep : forall s1 s2, agree Ri s1 s2 -> agree Wi (initS s1) (initS s2).
Hypothesis init_reads : forall a, In a Ri -> ~ In a W \/ In a X.

Lemma reinit_store none s s1 a :
  (forall b, ~ In b W -> s b = s1 b) ->
  In a Wi \/ ~ In a W \/ In a X ->
  initS (clear_store none X s) a = initS (clear_store none X s1) a.
Proof.
  intros Hrun Ha.
  assert (HR : agree Ri (clear_store none X s) (clear_store none X s1)).
  { intros b Hb. unfold clear_store. destruct (mem b X) eqn:E; [reflexivity|].
    destruct (init_reads b Hb) as [Hw|Hx]; [apply Hrun; exact Hw | apply mem_In in Hx; congruence]. }
  destruct (in_dec String.string_dec a Wi) as [Hwi|Hwi]; [apply (init_dep _ _ HR); exact Hwi|].
  rewrite !init_frame by exact Hwi. unfold clear_store.
  destruct (mem a X) eqn:E; [reflexivity|].
  destruct Ha as [Ha|[Ha|Ha]]; [contradiction | apply Hrun; exact Ha | apply mem_In in Ha; congruence].
Qed.
End StoreProofs.

(* the checker on extracted facts discharges the `reads` premise *)
Lemma resume_from_facts (V Rnd : Type) (ex : list string) (f : facts) (stepS : store V -> Rnd -> store V) :
  footprint_ok ex f = true ->
  (forall s r a, ~ In a (run_writes f) -> stepS s r a = s a) ->
  (forall s1 s2 r, agree (sem_reads f) s1 s2 -> agree (f_state f) (stepS s1 r) (stepS s2 r)) ->
  forall orig fresh rs1 rs2 a,
    (forall b, ~ In b (run_writes f) -> fresh b = orig b) -> In a (f_state f) ->
    runS V Rnd stepS (load_store (f_state f) (runS V Rnd stepS orig rs1) fresh) rs2 a =
    runS V Rnd stepS (runS V Rnd stepS orig rs1) rs2 a.
Proof.
  intros Hok Hframe Hdep orig fresh rs1 rs2 a Hcfg Ha.
  apply (resume_store_pointwise V Rnd stepS (f_state f) (sem_reads f) (run_writes f) Hframe Hdep
           (reads_ok_sound f (footprint_ok_reads ex f Hok)) orig fresh rs1 rs2 a Hcfg Ha).
Qed.

Lemma reinit_ok_sound f : reinit_ok f = true ->
  (forall a, In a (f_state f ++ f_hist f) -> In a (f_init_w f)) /\
  (forall a, In a (f_init_r f) -> ~ In a (run_writes f) \/ In a (f_state f ++ f_hist f)).
Proof.
  unfold reinit_ok, subset. intros H. apply andb_true_iff in H as [H H3]. apply andb_true_iff in H as [H1 H2].
  rewrite forallb_forall in H1, H2, H3. split.
  - intros a Ha. apply mem_In. apply in_app_or in Ha as [Ha|Ha]; [exact (H1 a Ha) | exact (H2 a Ha)].
  - intros a Ha. specialize (H3 a Ha).
    apply orb_true_iff in H3 as [H3|H3]; [apply orb_true_iff in H3 as [H3|H3]|].
    + left. apply mem_false. destruct (mem a (run_writes f)); [discriminate | reflexivity].
    + right. apply in_or_app. left. apply mem_In. exact H3.
    + right. apply in_or_app. right. apply mem_In. exact H3.
Qed.

(* reinitialize touches nothing that initialize does not re-bind: in particular every constructor argument that
   initialize leaves alone keeps its value *)
Lemma reinit_frame_from_facts (V : Type) (f : facts) (initS : store V -> store V) :
  reinit_ok f = true ->
  (forall s a, ~ In a (f_init_w f) -> initS s a = s a) ->
  forall none s a, ~ In a (f_init_w f) ->
    initS (clear_store none (f_state f ++ f_hist f) s) a = s a.
Proof.
  intros Hok Hframe none s a Ha. destruct (reinit_ok_sound f Hok) as [Hx _].
  rewrite Hframe by exact Ha. unfold clear_store.
  destruct (mem a (f_state f ++ f_hist f)) eqn:E; [|reflexivity].
  apply mem_In in E. elim Ha. apply Hx. exact E.
Qed.

Lemma reinit_from_facts (V Rnd : Type) (f : facts) (initS : store V -> store V) :
  reinit_ok f = true ->
  (forall s a, ~ In a (f_init_w f) -> initS s a = s a) ->
  (forall s1 s2, agree (f_init_r f) s1 s2 -> agree (f_init_w f) (initS s1) (initS s2)) ->
  forall none s s1 a,
    (forall b, ~ In b (run_writes f) -> s b = s1 b) ->
    In a (f_init_w f) \/ ~ In a (run_writes f) \/ In a (f_state f ++ f_hist f) ->
    initS (clear_store none (f_state f ++ f_hist f) s) a = initS (clear_store none (f_state f ++ f_hist f) s1) a.
Proof.
  intros Hok Hframe Hdep none s s1 a Hrun Ha.
  destruct (reinit_ok_sound f Hok) as [_ Hr].
  exact (reinit_store V (run_writes f) initS (f_init_r f) (f_init_w f) (f_state f ++ f_hist f)
           Hframe Hdep Hr none s s1 a Hrun Ha).
Qed.

(* ---------------------------------------------------------------------------------------------- *)
(* witnesses on the trace instance                                                                *)
(* ---------------------------------------------------------------------------------------------- *)
Lemma alias_refuted :
  exists (ref : list Z) (n : nat),
    let rec := legacy_sample unit nat unit Z unit tr_step (tr_point ref) tt true 0%nat (units n) 0 in
    let chain := map (tr_point ref) (legacy_chain unit nat unit unit tr_step tt 0%nat (units n)) in
    chain = [10; 11; 12]%Z /\ rec = [11; 12; 12]%Z /\ hd 0%Z rec <> tr_point ref 0.
Proof. exists [10; 11; 12]%Z, 2%nat. vm_compute. repeat split; discriminate. Qed.

(* a state key that initialize never re-binds (NUTS.max_depth) is left at the cleared value by reinitialize *)
Import String.StringSyntax.
Local Open Scope string_scope.
Definition nuts_like : facts :=
  mkFacts ["current_point"; "max_depth"] ["_samples"] ["current_point"; "max_depth"] ["current_point"] [] [] [] [] [] []
          ["initial_point"] ["current_point"; "_samples"] [].
Definition nuts_like_init (s : store (option Z)) : store (option Z) :=
  fun a => if mem a ["current_point"; "_samples"] then Some 0%Z else s a.
Definition nuts_like_store : store (option Z) := fun a => if String.eqb a "max_depth" then Some 5%Z else None.

Lemma reinit_refuted :
  reinit_ok nuts_like = false /\
  (forall s a, ~ In a (f_init_w nuts_like) -> nuts_like_init s a = s a) /\
  ~ In "max_depth" (f_init_w nuts_like) /\
  nuts_like_store "max_depth" = Some 5%Z /\
  nuts_like_init (clear_store None (f_state nuts_like ++ f_hist nuts_like) nuts_like_store) "max_depth" = None.
Proof.
  split; [vm_compute; reflexivity|]. split.
  - intros s a Ha. unfold nuts_like_init. destruct (mem a ["current_point"; "_samples"]) eqn:E; [|reflexivity].
    apply mem_In in E. elim Ha. exact E.
  - split; [|split; vm_compute; reflexivity]. cbn. intros [H|[H|[]]]; discriminate.
Qed.

(* a randomised initialisation result that step reads but get_state does not save (RegularizedLinearRTO._stepsize):
   the transition function is within the extracted footprint, yet a fresh sampler of the same configuration holds a
   different value, and the resumed chain differs from the uninterrupted one *)
Definition rto_like : facts :=
  mkFacts ["current_point"] ["_samples"] ["current_point"; "_stepsize"] ["current_point"] [] [] [] [] [] []
          ["initial_point"] ["current_point"; "_samples"; "_stepsize"] ["_stepsize"].
Definition rto_like_step (s : store Z) (r : Z) : store Z :=
  fun a => if String.eqb a "current_point" then (s "current_point" + r * s "_stepsize")%Z else s a.

Lemma hidden_random_refuted :
  footprint_ok [] rto_like = false /\ footprint_ok ["_stepsize"] rto_like = true /\
  (forall s r a, ~ In a (run_writes rto_like) -> rto_like_step s r a = s a) /\
  (forall s1 s2 r, agree (sem_reads rto_like) s1 s2 -> agree (f_state rto_like) (rto_like_step s1 r) (rto_like_step s2 r)) /\
  exists orig fresh : store Z,
    (forall b, b <> "_stepsize" -> fresh b = orig b) /\
    runS Z Z rto_like_step (load_store (f_state rto_like) (runS Z Z rto_like_step orig [1%Z]) fresh) [1%Z] "current_point"
    <> runS Z Z rto_like_step (runS Z Z rto_like_step orig [1%Z]) [1%Z] "current_point".
Proof.
  split; [vm_compute; reflexivity|]. split; [vm_compute; reflexivity|]. split; [|split].
  - intros s r a Ha. unfold rto_like_step. destruct (String.eqb a "current_point") eqn:E; [|reflexivity].
    apply String.eqb_eq in E. subst a. elim Ha. cbn. left. reflexivity.
  - intros s1 s2 r H a Ha. cbn in Ha. destruct Ha as [<-|[]]. unfold rto_like_step. cbn.
    rewrite (H "current_point"), (H "_stepsize"); [reflexivity | cbn; auto | cbn; auto].
  - exists (fun a => if String.eqb a "_stepsize" then 1%Z else 0%Z),
           (fun a => if String.eqb a "_stepsize" then 2%Z else 0%Z).
    split.
    + intros b Hb. destruct (String.eqb b "_stepsize") eqn:E; [apply String.eqb_eq in E; contradiction | reflexivity].
    + vm_compute. discriminate.
Qed.
