(* C02 -- the link between the two layers of theorems: the accept rule of the transition MODEL (Model/C02_MH.v `accept`, on
   ext = NaN | -inf | +inf | rationals, the rule the correspondence evaluates) accepts, for a uniform u in (0,1] with log u = l,
   exactly when  u <= acc0 (pi(x) c) (pi(x') c)  -- the acceptance probability of the KERNEL-level theorems
   (Proofs/C02_Countable.v, C02_Continuous.v: stochastic, reversible, invariant) for a symmetric proposal density value c > 0 and
   pi = exp(logd), pi = 0 where logd = -inf.  All three support cases: both finite; proposal outside the support (never accepted);
   current state outside the support (always accepted).  (Both outside the support: the guarded code rejects, the flow is zero
   either way, and such a state has pi-measure zero.) *)
From CV Require Import Base.Tac Base.Cmp Base.Ext Model.C02_MH Proofs.C02_MH Proofs.C02_Real Proofs.C02_Countable.
From Coq Require Import QArith Qreals Reals Lra.
Local Open Scope R_scope.

Definition dens (a : ext) : R := match a with Fin x => exp (Q2R x) | _ => 0 end.

Lemma acc0_exp (a b c : R) : 0 < c -> acc0 (exp b * c) (exp a * c) = Rmin 1 (exp (a - b)).
Proof.
  intro Hc. unfold acc0. pose proof (exp_pos b) as Pb.
  assert (P : 0 < exp b * c) by (apply Rmult_lt_0_compat; assumption).
  destruct (Req_EM_T (exp b * c) 0) as [E|E]; [lra|].
  f_equal. unfold Rminus. rewrite exp_plus, exp_Ropp. field. split; lra.
Qed.

Theorem accept_is_acc0 (l : Q) (u c : R) (sx sy : ext) :
  0 < u -> u <= 1 -> Q2R l = ln u -> 0 < c ->
  (is_fin sx = true \/ sx = NInf) -> (is_fin sy = true \/ sy = NInf) -> ~ (sx = NInf /\ sy = NInf) ->
  (accept GNanInf (Fin l) (ext_sub sy sx) sy = true <-> u <= acc0 (dens sx * c) (dens sy * c)).
Proof.
  intros Hu Hu1 Hl Hc Hx Hy Hxy.
  destruct sx as [| | |b]; destruct sy as [| | |a];
    try (destruct Hx as [Hx|Hx]; discriminate Hx); try (destruct Hy as [Hy|Hy]; discriminate Hy).
  - exfalso. apply Hxy. split; reflexivity.
  - (* current state outside the support, proposal inside: accepted for every u *)
    cbn [dens]. unfold acc0. rewrite Rmult_0_l. destruct (Req_EM_T 0 0) as [_|N]; [|exfalso; apply N; reflexivity].
    split; [intros _; exact Hu1 | intros _].
    assert (Hln : ln u <= 0). { rewrite <- ln_1. destruct Hu1 as [H|H]; [left; apply ln_increasing; lra | right; rewrite H; reflexivity]. }
    assert (L0 : (l <= 0)%Q). { apply Rle_Qle. rewrite Hl. replace (Q2R 0) with 0 by (unfold Q2R; cbn; lra). exact Hln. }
    unfold accept. cbn. apply Qle_bool_iff in L0. rewrite L0. reflexivity.
  - (* proposal outside the support: never accepted *)
    cbn [dens]. rewrite Rmult_0_l.
    assert (A : accept GNanInf (Fin l) (ext_sub NInf (Fin b)) NInf = false) by (apply accept_guarded_nonfinite; reflexivity).
    rewrite A. unfold acc0. pose proof (exp_pos (Q2R b)) as Pb.
    assert (P : 0 < exp (Q2R b) * c) by (apply Rmult_lt_0_compat; assumption).
    destruct (Req_EM_T (exp (Q2R b) * c) 0) as [E|E]; [lra|].
    unfold Rdiv. rewrite Rmult_0_l, Rmin_right by lra. split; [discriminate | lra].
  - (* both inside the support *)
    cbn [dens]. rewrite (acc0_exp (Q2R a) (Q2R b) c Hc). apply accept_is_MH; assumption.
Qed.

(* the same for one whole transition of the random-walk model from a consistent state *)
Corollary mh_step_is_acc0 (logd : vec -> ext) (s : Q) (st : state) (xi : vec) (l : Q) (u c : R) :
  0 < u -> u <= 1 -> Q2R l = ln u -> 0 < c -> sld st = logd (sx st) ->
  (is_fin (logd (sx st)) = true \/ logd (sx st) = NInf) ->
  (is_fin (logd (mh_prop s (sx st) xi)) = true \/ logd (mh_prop s (sx st) xi) = NInf) ->
  ~ (logd (sx st) = NInf /\ logd (mh_prop s (sx st) xi) = NInf) ->
  (snd (mh_step logd GNanInf s st xi (Fin l)) = true <->
   u <= acc0 (dens (logd (sx st)) * c) (dens (logd (mh_prop s (sx st) xi)) * c)).
Proof.
  intros Hu Hu1 Hl Hc Hs Hx Hy Hxy.
  rewrite <- (accept_is_acc0 l u c (logd (sx st)) (logd (mh_prop s (sx st) xi)) Hu Hu1 Hl Hc Hx Hy Hxy).
  unfold mh_step. cbv zeta. rewrite Hs.
  destruct (accept GNanInf (Fin l) (ext_sub (logd (mh_prop s (sx st) xi)) (logd (sx st))) (logd (mh_prop s (sx st) xi))); cbn [snd]; tauto.
Qed.

(* the rational acceptance probability alpha0 of Proofs/C02_Measure.v (the one the lattice cells of the correspondence evaluate) is
   the real acc0 of the countable / continuous theorems *)
From CV Require Import Proofs.C02_Balance Proofs.C02_Measure.

Lemma Q2R_0 : Q2R 0 = 0. Proof. unfold Q2R; cbn; lra. Qed.
Lemma Q2R_1 : Q2R 1 = 1. Proof. unfold Q2R; cbn; lra. Qed.

Lemma Q2R_qmin a b : Q2R (qmin a b) = Rmin (Q2R a) (Q2R b).
Proof.
  unfold qmin. destruct (Qle_bool a b) eqn:E.
  - apply Qle_bool_iff in E. apply Qle_Rle in E. rewrite Rmin_left; [reflexivity | exact E].
  - destruct (Qlt_le_dec b a) as [H|H].
    + apply Qlt_Rlt in H. rewrite Rmin_right; [reflexivity | lra].
    + apply Qle_bool_iff in H. congruence.
Qed.

Theorem alpha0_is_acc0 (A : Type) (pi : A -> Q) (q : A -> A -> Q) (x y : A) :
  Q2R (alpha0 A pi q x y) = acc0 (Q2R (pi x * q x y)) (Q2R (pi y * q y x)).
Proof.
  unfold alpha0, acc0.
  destruct (Qeq_bool (pi x * q x y) 0) eqn:E.
  - apply Qeq_bool_iff in E. apply Qeq_eqR in E. rewrite Q2R_0 in E.
    destruct (Req_EM_T (Q2R (pi x * q x y)) 0) as [_|N]; [apply Q2R_1 | contradiction].
  - assert (N : ~ (pi x * q x y == 0)%Q) by (intro H; apply Qeq_bool_iff in H; congruence).
    destruct (Req_EM_T (Q2R (pi x * q x y)) 0) as [Z|_].
    + exfalso. apply N. apply eqR_Qeq. rewrite Q2R_0. exact Z.
    + rewrite Q2R_qmin, Q2R_1. f_equal. unfold Qdiv. rewrite Q2R_mult, Q2R_inv by exact N. reflexivity.
Qed.
