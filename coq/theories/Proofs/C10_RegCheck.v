(* C10 -- what a passing rate case says about the sqrt(eps) identity.

   check_rate (Model/C10_Conj.v, evaluated by vm_compute in every shard) compares the observed rate with
        (1/2) v . (P + reg I) v + beta,     P + reg I built by mat_add_diag over Q, v = Ax - b.
   Read over R this reference IS the right-hand side of C10_gmrf_model_rate_identity,
        (v . P v / 2 + beta) + reg ||v||^2 / 2        (with b - Ax, the same number),
   so every passing periodic / neumann case exhibits the conditional's rate PLUS the excess, within relative 1e-9. *)
From CV Require Import Base.Tac Base.LinAlg Base.Cmp Model.C10_Conj Model.C10_ConjR Proofs.C10_Kernel Proofs.C10_Exact
                       Proofs.C10_Carrier Proofs.C10_Checks.
From Coq Require Import QArith Qabs Qreals Reals Lra RealField.

Lemma Q2Rv_vadd x y : Q2Rv (vadd Qplus x y) = vadd Rplus (Q2Rv x) (Q2Rv y).
Proof. revert y; induction x as [|a x IH]; intros [|b y]; simpl; try reflexivity. rewrite Q2R_plus. f_equal. apply IH. Qed.

Lemma Q2Rv_vscale c x : Q2Rv (vscale Qmult c x) = Rvscale (Q2R c) (Q2Rv x).
Proof. induction x as [|a x IH]; simpl; [reflexivity|]. rewrite Q2R_mult. f_equal. exact IH. Qed.

Lemma Q2Rv_vzero n : Q2Rv (vzero 0%Q n) = vzero 0%R n.
Proof. induction n as [|n IH]; simpl; [reflexivity|]. rewrite RMicromega.Q2R_0. f_equal. exact IH. Qed.

Lemma Q2Rv_unit_vec n i : Q2Rv (unit_vec 0%Q 1%Q n i) = unit_vec 0%R 1%R n i.
Proof.
  revert i; induction n as [|n IH]; intros i; simpl; [reflexivity|]. destruct i as [|i]; simpl.
  - rewrite RMicromega.Q2R_1. f_equal. apply Q2Rv_vzero.
  - rewrite RMicromega.Q2R_0. f_equal. apply IH.
Qed.

Lemma Q2Rv_length x : length (Q2Rv x) = length x.
Proof. apply map_length. Qed.

Open Scope R_scope.

Lemma unit_vec_len n i : length (unit_vec 0 1 n i) = n.
Proof. revert i; induction n as [|n IH]; intros i; simpl; [reflexivity|]. destruct i; simpl; [rewrite vzero_length | rewrite IH]; reflexivity. Qed.

(* one row of P + c I against a vector *)
Lemma row_add_diag_dot n i c (row : list Q) (V : Rvec) :
  length row = n -> length V = n -> (i < n)%nat ->
  Rdot (Q2Rv (vadd Qplus row (vscale Qmult c (ident_row n i)))) V = Rdot (Q2Rv row) V + Q2R c * nth i V 0.
Proof.
  intros Hr HV Hi. rewrite Q2Rv_vadd, Q2Rv_vscale. unfold ident_row. rewrite Q2Rv_unit_vec. unfold Rdot, Rvscale.
  rewrite (dot_vadd_l R 0 1 Rplus Rmult Rminus Ropp RTheory).
  - rewrite (dot_vscale_l R 0 1 Rplus Rmult Rminus Ropp RTheory).
    rewrite (dot_unit_vec R 0 1 Rplus Rmult Rminus Ropp RTheory n i V HV Hi). reflexivity.
  - rewrite vscale_length, Q2Rv_length, Hr, unit_vec_len. reflexivity.
Qed.

Lemma skipn_nth_cons {A} (l : list A) k d : (k < length l)%nat -> skipn k l = nth k l d :: skipn (S k) l.
Proof.
  revert k; induction l as [|a l IH]; intros k H; simpl in H; [lia|].
  destruct k as [|k]; [reflexivity|]. simpl. apply IH. lia.
Qed.

(* rows k .. k+m-1 of P + c I *)
Lemma add_diag_rows_matvec n c (V : Rvec) : length V = n ->
  forall (rows : list (list Q)) k, (k + length rows <= n)%nat -> Forall (fun r => length r = n) rows ->
  Rmatvec (Q2Rm (map (fun ir => vadd Qplus (snd ir) (vscale Qmult c (ident_row n (fst ir)))) (combine (seq k (length rows)) rows))) V
  = vadd Rplus (Rmatvec (Q2Rm rows) V) (Rvscale (Q2R c) (firstn (length rows) (skipn k V))).
Proof.
  intros HV rows. induction rows as [|row rows IH]; intros k Hk Hwf; [reflexivity|].
  apply Forall_cons_iff in Hwf as [Hrow Hrest]. cbn [length seq combine map Q2Rm Q2Rv Rmatvec matvec].
  change (map Q2R (vadd Qplus (snd (k, row)) (vscale Qmult c (ident_row n (fst (k, row))))))
    with (Q2Rv (vadd Qplus row (vscale Qmult c (ident_row n k)))).
  fold (Rdot (Q2Rv (vadd Qplus row (vscale Qmult c (ident_row n k)))) V).
  rewrite (row_add_diag_dot n k c row V Hrow HV) by (simpl in Hk; lia).
  rewrite (skipn_nth_cons V k 0) by (simpl in Hk; lia). cbn [firstn Rvscale vscale map vadd].
  f_equal.
  specialize (IH (S k) ltac:(simpl in Hk; lia) Hrest).
  exact IH.
Qed.

Lemma add_diag_matvec n c P (V : Rvec) : length V = n -> length P = n -> wf_mat n P ->
  Rmatvec (Q2Rm (mat_add_diag n P c)) V = vadd Rplus (Rmatvec (Q2Rm P) V) (Rvscale (Q2R c) V).
Proof.
  intros HV HP Hwf. unfold mat_add_diag. subst n.
  assert (Hle : (0 + length P <= length V)%nat) by (rewrite HP; apply Nat.le_refl).
  replace (seq 0 (length V)) with (seq 0 (length P)) by (rewrite HP; reflexivity).
  transitivity (vadd Rplus (Rmatvec (Q2Rm P) V) (Rvscale (Q2R c) (firstn (length P) (skipn 0 V)))).
  - exact (add_diag_rows_matvec (length V) c V eq_refl P 0%nat Hle Hwf).
  - f_equal. f_equal. cbn [skipn]. apply firstn_all2. rewrite HP. apply Nat.le_refl.
Qed.

Lemma add_diag_quadratic n c P (V : Rvec) : length V = n -> length P = n -> wf_mat n P ->
  Rdot V (Rmatvec (Q2Rm (mat_add_diag n P c)) V) = Rdot V (Rmatvec (Q2Rm P) V) + Q2R c * Rnormsq V.
Proof.
  intros HV HP Hwf. rewrite (add_diag_matvec n c P V HV HP Hwf). unfold Rdot.
  rewrite (dot_vadd_r R 0 1 Rplus Rmult Rminus Ropp RTheory).
  - unfold Rvscale. rewrite (dot_vscale_r R 0 1 Rplus Rmult Rminus Ropp RTheory). reflexivity.
  - unfold Rmatvec, Rvscale, Q2Rm. rewrite matvec_length, vscale_length, map_length.
    etransitivity; [exact HP | symmetry; exact HV].
Qed.

(* the quadratic form and the norm do not see the sign of v *)
Lemma quad_swap (P : Rmat) x y : Rdot (Rvsub x y) (Rmatvec P (Rvsub x y)) = Rdot (Rvsub y x) (Rmatvec P (Rvsub y x)).
Proof.
  rewrite (Rvsub_swap x y), Rmatvec_vscale. unfold Rdot, Rvscale.
  rewrite (dot_vscale_l R 0 1 Rplus Rmult Rminus Ropp RTheory), (dot_vscale_r R 0 1 Rplus Rmult Rminus Ropp RTheory). ring.
Qed.

Lemma normsq_swap x y : Rnormsq (Rvsub x y) = Rnormsq (Rvsub y x).
Proof. rewrite (Rvsub_swap x y), Rnormsq_vscale. ring. Qed.

(* a passing rate case: the observed rate is, within relative 1e-9, the conditional's rate plus reg ||b - Ax||^2 / 2 *)
Theorem check_rate_excess_sound n P reg L Ax b beta obs_rate obs_scale :
  check_rate n P reg L Ax b beta obs_rate obs_scale = true ->
  length P = n -> wf_mat n P -> length Ax = n -> length b = n ->
  let v := Rvsub (Q2Rv b) (Q2Rv Ax) in
  let target := (Rdot v (Rmatvec (Q2Rm P) v) / 2 + Q2R beta) + Q2R reg * Rnormsq v / 2 in
  Rabs (Q2R obs_rate - target) <= Q2R tol9 * Rabs target.
Proof.
  intros H HP Hwf HA HB v target. unfold check_rate in H.
  apply andb_true_iff in H as [H _]. apply andb_true_iff in H as [_ H].
  apply q_rel_sound in H.
  assert (E : Q2R ((1 # 2) * qdotq (vsub Qminus Ax b) (qmatvecq (mat_add_diag n P reg) (vsub Qminus Ax b)) + beta) = target).
  { unfold qdotq, qmatvecq. rewrite Q2R_plus, Q2R_mult, Q2R_half, Q2R_dot, Q2R_matvec, Q2R_vsub.
    assert (HV : length (Rvsub (Q2Rv Ax) (Q2Rv b)) = n) by (rewrite Rvsub_length; rewrite !Q2Rv_length; lia).
    rewrite (add_diag_quadratic n reg P _ HV HP Hwf).
    unfold target, v. rewrite (quad_swap (Q2Rm P) (Q2Rv b) (Q2Rv Ax)), (normsq_swap (Q2Rv b) (Q2Rv Ax)). field. }
  rewrite E in H. exact H.
Qed.
