(* C08 -- closed leapfrog orbits over an arbitrary state space, with the hypotheses one can check: the two directions of
   the integrator undo each other (on an invariant set), the orbit of s0 closes after N steps and not before, and `eqb`
   decides equality of states.  Then the orbit map of C08_Sim.v is N-periodic and injective on a period, and
   C08_Cycle.cycle_stationary applies: the uniform distribution on the in-slice states of the closed orbit is invariant.
   Instance: the concrete phase-space model of the correspondence (states over Qc, leapfrog of Model/C08_NUTS.v). *)
From CV Require Import Base.Tac Base.Cmp Base.Ext Base.LinAlg Base.QcLin Model.C08_NUTS Model.C08_Kernel Proofs.C08_Prog Proofs.C08_Tree Proofs.C08_Top
                       Proofs.C08_Law Proofs.C08_Orbit Proofs.C08_Block Proofs.C08_Alive Proofs.C08_Sim Proofs.C08_Cycle Proofs.C08_LeapD.
From Coq Require Import QArith Qcanon Lqa.
Local Open Scope Z_scope.

Section Closed.
Variable S : Type.
Variable leap : bool -> S -> S.
Variable Inv : S -> Prop.
Hypothesis Inv_leap : forall v s, Inv s -> Inv (leap v s).
Hypothesis leap_back : forall v s, Inv s -> leap (negb v) (leap v s) = s.
Variable s0 : S.
Hypothesis Inv_s0 : Inv s0.
Variable N : nat.
Hypothesis Npos : (0 < N)%nat.
Hypothesis Hclose : Nat.iter N (leap true) s0 = s0.
Hypothesis Hmin : forall n, (0 < n < N)%nat -> Nat.iter n (leap true) s0 <> s0.
Variable eqb : S -> S -> bool.
Hypothesis eqb_spec : forall a b, eqb a b = true <-> a = b.

Notation phi := (orb S leap s0).
Notation NZ := (Z.of_nat N).

Lemma phi_leap v i : leap v (phi i) = phi (zleap v i).
Proof. exact (orb_leap S leap Inv Inv_leap leap_back s0 Inv_s0 v i). Qed.

Lemma phi_nonneg n : phi (Z.of_nat n) = Nat.iter n (leap true) s0.
Proof. unfold orb. replace (0 <=? Z.of_nat n) with true by (symmetry; apply Z.leb_le; lia). rewrite Nat2Z.id. reflexivity. Qed.

(* equal states stay equal along the orbit *)
Lemma phi_shift_eq i j : phi i = phi j -> forall c, phi (i + c) = phi (j + c).
Proof.
  intros E c. pattern c. apply Z.peano_ind; clear c.
  - rewrite !Z.add_0_r. exact E.
  - intros c IH. replace (i + Z.succ c) with (zleap true (i + c)) by (unfold zleap; lia).
    replace (j + Z.succ c) with (zleap true (j + c)) by (unfold zleap; lia). rewrite <- !phi_leap, IH. reflexivity.
  - intros c IH. replace (i + Z.pred c) with (zleap false (i + c)) by (unfold zleap; lia).
    replace (j + Z.pred c) with (zleap false (j + c)) by (unfold zleap; lia). rewrite <- !phi_leap, IH. reflexivity.
Qed.

Lemma phi_per i : phi (i + NZ) = phi i.
Proof.
  assert (E0 : phi NZ = phi 0) by (rewrite phi_nonneg; exact Hclose).
  pose proof (phi_shift_eq NZ 0 E0 i) as E. rewrite Z.add_0_l in E. rewrite <- E. f_equal. lia.
Qed.

Lemma phi_per_mult q : forall i, phi (i + q * NZ) = phi i.
Proof.
  pattern q. apply Z.peano_ind; clear q.
  - intros i. f_equal. lia.
  - intros q IH i. replace (i + Z.succ q * NZ) with (i + q * NZ + NZ) by lia. rewrite phi_per. apply IH.
  - intros q IH i. rewrite <- (phi_per (i + Z.pred q * NZ)). replace (i + Z.pred q * NZ + NZ) with (i + q * NZ) by lia. apply IH.
Qed.

(* ... and the N states of a period are distinct *)
Lemma phi_inj i j : phi i = phi j -> (i - j) mod NZ = 0.
Proof.
  intros E. set (d := (i - j) mod NZ).
  pose proof (Z.mod_pos_bound (i - j) NZ ltac:(lia)) as Hb. fold d in Hb.
  pose proof (Z.div_mod (i - j) NZ ltac:(lia)) as D. fold d in D.
  destruct (Z.eq_dec d 0) as [E0 | Hne]; [exact E0 | exfalso].
  apply (Hmin (Z.to_nat d)); [lia|].
  rewrite <- phi_nonneg. replace (Z.of_nat (Z.to_nat d)) with d by lia.
  pose proof (phi_shift_eq i j E (- j)) as E1. replace (j + - j) with 0 in E1 by lia.
  transitivity (phi (i + - j)); [|exact E1].
  rewrite <- (phi_per_mult ((i - j) / NZ) d). f_equal. lia.
Qed.

Lemma phi_eqb i j : eqb (phi i) (phi j) = ((i - j) mod NZ =? 0).
Proof.
  destruct ((i - j) mod NZ =? 0) eqn:E.
  - apply Z.eqb_eq in E. apply eqb_spec.
    pose proof (Z.div_mod (i - j) NZ ltac:(lia)) as D. rewrite E in D.
    rewrite <- (phi_per_mult ((i - j) / NZ) j). f_equal. lia.
  - apply Z.eqb_neq in E. destruct (eqb (phi i) (phi j)) eqn:E1; [|reflexivity].
    apply eqb_spec in E1. apply phi_inj in E1. contradiction.
Qed.

Variable ham lgd : S -> ext.
Variable uturn : S -> S -> bool.
Variable alpha : S -> Q.
Variable logu : ext.
Variable guard : bool.

(* the states of the closed orbit are phi 0 = s0, phi 1 = leap s0, ..., phi (N-1); the sum may be taken over any N
   consecutive positions *)
Theorem closed_orbit_stationary :
  guard = false \/ (forall i, finite_logd S lgd (phi i) = true) ->
  (forall i, in_slice S ham logu (phi i) = true -> not_diverged S ham logu (phi i) = true) ->
  forall (md : nat) (a k0 : Z), in_slice S ham logu (phi k0) = true ->
  (qs (fun i => if in_slice S ham logu (phi i)
                then dist (transition S leap ham lgd uturn alpha logu guard md (phi i))
                          (fun tp => b2q (eqb (p_cur tp) (phi k0)))
                else 0) (zr a N) == 1)%Q.
Proof.
  intros Hfin Hsl md a k0 Hk.
  exact (cycle_stationary S leap ham lgd uturn alpha logu guard phi N eqb phi_leap Npos phi_per phi_eqb Hfin Hsl md a k0 Hk).
Qed.
End Closed.

(* ---------------- the concrete model of the correspondence ---------------- *)
Lemma qcl_eqb_spec x y : qcl_eqb x y = true <-> x = y.
Proof. apply list_eqb_spec. apply qc_eqb_eq. Qed.

Lemma cs_eqb_spec s t : cs_eqb s t = true <-> s = t.
Proof.
  unfold cs_eqb. destruct s as [x r g], t as [x' r' g']. cbn [ps_x ps_r ps_g].
  rewrite !andb_true_iff, !qcl_eqb_spec. split.
  - intros [[-> ->] ->]. reflexivity.
  - intros E. inversion E. auto.
Qed.

(* finite slice variable: "in the slice implies not divergent" holds over any state space *)
Lemma in_slice_nd_fin (S : Type) (ham : S -> ext) (u : Q) s :
  in_slice S ham (Fin u) s = true -> not_diverged S ham (Fin u) s = true.
Proof.
  unfold in_slice, not_diverged, delta_max. destruct (ham s) as [| | |q]; cbn; try congruence.
  intros Hle. apply Qle_bool_iff in Hle. apply negb_true_iff.
  destruct (Qle_bool (1000 + q) u) eqn:E; [|reflexivity]. apply Qle_bool_iff in E. lra.
Qed.

Theorem concrete_closed_orbit_stationary (t : target) (d : nat) (guard : bool) (heps : Qc) (x z : list Qc) (u : Q) (N : nat) :
  wf_target t d -> length x = d -> length z = d ->
  let s0 := c_init t x z in
  let phi := orb cstate (c_leap t heps) s0 in
  (0 < N)%nat -> Nat.iter N (c_leap t heps true) s0 = s0 ->
  (forall n, (0 < n < N)%nat -> Nat.iter n (c_leap t heps true) s0 <> s0) ->
  guard = false \/ (forall i, finite_logd cstate (c_lgd t) (phi i) = true) ->
  forall (md : nat) (a k0 : Z), in_slice cstate (c_ham t) (Fin u) (phi k0) = true ->
  (qs (fun i => if in_slice cstate (c_ham t) (Fin u) (phi i)
                then dist (transition cstate (c_leap t heps) (c_ham t) (c_lgd t) c_uturn_ok (fun _ => 0%Q) (Fin u) guard md (phi i))
                          (fun tp => b2q (cs_eqb (p_cur tp) (phi k0)))
                else 0) (zr a N) == 1)%Q.
Proof.
  intros Hw Hx Hz s0 phi Npos Hclose Hmin Hfin md a k0 Hk.
  pose proof (wf_target_dim t d Hw) as Ht.
  apply (closed_orbit_stationary cstate (c_leap t heps) (ok_d Qc (t_grad t) d)) ; try assumption.
  - intros v s Hs. unfold c_leap. apply (leapfrog_ok_d Qc Qcplus Qcmult (t_grad t) d Ht). exact Hs.
  - intros v s Hs. unfold c_leap.
    exact (leapfrog_back_d Qc 0%Qc 1%Qc Qcplus Qcmult Qcminus Qcopp Qcrt (t_grad t) d Ht heps v s Hs).
  - unfold s0, c_init, ok_d. cbn [ps_x ps_r ps_g]. repeat split; try assumption. apply Ht, Hx.
  - apply cs_eqb_spec.
  - intros i. apply in_slice_nd_fin.
Qed.

(* what the closed-orbit cells check by computation are the hypotheses above *)
Lemma check_cycle_sound t heps x z N : check_cycle t heps x z N = true ->
  let s0 := c_init t (qvec x) (qvec z) in
  (0 < N)%nat /\ length (qvec x) = length (qvec z) /\ Nat.iter N (c_leap t heps true) s0 = s0 /\
  (forall n, (0 < n < N)%nat -> Nat.iter n (c_leap t heps true) s0 <> s0).
Proof.
  unfold check_cycle. cbv zeta. intros E.
  apply andb_true_iff in E as [E E4]. apply andb_true_iff in E as [E E3]. apply andb_true_iff in E as [E1 E2].
  apply Nat.ltb_lt in E1. apply Nat.eqb_eq in E2. apply cs_eqb_spec in E3.
  split; [exact E1 | split; [unfold qvec; rewrite !map_length; exact E2 | split; [exact E3|]]].
  intros n Hn Ec. rewrite forallb_forall in E4.
  assert (Hin : In n (seq 1 (N - 1))) by (apply in_seq; lia).
  specialize (E4 n Hin). apply cs_eqb_spec in Ec. rewrite Ec in E4. discriminate.
Qed.
