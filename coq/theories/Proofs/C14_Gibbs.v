From CV Require Import Base.Tac Base.Cmp Model.C14_Chain Model.C14_Gibbs Proofs.C14_Chain.

Section BlockProofs.
Variables Cfg St Rnd Acc : Type.
Variable step : Cfg -> St -> Rnd -> St * Acc.
Notation block_after := (block_after Cfg St Rnd Acc step).
Notation states := (states Cfg St Rnd Acc step).

Lemma block_after_nil c s : block_after c s [] = s.
Proof. reflexivity. Qed.

(* the value recorded after k+1 inner transitions is the (k+1)-th transition applied to the value after k of them --
   in particular it does not depend on whether that last transition was accepted *)
Lemma block_after_snoc c s rs r : block_after c s (rs ++ [r]) = fst (step c (block_after c s rs) r).
Proof.
  unfold C14_Gibbs.block_after. rewrite (states_app Cfg St Rnd Acc step c rs s [r]).
  cbn [C14_Chain.states]. rewrite last_app_default. reflexivity.
Qed.

Lemma block_after_app c s rs1 rs2 : block_after c s (rs1 ++ rs2) = block_after c (block_after c s rs1) rs2.
Proof.
  unfold C14_Gibbs.block_after. rewrite (states_app Cfg St Rnd Acc step c rs1 s rs2), last_app_default. reflexivity.
Qed.
End BlockProofs.
