(* C04 -- tactics of the generated case files (no definitions, no proofs).  Kept apart from the model files so that the
   property theorems do not depend on the Interval library (it is needed only to CHECK the per-case enclosures). *)
From CV Require Import Base.Tac Base.Cmp Model.C04_Dens Model.C04_Cdf.
From Coq Require Import QArith Reals.
From Coquelicot Require Import Coquelicot.
From Interval Require Import Tactic.
Local Open Scope R_scope.
(* the case files import this module but not Coquelicot (whose tuple notation [x] clashes with list notation): make the
   canonical structure that Interval's `integral` needs available through this module *)
Canonical Structure Hierarchy.R_CompleteNormedModule.

(* reduce the list structure of a model term, leaving real arithmetic for `interval` *)
Ltac c04_red :=
  cbv [rsum rprod bc zip2 zip3 zip4 bcast2 map combine repeat length fold_right fst snd hd
       normal_term normal_pdf1 normal_args normal_logpdf normal_pdf
       laplace_pdf1 laplace_args laplace_logpdf
       slap_term slap_pdf1 slap_args slap_logpdf
       cauchy_term cauchy_pdf1 cauchy_cdf1 cauchy_args cauchy_logpdf cauchy_cdf
       uniform_logpdf uniform_pdf1
       gamma_term gamma_logpdf invgamma_term invgamma_logpdf beta_term beta_logpdf gam_half
       mhn_doc_term mhn_getter_beta mhn_getter_gamma mhn_logpdf mhn_doc_logpdf
       gauss_logupdf gauss_canon gd_sqrtprec gd_logdet1 gd_quad gd_logdet gauss_diag_logpdf lognormal_logpdf gauss_band_logdet
       gmrf_logpdf lmrf_logpdf lmrf_pdf cmrf_logpdf INR].
Ltac c04_encl := c04_red; interval with (i_prec 80).
Ltac c04_both := split; [vm_compute; reflexivity | c04_encl].

(* enclosures of terms that contain integrals (cdfs) *)
(* INR (fact n) is first turned into an integer literal: the unary numeral (1 + 1 + ... + 1, 5040 summands for 7!) made Interval's
   reification take minutes for Beta(4,4) *)
Ltac c04_fact := repeat match goal with |- context [INR (fact ?n)] =>
  let z := eval vm_compute in (Z.of_nat (fact n)) in replace (INR (fact n)) with (IZR z) by (rewrite INR_IZR_INZ; reflexivity) end.
Ltac c04_int0 := cbv [rsum rprod bc zip2 zip3 zip4 map combine repeat length fold_right fst snd hd normal_args normal_cdf normal_cdf1 normal_cdf_z
                     std_normal_pdf gamma_int_cdf1 gamma_int_pdf beta_int_cdf1 beta_int_pdf]; c04_fact; cbv [Nat.add Nat.mul INR pow];
                integral with (i_prec 60, i_fuel 400, i_relwidth 36).

(* conjunctions: exact side conditions over Q, one integral per conjunct, and a purely rational final inequality *)
Ltac c04_int := repeat split; first [vm_compute; reflexivity | c04_int0 | (c04_red; interval with (i_prec 80))].
