(* C19 -- operation sequences ("histories") on a set of live Samples objects.
   State = the list of live objects in order of creation (roots first; every burnthin / conversion
   call that builds a new object appends it).  Every operation returns a value and the new state.
   In the implementation the objects are NOT independent values: Samples.__init__ stores the
   caller's array without copying, burnthin returns a numpy *view* of its source
   (`self.samples[..., Nb::Nt]` on a shallow copy), `funvals` / `vector` / `parameters` return
   `self` when no conversion is needed.  The model is functional; the correspondence check compares
   the observed stored array of EVERY live object after EVERY operation with the model's state, so an
   operation that writes into a stored array (directly or through a view) disagrees with the model.
   No proofs here. *)
From CV Require Import Base.Tac Base.Cmp Model.C19_Stats Model.C19_Rhat.
From Coq Require Import QArith Qabs.
From Coq Require String.

Definition hobj := samples_obj (list Z).

(* The one geometry shared by all objects of a history, as far as Samples uses it:
   variables (names handed to arviz), par2fun p = a*p + b elementwise with a = 1 or a = -1 (so that
   fun2par f = a*(f - b) is its exact inverse), whether function values are 2-d arrays (Image2D,
   Continuous2D: funvals are not in vector form) or 1-d arrays, and whether the geometry lacks
   vec2fun / fun2vec (Continuous2D: the base-class methods raise NotImplementedError for 2-d function
   values, and so does everything that needs funvec_dim / funvec_shape).
   g_rhat_bcast: repair state of compute_rhat (true = unrepaired code: a chain with ONE draw is broadcast
   over all draws by the numpy assignment `samples[:,i+1,:] = chain.samples`; false = lengths are
   validated).  Probed by the harness on every run. *)
Record geom := mkG { g_names : list string; g_a : Z; g_b : Z; g_fun2d : bool; g_novec : bool; g_rhat_bcast : bool }.

Inductive op :=
| OMean (i : nat) | OMedian (i : nat) | OVar (i : nat) | OStd (i : nat)
| OCi (i : nat) (cn : Z) (cd : positive) | OCiWidth (i : nat) (cn : Z) (cd : positive)
| OArviz (i : nat) (sel : option (list nat)) (needs_dim : bool)
                              (* to_arviz_inferencedata(variable_indices = sel); needs_dim: reached through plot_trace /
                                 plot_pair / plot_autocorrelation / plot_violin, which read _geometry_dim first; the value is
                                 the dictionary handed to arviz *)
| OTrace (i : nat) (sel : option (list nat)) (exact : list Z)
                              (* plot_trace(variable_indices = sel, exact = ...): the dictionary handed to arviz.plot_trace and the
                                 `lines` it is given: (name of selected variable k, exact value for it); an exact vector of full
                                 length is indexed by the selection, a shorter one must already match it *)
| OEss (i : nat)              (* compute_ess(): value = what arviz.ess is handed *)
| ORhat (i : nat) (js : list nat) (geom_eq : bool) (m : rmethod)
                              (* obj_i.compute_rhat([obj_j ...], method=m): value = what arviz.rhat is handed and, for
                                 m = split / identity, the square of every returned number.  compute_rhat first asks
                                 cuqi.geometry whether the geometries are equal; that comparison is code outside this
                                 property: its answer (True = "equal", False = "different" or it raised) is an INPUT here,
                                 observed by the harness on the same objects immediately before the call *)
| OFunvals (i : nat) | OVector (i : nat) | OParameters (i : nat)
| OBurnthin (i nb nt : nat)
| OJoint (members : list nat) (nb nt : nat)   (* JointSamples(members).burnthin(nb, nt) *)
| OQuiet (i : nat).           (* plot_* and diagnostics(): nothing returned that is compared *)

Inductive oval :=
| VStat (v : list Q)                               (* one number per coordinate *)
| VCi (lo hi : list Q)
| VDict (d : list (string * list Z))               (* name -> chain *)
| VRhat (d : list (string * list (list Z))) (sq : option (list (option Q)))
                                                   (* name -> [chain of self; chains of the others], and per variable
                                                      Rhat^2 (None inside = nan; None outside = method not modelled) *)
| VTrace (d : list (string * list Z)) (lines : list (string * Z))
| VSelf                                            (* the target object itself was returned *)
| VObj (o : hobj)                                  (* a new object (appended to the state) *)
| VObjs (l : list hobj)                            (* new objects (appended to the state) *)
| VNone
| VRefused                                         (* the call raised *)
| VBadIndex.                                       (* harness error: no such live object *)

(* the objects an operation reads *)
Definition op_targets (o : op) : list nat :=
  match o with
  | OMean i | OMedian i | OVar i | OStd i | OCi i _ _ | OCiWidth i _ _ | OArviz i _ _ | OEss i | OTrace i _ _
  | OFunvals i | OVector i | OParameters i | OBurnthin i _ _ | OQuiet i => [i]
  | ORhat i js _ _ => i :: js
  | OJoint ms _ _ => ms
  end.

Definition chain_dim (c : list (list Z)) : nat := match c with s :: _ => length s | [] => O end.
(* row k = chain of variable k *)
Definition coords (c : list (list Z)) : list (list Z) := map (fun k => coordchain k c) (seq 0 (chain_dim c)).
Definition stat_of (f : list Z -> Q) (c : list (list Z)) : list Q := per_coord f (chain_dim c) c.
Definition vmap (f : Z -> Z) (c : list (list Z)) : list (list Z) := map (map f) c.

Fixpoint lookup_all (st : list hobj) (ms : list nat) : option (list hobj) :=
  match ms with
  | [] => Some []
  | i :: r => match nth_error st i, lookup_all st r with
              | Some o, Some l => Some (o :: l)
              | _, _ => None
              end
  end.

Fixpoint burnthin_all (nb nt : nat) (os : list hobj) : option (list hobj) :=
  match os with
  | [] => Some []
  | o :: r => match obj_burnthin nb nt o, burnthin_all nb nt r with
              | Some o', Some r' => Some (o' :: r')
              | _, _ => None
              end
  end.

(* selection by a list of indices (numpy fancy indexing with in-range indices); None if one is out of range *)
Fixpoint select {A} (l : list A) (sel : list nat) : option (list A) :=
  match sel with
  | [] => Some []
  | k :: r => match nth_error l k, select l r with
              | Some a, Some t => Some (a :: t)
              | _, _ => None
              end
  end.

(* the dictionary built by to_arviz_inferencedata *)
Definition arviz_value (g : geom) (x : hobj) (sel : option (list nat)) (needs_dim : bool) : oval :=
  if negb (s_is_vec x) then VRefused
  else if (needs_dim || match sel with None => true | Some _ => false end) && g_novec g && negb (s_is_par x)
       then VRefused                                            (* _geometry_dim -> funvec_dim raises *)
  else match sel with
       | None => VDict (arviz_dict (g_names g) (coords (s_chain x)))
       | Some ks => match select (g_names g) ks, select (coords (s_chain x)) ks with
                    | Some ns, Some rs => VDict (arviz_dict ns rs)
                    | _, _ => VRefused
                    end
       end.

Definition trace_value (g : geom) (x : hobj) (sel : option (list nat)) (ex : list Z) : oval :=
  match arviz_value g x sel true with
  | VDict d =>
      let dim := chain_dim (s_chain x) in
      let ks := match sel with Some ks => ks | None => seq 0 dim end in
      let ex' := if (length ex =? dim)%nat then select ex ks else Some ex in
      match ex', select (g_names g) ks with
      | Some e, Some ns => if (length ks =? length e)%nat then VTrace d (zip ns e) else VRefused
      | _, _ => VRefused
      end
  | v => v
  end.

(* the chain of one other object as it ends up in the array handed to arviz.rhat: as stored when the
   numbers of draws agree; a single draw repeated n times in the unrepaired code; otherwise refused *)
Definition rhat_other (g : geom) (n : nat) (y : hobj) : option (list (list Z)) :=
  if negb (s_is_vec y) then None
  else if (length (s_chain y) =? n)%nat then Some (s_chain y)
  else if g_rhat_bcast g && (length (s_chain y) =? 1)%nat then Some (concat (repeat (s_chain y) n))
  else None.

Fixpoint rhat_others (g : geom) (n : nat) (ys : list hobj) : option (list (list (list Z))) :=
  match ys with
  | [] => Some []
  | y :: r => match rhat_other g n y, rhat_others g n r with
              | Some c, Some t => Some (c :: t)
              | _, _ => None
              end
  end.

Definition rhat_value (g : geom) (x : hobj) (ys : list hobj) (geq : bool) (m : rmethod) : oval :=
  if negb geq || negb (s_is_vec x) || (g_novec g && negb (s_is_par x)) then VRefused
  else match rhat_others g (length (s_chain x)) ys with
       | None => VRefused
       | Some cs =>
           let per_var := map (fun k => map (coordchain k) (s_chain x :: cs)) (seq 0 (chain_dim (s_chain x))) in
           VRhat (dict_of (zip (g_names g) per_var))
                 (match m with RRank [] => None | _ => Some (map (rhat_sq_opt m) per_var) end)
       end.

(* value of an operation, given the objects it reads (in the order of op_targets); None = wrong arity *)
Definition op_value (g : geom) (o : op) (args : list hobj) : option oval :=
  match o, args with
  | OMean _, [x] => Some (VStat (stat_of mean (s_chain x)))
  | OMedian _, [x] => Some (VStat (stat_of median (s_chain x)))
  | OVar _, [x] => Some (VStat (stat_of variance (s_chain x)))
  | OStd _, [x] => Some (VStat (stat_of variance (s_chain x)))     (* the harness squares the observed std *)
  | OCi _ cn cd, [x] => Some (VCi (stat_of (fun l => ci_lo l cn cd) (s_chain x)) (stat_of (fun l => ci_hi l cn cd) (s_chain x)))
  | OCiWidth _ cn cd, [x] => Some (VStat (stat_of (fun l => ci_width l cn cd) (s_chain x)))
  | OArviz _ sel nd, [x] => Some (arviz_value g x sel nd)
  | OEss _, [x] => Some (arviz_value g x None false)
  | OTrace _ sel ex, [x] => Some (trace_value g x sel ex)
  | ORhat _ _ geq m, x :: ys => Some (rhat_value g x ys geq m)
  | OFunvals _, [x] =>
      Some (if negb (s_is_par x) && negb (s_is_vec x) then VSelf
            else if negb (s_is_par x) && g_novec g then VRefused                      (* vec2fun raises *)
            else VObj (mkS (if s_is_par x then vmap (fun p => g_a g * p + g_b g)%Z (s_chain x) else s_chain x)
                           false (negb (g_fun2d g)) (s_geom x)))
  | OVector _, [x] =>
      Some (if s_is_vec x || s_is_par x then VSelf
            else if g_novec g then VRefused                                           (* funvec_dim / fun2vec raise *)
            else VObj (mkS (s_chain x) (s_is_par x) true (s_geom x)))
  | OParameters _, [x] =>
      Some (if s_is_par x then VSelf
            else if s_is_vec x && g_novec g then VRefused                             (* fun2par(vec2fun(.)) raises *)
            else VObj (mkS (vmap (fun f => g_a g * (f - g_b g))%Z (s_chain x)) true true (s_geom x)))
  | OBurnthin _ nb nt, [x] =>
      Some (match obj_burnthin nb nt x with Some x' => VObj x' | None => VRefused end)
  | OJoint _ nb nt, xs =>
      Some (match burnthin_all nb nt xs with Some l => VObjs l | None => VRefused end)
  | OQuiet _, [x] => Some VNone
  | _, _ => None
  end.

(* objects a value adds to the state *)
Definition created (v : oval) : list hobj :=
  match v with VObj o => [o] | VObjs l => l | _ => [] end.

(* A history may involve several geometry objects (e.g. the members of a joint sample set have their own):
   gs is the table of geometries, s_geom of an object is its index in the table.  An operation is evaluated
   with the geometry of the object it is called on (the first target); conversions and burnthin hand that
   geometry on to the objects they build.  (OJoint on no members reads no geometry.) *)
Definition geom_for (gs : list geom) (args : list hobj) : option geom :=
  match args with
  | x :: _ => nth_error gs (s_geom x)
  | [] => Some (mkG [] 1 0 false false false)
  end.

Definition op_value_gs (gs : list geom) (o : op) (args : list hobj) : option oval :=
  match geom_for gs args with
  | Some g => op_value g o args
  | None => None
  end.

Definition step (gs : list geom) (o : op) (st : list hobj) : oval * list hobj :=
  match lookup_all st (op_targets o) with
  | Some args => match op_value_gs gs o args with
                 | Some v => (v, st ++ created v)
                 | None => (VBadIndex, st)
                 end
  | None => (VBadIndex, st)
  end.

(* the trace of a history: value and state after every operation *)
Fixpoint run (gs : list geom) (ops : list op) (st : list hobj) : list (oval * list hobj) :=
  match ops with
  | [] => []
  | o :: r => let p := step gs o st in p :: run gs r (snd p)
  end.

Definition final (gs : list geom) (ops : list op) (st : list hobj) : list hobj :=
  fold_left (fun s o => snd (step gs o s)) ops st.

(* ---------------- the geometry comparison compute_rhat relies on ----------------
   Geometry.__eq__ -> _all_values_equal(self, obj): for every attribute (key, value) in vars(self), the
   value must equal vars(obj)[key]; a key that obj lacks raises KeyError (None).  Attributes are
   abstracted to integers.  (Not anchored code of this property: used only to state the finding
   `C19_rhat_geometry_eq_history_refuted`; tied to the code by the replayed witness.) *)
Fixpoint all_values_equal (self obj : list (string * Z)) : option bool :=
  match self with
  | [] => Some true
  | (k, v) :: r => match dict_get k obj with
                   | None => None
                   | Some w => if (v =? w)%Z then all_values_equal r obj else Some false
                   end
  end.

(* ---------------- boolean checkers used by the generated case files ---------------- *)
Definition hobj_eqb (x y : hobj) : bool :=
  zll_eqb (s_chain x) (s_chain y) && Bool.eqb (s_is_par x) (s_is_par y) &&
  Bool.eqb (s_is_vec x) (s_is_vec y) && Nat.eqb (s_geom x) (s_geom y).

Definition dict_eqb {B} (e : B -> B -> bool) (x y : list (string * B)) : bool :=
  list_eqb (fun a b => String.eqb (fst a) (fst b) && e (snd a) (snd b)) x y.

(* observed value vs model value *)
Definition oval_close (obs mdl : oval) : bool :=
  match obs, mdl with
  | VStat a, VStat b => ql_close tol9 a b
  | VCi a1 a2, VCi b1 b2 => ql_close tol9 a1 b1 && ql_close tol9 a2 b2
  | VDict a, VDict b => dict_eqb zl_eqb a b
  | VTrace a la, VTrace b lb => dict_eqb zl_eqb a b && list_eqb (fun p q => String.eqb (fst p) (fst q) && Z.eqb (snd p) (snd q)) la lb
  | VRhat a sa, VRhat b sb =>
      dict_eqb zll_eqb a b &&
      match sb, sa with
      | None, _ => true                                   (* method not modelled: numbers not compared here *)
      | Some mb, Some ma => list_eqb (fun x y => match x, y with
                                                  | Some p, Some q => q_close tol9 p q
                                                  | None, None => true
                                                  | _, _ => false end) ma mb
      | Some _, None => false
      end
  | VSelf, VSelf | VNone, VNone | VRefused, VRefused => true
  | VObj a, VObj b => hobj_eqb a b
  | VObjs a, VObjs b => list_eqb hobj_eqb a b
  | _, _ => false
  end.

Fixpoint check_trace (mdl obs : list (oval * list hobj)) : bool :=
  match mdl, obs with
  | [], [] => true
  | (mv, ms) :: mr, (ov, os) :: orest => oval_close ov mv && list_eqb hobj_eqb os ms && check_trace mr orest
  | _, _ => false
  end.

(* `obs` = for every operation, the observed value and the observed stored chain / flags of every live
   object right after it; `bits_intact` = the harness' bit-for-bit comparison of every stored array
   (and of the arrays handed to the constructors) with its bytes at creation, after every operation *)
Definition check_history (g : list geom) (init : list hobj) (ops : list op) (obs : list (oval * list hobj))
           (bits_intact : bool) : bool :=
  check_trace (run g ops init) obs && bits_intact.
