(* C03 -- a symmetric matrix induces a symmetric bilinear form: the executable test `transpose P = P` that the
   generated cases run discharges the hypothesis `sym_form` of the quadratic theorems.  Generic commutative ring. *)
From CV Require Import Base.Tac Base.LinAlg Base.Cmp Base.QcLin Model.C03_GradQ Proofs.C03_Quad Proofs.C03_GradQ.
From Coq Require Import Ring QArith Qcanon.

Section Sym.
Variable R : Type.
Variables (r0 r1 : R) (radd rmul rsub : R -> R -> R) (ropp : R -> R).
Hypothesis Rth : ring_theory r0 r1 radd rmul rsub ropp (@eq R).
Add Ring RingSym : Rth.
Notation "x + y" := (radd x y).
Notation "x * y" := (rmul x y).
Notation gdot := (dot r0 radd rmul).
Notation gmatvec := (matvec r0 radd rmul).
Notation gmattvec := (mattvec r0 radd rmul).
Notation gtranspose := (transpose r0).

Lemma list_as_map_nth : forall (l : list R), l = map (fun j => nth j l r0) (seq 0 (length l)).
Proof.
  induction l as [|a l IH]; [reflexivity|].
  cbn [length seq map nth]. f_equal. rewrite <- seq_shift, map_map. exact IH.
Qed.

Lemma vadd_vscale_map (b : R) (g f : nat -> R) : forall l : list nat,
  vadd radd (vscale rmul b (map g l)) (map f l) = map (fun j => b * g j + f j) l.
Proof. induction l as [|j l IH]; cbn; [reflexivity|]. f_equal. exact IH. Qed.

Lemma map_const_repeat (c : R) : forall (l : list nat), map (fun _ => c) l = repeat c (length l).
Proof. induction l as [|j l IH]; cbn; [reflexivity | f_equal; exact IH]. Qed.

(* A^T y computed through the materialised transpose = A^T y computed row by row *)
Lemma matvec_transpose n : forall (A : mat R) (y : vec R), wf_mat n A -> length y = length A ->
  gmatvec (gtranspose n A) y = gmattvec n A y.
Proof.
  induction A as [|row A IH]; intros y HA Hy.
  - destruct y; [|discriminate Hy]. unfold transpose, matvec. rewrite map_map. cbn [mattvec].
    unfold vzero. rewrite <- (seq_length n 0) at 2. rewrite <- map_const_repeat. apply map_ext. intros j. destruct j; reflexivity.
  - destruct y as [|b y]; [discriminate Hy|]. pose proof (Forall_inv HA) as Hrow. pose proof (Forall_inv_tail HA) as HA'. cbn beta in Hrow.
    cbn [mattvec]. rewrite <- (IH y HA' ltac:(cbn in Hy; lia)).
    unfold transpose, matvec. rewrite !map_map.
    assert (Hr : vscale rmul b row = vscale rmul b (map (fun j => nth j row r0) (seq 0 n))).
    { rewrite <- Hrow. rewrite <- (list_as_map_nth row). reflexivity. }
    rewrite Hr, vadd_vscale_map. apply map_ext. intros j. unfold col. cbn. ring.
Qed.

Theorem transpose_sym_form n (P : mat R) :
  wf_mat n P -> length P = n -> gtranspose n P = P -> sym_form R r0 radd rmul n P.
Proof.
  intros HP HPn HT u v Hu Hv.
  rewrite (adjoint_identity R r0 r1 radd rmul rsub ropp Rth n P u v HP Hu).
  rewrite <- (matvec_transpose n P v HP ltac:(lia)). rewrite HT. reflexivity.
Qed.
End Sym.

(* the Qc model: the boolean test the generated cases evaluate *)
Lemma qcl_eqb_eq x y : qcl_eqb x y = true <-> x = y.
Proof. apply list_eqb_spec. apply qc_eqb_eq. Qed.
Lemma qcll_eqb_eq x y : qcll_eqb x y = true <-> x = y.
Proof. apply list_eqb_spec. apply qcl_eqb_eq. Qed.

Fixpoint wf_matb (n : nat) (A : list (list Qc)) : bool :=
  match A with [] => true | r :: A' => Nat.eqb (length r) n && wf_matb n A' end.
Lemma wf_matb_spec n A : wf_matb n A = true -> wf_mat n A.
Proof.
  induction A as [|r A IH]; cbn; intros H; [constructor|].
  apply andb_true_iff in H as [H1 H2]. constructor; [apply Nat.eqb_eq; exact H1 | apply IH; exact H2].
Qed.

Theorem symb_sym_form n (P : list (list Qc)) :
  wf_matb n P = true -> length P = n -> symb n P = true -> qsym_form n P.
Proof.
  intros Hwf Hn Hs. apply (transpose_sym_form Qc 0%Qc 1%Qc Qcplus Qcmult Qcminus Qcopp Qcrt n P (wf_matb_spec n P Hwf) Hn).
  apply qcll_eqb_eq. exact Hs.
Qed.

(* the quadratic line identity of the model under the EXECUTABLE hypotheses (all checked by vm_compute in the cases) *)
Theorem quad_model_line_exec n (P : list (list Qc)) (m x d : list Qc) (t : Qc) :
  wf_matb n P = true -> length P = n -> symb n P = true -> length m = n -> length x = n -> length d = n ->
  quad_logk P m (qvadd x (qvscale t d)) =
  (quad_logk P m x + t * qdot (quad_grad P m x) d - half * (t * t) * qdot d (qmatvec P d))%Qc.
Proof.
  intros Hwf Hn Hs. apply quad_model_line; [apply wf_matb_spec; exact Hwf | exact Hn | apply symb_sym_form; assumption].
Qed.

(* GMRF: gradient = -delta P (x - mean) for the structure matrix P the logpdf uses, under the computable hypotheses *)
Theorem gmrf_model_line_exec n (delta : Qc) (Pop : list (list Qc)) (m x d : list Qc) (t : Qc) :
  wf_matb n Pop = true -> length Pop = n -> symb n Pop = true -> length m = n -> length x = n -> length d = n ->
  gmrf_logk delta Pop m (qvadd x (qvscale t d)) =
  (gmrf_logk delta Pop m x + t * qdot (gmrf_grad delta Pop m x) d - half * (t * t) * (delta * qdot d (qmatvec Pop d)))%Qc.
Proof.
  intros Hwf Hn Hs. apply gmrf_model_line; [apply wf_matb_spec; exact Hwf | exact Hn | apply symb_sym_form; assumption].
Qed.
