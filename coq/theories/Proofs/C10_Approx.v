(* C10 -- ConjugateApprox: exactly which density its Gamma is the conditional of, and how far that is from the LMRF. *)
From CV Require Import Base.Tac Base.LinAlg Model.C10_Conj Model.C10_ConjR Proofs.C10_Kernel Proofs.C10_Exact.
From Coq Require Import Reals Lra Lia.
Open Scope R_scope.

Section Approx.
Variable lnGamma : R -> R.
Notation gpdf := (gamma_logpdf lnGamma).
Notation post := (post_logd lnGamma).

Lemma lmrf_like_core N S s : 0 < s ->
  lmrf_like_logpdf N S (1 / s) = (2 * INR N) / 2 * ln s - s * ((2 * S) / 2) + - INR N * ln 2.
Proof.
  intros Hs. unfold lmrf_like_logpdf. replace (1 / s) with (/ s) by (field; lra).
  rewrite ln_Rinv by exact Hs. field. lra.
Qed.

(* LMRF-like density with N factors and penalty S, scale = 1/s, Gamma(alpha, beta) prior on s: the Gamma(k, r) is the
   exact conditional iff k = N + alpha and r = S + beta *)
Theorem lmrf_like_exact_iff scale_fun N S alpha beta k r :
  (forall s, 0 < s -> scale_fun s = 1 / s) ->
  (proportional_on_pos (post (fun s => lmrf_like_logpdf N S (scale_fun s)) alpha beta) (gpdf k r)
   <-> k = INR N + alpha /\ r = S + beta).
Proof.
  intros Hsc.
  assert (Hcore : forall s, 0 < s ->
            lmrf_like_logpdf N S (scale_fun s) = (2 * INR N) / 2 * ln s - s * ((2 * S) / 2) + - INR N * ln 2).
  { intros s Hs. rewrite (Hsc s Hs). apply lmrf_like_core. exact Hs. }
  split.
  - intros H. destruct (core_unique lnGamma _ _ _ _ alpha beta k r Hcore H) as [Hk Hr]. split; lra.
  - intros [-> ->]. apply (prop_from_core lnGamma _ (2 * INR N) (2 * S) (- INR N * ln 2)); [exact Hcore | lra | lra].
Qed.

(* what the sampler's Gamma is exact for: the LMRF formula with len(x) factors and the smoothed penalty *)
Theorem approx_exact_for_smoothed scale_fun delta D x alpha beta :
  (forall s, 0 < s -> scale_fun s = 1 / s) ->
  proportional_on_pos
    (post (fun s => lmrf_like_logpdf (length x) (approx_penalty delta (Rmatvec D x)) (scale_fun s)) alpha beta)
    (gpdf (approx_shape_R (length x) alpha) (approx_rate_R delta D x beta)).
Proof. intros Hsc. apply (lmrf_like_exact_iff scale_fun); [exact Hsc | split; reflexivity]. Qed.

(* ... and for the LMRF's own density it is exact iff the operator has as many rows as columns AND the smoothed
   penalty equals the l1 norm *)
Theorem approx_vs_lmrf_iff scale_fun delta D x alpha beta :
  (forall s, 0 < s -> scale_fun s = 1 / s) ->
  (proportional_on_pos (post (lik_lmrf scale_fun D x) alpha beta)
     (gpdf (approx_shape_R (length x) alpha) (approx_rate_R delta D x beta))
   <-> length (Rmatvec D x) = length x /\ approx_penalty delta (Rmatvec D x) = norm1 (Rmatvec D x)).
Proof.
  intros Hsc. unfold lik_lmrf, lmrf_logpdf.
  rewrite (lmrf_like_exact_iff scale_fun _ _ alpha beta _ _ Hsc). unfold approx_shape_R, approx_rate_R.
  split.
  - intros [H1 H2]. split; [apply INR_eq; lra | lra].
  - intros [H1 H2]. rewrite H1, H2. split; reflexivity.
Qed.
End Approx.

(* ---------- the smoothing phi_delta(t) = t^2 / sqrt(t^2 + delta) of |t| ---------- *)

Lemma phi_delta_bounds delta t : 0 < delta ->
  0 <= phi_delta delta t /\ phi_delta delta t <= Rabs t /\ Rabs t - phi_delta delta t <= sqrt delta
  /\ (phi_delta delta t = Rabs t -> t = 0).
Proof.
  intros Hd. unfold phi_delta.
  set (a := Rabs t). assert (Ha : 0 <= a) by apply Rabs_pos.
  assert (Haa : t * t = a * a) by (unfold a; rewrite <- Rabs_mult; rewrite Rabs_right; [reflexivity | nra]).
  rewrite Haa.
  set (r := sqrt (a * a + delta)).
  assert (Hr2 : r * r = a * a + delta) by (unfold r; apply sqrt_sqrt; nra).
  assert (Hr : 0 < r) by (unfold r; apply sqrt_lt_R0; nra).
  set (e := sqrt delta).
  assert (He2 : e * e = delta) by (unfold e; apply sqrt_sqrt; lra).
  assert (He : 0 < e) by (unfold e; apply sqrt_lt_R0; lra).
  assert (Hra : a < r) by nra.
  assert (Hrae : r <= a + e) by nra.
  set (q := a * a * (1 / r)).
  assert (Hq : q * r = a * a) by (unfold q; field; lra).
  assert (Hq0 : 0 <= q) by (unfold q; apply Rmult_le_pos; [nra | apply Rlt_le, Rdiv_lt_0_compat; lra]).
  assert (Hid : (a - q) * r = a * (r - a)) by (rewrite Rmult_minus_distr_r, Hq; ring).
  assert (Hle : q <= a).
  { assert (0 <= (a - q) * r) by (rewrite Hid; apply Rmult_le_pos; lra).
    destruct (Rle_or_lt q a) as [|Hlt]; [assumption|]. exfalso.
    assert (0 < (q - a) * r) by (apply Rmult_lt_0_compat; lra).
    assert ((q - a) * r = - ((a - q) * r)) by ring. lra. }
  assert (Hgap : a - q <= e).
  { (* (a - q) r = a (r - a) <= r (r - a) <= r e *)
    assert (H1 : a * (r - a) <= r * e) by (apply Rmult_le_compat; lra).
    assert (H2 : (a - q) * r <= e * r) by (rewrite Hid; lra).
    apply Rmult_le_reg_r with r; assumption. }
  repeat split.
  - exact Hq0.
  - exact Hle.
  - exact Hgap.
  - intros Heq. assert (a = 0) by nra. unfold a in H. destruct (Req_dec t 0) as [|Hne]; [assumption|].
    apply Rabs_no_R0 in Hne. contradiction.
Qed.

Lemma approx_penalty_bounds delta v : 0 < delta ->
  0 <= approx_penalty delta v /\ approx_penalty delta v <= norm1 v
  /\ norm1 v - approx_penalty delta v <= INR (length v) * sqrt delta
  /\ (approx_penalty delta v = norm1 v -> Forall (fun t => t = 0) v).
Proof.
  intros Hd. induction v as [|t v IH].
  - unfold approx_penalty, norm1; simpl. repeat split; try lra. intros _. constructor.
  - destruct IH as (I1 & I2 & I3 & I4). destruct (phi_delta_bounds delta t Hd) as (P1 & P2 & P3 & P4).
    change (approx_penalty delta (t :: v)) with (phi_delta delta t + approx_penalty delta v).
    change (norm1 (t :: v)) with (Rabs t + norm1 v).
    change (length (t :: v)) with (S (length v)). rewrite S_INR.
    repeat split; try lra.
    intros Heq. constructor; [apply P4; lra | apply I4; lra].
Qed.

(* for the positive delta the code uses: exact for the LMRF iff D is square on x and D x = 0 *)
Theorem approx_exact_iff_trivial lnGamma scale_fun delta D x alpha beta :
  0 < delta -> (forall s, 0 < s -> scale_fun s = 1 / s) ->
  (proportional_on_pos (post_logd lnGamma (lik_lmrf scale_fun D x) alpha beta)
     (gamma_logpdf lnGamma (approx_shape_R (length x) alpha) (approx_rate_R delta D x beta))
   <-> length (Rmatvec D x) = length x /\ Forall (fun t => t = 0) (Rmatvec D x)).
Proof.
  intros Hd Hsc. rewrite (approx_vs_lmrf_iff lnGamma scale_fun delta D x alpha beta Hsc).
  split; intros [H1 H2]; split; try exact H1.
  - apply (approx_penalty_bounds delta _ Hd). exact H2.
  - clear H1. induction H2 as [|t v Ht Hv IH].
    + reflexivity.
    + change (approx_penalty delta (t :: v)) with (phi_delta delta t + approx_penalty delta v).
      change (norm1 (t :: v)) with (Rabs t + norm1 v). rewrite IH, Ht. unfold phi_delta. rewrite Rabs_R0. ring.
Qed.

Lemma approx_delta_pos : 0 < approx_delta.
Proof. unfold approx_delta. lra. Qed.
