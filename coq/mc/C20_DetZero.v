(* C20 -- det(D^T D) = n + 1 for the order-1 operator with zero boundary conditions, EVERY n: the
   determinant of the precision whose logarithm GMRF(order=1, bc_type="zero") reports.  Fraction-free
   triangularisation over Z: M * T = U with M lower triangular (M i j = j+1 for j <= i, det = n!),
   U upper bidiagonal (diagonal i+2, det = (n+1)!).  Then the refinement to the list matrix of the model. *)
From Coq Require Import ZArith.
From CV Require Import Base.LinAlg Base.QcLin Model.C20_Diff Model.C20_Spec Proofs.C20_Lin Proofs.C20_DetEntries.
From mathcomp Require Import all_ssreflect all_algebra.
From mathcomp Require Import ssrZ zify.
From CVmc Require Import C20_Rank.
Set Implicit Arguments.
Unset Strict Implicit.
Unset Printing Implicit Defensive.
Import GRing.Theory.
Local Open Scope ring_scope.

Lemma ZaddE (a b : Z) : a + b = Z.add a b. Proof. by []. Qed.
Lemma ZmulE (a b : Z) : a * b = Z.mul a b. Proof. by []. Qed.
Lemma ZoppE (a : Z) : - a = Z.opp a. Proof. by []. Qed.
Lemma Z0E : (0 : Z) = Z0. Proof. by []. Qed.
Lemma Z1E : (1 : Z) = Zpos xH. Proof. by []. Qed.
Ltac zar := rewrite ?(ZaddE, ZmulE, ZoppE, Z0E, Z1E).

Section Tridiag.
Variable n : nat.

Definition zn (k : nat) : Z := Z.of_nat k.

Definition Tmx : 'M[Z]_n :=
  \matrix_(i, j) (if i == j :> nat then zn 2 else if (i == j.+1 :> nat) || (j == i.+1 :> nat) then - zn 1 else 0).
Definition gM (i j : nat) : Z := if (j <= i)%N then zn j.+1 else 0.
Definition Mmx : 'M[Z]_n := \matrix_(i, j) gM i j.
Definition Umx : 'M[Z]_n :=
  \matrix_(i, k) (if k == i :> nat then zn i.+2 else if k == i.+1 :> nat then - zn i.+1 else 0).

Lemma sum_delta (G : nat -> Z) (p : nat) :
  \sum_(j < n) G j * (if j == p :> nat then 1 else 0) = if (p < n)%N then G p else 0.
Proof.
case: ltnP => pn.
  rewrite (bigD1 (Ordinal pn)) //= eqxx mulr1 big1 ?addr0 // => j.
  by rewrite -val_eqE /= => /negPf ->; rewrite mulr0.
by rewrite big1 // => j _; rewrite (ltn_eqF (leq_trans (ltn_ord j) pn)) mulr0.
Qed.

Lemma MT : Mmx *m Tmx = Umx.
Proof.
apply/matrixP => i k; rewrite !mxE.
have -> : \sum_j Mmx i j * Tmx j k =
          zn 2 * (\sum_(j < n) gM i j * (if j == k :> nat then 1 else 0))
          - (\sum_(j < n) gM i j * (if j == k.+1 :> nat then 1 else 0))
          - (\sum_(j < n) gM i j * (if j == k.-1 :> nat then (if (0 < k)%N then 1 else 0) else 0)).
  rewrite mulr_sumr -!sumrB; apply: eq_bigr => j _; rewrite !mxE.
  case: (nat_of_ord k) => [|k']; rewrite /zn [_.-1]/=;
    repeat case: ifP => ?; zar; lia.
have -> : \sum_(j < n) gM i j * (if j == k.-1 :> nat then (if (0 < k)%N then 1 else 0) else 0)
          = (if (0 < k)%N then 1 else 0) * \sum_(j < n) gM i j * (if j == k.-1 :> nat then 1 else 0).
  rewrite mulr_sumr; apply: eq_bigr => j _; case: ifP => _; rewrite ?mulr0 ?mulr1 //.
  by case: ifP => _; rewrite ?mul1r ?mul0r ?mulr0 ?mulr1.
rewrite !sum_delta /gM /zn.
have kn := ltn_ord k; have i_n := ltn_ord i.
repeat case: ifP => ?; zar; lia.
Qed.

Lemma det_Mmx : \det Mmx = \prod_(i < n) zn i.+1.
Proof.
rewrite det_trig; first by apply: eq_bigr => i _; rewrite mxE /gM leqnn.
by apply/is_trig_mxP => i j ij; rewrite mxE /gM leqNgt ij.
Qed.

Lemma det_Umx : \det Umx = \prod_(i < n) zn i.+2.
Proof.
rewrite -det_tr det_trig; first by apply: eq_bigr => i _; rewrite !mxE eqxx.
apply/is_trig_mxP => i j ij; rewrite !mxE.
by rewrite (ltn_eqF ij) (ltn_eqF (ltnW ij : (i < j.+1)%N)).
Qed.

End Tridiag.

Lemma prod_shift n : \prod_(i < n) zn i.+2 = zn n.+1 * \prod_(i < n) zn i.+1.
Proof.
elim: n => [|n IH]; first by rewrite !big_ord0.
rewrite big_ord_recr /= IH [in RHS]big_ord_recr /=.
set A := \prod_(i < n) _; rewrite /zn; zar; ring.
Qed.

Lemma prod_fact_neq0 n : \prod_(i < n) zn i.+1 != 0.
Proof. by apply/prodf_neq0 => i _; rewrite /zn; apply/eqP; lia. Qed.

(* the tridiagonal (-1, 2, -1) matrix has determinant n + 1 *)
Theorem det_Tmx n : \det (Tmx n) = zn n.+1.
Proof.
have := congr1 determinant (MT n); rewrite det_mulmx det_Mmx det_Umx prod_shift.
by rewrite mulrC => /(mulIf (prod_fact_neq0 n)).
Qed.

(* ... and it IS the precision matrix the executable model builds for order 1 / zero boundary *)
Theorem det_prec_zero1 n D :
  fd_matrix 1 Zero n = Some D -> \det (mxZ n n (gram n D)) = Z.of_nat n.+1.
Proof.
rewrite fd_matrix_zero1 => -[<-]; rewrite -[RHS]/(zn n.+1) -det_Tmx; congr (\det _).
apply/matrixP => i j; rewrite !mxE.
have /ssrnat.ltP Hi := ltn_ord i; have /ssrnat.ltP Hj := ltn_ord j.
rewrite (prec_zero1_entry n i j Hi Hj) /zn.
repeat case: ifP => ?; zar; lia.
Qed.

(* the determinant of the precision of the order-1 field with zero boundary conditions, as the model builds it;
   with the precision parameter c: det (c P) = c^n (n + 1)  (mc/C20_Det.det_scale) *)
From CV Require Import Proofs.C20_Gmrf.

Theorem gmrf_det_zero1 n g :
  gmrf_init 1 n Zero 1 = Some g -> \det (mxZ n n (g_prec g)) = Z.of_nat n.+1.
Proof.
move=> Hg; have [D [_ [_ [HD [HP _]]]]] := gmrf_init_1d_inv _ _ _ _ Hg.
by rewrite HP; apply: det_prec_zero1 HD.
Qed.

Theorem gmrf_det_zero1_scaled n g (c : Z) :
  gmrf_init 1 n Zero 1 = Some g -> \det (c *: mxZ n n (g_prec g)) = c ^+ n * Z.of_nat n.+1.
Proof. by move=> Hg; rewrite detZ (gmrf_det_zero1 Hg). Qed.
