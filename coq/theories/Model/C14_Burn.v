(* C14 -- the stateful interface discards burn-in afterwards: get_samples().burnthin(Nb, Nt) is Samples.burnthin
   (the model of property C19) applied to the chain recorded by the sampler model.  No proofs. *)
From CV Require Import Base.Tac Base.Cmp Model.C19_Stats Model.C14_Chain.

Definition check_exp_burnthin (ref : list Z) (ops : list top) (nb nt : nat) (obs : option (list Z)) : bool :=
  opt_eqb zl_eqb (burnthin nb nt (smp (t_run ref ops))) obs.
