(* C14 -- the random stream continues across calls exactly when the work done once per call is neutral on it. *)
From CV Require Import Base.Tac Base.Cmp Model.C14_Chain Model.C14_Stream Proofs.C14_Chain.

Section StreamProofs.
Variables Cfg St Pt V K : Type.
Variable step : Cfg -> K -> St -> stream V -> St * nat.
Variable pre : Cfg -> St -> stream V -> St * nat.
Variable point : St -> Pt.
Notation one := (one Cfg St Pt V K step point).
Notation transitions := (transitions Cfg St Pt V K step point).
Notation enter := (enter Cfg St Pt V pre).
Notation call := (call Cfg St Pt V K step pre point).
Notation calls := (calls Cfg St Pt V K step pre point).
Notation used := (used Cfg St Pt V K step pre point).

Lemma transitions_app c str ks1 ks2 r : transitions c str r (ks1 ++ ks2) = transitions c str (transitions c str r ks1) ks2.
Proof. unfold C14_Stream.transitions. apply fold_left_app. Qed.

Lemma transitions_pos_le c str ks : forall r, (c_pos r <= c_pos (transitions c str r ks))%nat.
Proof.
  induction ks as [|k ks IH]; intros r; [apply Nat.le_refl|].
  cbn [C14_Stream.transitions fold_left]. eapply Nat.le_trans; [|apply IH]. cbn. lia.
Qed.

Lemma enter_pos_le c str r : (c_pos r <= c_pos (enter c str r))%nat.
Proof. cbn. lia. Qed.

Lemma call_pos_le c str r ks : (c_pos r <= c_pos (call c str r ks))%nat.
Proof. unfold C14_Stream.call. eapply Nat.le_trans; [apply (enter_pos_le c str r)|apply transitions_pos_le]. Qed.

Lemma calls_pos_le c str kss : forall r, (c_pos r <= c_pos (calls c str r kss))%nat.
Proof.
  induction kss as [|ks rest IH]; intros r; [apply Nat.le_refl|].
  cbn [C14_Stream.calls fold_left]. eapply Nat.le_trans; [apply (call_pos_le c str r ks)|apply IH].
Qed.

(* what every call consumed adds up to the distance the stream moved *)
Lemma used_sum c str kss : forall r,
  fold_right Nat.add 0%nat (used c str r kss) = (c_pos (calls c str r kss) - c_pos r)%nat.
Proof.
  induction kss as [|ks rest IH]; intros r.
  - cbn. lia.
  - cbn [C14_Stream.used fold_right]. rewrite IH.
    pose proof (call_pos_le c str r ks) as H1.
    pose proof (calls_pos_le c str rest (call c str r ks)) as H2.
    change (calls c str r (ks :: rest)) with (calls c str (call c str r ks) rest). lia.
Qed.

(* ---------------------------------------------------------------------------------------- *)
(* per-call work that is neutral once it has been done: it establishes an invariant the transitions keep, and on
   states satisfying the invariant it changes nothing and draws nothing *)
Section Neutral.
Variable Inv : St -> Prop.
Hypothesis Hstep : forall c k s str, Inv s -> Inv (fst (step c k s str)).
Hypothesis Hpre_inv : forall c s str, Inv (fst (pre c s str)).
Hypothesis Hpre_id : forall c s str, Inv s -> pre c s str = (s, 0%nat).

Lemma transitions_inv c str ks : forall r, Inv (c_st r) -> Inv (c_st (transitions c str r ks)).
Proof.
  induction ks as [|k ks IH]; intros r H; [exact H|].
  cbn [C14_Stream.transitions fold_left]. apply IH. cbn. apply Hstep. exact H.
Qed.

Lemma enter_id c str r : Inv (c_st r) -> enter c str r = r.
Proof.
  intros H. destruct r as [s p l]. unfold C14_Stream.enter. cbn [c_st c_pos c_rec] in *.
  rewrite (Hpre_id c s (shift V str p) H). cbn. rewrite Nat.add_0_r. reflexivity.
Qed.

Lemma call_inv c str r ks : Inv (c_st (call c str r ks)).
Proof. unfold C14_Stream.call. apply transitions_inv. cbn. apply Hpre_inv. Qed.

(* a call with no transitions, made on a sampler that has been called before, is a no-op: state, POSITION, record *)
Lemma empty_call c str r : Inv (c_st r) -> call c str r [] = r.
Proof. intros H. unfold C14_Stream.call. rewrite (enter_id c str r H). reflexivity. Qed.

(* two calls are one call: state, position in the stream, recorded chain *)
Lemma call_call c str r ks1 ks2 : call c str (call c str r ks1) ks2 = call c str r (ks1 ++ ks2).
Proof.
  unfold C14_Stream.call at 1. rewrite (enter_id c str _ (call_inv c str r ks1)).
  unfold C14_Stream.call. rewrite transitions_app. reflexivity.
Qed.

Lemma calls_flat c str rest : forall r ks, calls c str (call c str r ks) rest = call c str r (ks ++ concat rest).
Proof.
  induction rest as [|k2 rest IH]; intros r ks.
  - cbn. rewrite app_nil_r. reflexivity.
  - cbn [C14_Stream.calls fold_left concat]. rewrite call_call. change (fold_left (call c str) rest) with (fun r0 => calls c str r0 rest).
    cbn beta. rewrite IH. rewrite app_assoc. reflexivity.
Qed.

(* any non-empty sequence of calls (zero-length calls included, sample and warm-up transitions mixed) leaves the sampler
   -- state, stream position, recorded chain -- where ONE call with all the transitions leaves it *)
Theorem stream_calls_one c str r ks rest : calls c str r (ks :: rest) = call c str r (ks ++ concat rest).
Proof. cbn [C14_Stream.calls fold_left]. apply (calls_flat c str rest r ks). Qed.

(* and a later call consumes exactly what its transitions consume *)
Theorem later_call_consumes_transitions_only c str r ks : Inv (c_st r) ->
  c_pos (call c str r ks) = c_pos (transitions c str r ks).
Proof. intros H. unfold C14_Stream.call. rewrite (enter_id c str r H). reflexivity. Qed.
End Neutral.

(* ---------------------------------------------------------------------------------------- *)
(* the converse: per-call work that leaves the state alone but consumes kk variates moves the stream by kk in EVERY call,
   so a zero-length call is not a no-op and N-then-M is not N+M as soon as kk > 0 *)
Section Drawing.
Variable Inv : St -> Prop.
Variable kk : nat.
Hypothesis Hpre_k : forall c s str, Inv s -> pre c s str = (s, kk).

Lemma drawing_empty_call c str r : Inv (c_st r) -> c_pos (call c str r []) = (c_pos r + kk)%nat /\ c_st (call c str r []) = c_st r.
Proof.
  intros H. destruct r as [s p l]. unfold C14_Stream.call, C14_Stream.enter. cbn [c_st c_pos c_rec] in *.
  rewrite (Hpre_k c s (shift V str p) H). cbn. split; reflexivity.
Qed.

Theorem drawing_empty_call_not_noop c str r : Inv (c_st r) -> (0 < kk)%nat -> call c str r [] <> r.
Proof.
  intros H Hk E. pose proof (proj1 (drawing_empty_call c str r H)) as P. rewrite E in P. lia.
Qed.
End Drawing.
End StreamProofs.

(* ------------------------------------------------------------------------------------------ *)
(* refinement: what the stream machine records is what Sampler.sample (Model/C14_Chain.v) records on the random inputs
   the transitions read from the stream *)
Section RefinesProofs.
Variables Cfg St Rnd Pt Acc V : Type.
Variable step0 : Cfg -> St -> Rnd -> St * Acc.
Variable rd : Cfg -> St -> stream V -> Rnd * nat.
Variable pre : Cfg -> St -> stream V -> St * nat.
Variable point : St -> Pt.
Notation sstep := (sstep Cfg St Rnd Acc V step0 rd).
Notation inputs := (inputs Cfg St Rnd Acc V step0 rd).
Notation states0 := (states Cfg St Rnd Acc step0).
Notation transitions := (transitions Cfg St Pt V unit sstep point).
Notation call := (call Cfg St Pt V unit sstep pre point).
Notation calls := (calls Cfg St Pt V unit sstep pre point).

Lemma units_S n : units (S n) = tt :: units n.
Proof. reflexivity. Qed.

Lemma units_app n m : units n ++ units m = units (n + m).
Proof. unfold units. symmetry. apply repeat_app. Qed.

Lemma transitions_refine c str n : forall s pos l,
  c_rec (transitions c str (mkCore s pos l) (units n)) = l ++ map point (states0 c s (inputs c str s pos n)) /\
  c_st (transitions c str (mkCore s pos l) (units n)) = last (states0 c s (inputs c str s pos n)) s.
Proof.
  induction n as [|n IH]; intros s pos l.
  - cbn. rewrite app_nil_r. split; reflexivity.
  - rewrite units_S. cbn [C14_Stream.transitions fold_left].
    change (fold_left (one Cfg St Pt V unit sstep point c str) (units n)) with (fun r0 => transitions c str r0 (units n)). cbn beta.
    unfold C14_Stream.one. cbn [c_st c_pos c_rec C14_Stream.sstep fst snd].
    destruct (IH (fst (step0 c s (fst (rd c s (shift V str pos))))) (pos + snd (rd c s (shift V str pos)))%nat
                 (l ++ [point (fst (step0 c s (fst (rd c s (shift V str pos)))))])) as [H1 H2].
    cbn [C14_Stream.inputs C14_Chain.states map]. split.
    + rewrite H1. rewrite <- app_assoc. reflexivity.
    + rewrite H2. set (s1 := fst (step0 c s (fst (rd c s (shift V str pos))))).
      destruct (states0 c s1 (inputs c str s1 (pos + snd (rd c s (shift V str pos))) n)) as [|x t]; [reflexivity|].
      change (last (s1 :: x :: t) s) with (last (x :: t) s). apply last_indep. discriminate.
Qed.

(* N transitions then M transitions record what Sampler.sample records, from the same sampler object, on the N + M random
   inputs ONE call reads from the stream -- provided the per-call work is neutral (hypotheses of stream_calls_one) *)
Theorem stream_refines_sample (Inv : St -> Prop) :
  (forall c k s str, Inv s -> Inv (fst (sstep c k s str))) ->
  (forall c s str, Inv (fst (pre c s str))) ->
  (forall c s str, Inv s -> pre c s str = (s, 0%nat)) ->
  forall c str (s : St) pos (n m : nat) (x : @sampler St Pt Acc), Inv s -> st x = s ->
    c_rec (calls c str (mkCore s pos (smp x)) [units n; units m]) =
    smp (sample Cfg St Rnd Pt Acc step0 point c x (inputs c str s pos (n + m))).
Proof.
  intros H1 H2 H3 c str s pos n m x Hs Hx.
  rewrite (stream_calls_one Cfg St Pt V unit sstep pre point Inv H1 H2 H3 c str (mkCore s pos (smp x)) (units n) [units m]).
  cbn [concat]. rewrite app_nil_r, units_app.
  unfold C14_Stream.call. rewrite (enter_id Cfg St Pt V pre Inv H3 c str (mkCore s pos (smp x)) Hs).
  destruct (transitions_refine c str (n + m) s pos (smp x)) as [R _]. rewrite R.
  destruct (sample_spec Cfg St Rnd Pt Acc step0 point c (inputs c str s pos (n + m)) x) as (_ & S2 & _).
  rewrite S2, Hx. reflexivity.
Qed.
End RefinesProofs.

(* ------------------------------------------------------------------------------------------ *)
(* a concrete machine whose per-call work draws one variate (a validation that samples from the target): the stream is
   the sequence 0, 1, 2, ...; a transition moves to the variate it reads.  sample(2); sample(1) records [1; 2; 4],
   sample(3) records [1; 2; 3]; and sample(0); sample(3) differs from sample(3) *)
Definition w_step (_ : unit) (_ : unit) (_ : nat) (s : stream nat) : nat * nat := (s 0%nat, 1%nat).
Definition w_pre (_ : unit) (x : nat) (_ : stream nat) : nat * nat := (x, 1%nat).
Definition w_str : stream nat := fun i => i.
Definition w_calls (sizes : list nat) : core nat nat :=
  calls unit nat nat nat unit w_step w_pre (fun x => x) tt w_str (mkCore 0%nat 0%nat []) (map units sizes).

Lemma percall_draw_witness :
  c_rec (w_calls [2; 1]%nat) = [1; 2; 4]%nat /\ c_rec (w_calls [3]%nat) = [1; 2; 3]%nat /\
  c_rec (w_calls [0; 3]%nat) = [2; 3; 4]%nat /\ c_pos (w_calls [3; 0]%nat) = 5%nat /\ c_pos (w_calls [3]%nat) = 4%nat.
Proof. repeat split; reflexivity. Qed.

(* the trace instance evaluated by check_draws / check_draws_sizes satisfies the hypotheses of `Neutral`; the invariant is
   `initialised` *)
Lemma ts_instance per init :
  (forall c k s str, fst s = true -> fst (fst (ts_step per c k s str)) = true) /\
  (forall c s str, fst (fst (ts_pre init 0%nat c s str)) = true) /\
  (forall c s str, fst s = true -> ts_pre init 0%nat c s str = (s, 0%nat)).
Proof.
  repeat split.
  - intros c k s str H. exact H.
  - intros c [b k] str. unfold ts_pre. cbn [fst snd]. destruct b; reflexivity.
  - intros c [b k] str H. cbn [fst] in H. subst b. reflexivity.
Qed.

(* consequently what check_draws expects adds up, for any split, to the distance the stream moved *)
Lemma ts_calls_sum per init b sizes :
  nsum (ts_calls per init 0%nat b sizes) =
  c_pos (calls unit (bool * nat) nat unit unit (ts_step per) (ts_pre init 0%nat) snd tt (fun _ => tt) (mkCore (b, 0%nat) 0%nat []) (map units sizes)).
Proof.
  unfold ts_calls, nsum. rewrite used_sum. cbn [c_pos]. lia.
Qed.

(* and, by stream_calls_one, any split of the trace instance ends where one call ends *)
Lemma ts_calls_split per init b n rest :
  calls unit (bool * nat) nat unit unit (ts_step per) (ts_pre init 0%nat) snd tt (fun _ => tt) (mkCore (b, 0%nat) 0%nat []) (map units (n :: rest)) =
  call unit (bool * nat) nat unit unit (ts_step per) (ts_pre init 0%nat) snd tt (fun _ => tt) (mkCore (b, 0%nat) 0%nat [])
       (units n ++ concat (map units rest)).
Proof.
  destruct (ts_instance per init) as (H1 & H2 & H3). cbn [map].
  exact (stream_calls_one unit (bool * nat) nat unit unit (ts_step per) (ts_pre init 0%nat) snd (fun s => fst s = true) H1 H2 H3
           tt (fun _ => tt) (mkCore (b, 0%nat) 0%nat []) (units n) (map units rest)).
Qed.
