(* C15 -- round 5 property theorems on the executable model (Model/C15_Opt.v; lists over Qc, every size):
   which solver runs for which problem class and what the entry point makes of its answer ("fails instead of returning
   another point"), SciPy's stopping test => distance to the maximiser on the instance that runs, and the selection of the
   direct sampling route exactly for linear-Gaussian problems.

   Vocabulary: pinfo = (prior class, noise class, model class, range dim m, domain dim n, posterior has a gradient);
     first_call P g x0                 the SciPy call _solve_max_point leads to (g = the density handed in has a gradient)
     solve_max_point_run / opt_entry   the calls and the returned (point, success) given SciPy's answers, call by call
     opt_stop_ok m n A b x0 ce cx mu gtol x   shapes, checked inverses, symmetric noise precision, certificate of
                                       A^T Pe A + Px - mu I >= 0, and max_i |grad log-posterior (x)_i| <= gtol  (cx = None: ML)
     sample_posterior_entry            sample_posterior as one function: cascade + law of the direct route *)
From CV Require Import Base.Tac Base.LinAlg Base.Cmp Base.QcLin Model.C15_MAP Model.C15_Opt
                       Proofs.C15_Lin Proofs.C15_MAP Proofs.C15_Top Proofs.C15_Opt.
From Coq Require Import QArith Qabs Qcanon.
Local Open Scope Qc_scope.

(* THE DISPATCH TABLE.  MAP: closed form (no solver at all) iff Gaussian prior, Gaussian noise, LinearModel and both dimensions
   within MAX_DIM_INV; otherwise, and for ML always, exactly one SciPy call (tree without the proposed polish):
   fmin_l_bfgs_b iff the prior is a CMRF and the posterior has a gradient, else scipy.optimize.minimize with method=None
   (BFGS); the gradient is handed over iff the density has one (approx_grad = its negation), the start point is the caller's
   x0 or the ones vector. *)
Theorem C15_solver_dispatch :
  forall (is_ml : bool) (P : pinfo) (d : nat) (g : bool) (x0 : option (list Qc)) (a : sc_answer) (rest : list sc_answer),
  let st := match x0 with Some v => v | None => repeat 1 (p_n P) end in
  let lg := p_prior P = DGaussian /\ p_lik P = DGaussian /\ p_model P = MLinear /\ (p_n P <= d)%nat /\ (p_m P <= d)%nat in
  let cm := p_prior P = DCMRF /\ p_has_grad P = true in
  (is_ml = false /\ lg -> entry_calls is_ml false P d g x0 (a :: rest) = Some (RDirect, [])) /\
  (is_ml = true \/ ~ lg ->
     (cm -> entry_calls is_ml false P d g x0 (a :: rest) = Some (ROptimiser, [CLbfgsb g (negb g) st])) /\
     (~ cm -> entry_calls is_ml false P d g x0 (a :: rest) = Some (ROptimiser, [CMinimize MNone g st]))).
Proof.
  intros is_ml P d g x0 a rest st lg cm. destruct (first_call_table P g x0) as [T1 T2]. unfold start_point in *. fold st in T1, T2.
  pose proof (map_route_direct_iff P d) as R. fold lg in R.
  unfold entry_calls. rewrite run_unpolished. split.
  - intros [-> L]. apply R in L. rewrite L. reflexivity.
  - intros H.
    assert (E : (if is_ml then ml_route P d else map_route P d) = ROptimiser).
    { destruct is_ml; [reflexivity|]. destruct H as [H|H]; [discriminate|].
      destruct (map_route P d); [exfalso; apply H; apply R; reflexivity | reflexivity]. }
    rewrite E. split; intros C; [rewrite (T1 C) | rewrite (T2 C)]; reflexivity.
Qed.
Print Assumptions C15_solver_dispatch.

(* the optimiser route never alters SciPy's point and never turns it into another one: what MAP/ML return is a point SciPy
   returned, together with SciPy's own success flag; on the tree without the polish it is the answer of the single call *)
Theorem C15_optimiser_returns_solver_point :
  forall (polish : bool) (P : pinfo) (g : bool) (x0 : option (list Qc)) (answers : list sc_answer) (o : outcome) (ok : bool),
  opt_entry polish P g x0 answers = Some (o, ok) ->
  (exists a, In a answers /\ o = Val (fst a) /\ ok = answer_success a) /\
  (polish = false -> exists a rest, answers = a :: rest /\ o = Val (fst a) /\ ok = answer_success a).
Proof.
  intros polish P g x0 answers o ok H. split; [exact (opt_entry_is_solver_point polish P g x0 answers o ok H)|].
  intros ->. destruct answers as [|a rest]; [discriminate|]. exists a, rest. unfold opt_entry in H. rewrite run_unpolished in H.
  injection H as <- <-. repeat split.
Qed.
Print Assumptions C15_optimiser_returns_solver_point.

(* a POSITIVE instance of "fails instead of returning another point": when the gradient probe at the top of _solve_max_point raises
   something other than NotImplementedError / AttributeError (a Cauchy likelihood: TypeError), MAP / ML raise before any solver is
   built - no SciPy call, no point; and whenever a point IS returned the probe did not raise and the point is the solver's *)
Theorem C15_probe_failure_is_refusal :
  forall (polish : bool) (P : pinfo) (x0 : option (list Qc)) (answers : list sc_answer),
  opt_entry_x polish P GRaises x0 answers = Some ([], ERaised) /\
  (forall probe cs x ok, opt_entry_x polish P probe x0 answers = Some (cs, ERet x ok) ->
     probe <> GRaises /\ solve_max_point_run polish P (probe_has_grad probe) x0 answers = Some (cs, x, ok) /\
     opt_entry polish P (probe_has_grad probe) x0 answers = Some (Val x, ok)).
Proof.
  intros polish P x0 answers. split; [reflexivity|]. intros probe cs x ok. exact (opt_entry_x_value polish P probe x0 answers cs x ok).
Qed.
Print Assumptions C15_probe_failure_is_refusal.

(* the proposed polish only ever adds calls after a FAILED run on finite-difference gradients *)
Theorem C15_polish_scope :
  forall (P : pinfo) (g : bool) (x0 : option (list Qc)) (a : sc_answer) (rest : list sc_answer),
  g = true \/ answer_success a = true ->
  solve_max_point_run true P g x0 (a :: rest) = solve_max_point_run false P g x0 (a :: rest).
Proof. intros P g x0 a rest H. rewrite (run_polish_only_fd_failure P g x0 a rest H). reflexivity. Qed.
Print Assumptions C15_polish_scope.

(* "If a requested estimate cannot be computed correctly the call fails instead of returning another point" does NOT hold on
   the optimiser route as coded: when SciPy reports failure the point is returned as the estimate all the same (finding
   BayesianProblem._solve_max_point|nonsmooth-prior:bfgs-finite-differences; the witness is that finding's Laplace problem) *)
Theorem C15_unconverged_point_returned_refuted :
  exists (P : pinfo) (g : bool) (x0 : option (list Qc)) (a : sc_answer),
  answer_success a = false /\ opt_entry false P g x0 [a] = Some (Val (fst a), false).
Proof. exact unconverged_point_returned. Qed.
Print Assumptions C15_unconverged_point_returned_refuted.

(* SciPy's stopping test with the exact gradient, on a linear-Gaussian instance (every size): if opt_stop_ok accepts the
   returned point x, then every component of the log-posterior gradient at x is within gtol, and x lies within
   |grad| / mu of every solution xs of the normal equations -- mu^2 |xs - x|^2 <= |grad(x)|^2 -- where the curvature bound
   A^T Pe A + Px >= mu I is not assumed but decided by the checked certificate inside opt_stop_ok.
   (the list-model counterpart of C15_gauss_plus_concave_maximiser (3); cx = None covers ML) *)
Theorem C15_stopping_test_distance :
  forall (m n : nat) (A : list (list Qc)) (b x0 : list Qc) (ce : covform) (cx : option covform) (mu : Qc) (gtol : Q) (x : list Qc),
  opt_stop_ok m n A b x0 ce cx mu gtol x = true ->
  exists Pe Px,
    qinv (dense_of true m ce) = Some Pe /\
    match cx with Some c => qinv (dense_of true n c) = Some Px | None => Px = qzero_mat n end /\
    (forall gi, In gi (post_grad n A Pe Px b x0 x) -> (Qabs (this gi) <= gtol)%Q) /\
    forall xs, length xs = n ->
      qmatvec (post_prec n A Pe Px) xs = post_rhs n A Pe Px b x0 ->
      mu * mu * qdot (qvsub xs x) (qvsub xs x) <= qdot (post_grad n A Pe Px b x0 x) (post_grad n A Pe Px b x0 x).
Proof. exact opt_stop_sound. Qed.
Print Assumptions C15_stopping_test_distance.

(* ... in particular to the specification's posterior mean *)
Theorem C15_stopping_test_distance_to_mean :
  forall (m n : nat) (A : list (list Qc)) (b x0 : list Qc) (ce cx : covform) (mu : Qc) (gtol : Q) (x xs : list Qc),
  opt_stop_ok m n A b x0 ce (Some cx) mu gtol x = true ->
  post_mean_exact m n A b x0 ce cx = Some xs -> length xs = n ->
  exists Pe Px, qinv (dense_of true m ce) = Some Pe /\ qinv (dense_of true n cx) = Some Px /\
    (forall gi, In gi (post_grad n A Pe Px b x0 x) -> (Qabs (this gi) <= gtol)%Q) /\
    mu * mu * qdot (qvsub xs x) (qvsub xs x) <= qdot (post_grad n A Pe Px b x0 x) (post_grad n A Pe Px b x0 x).
Proof. exact opt_stop_distance_to_posterior_mean. Qed.
Print Assumptions C15_stopping_test_distance_to_mean.

(* closing the chain with SciPy's max-norm test: the bound check_opt_stop also EVALUATES on every exact-gradient optimiser cell,
   mu^2 |xs - x|^2 <= n gtol^2 for the specification's posterior mean xs, follows from opt_stop_ok alone *)
Theorem C15_stopping_test_within :
  forall (m n : nat) (A : list (list Qc)) (b x0 : list Qc) (ce cx : covform) (mu : Qc) (gtol : Q) (x xs : list Qc),
  opt_stop_ok m n A b x0 ce (Some cx) mu gtol x = true ->
  post_mean_exact m n A b x0 ce cx = Some xs -> length xs = n ->
  dist_within n mu gtol x xs = true.
Proof. exact opt_stop_within. Qed.
Print Assumptions C15_stopping_test_within.

(* ... and, for ML (no prior term), to the specification's weighted-least-squares solution *)
Theorem C15_stopping_test_distance_to_ml :
  forall (m n : nat) (A : list (list Qc)) (b x0 : list Qc) (ce : covform) (mu : Qc) (gtol : Q) (x xs : list Qc),
  opt_stop_ok m n A b x0 ce None mu gtol x = true ->
  ml_exact m n A b ce = Some xs -> length xs = n ->
  exists Pe, qinv (dense_of true m ce) = Some Pe /\
    (forall gi, In gi (post_grad n A Pe (qzero_mat n) b x0 x) -> (Qabs (this gi) <= gtol)%Q) /\
    mu * mu * qdot (qvsub xs x) (qvsub xs x) <=
      qdot (post_grad n A Pe (qzero_mat n) b x0 x) (post_grad n A Pe (qzero_mat n) b x0 x).
Proof. exact opt_stop_distance_to_ml. Qed.
Print Assumptions C15_stopping_test_distance_to_ml.

Example C15_stopping_test_example :
  opt_stop_ok 2 2 (qmat [[1; 0]; [0; 2]]%Q) (qvec [1; 2]%Q) (qvec [0; 0]%Q) (CScalar 1) (Some (CScalar 1)) (Q2Qc (1 # 2)) (1 # 100000)
              (qvec [1 # 2; 4 # 5]%Q) = true /\
  post_mean_exact 2 2 (qmat [[1; 0]; [0; 2]]%Q) (qvec [1; 2]%Q) (qvec [0; 0]%Q) (CScalar 1) (CScalar 1) = Some (qvec [1 # 2; 4 # 5]%Q).
Proof. exact opt_stop_example. Qed.

Example C15_stopping_test_ml_example :
  opt_stop_ok 2 2 (qmat [[1; 0]; [0; 2]]%Q) (qvec [1; 2]%Q) (qvec [0; 0]%Q) (CScalar 1) None (Q2Qc (1 # 2)) (1 # 100000) (qvec [1; 1]%Q) = true /\
  exists xs, ml_exact 2 2 (qmat [[1; 0]; [0; 2]]%Q) (qvec [1; 2]%Q) (CScalar 1) = Some xs /\ qcl_eqb xs (qvec [1; 1]%Q) = true.
Proof. split; [vm_compute; reflexivity | eexists; split; [vm_compute; reflexivity | vm_compute; reflexivity]]. Qed.

(* the curvature hypothesis of C15_gauss_plus_concave_maximiser (Props/C15_opt.v: mu |v|^2 <= (A v)^T Pe (A v)), decided by the model on
   the instance that runs -- for the non-Gaussian log-concave optimiser cells too, where only the likelihood part is quadratic *)
Theorem C15_curvature_certificate :
  forall (m n : nat) (A : list (list Qc)) (ce : covform) (mu : Qc),
  curvature_ok m n A ce mu = true ->
  exists Pe, qinv (dense_of true m ce) = Some Pe /\ q_sym m Pe /\ 0 <= mu /\
    forall v, length v = n -> mu * qdot v v <= qdot (qmatvec A v) (qmatvec Pe (qmatvec A v)).
Proof. exact curvature_sound. Qed.
Print Assumptions C15_curvature_certificate.

Example C15_curvature_example : curvature_ok 3 2 (qmat [[1; 0]; [0; 1]; [1; 1]]%Q) (CScalar (Q2Qc (1 # 2))) (Q2Qc (3 # 2)) = true.
Proof. exact curvature_example. Qed.

(* SELECTION OF THE DIRECT SAMPLING ROUTE.  sample_posterior (any Nb, any experimental flag) draws by the direct Gaussian route
   exactly when the target is not joint and the problem is linear-Gaussian (Gaussian prior, Gaussian noise, LinearModel) with
   both dimensions within MAX_DIM_INV; then the law of the draws is the one of C15_cholesky_draw (offset = closed-form MAP,
   covariance = checked inverse of the posterior precision); every other problem is handed to the sampler the cascade names
   (never the direct one), and the optional arguments do not enter on the direct route. *)
Theorem C15_direct_route_exactly_linear_gaussian :
  forall (fixed joint : bool) (P : pinfo) (s q : bool) (d : nat) (experimental : bool) (nb : option nat)
         (A : list (list Qc)) (b x0 : list Qc) (ce cx : option covform),
  let r := sample_posterior_entry fixed joint P s q d experimental nb A b x0 ce cx in
  ((exists law, r = SEDirect law) <->
     joint = false /\ (p_prior P = DGaussian /\ p_lik P = DGaussian /\ p_model P = MLinear) /\ (p_n P <= d)%nat /\ (p_m P <= d)%nat) /\
  (forall law, r = SEDirect law -> law = sample_direct fixed (p_m P) (p_n P) A b x0 ce cx) /\
  (forall c, r = SEOther c -> c = sample_route joint P s q d /\ c <> SMapCholesky) /\
  (forall experimental' nb', sample_posterior_entry fixed joint P s q d experimental' nb' A b x0 ce cx = r).
Proof.
  intros fixed joint P s q d ex nb A b x0 ce cx r.
  destruct (sample_entry_direct_iff fixed joint P s q d ex nb A b x0 ce cx) as (H1 & H2 & H3). fold r in H1, H2, H3.
  split; [|split; [exact H2 | split; [exact H3 | intros; reflexivity]]].
  rewrite H1. rewrite is_linear_gaussian_spec. unfold within_dims. rewrite andb_true_iff, !Nat.leb_le. tauto.
Qed.
Print Assumptions C15_direct_route_exactly_linear_gaussian.

(* non-vacuity: a linear-Gaussian 2x3 problem is sampled directly, the same data under a general model is not *)
Example C15_direct_route_example :
  (exists mu C, sample_posterior_entry true false (mk_pinfo 0 0 true 2 3 true) true true 2000 false None
                  wA wb (qvec [1; 0; -1]%Q) (Some (CMatrix eCe)) (Some (CMatrix eCx)) = SEDirect (SLaw mu C)) /\
  sample_posterior_entry true false (mk_pinfo 0 0 false 2 3 true) true true 2000 false None
                  wA wb (qvec [1; 0; -1]%Q) (Some (CMatrix eCe)) (Some (CMatrix eCx)) = SEOther SNUTS.
Proof. split; [eexists; eexists|]; vm_compute; reflexivity. Qed.
