(* C20 -- the pseudo-determinant of the order-1 / neumann precision P = D^T D (path-graph Laplacian),
   EVERY n: the sum of its principal (n-1)-minors (= the trace of the adjugate = the coefficient of t in
   the characteristic polynomial up to sign = what Model.pdet1 computes) is n.
   Each principal minor is det(E_j)^2 with E_j = D without column j, and E_j has an explicit integer inverse. *)
From Coq Require Import ZArith.
From CV Require Import Base.LinAlg Base.QcLin Model.C20_Diff Model.C20_Spec Proofs.C20_Lin Proofs.C20_DetEntries.
From mathcomp Require Import all_ssreflect all_algebra.
From mathcomp Require Import ssrZ zify.
From CVmc Require Import C20_Rank C20_DetZero.
Set Implicit Arguments.
Unset Strict Implicit.
Unset Printing Implicit Defensive.
Import GRing.Theory.
Local Open Scope ring_scope.

Section Path.
Variable m : nat.

(* first differences of m+1 nodes without boundary rows *)
Definition dN (r c : nat) : Z := (if c == r.+1 then 1 else 0) - (if c == r then 1 else 0).
Definition Dn : 'M[Z]_(m, m.+1) := \matrix_(r, c) dN r c.

Lemma minor_gram (j : 'I_m.+1) :
  row' j (col' j (Dn^T *m Dn)) = (col' j Dn)^T *m (col' j Dn).
Proof. by apply/matrixP => i k; rewrite !mxE; apply: eq_bigr => r _; rewrite !mxE. Qed.

Section Inverse.
Variable j : 'I_m.+1.

Definition Ft (c r' : nat) : Z :=
  (if (j <= r')%N && (r' < c)%N then 1 else 0) - (if (c <= r')%N && (r' < j)%N then 1 else 0).
Definition Fj : 'M[Z]_m := \matrix_(c', r') Ft (lift j c') r'.

Lemma EF : col' j Dn *m Fj = 1%:M.
Proof.
apply/matrixP => r r'; rewrite !mxE.
have -> : \sum_(c' < m) (col' j Dn) r c' * Fj c' r' = \sum_(c < m.+1) dN r c * Ft c r'.
  have Hj : dN r j * Ft j r' = 0.
    by rewrite /Ft Z.sub_diag mulr0.
  have H := @bigD1_ord _ _ _ m.+1 j xpredT (fun c : 'I_m.+1 => dN r c * Ft c r') isT.
  move: (H 0 (GRing.add_comoid _)) => /= {}H.
  rewrite Hj add0r in H; rewrite H.
  by apply: eq_bigr => c' _; rewrite !mxE.
have -> : \sum_(c < m.+1) dN r c * Ft c r' =
          \sum_(c < m.+1) Ft c r' * (if c == r.+1 :> nat then 1 else 0)
          - \sum_(c < m.+1) Ft c r' * (if c == r :> nat then 1 else 0).
  rewrite -sumrB; apply: eq_bigr => c _; rewrite /dN; set A := Ft _ _.
  by repeat case: ifP => ?; zar; lia.
rewrite !(sum_delta _ (fun c => Ft c r')) !ltnS (ltn_ord r) (ltnW (ltn_ord r)).
have rm := ltn_ord r; have r'm := ltn_ord r'; have jm := ltn_ord j.
rewrite /Ft -val_eqE /=.
by repeat case: ifP => ?; zar; lia.
Qed.

Lemma det_minor_sq : \det (col' j Dn) * \det (col' j Dn) = 1.
Proof.
have := congr1 determinant EF; rewrite det_mulmx det1 => H.
have [] := Z.mul_eq_1 _ _ H => ->; by [].
Qed.

End Inverse.

(* the sum of the principal (n-1)-minors of D^T D *)
Theorem trace_adj_path : \sum_(j < m.+1) cofactor (Dn^T *m Dn) j j = Z.of_nat m.+1.
Proof.
have -> : \sum_(j < m.+1) cofactor (Dn^T *m Dn) j j = \sum_(j < m.+1) (1 : Z).
  apply: eq_bigr => j _; rewrite /cofactor minor_gram det_mulmx det_tr det_minor_sq.
  by rewrite -signr_odd addnn odd_double expr0 mul1r.
rewrite sumr_const card_ord.
elim: (m.+1) => [|k IH]; first by [].
by rewrite mulrS IH; zar; lia.
Qed.

End Path.

(* ---------------- refinement: the Gram matrix of a list matrix, and the model's neumann operator ---------------- *)
Lemma mxZ_gram m n (D : list (list Z)) : wf_mat n D -> List.length D = m ->
  mxZ n n (gram n D) = (mxZ m n D)^T *m mxZ m n D.
Proof.
move=> wfD HD; apply/matrixP => i k; rewrite !mxE.
have /ssrnat.ltP Hi := ltn_ord i; have /ssrnat.ltP Hk := ltn_ord k.
rewrite (gram_entry n D i k wfD Hi Hk).
have Hc : forall c, List.length (LinAlg.col Z0 D c) = m by move=> c; rewrite /LinAlg.col List.map_length.
rewrite (zdot_sum (Hc k) (Hc i)); apply: eq_bigr => r _; rewrite !mxE.
have E : forall c, List.nth r (LinAlg.col Z0 D c) Z0 = List.nth c (List.nth r D Datatypes.nil) Z0.
  move=> c; rewrite /LinAlg.col.
  have rm : (r < List.length D)%coq_nat by rewrite HD; apply/ssrnat.ltP.
  rewrite (List.nth_indep _ Z0 ((fun row => List.nth c row Z0) Datatypes.nil)) ?List.map_length //.
  exact: (List.map_nth (fun row => List.nth c row Z0)).
rewrite !E; exact: Z.mul_comm.
Qed.

Lemma fd_matrix_neumann1 m : fd_matrix 1 Neumann m.+1 = Some (mk_mat m m.+1 (spd d1_neumann)).
Proof. by rewrite /fd_matrix /fd_parts /fd1_parts /= Nat.sub_0_r. Qed.

Lemma mxZ_neumann1 m : mxZ m m.+1 (mk_mat m m.+1 (spd d1_neumann)) = Dn m.
Proof.
apply/matrixP => r c; rewrite !mxE.
have /ssrnat.ltP Hr := ltn_ord r; have /ssrnat.ltP Hc := ltn_ord c.
rewrite (nth_mk_mat m m.+1 (spd d1_neumann) r c Hr Hc) /spd /dN /= .
by repeat case: ifP => ?; lia.
Qed.

(* the sum of the principal (n-1)-minors of the precision the model builds for order 1 / neumann is n *)
Theorem pdet_prec_neumann1 m D :
  fd_matrix 1 Neumann m.+1 = Some D ->
  \sum_(j < m.+1) cofactor (mxZ m.+1 m.+1 (gram m.+1 D)) j j = Z.of_nat m.+1.
Proof.
rewrite fd_matrix_neumann1 => -[<-].
rewrite (@mxZ_gram m) ?mk_mat_length //; last exact: mk_mat_wf.
by rewrite mxZ_neumann1 trace_adj_path.
Qed.

From CV Require Import Proofs.C20_Gmrf.

Theorem gmrf_pdet_neumann1 m g :
  gmrf_init 1 m.+1 Neumann 1 = Some g ->
  \sum_(j < m.+1) cofactor (mxZ m.+1 m.+1 (g_prec g)) j j = Z.of_nat m.+1.
Proof.
move=> Hg; have [D [_ [_ [HD [HP _]]]]] := gmrf_init_1d_inv _ _ _ _ Hg.
by rewrite HP; apply: pdet_prec_neumann1 HD.
Qed.
