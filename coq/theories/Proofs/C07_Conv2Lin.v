(* C07 -- Deconvolution2D's model (pad + valid convolution, function-backed, Image2D on both sides) as a map between
   parameter vectors: it is LINEAR (all five boundary conditions, every PSF and size), hence get_matrix() -- assembled from
   forward(e_i) -- reproduces forward, forward(Samples(I)) is that matrix, and for odd PSF sizes adjoint(Samples(I)) is its
   transpose.  All image sizes. *)
From CV Require Import Base.Tac Base.LinAlg Base.Cmp Base.QcLin Model.C07_Adj Model.C07_Input
  Proofs.C07_Lists Proofs.C07_Geom Proofs.C07_Model Proofs.C07_Conv Proofs.C07_Deconv1 Proofs.C07_Linear Proofs.C07_Defect
  Proofs.C07_Deepen Proofs.C07_Input Proofs.C07_SymPad.
From Coq Require Import QArith Qcanon.

Local Open Scope Qc_scope.
Local Notation flip2 := C07_Adj.flip2.

(* ---------- images as lists of rows: madd / mscale algebra ---------- *)
Lemma madd_nil_r X : madd X [] = [].
Proof. destruct X; reflexivity. Qed.

Lemma madd_length X Y : length X = length Y -> length (madd X Y) = length X.
Proof.
  revert Y; induction X as [|a X IH]; intros [|b Y] H; simpl in H; try discriminate; [reflexivity|].
  rewrite madd_cons. cbn [length]. rewrite IH by lia. reflexivity.
Qed.

Lemma madd_app A B C D : length A = length C -> madd (A ++ B) (C ++ D) = madd A C ++ madd B D.
Proof.
  revert C; induction A as [|a A IH]; intros [|c C] H; simpl in H; try discriminate; [reflexivity|].
  cbn [app]. rewrite !madd_cons, IH by lia. reflexivity.
Qed.

Lemma skipn_madd k X Y : skipn k (madd X Y) = madd (skipn k X) (skipn k Y).
Proof.
  revert X Y; induction k as [|k IH]; intros X Y; [reflexivity|].
  destruct X as [|a X]; [reflexivity|]. destruct Y as [|b Y]; [rewrite madd_nil_r; cbn [skipn]; rewrite madd_nil_r; reflexivity|].
  rewrite madd_cons. cbn [skipn]. apply IH.
Qed.

Lemma firstn_madd k X Y : firstn k (madd X Y) = madd (firstn k X) (firstn k Y).
Proof.
  revert X Y; induction k as [|k IH]; intros X Y; [reflexivity|].
  destruct X as [|a X]; [reflexivity|]. destruct Y as [|b Y]; [rewrite madd_nil_r; cbn [firstn]; rewrite madd_nil_r; reflexivity|].
  rewrite madd_cons. cbn [firstn]. rewrite madd_cons, IH. reflexivity.
Qed.

Lemma madd_repeat z k : qvadd z z = z -> madd (repeat z k) (repeat z k) = repeat z k.
Proof. intros Hz. induction k as [|k IH]; [reflexivity|]. cbn [repeat]. rewrite madd_cons, IH, Hz. reflexivity. Qed.

Lemma mscale_madd c X Y : mscale c (madd X Y) = madd (mscale c X) (mscale c Y).
Proof.
  revert Y; induction X as [|a X IH]; intros [|b Y]; try reflexivity.
  rewrite madd_cons, !mscale_cons, madd_cons, IH, qvscale_qvadd. reflexivity.
Qed.

Lemma madd_interchange A B C D : madd (madd A B) (madd C D) = madd (madd A C) (madd B D).
Proof.
  revert B C D; induction A as [|a A IH]; intros [|b B] [|c C] [|d D]; try reflexivity;
    try (rewrite ?madd_cons, ?madd_nil_r; reflexivity).
  rewrite !madd_cons, IH, qvadd_interchange. reflexivity.
Qed.

Lemma mscale_mscale c k X : mscale c (mscale k X) = mscale k (mscale c X).
Proof. unfold mscale. rewrite !map_map. apply map_ext. intros r. apply qvscale_qvscale. Qed.

Lemma mscale_mzero c r n : mscale c (mzero r n) = mzero r n.
Proof. unfold mscale, mzero. rewrite map_repeat', qvscale_vzero. reflexivity. Qed.

Lemma madd_mzero r n : madd (mzero r n) (mzero r n) = mzero r n.
Proof. unfold mzero. apply madd_repeat. apply qvadd_vzero_vzero. Qed.

(* ---------- the 2-d shift is linear (periodic / zero) ---------- *)
Lemma map_shift_madd m d nc X Y : wf_mat nc X -> wf_mat nc Y -> length X = length Y ->
  map (shift 0 m d) (madd X Y) = madd (map (shift 0 m d) X) (map (shift 0 m d) Y).
Proof.
  intros HX; revert Y; induction HX as [|a X Ha HX IH]; intros [|b Y] HY HL; simpl in HL; try discriminate; [reflexivity|].
  rewrite madd_cons. cbn [map]. rewrite madd_cons.
  rewrite shift_qvadd by (rewrite Ha; symmetry; exact (Forall_inv HY)).
  rewrite (IH Y (Forall_inv_tail HY)) by lia. reflexivity.
Qed.

Lemma rows_shift_madd m d nc X Y : periodic_or_zero m -> length X = length Y ->
  shift (qvzero nc) m d (madd X Y) = madd (shift (qvzero nc) m d X) (shift (qvzero nc) m d Y).
Proof.
  intros [-> | ->] HL; cbn [shift]; unfold vec in *.
  - rewrite (madd_length X Y HL), <- HL. destruct (length X) eqn:E; [reflexivity|]. unfold rotl.
    rewrite skipn_madd, firstn_madd. symmetry. apply madd_app. rewrite !skipn_length. lia.
  - unfold zshift, vec in *. rewrite (madd_length X Y HL), <- HL. destruct (0 <=? d)%Z.
    + rewrite skipn_madd, <- (madd_repeat (qvzero nc) (Nat.min (Z.to_nat d) (length X))) at 1 by apply qvadd_vzero_vzero.
      symmetry. apply madd_app. rewrite !skipn_length. lia.
    + rewrite firstn_madd, <- (madd_repeat (qvzero nc) (Nat.min (Z.to_nat (- d)) (length X))) at 1 by apply qvadd_vzero_vzero.
      symmetry. apply madd_app. reflexivity.
Qed.

(* ---------- the same for EVERY boundary mode (edge / symmetric / reflect shifts gather by index) ---------- *)
Lemma nth_madd j X Y z : length X = length Y -> qvadd z z = z -> nth j (madd X Y) z = qvadd (nth j X z) (nth j Y z).
Proof.
  revert j Y; induction X as [|a X IH]; intros j [|b Y] HL Hz; simpl in HL; try discriminate.
  - destruct j; cbn [nth]; symmetry; exact Hz.
  - rewrite madd_cons. destruct j as [|j]; [reflexivity|]. cbn [nth]. apply IH; [lia | exact Hz].
Qed.

Lemma madd_map_seq (g1 g2 : nat -> list Qc) l : madd (map g1 l) (map g2 l) = map (fun i => qvadd (g1 i) (g2 i)) l.
Proof. induction l as [|a l IH]; [reflexivity|]. cbn [map]. rewrite madd_cons, IH. reflexivity. Qed.

Lemma rows_shift_madd_any m d nc X Y : length X = length Y ->
  shift (qvzero nc) m d (madd X Y) = madd (shift (qvzero nc) m d X) (shift (qvzero nc) m d Y).
Proof.
  intros HL. destruct m.
  - apply rows_shift_madd; [right; reflexivity | exact HL].
  - apply rows_shift_madd; [left; reflexivity | exact HL].
  - cbn [shift]; unfold vec in *; rewrite (madd_length X Y HL), <- HL, madd_map_seq; apply map_ext; intros i;
      destruct (ext BEdge (length X) (Z.of_nat i + d)); [apply nth_madd; [exact HL | apply qvadd_vzero_vzero] | symmetry; apply qvadd_vzero_vzero].
  - cbn [shift]; unfold vec in *; rewrite (madd_length X Y HL), <- HL, madd_map_seq; apply map_ext; intros i;
      destruct (ext BSymmetric (length X) (Z.of_nat i + d)); [apply nth_madd; [exact HL | apply qvadd_vzero_vzero] | symmetry; apply qvadd_vzero_vzero].
  - cbn [shift]; unfold vec in *; rewrite (madd_length X Y HL), <- HL, madd_map_seq; apply map_ext; intros i;
      destruct (ext BReflect (length X) (Z.of_nat i + d)); [apply nth_madd; [exact HL | apply qvadd_vzero_vzero] | symmetry; apply qvadd_vzero_vzero].
Qed.

Lemma map_shift_any {A B} (f : A -> B) (zero : A) m d l : map f (shift zero m d l) = shift (f zero) m d (map f l).
Proof.
  destruct m.
  - apply map_shift. right. reflexivity.
  - apply map_shift. left. reflexivity.
  - cbn [shift]. rewrite map_map, map_length. apply map_ext. intros i.
    destruct (ext BEdge (length l) (Z.of_nat i + d)); [symmetry; apply map_nth | reflexivity].
  - cbn [shift]. rewrite map_map, map_length. apply map_ext. intros i.
    destruct (ext BSymmetric (length l) (Z.of_nat i + d)); [symmetry; apply map_nth | reflexivity].
  - cbn [shift]. rewrite map_map, map_length. apply map_ext. intros i.
    destruct (ext BReflect (length l) (Z.of_nat i + d)); [symmetry; apply map_nth | reflexivity].
Qed.

Lemma shift_Forall_any {A} (zero : A) (P : A -> Prop) m d l : P zero -> Forall P l -> Forall P (shift zero m d l).
Proof.
  intros Hz Hl. destruct m.
  - apply shift_Forall; [right; reflexivity | exact Hz | exact Hl].
  - apply shift_Forall; [left; reflexivity | exact Hz | exact Hl].
  - cbn [shift]. apply Forall_forall. intros r Hr. apply in_map_iff in Hr as (i & <- & _).
    destruct (ext BEdge (length l) (Z.of_nat i + d)) as [j|]; [|exact Hz].
    destruct (nth_in_or_default j l zero) as [Hin | ->]; [|exact Hz]. rewrite Forall_forall in Hl. apply Hl. exact Hin.
  - cbn [shift]. apply Forall_forall. intros r Hr. apply in_map_iff in Hr as (i & <- & _).
    destruct (ext BSymmetric (length l) (Z.of_nat i + d)) as [j|]; [|exact Hz].
    destruct (nth_in_or_default j l zero) as [Hin | ->]; [|exact Hz]. rewrite Forall_forall in Hl. apply Hl. exact Hin.
  - cbn [shift]. apply Forall_forall. intros r Hr. apply in_map_iff in Hr as (i & <- & _).
    destruct (ext BReflect (length l) (Z.of_nat i + d)) as [j|]; [|exact Hz].
    destruct (nth_in_or_default j l zero) as [Hin | ->]; [|exact Hz]. rewrite Forall_forall in Hl. apply Hl. exact Hin.
Qed.

Lemma shift2_shape_any m nc d X : wf_mat nc X ->
  wf_mat nc (shift2 m nc d X) /\ length (shift2 m nc d X) = length X.
Proof.
  intros HX. unfold shift2. split.
  - apply shift_Forall_any; [apply qvzero_length|].
    apply Forall_forall. intros r Hr. apply in_map_iff in Hr as (r0 & <- & Hr0).
    rewrite shift_length. unfold wf_mat in HX. rewrite Forall_forall in HX. apply HX. exact Hr0.
  - rewrite shift_length, map_length. reflexivity.
Qed.

Lemma conv2_terms_shape_any m nr nc w X : wf_mat nc X -> length X = nr ->
  wf_mat nc (conv2_terms m nr nc w X) /\ length (conv2_terms m nr nc w X) = nr.
Proof.
  intros HX HL. induction w as [|cd w [IW IL]].
  - split; [apply mzero_rows | apply mzero_length].
  - rewrite conv2_terms_cons.
    destruct (shift2_shape_any m nc (snd cd) X HX) as [SW SL].
    destruct (mscale_shape (fst cd) nc _ SW) as [MW ML].
    destruct (madd_shape nc _ _ MW IW) as [AW AL].
    { etransitivity; [exact ML|]. etransitivity; [exact SL|]. etransitivity; [exact HL|]. symmetry; exact IL. }
    split; [exact AW|]. etransitivity; [exact AL|]. etransitivity; [exact ML|]. etransitivity; [exact SL|]. exact HL.
Qed.

Lemma shift2_madd m nc d X Y : wf_mat nc X -> wf_mat nc Y -> length X = length Y ->
  shift2 m nc d (madd X Y) = madd (shift2 m nc d X) (shift2 m nc d Y).
Proof.
  intros HX HY HL. unfold shift2. rewrite (map_shift_madd m (snd d) nc X Y HX HY HL).
  apply rows_shift_madd_any. rewrite !map_length. exact HL.
Qed.

Lemma shift2_mscale m nc d c X : shift2 m nc d (mscale c X) = mscale c (shift2 m nc d X).
Proof.
  unfold shift2, mscale.
  rewrite (map_shift_any (qvscale c) (qvzero nc) m (fst d)), qvscale_vzero. f_equal.
  rewrite !map_map. apply map_ext. intros r. apply shift_qvscale.
Qed.

(* ---------- the 2-d convolution is linear in the image, every boundary mode ---------- *)
Lemma conv2_terms_madd m nr nc w X Y : wf_mat nc X -> wf_mat nc Y -> length X = nr -> length Y = nr ->
  conv2_terms m nr nc w (madd X Y) = madd (conv2_terms m nr nc w X) (conv2_terms m nr nc w Y).
Proof.
  intros HX HY LX LY. induction w as [|cd w IH].
  - unfold conv2_terms. cbn [fold_right]. symmetry. apply madd_mzero.
  - rewrite !conv2_terms_cons, IH, shift2_madd by (try assumption; congruence).
    rewrite mscale_madd. apply madd_interchange.
Qed.

Lemma conv2_terms_mscale m nr nc w c X :
  conv2_terms m nr nc w (mscale c X) = mscale c (conv2_terms m nr nc w X).
Proof.
  induction w as [|cd w IH].
  - unfold conv2_terms. cbn [fold_right]. symmetry. apply mscale_mzero.
  - rewrite !conv2_terms_cons, IH, shift2_mscale. rewrite mscale_madd. f_equal. apply mscale_mscale.
Qed.

(* Deconvolution2D's forward as a map between parameter vectors (Image2D, order C: the vector is the row-major image) *)
Definition d2_map (m : bc) (S n : nat) (P : list (list Qc)) (x : list Qc) : list Qc :=
  concat (conv2 m S n n P (chunks n n x)).

Lemma chunks_qvscale k n c x : chunks k n (qvscale c x) = mscale c (chunks k n x).
Proof. unfold qvscale, vscale. rewrite chunks_map. reflexivity. Qed.

Lemma concat_mscale c X : concat (mscale c X) = qvscale c (concat X).
Proof. unfold mscale, qvscale, vscale. symmetry. apply concat_map. Qed.

Theorem d2_map_linear m S n P : linear_map (n * n) (n * n) (d2_map m S n P).
Proof.
  unfold d2_map, conv2. repeat split.
  - intros x y Hx Hy.
    pose proof (chunks_wf n n x Hx) as WX. pose proof (chunks_wf n n y Hy) as WY.
    rewrite chunks_qvadd, conv2_terms_madd by (try assumption; apply chunks_length).
    destruct (conv2_terms_shape_any m n n (combine (concat P) (offsets2 S)) (chunks n n x) WX (chunks_length n n x)) as [W1 L1].
    destruct (conv2_terms_shape_any m n n (combine (concat P) (offsets2 S)) (chunks n n y) WY (chunks_length n n y)) as [W2 L2].
    apply (concat_madd n); assumption.
  - intros c x Hx. rewrite chunks_qvscale, conv2_terms_mscale. apply concat_mscale.
  - intros x Hx. pose proof (chunks_wf n n x Hx) as WX.
    destruct (conv2_terms_shape_any m n n (combine (concat P) (offsets2 S)) (chunks n n x) WX (chunks_length n n x)) as [W1 L1].
    rewrite (concat_length_wf n) by exact W1. rewrite L1. reflexivity.
Qed.

Lemma deconv2_forward_map m S n P x : length x = (n * n)%nat ->
  forward (deconv2_model m S n P) (V1 x) = Some (V1 (d2_map m S n P x)).
Proof.
  intros Hx. unfold forward, apply_func. cbn [deconv2_model lm_fwd lm_D lm_R p2f]. rewrite Hx, Nat.eqb_refl.
  cbn [obind img_op]. rewrite !Nat.eqb_refl. cbn [andb obind f2p]. reflexivity.
Qed.

Lemma deconv2_adjoint_map m S n P y : length y = (n * n)%nat ->
  adjoint (deconv2_model m S n P) (V1 y) = Some (V1 (d2_map m S n (flip2 P) y)).
Proof.
  intros Hy. unfold adjoint, apply_func. cbn [deconv2_model lm_adj lm_D lm_R p2f]. rewrite Hy, Nat.eqb_refl.
  cbn [obind img_op]. rewrite !Nat.eqb_refl. cbn [andb obind f2p]. reflexivity.
Qed.

(* get_matrix of Deconvolution2D's model (the column assembly through forward(e_i)) reproduces forward: ALL FIVE boundary
   conditions, EVERY PSF and PSF size (even included), every image size *)
Theorem deconv2_get_matrix m S n P :
  exists G, get_matrix (deconv2_model m S n P) = Some G /\ forward_of_identity (deconv2_model m S n P) = Some G /\
    wf_mat (n * n) G /\ length G = (n * n)%nat /\
    (forall x, length x = (n * n)%nat -> forward (deconv2_model m S n P) (V1 x) = Some (V1 (qmatvec G x))) /\
    (forall j, (j < n * n)%nat -> forward (deconv2_model m S n P) (V1 (qunit (n * n) j)) = Some (V1 (col 0 G j))).
Proof.
  destruct (get_matrix_columns (deconv2_model m S n P) (d2_map m S n P)) as (G & EG & WG & LG & HG & HC).
  - reflexivity.
  - intros x Hx. apply deconv2_forward_map. exact Hx.
  - exact (d2_map_linear m S n P).
  - cbn [deconv2_model lm_D lm_R par_dim] in *. exists G. split; [exact EG|]. split; [|split; [exact WG|split; [exact LG|split]]].
    + rewrite forward_of_identity_get_matrix by reflexivity. exact EG.
    + intros x Hx. rewrite (HG x Hx). apply deconv2_forward_map. exact Hx.
    + intros j Hj. rewrite (HC j Hj). apply deconv2_forward_map. apply qunit_length.
Qed.

(* ... and for odd PSF sizes adjoint(Samples(I)) is the transpose of that matrix *)
Theorem deconv2_samples_identity m h n P :
  periodic_or_zero m -> wf_mat (2 * h + 1) P -> length P = (2 * h + 1)%nat ->
  exists G, get_matrix (deconv2_model m (2 * h + 1) n P) = Some G /\
            forward_of_identity (deconv2_model m (2 * h + 1) n P) = Some G /\
            adjoint_of_identity (deconv2_model m (2 * h + 1) n P) = Some (tr (n * n) G) /\
            (forall x, length x = (n * n)%nat -> forward (deconv2_model m (2 * h + 1) n P) (V1 x) = Some (V1 (qmatvec G x))).
Proof.
  intros Hm WP LP.
  destruct (samples_identity_transpose (deconv2_model m (2 * h + 1) n P) (d2_map m (2 * h + 1) n P) (d2_map m (2 * h + 1) n (flip2 P)))
    as (G & EF & EA & _ & _ & HG & Hgm).
  - intros x Hx. apply deconv2_forward_map. exact Hx.
  - exact (d2_map_linear m _ n P).
  - intros y Hy. apply deconv2_adjoint_map. exact Hy.
  - exact (d2_map_linear m _ n (flip2 P)).
  - intros x y Hx Hy. cbn [deconv2_model lm_D lm_R par_dim] in Hx, Hy.
    destruct (deconv2_adjoint m h n P Hm WP LP x y Hx Hy) as (fx & ay & E1 & E2 & _ & _ & E).
    rewrite (deconv2_forward_map m _ n P x Hx) in E1. rewrite (deconv2_adjoint_map m _ n P y Hy) in E2.
    inversion E1; inversion E2; subst. exact E.
  - cbn [deconv2_model lm_D lm_R par_dim] in *. exists G. split; [apply Hgm; reflexivity|]. split; [exact EF|]. split; [exact EA|].
    intros x Hx. rewrite (HG x Hx). apply deconv2_forward_map. exact Hx.
Qed.

(* ... and under symmetric padding with a mirror-symmetric PSF of odd size (C07_SymPad) *)
Theorem deconv2_sym_samples_identity h n (P : list (list Qc)) :
  wf_mat (2 * h + 1) P -> length P = (2 * h + 1)%nat -> rev P = P -> map (@rev Qc) P = P ->
  exists G, get_matrix (deconv2_model BSymmetric (2 * h + 1) n P) = Some G /\
            forward_of_identity (deconv2_model BSymmetric (2 * h + 1) n P) = Some G /\
            adjoint_of_identity (deconv2_model BSymmetric (2 * h + 1) n P) = Some (tr (n * n) G) /\
            (forall x, length x = (n * n)%nat -> forward (deconv2_model BSymmetric (2 * h + 1) n P) (V1 x) = Some (V1 (qmatvec G x))).
Proof.
  intros WP LP Hud Hlr.
  destruct (samples_identity_transpose (deconv2_model BSymmetric (2 * h + 1) n P) (d2_map BSymmetric (2 * h + 1) n P) (d2_map BSymmetric (2 * h + 1) n (flip2 P)))
    as (G & EF & EA & _ & _ & HG & Hgm).
  - intros x Hx. apply deconv2_forward_map. exact Hx.
  - exact (d2_map_linear BSymmetric _ n P).
  - intros y Hy. apply deconv2_adjoint_map. exact Hy.
  - exact (d2_map_linear BSymmetric _ n (flip2 P)).
  - intros x y Hx Hy. cbn [deconv2_model lm_D lm_R par_dim] in Hx, Hy.
    destruct (deconv2_sym_adjoint h n P WP LP Hud Hlr x y Hx Hy) as (fx & ay & E1 & E2 & _ & _ & E).
    rewrite (deconv2_forward_map BSymmetric _ n P x Hx) in E1. rewrite (deconv2_adjoint_map BSymmetric _ n P y Hy) in E2.
    inversion E1; inversion E2; subst. exact E.
  - cbn [deconv2_model lm_D lm_R par_dim] in *. exists G. split; [apply Hgm; reflexivity|]. split; [exact EF|]. split; [exact EA|].
    intros x Hx. rewrite (HG x Hx). apply deconv2_forward_map. exact Hx.
Qed.
