(* C18 -- matrix algebra on lists of rows over Qc used by the Euler-recurrence theorems:
   (A + B) x, (c A) x, I x, and the two assembled step operators of TimeDependentLinearPDE.solve. *)
From CV Require Import Base.Tac Base.LinAlg Base.Cmp Base.QcLin Model.C18_PDE.
From Coq Require Import QArith Qcanon.

Local Open Scope Qc_scope.

Definition Qcth := Qcrt.

(* ---- instances of the generic lemmas at Qc ---- *)
Lemma qdot_vadd_l x y z : length x = length y -> qdot (qvadd x y) z = qdot x z + qdot y z.
Proof. apply (dot_vadd_l Qc 0 1 Qcplus Qcmult Qcminus Qcopp Qcth). Qed.
Lemma qdot_vadd_r x y z : length y = length z -> qdot x (qvadd y z) = qdot x y + qdot x z.
Proof. apply (dot_vadd_r Qc 0 1 Qcplus Qcmult Qcminus Qcopp Qcth). Qed.
Lemma qdot_vsub_l x y z : length x = length y -> qdot (qvsub x y) z = qdot x z - qdot y z.
Proof. apply (dot_vsub_l Qc 0 1 Qcplus Qcmult Qcminus Qcopp Qcth). Qed.
Lemma qdot_vscale_l c x y : qdot (qvscale c x) y = c * qdot x y.
Proof. apply (dot_vscale_l Qc 0 1 Qcplus Qcmult Qcminus Qcopp Qcth). Qed.
Lemma qdot_unit n i x : length x = n -> (i < n)%nat -> qdot (qunit n i) x = nth i x 0.
Proof. apply (dot_unit_vec Qc 0 1 Qcplus Qcmult Qcminus Qcopp Qcth). Qed.
Lemma qmatvec_vadd A x y n : wf_mat n A -> length x = n -> length y = n ->
  qmatvec A (qvadd x y) = qvadd (qmatvec A x) (qmatvec A y).
Proof. apply (matvec_vadd Qc 0 1 Qcplus Qcmult Qcminus Qcopp Qcth). Qed.
Lemma qmatvec_vscale A c x : qmatvec A (qvscale c x) = qvscale c (qmatvec A x).
Proof. apply (matvec_vscale Qc 0 1 Qcplus Qcmult Qcminus Qcopp Qcth). Qed.

Lemma qvadd_length x y : length x = length y -> length (qvadd x y) = length x.
Proof. revert y; induction x as [|a x IH]; intros [|b y] H; simpl in *; try lia. f_equal. apply IH. lia. Qed.
Lemma qvsub_length x y : length x = length y -> length (qvsub x y) = length x.
Proof. revert y; induction x as [|a x IH]; intros [|b y] H; simpl in *; try lia. f_equal. apply IH. lia. Qed.
Lemma qvscale_length c x : length (qvscale c x) = length x.
Proof. apply map_length. Qed.
Lemma qmatvec_length A x : length (qmatvec A x) = length A.
Proof. apply map_length. Qed.
Lemma qunit_length n i : length (qunit n i) = n.
Proof.
  revert i; induction n as [|n IH]; intros i; simpl; [reflexivity|].
  destruct i; simpl; f_equal; [apply repeat_length | apply IH].
Qed.

(* ---- shapes ---- *)
Lemma is_square_wf n A : is_square n A = true -> length A = n /\ wf_mat n A.
Proof.
  unfold is_square. intros H. apply andb_true_iff in H as [H1 H2].
  apply Nat.eqb_eq in H1. split; [exact H1|].
  unfold wf_mat. apply Forall_forall. intros r Hr.
  rewrite forallb_forall in H2. specialize (H2 r Hr). apply Nat.eqb_eq in H2. exact H2.
Qed.

Lemma wf_sys_spec n A b : wf_sys n A b = true -> length A = n /\ wf_mat n A /\ length b = n.
Proof.
  unfold wf_sys. intros H. apply andb_true_iff in H as [H1 H2].
  apply is_square_wf in H1 as [Ha Hw]. apply Nat.eqb_eq in H2. auto.
Qed.

Lemma eye_length n : length (eye n) = n.
Proof. unfold eye. rewrite map_length, seq_length. reflexivity. Qed.
Lemma eye_wf n : wf_mat n (eye n).
Proof. unfold wf_mat, eye. apply Forall_forall. intros r Hr. apply in_map_iff in Hr as [i [<- _]]. apply qunit_length. Qed.
Lemma mscale_length c A : length (mscale c A) = length A.
Proof. apply map_length. Qed.
Lemma mscale_wf n c A : wf_mat n A -> wf_mat n (mscale c A).
Proof.
  unfold wf_mat, mscale. intros H. apply Forall_forall. intros r Hr. apply in_map_iff in Hr as [r0 [<- Hr0]].
  rewrite qvscale_length. rewrite Forall_forall in H. apply H. exact Hr0.
Qed.

(* ---- (A + B) x, (A - B) x, (c A) x, I x ---- *)
Lemma matvec_madd n A B x : wf_mat n A -> wf_mat n B -> length A = length B ->
  qmatvec (madd A B) x = qvadd (qmatvec A x) (qmatvec B x).
Proof.
  intros HA; revert B; induction HA as [|ra A Hra HA IH]; intros [|rb B] HB HL; simpl in *; try lia; try reflexivity.
  inversion HB as [|? ? Hrb HB']; subst.
  f_equal.
  - apply qdot_vadd_l. lia.
  - apply IH; [exact HB' | lia].
Qed.

Lemma matvec_msub n A B x : wf_mat n A -> wf_mat n B -> length A = length B ->
  qmatvec (msub A B) x = qvsub (qmatvec A x) (qmatvec B x).
Proof.
  intros HA; revert B; induction HA as [|ra A Hra HA IH]; intros [|rb B] HB HL; simpl in *; try lia; try reflexivity.
  inversion HB as [|? ? Hrb HB']; subst.
  f_equal.
  - apply qdot_vsub_l. lia.
  - apply IH; [exact HB' | lia].
Qed.

Lemma matvec_mscale c A x : qmatvec (mscale c A) x = qvscale c (qmatvec A x).
Proof.
  induction A as [|r A IH]; simpl; [reflexivity|]. f_equal; [apply qdot_vscale_l | exact IH].
Qed.

Lemma map_nth_seq (x : qv) : map (fun i => nth i x 0) (seq 0 (length x)) = x.
Proof.
  induction x as [|a x IH]; simpl; [reflexivity|]. f_equal.
  rewrite <- seq_shift, map_map. exact IH.
Qed.

Lemma matvec_eye x : qmatvec (eye (length x)) x = x.
Proof.
  unfold eye, qmatvec, matvec. rewrite map_map.
  transitivity (map (fun i => nth i x 0) (seq 0 (length x))); [| apply map_nth_seq].
  apply map_ext_in. intros i Hi. apply in_seq in Hi.
  apply qdot_unit; [reflexivity | lia].
Qed.

(* ---- vector identities, componentwise ---- *)
Lemma qv_ext (x y : qv) : length x = length y -> (forall i, nth i x 0 = nth i y 0) -> x = y.
Proof.
  revert y; induction x as [|a x IH]; intros [|b y] HL H; simpl in *; try lia; try reflexivity.
  f_equal; [exact (H O) | apply IH; [lia | intros i; exact (H (S i))]].
Qed.

Lemma nth_qvadd x y i : length x = length y -> nth i (qvadd x y) 0 = nth i x 0 + nth i y 0.
Proof.
  revert y i; induction x as [|a x IH]; intros [|b y] i HL; simpl in *; try lia.
  - destruct i; ring.
  - destruct i; [reflexivity | apply IH; lia].
Qed.
Lemma nth_qvsub x y i : length x = length y -> nth i (qvsub x y) 0 = nth i x 0 - nth i y 0.
Proof.
  revert y i; induction x as [|a x IH]; intros [|b y] i HL; simpl in *; try lia.
  - destruct i; ring.
  - destruct i; [reflexivity | apply IH; lia].
Qed.
Lemma nth_qvscale c x i : nth i (qvscale c x) 0 = c * nth i x 0.
Proof.
  revert i; induction x as [|a x IH]; intros i; simpl.
  - destruct i; ring.
  - destruct i; [reflexivity | apply IH].
Qed.

(* ---- the two step operators of TimeDependentLinearPDE.solve ---- *)

(* forward Euler:  (dt*A + I) u + dt*b  =  u + dt (A u + b) *)
Theorem fe_step_spec A b u dt : wf_sys (length u) A b = true ->
  fe_step A b u dt = qvadd u (qvscale dt (qvadd (qmatvec A u) b)) /\ length (fe_step A b u dt) = length u.
Proof.
  intros H. apply wf_sys_spec in H as [HA [HW Hb]].
  assert (L1 : length (qmatvec A u) = length u) by (rewrite qmatvec_length; exact HA).
  assert (L2 : length (qvadd (qmatvec A u) b) = length u) by (rewrite qvadd_length; lia).
  assert (L3 : length (qvscale dt (qvadd (qmatvec A u) b)) = length u) by (rewrite qvscale_length; exact L2).
  assert (L4 : length (qvscale dt (qmatvec A u)) = length u) by (rewrite qvscale_length; exact L1).
  assert (L5 : length (qvscale dt b) = length u) by (rewrite qvscale_length; exact Hb).
  assert (L6 : length (qvadd (qvscale dt (qmatvec A u)) u) = length u) by (rewrite qvadd_length; lia).
  assert (E : fe_step A b u dt = qvadd u (qvscale dt (qvadd (qmatvec A u) b))).
  { unfold fe_step.
    rewrite (matvec_madd (length u)); [| apply mscale_wf; exact HW | apply eye_wf | rewrite mscale_length, eye_length; exact HA].
    rewrite matvec_mscale, matvec_eye.
    apply qv_ext.
    - rewrite (qvadd_length (qvadd _ _)) by lia. rewrite (qvadd_length u) by lia. exact L6.
    - intros i.
      rewrite (nth_qvadd (qvadd _ _)) by lia. rewrite (nth_qvadd (qvscale _ _) u) by lia.
      rewrite (nth_qvadd u) by lia. rewrite !nth_qvscale. rewrite (nth_qvadd (qmatvec A u) b) by lia.
      ring. }
  split; [exact E|]. rewrite E. rewrite qvadd_length; lia.
Qed.

(* backward Euler: the assembled operator applied to x is x - dt A x, the right-hand side is u + dt b *)
Theorem be_system_spec A b u dt x : wf_sys (length u) A b = true -> length x = length u ->
  qmatvec (fst (be_system A b u dt)) x = qvsub x (qvscale dt (qmatvec A x)) /\
  snd (be_system A b u dt) = qvadd u (qvscale dt b).
Proof.
  intros H Hx. apply wf_sys_spec in H as [HA [HW Hb]]. unfold be_system; simpl. split; [|reflexivity].
  rewrite (matvec_msub (length u)); [| apply eye_wf | apply mscale_wf; exact HW | rewrite mscale_length, eye_length; lia].
  rewrite matvec_mscale. rewrite <- Hx. rewrite matvec_eye. reflexivity.
Qed.
