(* C10 -- ConjugateApprox on the operators LMRF actually builds for a 1-D field.

   The Gamma it draws from, Gamma(len(x) + alpha, sum_i phi_delta((Dx)_i) + beta), compared with the exact conditional of the
   smoothed density that keeps the LMRF's own number of factors len(Dx):  the RATE is that conditional's rate, the SHAPE is off by
   len(x) - len(Dx) = -1 (zero, periodic) resp. +1 (neumann) -- for every field size, state x and prior.  Against LMRF.logpdf
   itself it is therefore never exact on a 1-D field, even on constant states (where the smoothing is exact). *)
From CV Require Import Base.Tac Base.LinAlg Base.Cmp Model.C10_Conj Model.C10_ConjR Model.C10_Lmrf
                       Proofs.C10_Kernel Proofs.C10_Exact Proofs.C10_Approx Proofs.C10_Carrier.
From Coq Require Import QArith Qreals Reals Lra.

Lemma lmrf_diff_op_rows bc n : length (lmrf_diff_op bc n) = lmrf_rows bc n.
Proof. unfold lmrf_diff_op. rewrite map_length, seq_length. reflexivity. Qed.

Lemma lmrf_diff_op_wf bc n : wf_mat n (lmrf_diff_op bc n).
Proof.
  unfold wf_mat, lmrf_diff_op. apply Forall_forall. intros r Hr. apply in_map_iff in Hr as (i & <- & _).
  rewrite map_length, seq_length. reflexivity.
Qed.

(* no boundary condition gives a square operator *)
Lemma lmrf_rows_ne bc n : (0 < n)%nat -> lmrf_rows bc n <> n.
Proof. destruct bc; unfold lmrf_rows; lia. Qed.

Lemma lmrf_rows_offset bc n : (0 < n)%nat ->
  (Z.of_nat n - Z.of_nat (lmrf_rows bc n) = match bc with BNeumann => 1 | _ => -1 end)%Z.
Proof. destruct bc; unfold lmrf_rows; lia. Qed.

(* len(Dx) = the number of rows of the modelled operator *)
Lemma lmrf_len_Dx bc (x : Rvec) : length (Rmatvec (Q2Rm (lmrf_diff_op bc (length x))) x) = lmrf_rows bc (length x).
Proof. unfold Rmatvec. rewrite matvec_length. unfold Q2Rm. rewrite map_length. apply lmrf_diff_op_rows. Qed.

(* ---------------- 2-D ---------------- *)

Lemma flat_map_const_length {A B} (f : A -> list B) (l : list A) c :
  (forall x, length (f x) = c) -> length (flat_map f l) = (length l * c)%nat.
Proof. intros H. induction l as [|a l IH]; simpl; [reflexivity|]. rewrite app_length, H, IH. reflexivity. Qed.

Lemma lmrf_diff_op_2d_rows bc N : length (lmrf_diff_op_2d bc N) = (2 * N * lmrf_rows bc N)%nat.
Proof.
  unfold lmrf_diff_op_2d. rewrite app_length.
  rewrite (flat_map_const_length _ _ (lmrf_rows bc N)) by (intros i; rewrite map_length, seq_length; reflexivity).
  rewrite (flat_map_const_length _ _ N) by (intros i; rewrite map_length, seq_length; reflexivity).
  rewrite !seq_length. lia.
Qed.

Lemma lmrf_diff_op_2d_wf bc N : wf_mat (N * N) (lmrf_diff_op_2d bc N).
Proof.
  unfold wf_mat, lmrf_diff_op_2d. apply Forall_app. split; apply Forall_forall; intros r Hr;
    apply in_flat_map in Hr as (i & _ & Hr); apply in_map_iff in Hr as (k & <- & _); rewrite map_length, seq_length; reflexivity.
Qed.

(* the 2-D operator is square on the field only for the 2 x 2 neumann grid *)
Lemma lmrf_2d_square_iff bc N : (0 < N)%nat -> ((2 * N * lmrf_rows bc N = N * N)%nat <-> bc = BNeumann /\ N = 2%nat).
Proof.
  intros HN. destruct bc; unfold lmrf_rows.
  - split; [nia | intros [H _]; discriminate].
  - split; [nia | intros [H _]; discriminate].
  - split; [intros H; split; [reflexivity | nia] | intros [_ ->]; reflexivity].
Qed.

Lemma lmrf_len_Dx_2d bc N (x : Rvec) : length (Rmatvec (Q2Rm (lmrf_diff_op_2d bc N)) x) = (2 * N * lmrf_rows bc N)%nat.
Proof. unfold Rmatvec. rewrite matvec_length. unfold Q2Rm. rewrite map_length. apply lmrf_diff_op_2d_rows. Qed.

Open Scope R_scope.

Section LmrfOp.
Variable lnGamma : R -> R.
Notation gpdf := (gamma_logpdf lnGamma).
Notation post := (post_logd lnGamma).

(* the sampler's Gamma vs the exact conditional of the smoothed density with the LMRF's own factor count *)
Theorem approx_shape_offset_1d scale_fun delta bc (x : Rvec) alpha beta :
  (forall s, 0 < s -> scale_fun s = 1 / s) -> (0 < length x)%nat ->
  let D := Q2Rm (lmrf_diff_op bc (length x)) in
  let Dx := Rmatvec D x in
  (* the exact conditional of  (1/(2 scale))^len(Dx) exp(- sum phi_delta(Dx_i) / scale)  x  Gamma(alpha, beta) ... *)
  proportional_on_pos (post (fun s => lmrf_like_logpdf (length Dx) (approx_penalty delta Dx) (scale_fun s)) alpha beta)
     (gpdf (INR (length Dx) + alpha) (approx_rate_R delta D x beta))
  (* ... has the sampler's rate, and the sampler's shape differs from its shape by exactly -1 / +1 *)
  /\ approx_shape_R (length x) alpha = (INR (length Dx) + alpha) + match bc with BNeumann => 1 | _ => -1 end.
Proof.
  intros Hsc Hn D Dx. split.
  - apply (lmrf_like_exact_iff lnGamma scale_fun); [exact Hsc | split; reflexivity].
  - unfold approx_shape_R, Dx, D. rewrite lmrf_len_Dx.
    destruct bc; unfold lmrf_rows.
    + rewrite S_INR. lra.
    + rewrite S_INR. lra.
    + rewrite minus_INR by lia. simpl INR. lra.
Qed.

(* against the LMRF's own density: never exact on a 1-D field, whatever the state, delta and prior *)
Theorem approx_never_exact_1d scale_fun delta bc (x : Rvec) alpha beta :
  (forall s, 0 < s -> scale_fun s = 1 / s) -> (0 < length x)%nat ->
  ~ proportional_on_pos (post (lik_lmrf scale_fun (Q2Rm (lmrf_diff_op bc (length x))) x) alpha beta)
      (gpdf (approx_shape_R (length x) alpha) (approx_rate_R delta (Q2Rm (lmrf_diff_op bc (length x))) x beta)).
Proof.
  intros Hsc Hn H. apply (approx_vs_lmrf_iff lnGamma scale_fun delta) in H; [| exact Hsc].
  destruct H as [H _]. rewrite lmrf_len_Dx in H. exact (lmrf_rows_ne bc (length x) Hn H).
Qed.
(* 2-D, N x N grid: against LMRF.logpdf the sampler's Gamma is exact iff the grid is the 2 x 2 neumann one AND the state is constant
   along both axes (D x = 0) -- for every other boundary condition or size it is never exact *)
Theorem approx_exact_2d_iff scale_fun delta bc N (x : Rvec) alpha beta :
  0 < delta -> (forall s, 0 < s -> scale_fun s = 1 / s) -> (0 < N)%nat -> length x = (N * N)%nat ->
  let D := Q2Rm (lmrf_diff_op_2d bc N) in
  (proportional_on_pos (post (lik_lmrf scale_fun D x) alpha beta) (gpdf (approx_shape_R (length x) alpha) (approx_rate_R delta D x beta))
   <-> (bc = BNeumann /\ N = 2%nat) /\ Forall (fun t => t = 0) (Rmatvec D x)).
Proof.
  intros Hd Hsc HN Hx D. rewrite (approx_exact_iff_trivial lnGamma scale_fun delta D x alpha beta Hd Hsc).
  unfold D. rewrite lmrf_len_Dx_2d, Hx, (lmrf_2d_square_iff bc N HN). reflexivity.
Qed.

(* 2-D: the shape the sampler uses against the exact conditional of the smoothed density with the LMRF's own factor count:
   len(x) - len(Dx) = N^2 - 2 N rows -- about HALF the factors are not counted *)
Theorem approx_shape_offset_2d scale_fun delta bc N (x : Rvec) alpha beta :
  (forall s, 0 < s -> scale_fun s = 1 / s) -> length x = (N * N)%nat ->
  let D := Q2Rm (lmrf_diff_op_2d bc N) in
  let Dx := Rmatvec D x in
  proportional_on_pos (post (fun s => lmrf_like_logpdf (length Dx) (approx_penalty delta Dx) (scale_fun s)) alpha beta)
     (gpdf (INR (length Dx) + alpha) (approx_rate_R delta D x beta))
  /\ approx_shape_R (length x) alpha = (INR (length Dx) + alpha) + (INR (N * N) - INR (2 * N * lmrf_rows bc N)).
Proof.
  intros Hsc Hx D Dx. split.
  - apply (lmrf_like_exact_iff lnGamma scale_fun); [exact Hsc | split; reflexivity].
  - unfold approx_shape_R, Dx, D. rewrite lmrf_len_Dx_2d, Hx. lra.
Qed.
End LmrfOp.

(* a passing check_approx_op case is a passing check_approx case on the modelled operator; check_diffop says the object's is that one *)
Lemma check_diffop_sound bc n Dobs : check_diffop bc n Dobs = true -> qll_eqb (lmrf_diff_op bc n) Dobs = true.
Proof. intros H; exact H. Qed.

Example lmrf_op_2d_values :
  check_diffop_2d BNeumann 2 [[-1; 1; 0; 0]; [0; 0; -1; 1]; [-1; 0; 1; 0]; [0; -1; 0; 1]]%Q = true
  /\ length (lmrf_diff_op_2d BZero 2) = 12%nat /\ length (lmrf_diff_op_2d BPeriodic 3) = 24%nat.
Proof. repeat split; vm_compute; reflexivity. Qed.

Example lmrf_op_values :
  check_diffop BZero 2 [[1; 0]; [-1; 1]; [0; -1]]%Q = true
  /\ check_diffop BPeriodic 3 [[1; 0; -1]; [-1; 1; 0]; [0; -1; 1]; [1; 0; -1]]%Q = true
  /\ check_diffop BPeriodic 2 [[1; -1]; [-1; 1]; [1; -1]]%Q = true
  /\ check_diffop BNeumann 3 [[-1; 1; 0]; [0; -1; 1]]%Q = true.
Proof. repeat split; vm_compute; reflexivity. Qed.
