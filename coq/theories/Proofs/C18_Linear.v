(* C18, tier 2 -- the forward-Euler levels are THE solution of the recurrence (uniqueness), and they depend linearly
   on the data when the operator does not depend on the parameter: the difference of two solutions is the solution
   of the same scheme for the difference of sources and initial conditions (what a Jacobian of a PDE model whose
   parameter enters through source / initial condition has to reproduce). *)
From CV Require Import Base.Tac Base.LinAlg Base.Cmp Base.QcLin Model.C18_PDE Proofs.C18_Alg Proofs.C18_PDE.
From Coq Require Import QArith Qcanon.
Local Open Scope Qc_scope.

Lemma qmatvec_vsub A x y n : wf_mat n A -> length x = n -> length y = n ->
  qmatvec A (qvsub x y) = qvsub (qmatvec A x) (qmatvec A y).
Proof. apply (matvec_vsub Qc 0 1 Qcplus Qcmult Qcminus Qcopp Qcth). Qed.

Lemma euler_fwd_length A b u dt : wf_sys (length u) A b = true -> length (euler_fwd A b u dt) = length u.
Proof.
  intros H. destruct (fe_step_spec A b u dt H) as [E L]. unfold euler_fwd. rewrite <- E. exact L.
Qed.

Lemma euler_fwd_sub A b1 b2 u1 u2 dt :
  wf_sys (length u1) A b1 = true -> wf_sys (length u2) A b2 = true -> length u1 = length u2 ->
  euler_fwd A (qvsub b1 b2) (qvsub u1 u2) dt = qvsub (euler_fwd A b1 u1 dt) (euler_fwd A b2 u2 dt).
Proof.
  intros H1 H2 HL.
  pose proof (euler_fwd_length _ _ _ dt H1) as E1. pose proof (euler_fwd_length _ _ _ dt H2) as E2.
  apply wf_sys_spec in H1 as [HA1 [HW1 Hb1]]. apply wf_sys_spec in H2 as [HA2 [HW2 Hb2]].
  remember (length u1) as n eqn:Hn.
  assert (Lu : length (qvsub u1 u2) = n) by (rewrite qvsub_length; lia).
  assert (Lb : length (qvsub b1 b2) = n) by (rewrite qvsub_length; lia).
  assert (LA1 : length (qmatvec A u1) = n) by (rewrite qmatvec_length; exact HA1).
  assert (LA2 : length (qmatvec A u2) = n) by (rewrite qmatvec_length; exact HA1).
  unfold euler_fwd in *.
  rewrite (qmatvec_vsub A u1 u2 n HW1 (eq_sym Hn) (eq_sym HL)).
  apply qv_ext.
  - rewrite qvsub_length by lia. rewrite E1.
    rewrite qvadd_length; [exact Lu|]. rewrite qvscale_length, qvadd_length; rewrite ?qvsub_length; lia.
  - intros i.
    rewrite (nth_qvsub (qvadd u1 _)) by lia.
    rewrite (nth_qvadd (qvsub u1 u2)) by (rewrite qvscale_length, qvadd_length; rewrite ?qvsub_length; lia).
    rewrite (nth_qvadd u1) by (rewrite qvscale_length, qvadd_length; lia).
    rewrite (nth_qvadd u2) by (rewrite qvscale_length, qvadd_length; lia).
    rewrite !nth_qvscale.
    rewrite (nth_qvadd (qvsub (qmatvec A u1) (qmatvec A u2))) by (rewrite !qvsub_length; lia).
    rewrite (nth_qvadd (qmatvec A u1)) by lia. rewrite (nth_qvadd (qmatvec A u2)) by lia.
    rewrite !nth_qvsub by lia. ring.
Qed.

Section Lin.
Variable P : Type.
Variable I : Type.
Variable solver : nat -> qm -> qv -> sret I.
Variable form : P -> Qc -> qm * qv * qv.

(* ---- uniqueness ---- *)
Theorem forward_euler_unique Q p times levels info levels' :
  td_solve P I solver form Q MFwd (Some p) times = Ok (levels, info) ->
  length levels' = length times ->
  nth 0 levels' [] = fic P form p (nth 0 times 0) ->
  (forall k, (S k < length times)%nat ->
     nth (S k) levels' [] = euler_fwd (fA P form p (nth k times 0)) (fbn P form p (nth k times 0) (length (nth 0 levels' [])))
                                      (nth k levels' []) (nth (S k) times 0 - nth k times 0)) ->
  levels' = levels.
Proof.
  intros H HL H0 Hk.
  destruct (forward_euler P I solver form Q p times levels info H) as [_ [L [E0 Ek]]].
  assert (Hall : forall k, (k < length times)%nat -> nth k levels' [] = nth k levels []).
  { induction k as [|k IH]; intros Hlt.
    - rewrite H0, E0. reflexivity.
    - rewrite (Hk k Hlt). destruct (Ek k Hlt) as [_ Ek']. rewrite Ek'. rewrite IH by lia. rewrite H0, E0. reflexivity. }
  apply (nth_ext _ _ [] []); [transitivity (length times); [exact HL | symmetry; exact L]|].
  intros k Hlt. apply Hall. apply (Nat.lt_le_trans _ _ _ Hlt). apply Nat.eq_le_incl. exact HL.
Qed.

(* ---- linear dependence on the data ---- *)
Variable Pd : Type.
Variable formd : Pd -> Qc -> qm * qv * qv.

Lemma fe_loop_difference p1 p2 pd :
  (forall t n, fA P form p1 t = fA P form p2 t /\ fA Pd formd pd t = fA P form p1 t /\
             fbn Pd formd pd t n = qvsub (fbn P form p1 t n) (fbn P form p2 t n)) ->
  forall rest t u1 u2 l1 l2,
  length u1 = length u2 ->
  fe_loop P form p1 t rest u1 = Ok l1 -> fe_loop P form p2 t rest u2 = Ok l2 ->
  fe_loop Pd formd pd t rest (qvsub u1 u2) = Ok (map2 qvsub l1 l2).
Proof.
  intros Hf. induction rest as [|t' rest IH]; intros t u1 u2 l1 l2 HL H1 H2; simpl in *.
  - inversion H1; inversion H2; subst. reflexivity.
  - destruct (Hf t (length u1)) as [HA [HAd Hbd]]. unfold fbn, fA, fb in HA, HAd, Hbd.
    destruct (form p1 t) as [[A1 b10] c1]. destruct (form p2 t) as [[A2 b20] c2]. destruct (formd pd t) as [[Ad bd0] cd].
    cbn [fst snd] in HA, HAd, Hbd. subst A2 Ad. cbn zeta in *.
    rewrite (qvsub_length u1 u2 HL). rewrite Hbd. rewrite <- HL in *.
    set (b1 := bc (length u1) b10) in *. set (b2 := bc (length u1) b20) in *.
    destruct (wf_sys (length u1) A1 b1) eqn:W1; [|discriminate].
    destruct (wf_sys (length u1) A1 b2) eqn:W2; [|discriminate].
    destruct (fe_loop P form p1 t' rest (fe_step A1 b1 u1 (t' - t))) as [l1'|] eqn:E1; [|discriminate].
    destruct (fe_loop P form p2 t' rest (fe_step A1 b2 u2 (t' - t))) as [l2'|] eqn:E2; [|discriminate].
    inversion H1; inversion H2; subst. clear H1 H2.
    assert (Wd : wf_sys (length u1) A1 (qvsub b1 b2) = true).
    {
      pose proof (wf_sys_spec _ _ _ W1) as [Ha [Hw Hb1]]. pose proof (wf_sys_spec _ _ _ W2) as [_ [_ Hb2]].
      unfold wf_sys. apply andb_true_iff. split.
      - unfold wf_sys in W1. apply andb_true_iff in W1 as [W _]. exact W.
      - apply Nat.eqb_eq. rewrite qvsub_length; lia. }
    rewrite Wd.
    assert (W2' : wf_sys (length u2) A1 b2 = true) by (rewrite <- HL; exact W2).
    assert (Wd' : wf_sys (length (qvsub u1 u2)) A1 (qvsub b1 b2) = true) by (rewrite qvsub_length by exact HL; exact Wd).
    destruct (fe_step_spec A1 b1 u1 (t' - t) W1) as [S1 L1]. destruct (fe_step_spec A1 b2 u2 (t' - t) W2') as [S2 L2].
    destruct (fe_step_spec A1 (qvsub b1 b2) (qvsub u1 u2) (t' - t) Wd') as [Sd Ld].
    assert (Estep : fe_step A1 (qvsub b1 b2) (qvsub u1 u2) (t' - t)
                    = qvsub (fe_step A1 b1 u1 (t' - t)) (fe_step A1 b2 u2 (t' - t))).
    { rewrite Sd, S1, S2. exact (euler_fwd_sub A1 b1 b2 u1 u2 (t' - t) W1 W2' HL). }
    rewrite Estep.
    rewrite (IH t' _ _ l1' l2'); [reflexivity | lia | exact E1 | exact E2].
Qed.

(* if the operator does not depend on the parameter, the difference of the forward-Euler solutions for two parameters
   is the forward-Euler solution of the problem whose source and initial condition are the differences *)
Theorem forward_euler_difference Q p1 p2 pd times l1 l2 i1 i2 :
  (forall t n, fA P form p1 t = fA P form p2 t /\ fA Pd formd pd t = fA P form p1 t /\
             fbn Pd formd pd t n = qvsub (fbn P form p1 t n) (fbn P form p2 t n) /\
             fic Pd formd pd t = qvsub (fic P form p1 t) (fic P form p2 t)) ->
  length (fic P form p1 (nth 0 times 0)) = length (fic P form p2 (nth 0 times 0)) ->
  td_solve P I solver form Q MFwd (Some p1) times = Ok (l1, i1) ->
  td_solve P I solver form Q MFwd (Some p2) times = Ok (l2, i2) ->
  td_solve Pd I solver formd Q MFwd (Some pd) times = Ok (map2 qvsub l1 l2, None).
Proof.
  intros Hf HL H1 H2. unfold td_solve in *. destruct times as [|t0 rest]; [discriminate|].
  destruct (Hf t0 0%nat) as [_ [_ [_ Hic]]]. unfold fic in Hic, HL. cbn [nth] in HL.
  destruct (form p1 t0) as [[A1 b1] c1] eqn:F1. destruct (form p2 t0) as [[A2 b2] c2] eqn:F2.
  destruct (formd pd t0) as [[Ad bd] cd] eqn:Fd. cbn [snd] in Hic, HL. subst cd.
  cbn [effective_method] in *.
  destruct (fe_loop P form p1 t0 rest c1) as [ls1|] eqn:E1; [|discriminate].
  destruct (fe_loop P form p2 t0 rest c2) as [ls2|] eqn:E2; [|discriminate].
  inversion H1; inversion H2; subst. clear H1 H2.
  assert (Hf' : forall t n, fA P form p1 t = fA P form p2 t /\ fA Pd formd pd t = fA P form p1 t /\
                          fbn Pd formd pd t n = qvsub (fbn P form p1 t n) (fbn P form p2 t n)).
  { intros t n. destruct (Hf t n) as [a [b [c _]]]. auto. }
  rewrite (fe_loop_difference p1 p2 pd Hf' rest t0 c1 c2 ls1 ls2 HL E1 E2). reflexivity.
Qed.
End Lin.

(* ================= backward Euler: uniqueness and linearity, given invertible step operators ================= *)
(* the implicit step operator  x |-> x - dt A x  (what I - dt A does to a vector) *)
Definition imp_op (A : qm) (dt : Qc) (x : qv) : qv := qvsub x (qvscale dt (qmatvec A x)).
(* invertibility of I - dt A, as far as it is needed: injective on vectors of n nodes *)
Definition inj_on (n : nat) (A : qm) (dt : Qc) : Prop :=
  forall x y, length x = n -> length y = n -> imp_op A dt x = imp_op A dt y -> x = y.

Lemma imp_op_length A dt x : length A = length x -> length (imp_op A dt x) = length x.
Proof. intros H. unfold imp_op. rewrite qvsub_length; [reflexivity|]. rewrite qvscale_length, qmatvec_length. symmetry; exact H. Qed.

Lemma imp_op_sub n A dt x y : wf_mat n A -> length A = n -> length x = n -> length y = n ->
  imp_op A dt (qvsub x y) = qvsub (imp_op A dt x) (imp_op A dt y).
Proof.
  intros HW HA Hx Hy. unfold imp_op. rewrite (qmatvec_vsub A x y n HW Hx Hy).
  assert (L1 : length (qmatvec A x) = n) by (rewrite qmatvec_length; exact HA).
  assert (L2 : length (qmatvec A y) = n) by (rewrite qmatvec_length; exact HA).
  assert (L3 : length (qvsub x y) = n) by (rewrite qvsub_length; lia).
  assert (L4 : length (qvsub (qmatvec A x) (qmatvec A y)) = n) by (rewrite qvsub_length; lia).
  assert (L5 : length (qvscale dt (qmatvec A x)) = n) by (rewrite qvscale_length; exact L1).
  assert (L6 : length (qvscale dt (qmatvec A y)) = n) by (rewrite qvscale_length; exact L2).
  assert (L7 : length (qvscale dt (qvsub (qmatvec A x) (qmatvec A y))) = n) by (rewrite qvscale_length; exact L4).
  assert (L8 : length (qvsub x (qvscale dt (qmatvec A x))) = n) by (rewrite qvsub_length; lia).
  assert (L9 : length (qvsub y (qvscale dt (qmatvec A y))) = n) by (rewrite qvsub_length; lia).
  apply qv_ext.
  - rewrite (qvsub_length (qvsub x y)) by lia. rewrite (qvsub_length (qvsub x _)) by lia. lia.
  - intros i.
    rewrite (nth_qvsub (qvsub x y)) by lia.
    rewrite (nth_qvsub (qvsub x _)) by lia.
    rewrite (nth_qvsub x (qvscale _ _)) by lia.
    rewrite (nth_qvsub y (qvscale _ _)) by lia.
    rewrite !nth_qvscale. rewrite (nth_qvsub x y) by lia. rewrite (nth_qvsub (qmatvec A x)) by lia. ring.
Qed.

Lemma rhs_sub n u1 u2 b1 b2 dt : length u1 = n -> length u2 = n -> length b1 = n -> length b2 = n ->
  qvadd (qvsub u1 u2) (qvscale dt (qvsub b1 b2)) = qvsub (qvadd u1 (qvscale dt b1)) (qvadd u2 (qvscale dt b2)).
Proof.
  intros H1 H2 H3 H4.
  assert (M1 : length (qvsub u1 u2) = n) by (rewrite qvsub_length; lia).
  assert (M2 : length (qvsub b1 b2) = n) by (rewrite qvsub_length; lia).
  assert (M3 : length (qvscale dt (qvsub b1 b2)) = n) by (rewrite qvscale_length; exact M2).
  assert (M4 : length (qvscale dt b1) = n) by (rewrite qvscale_length; exact H3).
  assert (M5 : length (qvscale dt b2) = n) by (rewrite qvscale_length; exact H4).
  assert (M6 : length (qvadd u1 (qvscale dt b1)) = n) by (rewrite qvadd_length; lia).
  assert (M7 : length (qvadd u2 (qvscale dt b2)) = n) by (rewrite qvadd_length; lia).
  apply qv_ext.
  - rewrite (qvadd_length (qvsub u1 u2)) by lia. rewrite (qvsub_length (qvadd u1 _)) by lia. lia.
  - intros i.
    rewrite (nth_qvadd (qvsub u1 u2)) by lia.
    rewrite (nth_qvsub (qvadd u1 _)) by lia.
    rewrite (nth_qvadd u1) by lia. rewrite (nth_qvadd u2) by lia.
    rewrite !nth_qvscale. rewrite (nth_qvsub u1 u2) by lia. rewrite (nth_qvsub b1 b2) by lia. ring.
Qed.

Lemma nth_map2_qvsub (l1 l2 : list qv) k : length l1 = length l2 -> (k < length l1)%nat ->
  nth k (map2 qvsub l1 l2) [] = qvsub (nth k l1 []) (nth k l2 []).
Proof.
  revert l2 k; induction l1 as [|a l1 IH]; intros [|b l2] k HL Hk; simpl in *; try lia.
  destruct k; [reflexivity | apply IH; lia].
Qed.
Lemma map2_length {A B C} (f : A -> B -> C) l1 l2 : length l1 = length l2 -> length (map2 f l1 l2) = length l1.
Proof. revert l2; induction l1 as [|a l1 IH]; intros [|b l2] H; simpl in *; try lia. f_equal. apply IH. lia. Qed.

Section BELin.
Variable P : Type.
Variable I : Type.
Variable solver : nat -> qm -> qv -> sret I.
Variable form : P -> Qc -> qm * qv * qv.

(* every step operator of the run is injective on vectors of n nodes *)
Definition be_invertible (p : P) (times : qv) (n : nat) : Prop :=
  forall k, (S k < length times)%nat -> inj_on n (fA P form p (nth (S k) times 0)) (nth (S k) times 0 - nth k times 0).

(* uniqueness: when the solver's answers obey its law on the calls of the run and the step operators are invertible,
   the stored levels are THE sequence satisfying  u_{k+1} - dt A(p,t_{k+1}) u_{k+1} = u_k + dt b(p,t_{k+1})  from the
   initial condition *)
Theorem backward_euler_unique Q p times levels info levels' :
  td_solve P I solver form Q MBwd (Some p) times = Ok (levels, info) ->
  be_law_on_calls P I solver form p times levels ->
  be_invertible p times (length (nth 0 levels [])) ->
  length levels' = length times ->
  nth 0 levels' [] = fic P form p (nth 0 times 0) ->
  (forall k, (S k < length times)%nat ->
     length (nth (S k) levels' []) = length (nth 0 levels []) /\
     imp_op (fA P form p (nth (S k) times 0)) (nth (S k) times 0 - nth k times 0) (nth (S k) levels' [])
       = qvadd (nth k levels' []) (qvscale (nth (S k) times 0 - nth k times 0)
                                          (fbn P form p (nth (S k) times 0) (length (nth 0 levels []))))) ->
  levels' = levels.
Proof.
  intros H Hlaw Hinj HL H0 Hk.
  destruct (backward_euler P I solver form Q p times levels info H) as [L [E0 Ek]].
  assert (Hall : forall k, (k < length times)%nat -> nth k levels' [] = nth k levels []).
  { induction k as [|k IH]; intros Hlt.
    - rewrite H0, E0. reflexivity.
    - specialize (Ek k Hlt). cbn zeta in Ek. destruct Ek as [_ [Ln [_ [_ [_ Hrec]]]]].
      destruct (Hk k Hlt) as [Ln' Hrec'].
      apply (Hinj k Hlt); [exact Ln' | exact Ln |].
      unfold imp_op in *. rewrite Hrec'. rewrite (Hrec (Hlaw k Hlt)). rewrite IH by lia. reflexivity. }
  apply (nth_ext _ _ [] []); [transitivity (length times); [exact HL | symmetry; exact L]|].
  intros k Hlt. apply Hall. apply (Nat.lt_le_trans _ _ _ Hlt). apply Nat.eq_le_incl. exact HL.
Qed.

End BELin.

Definition backward_euler_unique_gen := backward_euler_unique.

Section BELin2.
Variable P : Type.
Variable I : Type.
Variable solver : nat -> qm -> qv -> sret I.
Variable form : P -> Qc -> qm * qv * qv.

(* linearity in the data: with a parameter-independent operator, invertible step operators and solvers obeying their
   law on the calls made, the backward-Euler solution for the difference of sources and initial conditions is the
   difference of the solutions, level by level *)
Variable Pd : Type.
Variable formd : Pd -> Qc -> qm * qv * qv.
Variable solver1 solver2 : nat -> qm -> qv -> sret I.

Theorem backward_euler_difference Q p1 p2 pd times l1 l2 ld i1 i2 id :
  (forall t n, fA P form p1 t = fA P form p2 t /\ fA Pd formd pd t = fA P form p1 t /\
               fbn Pd formd pd t n = qvsub (fbn P form p1 t n) (fbn P form p2 t n) /\
               fic Pd formd pd t = qvsub (fic P form p1 t) (fic P form p2 t)) ->
  length (fic P form p1 (nth 0 times 0)) = length (fic P form p2 (nth 0 times 0)) ->
  td_solve P I solver1 form Q MBwd (Some p1) times = Ok (l1, i1) ->
  td_solve P I solver2 form Q MBwd (Some p2) times = Ok (l2, i2) ->
  td_solve Pd I solver formd Q MBwd (Some pd) times = Ok (ld, id) ->
  be_law_on_calls P I solver1 form p1 times l1 -> be_law_on_calls P I solver2 form p2 times l2 ->
  be_law_on_calls Pd I solver formd pd times ld ->
  (forall k, (S k < length times)%nat ->
     inj_on (length (fic P form p1 (nth 0 times 0))) (fA P form p1 (nth (S k) times 0)) (nth (S k) times 0 - nth k times 0)) ->
  ld = map2 qvsub l1 l2.
Proof.
  intros Hf HL0 H1 H2 Hd W1 W2 Wd Hinj.
  destruct (backward_euler P I solver1 form Q p1 times l1 i1 H1) as [L1 [E1 K1]].
  destruct (backward_euler P I solver2 form Q p2 times l2 i2 H2) as [L2 [E2 K2]].
  destruct (backward_euler Pd I solver formd Q pd times ld id Hd) as [Ld [Ed Kd]].
  assert (L12 : length l1 = length l2) by (transitivity (length times); [exact L1 | symmetry; exact L2]).
  destruct (Hf (nth 0 times 0) 0%nat) as [_ [_ [_ Hic]]].
  assert (N1 : length (nth 0 l1 []) = length (fic P form p1 (nth 0 times 0))) by (rewrite E1; reflexivity).
  assert (N2 : length (nth 0 l2 []) = length (fic P form p1 (nth 0 times 0))) by (rewrite E2; symmetry; exact HL0).
  assert (Nd : length (nth 0 ld []) = length (fic P form p1 (nth 0 times 0))).
  { rewrite Ed, Hic. rewrite qvsub_length; [reflexivity | exact HL0]. }
  symmetry.
  apply (backward_euler_unique_gen Pd I solver formd Q pd times ld id (map2 qvsub l1 l2) Hd Wd).
  - intros k Hk. rewrite Nd. destruct (Hf (nth (S k) times 0) 0%nat) as [_ [HAd _]]. rewrite HAd. apply Hinj. exact Hk.
  - rewrite map2_length by exact L12. exact L1.
  - destruct times as [|t0 rest]; [unfold td_solve in H1; discriminate H1|].
    rewrite nth_map2_qvsub; [| exact L12 | rewrite L1; simpl; lia]. rewrite E1, E2, Hic. reflexivity.
  - intros k Hk.
    rewrite !nth_map2_qvsub; try exact L12; try (rewrite L1; lia).
    specialize (K1 k Hk). specialize (K2 k Hk). cbn zeta in K1, K2.
    destruct K1 as [A1 [B1 [C1 [_ [_ R1]]]]]. destruct K2 as [A2 [B2 [C2 [_ [_ R2]]]]].
    rewrite N1 in *. rewrite N2 in *. rewrite Nd.
    set (n := length (fic P form p1 (nth 0 times 0))) in *.
    destruct (Hf (nth (S k) times 0) n) as [HA [HAd [Hb _]]].
    pose proof (wf_sys_spec _ _ _ C1) as [HlA [HwA Hb1]]. pose proof (wf_sys_spec _ _ _ C2) as [_ [_ Hb2]].
    split; [rewrite qvsub_length; lia|].
    rewrite HAd. rewrite (imp_op_sub n _ _ _ _ HwA HlA B1 B2).
    unfold imp_op. rewrite (R1 (W1 k Hk)). rewrite <- HA in R2. rewrite (R2 (W2 k Hk)).
    rewrite Hb. symmetry. apply (rhs_sub n); assumption.
Qed.
End BELin2.

(* ================= non-vacuity of the backward-Euler hypotheses ================= *)
Lemma inj_on_scalar (a dt : Qc) : 1 - dt * a <> 0 -> inj_on 1 [[a]] dt.
Proof.
  intros Hne x y Hx Hy H.
  destruct x as [|x1 [|? ?]]; simpl in Hx; try lia. destruct y as [|y1 [|? ?]]; simpl in Hy; try lia.
  unfold imp_op, qvsub, qvscale, qmatvec, matvec, vscale in H. cbn [map dot vsub] in H.
  apply (f_equal (fun l : list Qc => nth 0 l 0)) in H. cbn [nth] in H.
  assert (E : (x1 - y1) * (1 - dt * a) = 0).
  { transitivity ((x1 - dt * (a * x1 + 0)) - (y1 - dt * (a * y1 + 0))); [ring | rewrite H; ring]. }
  apply Qcmult_integral in E. destruct E as [E|E]; [|contradiction].
  f_equal. transitivity (x1 - y1 + y1); [ring | rewrite E; ring].
Qed.

Definition ex1_form (p : qv) (t : Qc) : qm * qv * qv := ([[qc (-2 # 1)]], [t], p).
Definition ex1_solver (k : nat) (A : qm) (b : qv) : sret Z :=
  match A, b with [[m]], [r] => SPlain [(r / m)%Qc] | _, _ => SPlain [] end.

Example ex_be_hypotheses :
  let times := [qc (0 # 1); qc (1 # 4); qc (3 # 4)] in
  let p := [qc (3 # 1)] in
  exists levels, td_solve qv Z ex1_solver ex1_form quirks_fixed MBwd (Some p) times = Ok (levels, None) /\
    be_law_on_calls qv Z ex1_solver ex1_form p times levels /\
    be_invertible qv ex1_form p times (length (nth 0 levels [])).
Proof.
  cbn zeta. eexists. split; [vm_compute; reflexivity|]. split.
  - intros k Hk. cbn zeta. apply (proj1 (list_eqb_spec qc_eqb qc_eqb_eq _ _)).
    destruct k as [|[|k]]; [vm_compute; reflexivity | vm_compute; reflexivity | simpl in Hk; lia].
  - intros k Hk. change (length (nth 0 _ [])) with 1%nat. unfold fA, ex1_form. cbn [fst].
    apply inj_on_scalar. destruct k as [|[|k]]; [| | simpl in Hk; lia];
      intro H; apply (f_equal this) in H; vm_compute in H; discriminate.
Qed.

(* ================= backward Euler is defined; the pipeline is linear in the data ================= *)
Section More.
Variable P : Type.
Variable I : Type.
Variable solver : nat -> qm -> qv -> sret I.
Variable form : P -> Qc -> qm * qv * qv.

Lemma be_loop_defined p : forall rest k t u info0,
  (forall s, wf_sys (length u) (fA P form p s) (fbn P form p s (length u)) = true) ->
  (forall k' M r, length r = length u -> length (sret_sol (solver k' M r)) = length u) ->
  exists ls ie, be_loop P I solver form p k t rest u info0 = Ok (ls, ie).
Proof.
  induction rest as [|t' rest IH]; intros k t u info0 Hw Hs; simpl; [eexists; eexists; reflexivity|].
  pose proof (Hw t') as Hwt. unfold fbn, fA, fb in Hwt. destruct (form p t') as [[A b0] c] eqn:Ef. cbn [fst snd] in Hwt. cbn zeta. rewrite Hwt.
  unfold solve_linear_system.
  set (M := msub (eye (length u)) (mscale (t' - t) A)). set (r := qvadd u (qvscale (t' - t) (bc (length u) b0))).
  assert (Lr : length r = length u).
  { unfold r. apply wf_sys_spec in Hwt as [_ [_ Hb]]. rewrite qvadd_length; [reflexivity|]. rewrite qvscale_length. symmetry; exact Hb. }
  pose proof (Hs k M r Lr) as Lx. unfold sret_sol in Lx.
  destruct (split_ret (solver k M r)) as [u' i'] eqn:Es. cbn [fst] in Lx. rewrite Lx, Nat.eqb_refl.
  destruct (IH (S k) t' u' i') as [ls [ie Hls]].
  - rewrite Lx. exact Hw.
  - intros k' M' r' Hr'. rewrite Lx in *. apply Hs. exact Hr'.
  - rewrite Hls. eexists; eexists; reflexivity.
Qed.

(* backward Euler returns (for the repaired single-level case: any non-empty grid; for the code as it was: at least two levels)
   whenever every assembled system has the size of the initial condition and the solver returns vectors of that size *)
Theorem backward_euler_defined Q p t0 t1 rest :
  (forall s, wf_sys (length (fic P form p t0)) (fA P form p s) (fbn P form p s (length (fic P form p t0))) = true) ->
  (forall k M r, length r = length (fic P form p t0) -> length (sret_sol (solver k M r)) = length (fic P form p t0)) ->
  exists levels info, td_solve P I solver form Q MBwd (Some p) (t0 :: t1 :: rest) = Ok (levels, info).
Proof.
  intros Hw Hs. unfold td_solve. unfold fic in *. destruct (form p t0) as [[A0 b0] ic] eqn:E0. cbn [snd] in Hw, Hs.
  cbn [effective_method]. destruct (be_loop_defined p (t1 :: rest) 0 t0 ic None Hw Hs) as [ls [ie Hls]].
  rewrite Hls. eexists; eexists; reflexivity.
Qed.
End More.

(* PDEModel's forward map is affine in the parameter when the parameter enters only through source and initial condition
   (forward Euler, equal grids, final-time observation, no observation map): forward(p1) - forward(p2) is the forward value of
   the difference problem -- the fact a constant Jacobian of such a model has to reproduce *)
Theorem forward_pipeline_difference (P Pd I : Type) (solver : nat -> qm -> qv -> sret I) (form : P -> Qc -> qm * qv * qv)
        (formd : Pd -> Qc -> qm * qv * qv) Q interp2 G times T (p1 p2 : P) (pd : Pd) prev1 prev2 prevd o1 o2 :
  g_eq G = true -> last_opt times = Some T ->
  (forall t n, fA P form p1 t = fA P form p2 t /\ fA Pd formd pd t = fA P form p1 t /\
               fbn Pd formd pd t n = qvsub (fbn P form p1 t n) (fbn P form p2 t n) /\
               fic Pd formd pd t = qvsub (fic P form p1 t) (fic P form p2 t)) ->
  length (fic P form p1 (nth 0 times 0)) = length (fic P form p2 (nth 0 times 0)) ->
  td_forward P I solver form Q None interp2 G MFwd times [T] prev1 p1 = Ok (A1 o1) ->
  td_forward P I solver form Q None interp2 G MFwd times [T] prev2 p2 = Ok (A1 o2) ->
  td_forward Pd I solver formd Q None interp2 G MFwd times [T] prevd pd = Ok (A1 (qvsub o1 o2)).
Proof.
  intros Hg HT Hf HL H1 H2.
  unfold td_forward, td_assemble in *.
  destruct (td_solve P I solver form Q MFwd (Some p1) times) as [[l1 i1]|e1] eqn:S1; [|discriminate].
  destruct (td_solve P I solver form Q MFwd (Some p2) times) as [[l2 i2]|e2] eqn:S2; [|discriminate].
  rewrite (forward_euler_difference P I solver form Pd formd Q p1 p2 pd times l1 l2 i1 i2 Hf HL S1 S2).
  destruct (forward_euler P I solver form Q p1 times l1 i1 S1) as [_ [L1 _]].
  destruct (forward_euler P I solver form Q p2 times l2 i2 S2) as [_ [L2 _]].
  assert (Hlast : forall (a b : list qv), length a = length b -> forall x y, last_opt a = Some x -> last_opt b = Some y ->
                  last_opt (map2 qvsub a b) = Some (qvsub x y)).
  { induction a as [|a0 a IH]; intros [|b0 b] HLab x y Hx Hy; simpl in *; try discriminate.
    destruct a as [|a1 a]; destruct b as [|b1 b]; simpl in HLab; try lia.
    - inversion Hx; inversion Hy; subst. reflexivity.
    - simpl. apply (IH (b1 :: b)); [simpl; lia | exact Hx | exact Hy]. }
  destruct (last_opt l1) as [u1|] eqn:E1.
  2:{ rewrite (observe_restriction_none Q None interp2 G times T l1 Hg HT E1) in H1. discriminate. }
  destruct (last_opt l2) as [u2|] eqn:E2.
  2:{ rewrite (observe_restriction_none Q None interp2 G times T l2 Hg HT E2) in H2. discriminate. }
  rewrite (observe_restriction Q None interp2 G times T l1 u1 Hg HT E1) in H1.
  rewrite (observe_restriction Q None interp2 G times T l2 u2 Hg HT E2) in H2.
  rewrite (observe_restriction Q None interp2 G times T (map2 qvsub l1 l2) (qvsub u1 u2) Hg HT
             (Hlast l1 l2 (eq_trans L1 (eq_sym L2)) u1 u2 E1 E2)).
  cbn [apply_obsmap] in *.
  inversion H1 as [H1']. inversion H2 as [H2']. subst. reflexivity.
Qed.

(* non-vacuity of C18_forward_pipeline_linear_in_data: the 2-node heat problem with the parameter as initial condition *)
Definition exd_form (p : qv) (t : Qc) : qm * qv * qv :=
  ([[qc (-2 # 1); qc (1 # 1)]; [qc (1 # 1); qc (-2 # 1)]], [qc (0 # 1); qc (0 # 1)], p).

Example ex_pipeline_hypotheses :
  let times := [qc (0 # 1); qc (1 # 4); qc (3 # 4)] in
  let p1 := [qc (4 # 1); qc (8 # 1)] in let p2 := [qc (1 # 1); qc (-2 # 1)] in
  let G := init_grids None None in
  (forall t n, fA qv ex_form p1 t = fA qv ex_form p2 t /\ fA qv exd_form (qvsub p1 p2) t = fA qv ex_form p1 t /\
               fbn qv exd_form (qvsub p1 p2) t n = qvsub (fbn qv ex_form p1 t n) (fbn qv ex_form p2 t n) /\
               fic qv exd_form (qvsub p1 p2) t = qvsub (fic qv ex_form p1 t) (fic qv ex_form p2 t)) /\
  g_eq G = true /\ last_opt times = Some (qc (3 # 4)) /\
  exists o1 o2, td_forward qv Z ex_solver ex_form quirks_fixed None const_interp2 G MFwd times [qc (3 # 4)] None p1 = Ok (A1 o1) /\
                td_forward qv Z ex_solver ex_form quirks_fixed None const_interp2 G MFwd times [qc (3 # 4)] None p2 = Ok (A1 o2).
Proof.
  cbn zeta. split.
  - intros t n. unfold fA, fbn, fb, fic, ex_form, exd_form. cbn [fst snd bc]. repeat split.
    unfold qvsub. cbn [vsub]. change (qc (0 # 1)) with 0%Qc. repeat (f_equal; try ring).
  - split; [reflexivity|]. split; [reflexivity|].
    eexists. eexists. split; vm_compute; reflexivity.
Qed.
