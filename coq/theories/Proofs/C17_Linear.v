(* C17 (second deepening) -- the Heat1D solution map is linear in the initial condition (every step count, every size);
   composed with an expansion geometry whose par2fun is linear (C13's law for KL / Step / Continuous1D, taken here as a
   hypothesis) the forward model of Heat1D and Abel1D is linear in the parameters. *)
From CV Require Import Base.Tac Base.LinAlg Model.C17_TP Model.C17_More Proofs.C17_Assembly.
From Coq Require Import Ring.

Section Lin.
Variable R : Type.
Variables (r0 r1 : R) (radd rmul rsub : R -> R -> R) (ropp : R -> R).
Hypothesis Rth : ring_theory r0 r1 radd rmul rsub ropp (@eq R).
Add Ring Rring17l : Rth.
Local Notation vadd := (vadd radd).
Local Notation vscale := (vscale rmul).
Local Notation matvec := (matvec r0 radd rmul).
Local Notation estep := (euler_step r0 radd rmul).
Local Notation efinal := (euler_final r0 radd rmul).

Lemma last_nonempty_indep {B} (l : list B) d d' : l <> [] -> last l d = last l d'.
Proof.
  induction l as [|a [|b l] IH]; intros H; [congruence | reflexivity |]. cbn [last] in *. apply IH. discriminate.
Qed.

Lemma euler_levels_nonempty steps A u : euler_levels r0 radd rmul steps A u <> [].
Proof. destruct steps; discriminate. Qed.

Lemma euler_final_0 A u : efinal 0 A u = u.
Proof. reflexivity. Qed.

Lemma euler_final_S k A u : efinal (S k) A u = efinal k A (estep A u).
Proof.
  unfold euler_final. cbn [euler_levels].
  pose proof (euler_levels_nonempty k A (estep A u)) as H.
  destruct (euler_levels r0 radd rmul k A (estep A u)) as [|a l] eqn:E; [congruence|].
  cbn [last]. destruct l as [|b l']; [reflexivity|]. apply last_nonempty_indep. discriminate.
Qed.

Lemma vadd_swap (a b c d : list R) : length a = length b -> length b = length c -> length c = length d ->
  vadd (vadd a b) (vadd c d) = vadd (vadd a c) (vadd b d).
Proof.
  revert b c d; induction a as [|x a IH]; intros [|y b] [|z c] [|w d] H1 H2 H3; simpl in *; try discriminate; try reflexivity.
  f_equal; [ring | apply IH; lia].
Qed.

Lemma vscale_vadd c (a b : list R) : length a = length b -> vscale c (vadd a b) = vadd (vscale c a) (vscale c b).
Proof.
  revert b; induction a as [|x a IH]; intros [|y b] H; simpl in *; try discriminate; try reflexivity.
  f_equal; [ring | apply IH; lia].
Qed.

Lemma euler_step_length n A u : length A = n -> length u = n -> length (estep A u) = n.
Proof.
  intros HA Hu. unfold euler_step.
  assert (HM : length (matvec A u) = n) by (rewrite matvec_length; exact HA).
  rewrite (vadd_length R radd) by lia. exact HM.
Qed.

Lemma euler_step_additive n A u v : wf_mat n A -> length A = n -> length u = n -> length v = n ->
  estep A (vadd u v) = vadd (estep A u) (estep A v).
Proof.
  intros Hwf HA Hu Hv. unfold euler_step.
  rewrite (matvec_vadd R r0 r1 radd rmul rsub ropp Rth A u v n) by assumption.
  apply vadd_swap; rewrite ?matvec_length; lia.
Qed.

Lemma euler_step_homogeneous n A c u : wf_mat n A -> length A = n -> length u = n ->
  estep A (vscale c u) = vscale c (estep A u).
Proof.
  intros Hwf HA Hu. unfold euler_step.
  rewrite (matvec_vscale R r0 r1 radd rmul rsub ropp Rth), vscale_vadd by (rewrite matvec_length; lia). reflexivity.
Qed.

(* the Heat1D solution map is linear in the initial condition *)
Theorem euler_final_linear n A steps : wf_mat n A -> length A = n ->
  (forall u v, length u = n -> length v = n -> efinal steps A (vadd u v) = vadd (efinal steps A u) (efinal steps A v)) /\
  (forall c u, length u = n -> efinal steps A (vscale c u) = vscale c (efinal steps A u)) /\
  (forall u, length u = n -> length (efinal steps A u) = n).
Proof.
  intros Hwf HA. induction steps as [|k [IHa [IHh IHl]]].
  - repeat split; intros; rewrite ?euler_final_0; auto.
  - repeat split.
    + intros u v Hu Hv. rewrite !euler_final_S, (euler_step_additive n) by assumption.
      apply IHa; apply (euler_step_length n); assumption.
    + intros c u Hu. rewrite !euler_final_S, (euler_step_homogeneous n) by assumption.
      apply IHh. apply (euler_step_length n); assumption.
    + intros u Hu. rewrite euler_final_S. apply IHl. apply (euler_step_length n); assumption.
Qed.

(* forward model through a domain geometry: solve (par2fun p); with a LINEAR par2fun (hypothesis: C13's law of the
   expansion geometries) and no map, the forward model is linear in the parameters *)
Theorem forward_through_linear_geometry (m n k : nat) (par2fun solve : list R -> list R) :
  additive R radd m par2fun -> homogeneous R rmul m par2fun -> maps_to R m n par2fun ->
  additive R radd n solve -> homogeneous R rmul n solve -> maps_to R n k solve ->
  additive R radd m (fun p => solve (par2fun p)) /\ homogeneous R rmul m (fun p => solve (par2fun p)) /\
  maps_to R m k (fun p => solve (par2fun p)).
Proof.
  intros Ha Hh Hm Sa Sh Sm. repeat split.
  - intros x y Hx Hy. rewrite Ha by assumption. apply Sa; apply Hm; assumption.
  - intros c x Hx. rewrite Hh by assumption. apply Sh. apply Hm. exact Hx.
  - intros x Hx. apply Sm, Hm, Hx.
Qed.

(* instances: the Heat1D solution map and the Abel1D matrix are such `solve`s *)
Corollary heat_solve_is_linear n A steps : wf_mat n A -> length A = n ->
  additive R radd n (efinal steps A) /\ homogeneous R rmul n (efinal steps A) /\ maps_to R n n (efinal steps A).
Proof.
  intros Hwf HA. destruct (euler_final_linear n A steps Hwf HA) as [H1 [H2 H3]]. repeat split.
  - intros x y Hx Hy. apply H1; assumption.
  - intros c x Hx. apply H2; assumption.
  - intros x Hx. apply H3; assumption.
Qed.

Corollary matrix_solve_is_linear n (A : list (list R)) : wf_mat n A ->
  additive R radd n (matvec A) /\ homogeneous R rmul n (matvec A) /\ maps_to R n (length A) (matvec A).
Proof.
  intros Hwf. repeat split.
  - intros x y Hx Hy. apply (matvec_vadd R r0 r1 radd rmul rsub ropp Rth A x y n); assumption.
  - intros c x Hx. apply (matvec_vscale R r0 r1 radd rmul rsub ropp Rth).
  - intros x Hx. apply matvec_length.
Qed.

End Lin.
