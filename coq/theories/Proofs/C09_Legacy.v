(* C09 -- the legacy cuqi.sampler.Gibbs sweep as the stateless instance of the generic wiring. *)
From CV Require Import Base.Tac Model.C09_Gibbs Proofs.C09_Wiring.

Section LegacySweep.
Context {V L R : Type}.
Variable condf : list V -> nat -> V -> L.
Variable joint : list V -> L.
Hypothesis c01_step : forall cur i x, nth_error cur i = Some x -> forall v, condf cur i v = joint (upd cur i v).
Variable ltrans : nat -> (V -> L) -> V -> R -> V.

Lemma map_fst_flat_single (l : list nat) :
  map fst (flat_map (fun b => map (pair b) (seq 0 1)) l) = l.
Proof.
  induction l as [|x r IH]; [reflexivity|].
  change (flat_map (fun b => map (pair b) (seq 0 1)) (x :: r)) with ((x, 0) :: flat_map (fun b => map (pair b) (seq 0 1)) r).
  rewrite map_cons. cbn [fst]. f_equal. exact IH.
Qed.

Theorem legacy_sweep_spec (rs : nat -> nat -> R) (cur : list V) e :
  In e (snd (lsweep condf ltrans rs cur)) ->
  let i := e_blk e in
  let new := fst (lsweep condf ltrans rs cur) in
  i < length cur /\ e_j e = 0 /\
  e_cur e = firstn i new ++ skipn i cur /\
  (forall v, e_tgt e v = joint (firstn i new ++ v :: skipn (S i) cur)) /\
  nth_error cur i = Some (e_s e) /\
  nth_error new i = Some (ltrans i (e_tgt e) (e_s e) (rs i 0)) /\
  map (@e_blk V L V) (snd (lsweep condf ltrans rs cur)) = seq 0 (length cur).
Proof.
  unfold lsweep. cbn [fst snd]. intros He. cbn zeta.
  set (st := mkG cur cur) in *.
  assert (Hwf : length (g_ss st) = length (g_cur st)) by reflexivity.
  pose proof (sweep_target_is_current_conditional condf (fun v : V => v) (fun _ _ s => s) ltrans (fun _ => 1) rs st Hwf e He) as T.
  cbn zeta in T. destruct T as (T1 & T2 & T3).
  pose proof (sweep_target_is_joint condf (fun v : V => v) (fun _ _ s => s) ltrans (fun _ => 1) rs st Hwf joint c01_step e He) as T4.
  destruct (sweep_k_transitions condf (fun v : V => v) (fun _ _ s => s) ltrans (fun _ => 1) rs st Hwf e He) as (s & Hs & Hj & Hes).
  cbn zeta in *. assert (Ej : e_j e = 0) by lia. rewrite Ej in Hes. cbn [iter_trans] in Hes. subst s.
  pose proof (sweep_result condf (fun v : V => v) (fun _ _ s => s) ltrans (fun _ => 1) rs st Hwf (e_blk e) (e_s e) Hs) as Rz.
  cbn zeta in Rz. destruct Rz as [_ R2]. cbn [iter_trans] in R2.
  unfold new_cur in *. cbn [g_cur st] in *.
  repeat split; auto.
  - rewrite T3, T2. exact R2.
  - pose proof (sweep_all_visited_once condf (fun v : V => v) (fun _ _ s => s) ltrans (fun _ => 1) rs st Hwf) as A.
    apply (f_equal (map fst)) in A. rewrite map_map in A. cbn [fst] in A.
    rewrite map_fst_flat_single in A. exact A.
Qed.
End LegacySweep.
