(* C04 -- proofs, part 11: Gamma cdf for ARBITRARY real shape under a named oracle law for scipy's regularised incomplete gamma function. *)
From CV Require Import Base.Tac Model.C04_Dens Model.C04_Cdf Proofs.C04_Dens Proofs.C04_Cdf.
From Coq Require Import Reals Lra.
From Coquelicot Require Import Coquelicot.
Local Open Scope R_scope.

Lemma gamma_pdf1_cont G sh r x : 0 < x -> G <> 0 -> continuous (gamma_pdf1 G sh r) x.
Proof.
  intros Hx HG. apply (ex_derive_continuous (gamma_pdf1 G sh r)). unfold gamma_pdf1, Rpower.
  auto_derive. repeat split; try lra.
Qed.

Section GammaIncLaw.
  (* the code evaluates scipy's regularised incomplete gamma function; NAMED ORACLE LAW: on the positive axis it is an
     antiderivative-by-integration of the documented density (any real shape) *)
  Variables (G sh r : R) (cdf_code : R -> R).
  Hypothesis G_nonzero : G <> 0.
  Hypothesis gammainc_law : forall c x, 0 < c -> 0 < x -> cdf_code x - cdf_code c = RInt (gamma_pdf1 G sh r) c x.

  Theorem gamma_cdf_code_derive x : 0 < x -> is_derive cdf_code x (gamma_pdf1 G sh r x).
  Proof.
    intros Hx. set (c := x / 2). assert (Hc : 0 < c) by (unfold c; lra).
    apply (is_derive_ext_loc (fun t => cdf_code c + RInt (gamma_pdf1 G sh r) c t)).
    - exists (mkposreal c Hc). intros t Ht. unfold ball in Ht; cbn in Ht. unfold AbsRing_ball, abs, minus, plus, opp in Ht; cbn in Ht.
      assert (0 < t). { apply Rabs_def2 in Ht. unfold c in *. lra. }
      rewrite <- gammainc_law by assumption. apply Rplus_minus.
    - evar_last.
      + apply (is_derive_plus (fun _ => cdf_code c) (fun t => RInt (gamma_pdf1 G sh r) c t) x).
        * evar_last; [apply is_derive_const | reflexivity].
        * apply (is_derive_RInt (gamma_pdf1 G sh r) (fun t => RInt (gamma_pdf1 G sh r) c t) c x).
          -- exists (mkposreal c Hc). intros t Ht. unfold ball in Ht; cbn in Ht. unfold AbsRing_ball, abs, minus, plus, opp in Ht; cbn in Ht.
             assert (0 < t). { apply Rabs_def2 in Ht. unfold c in *. lra. }
             apply (@RInt_correct R_CompleteNormedModule (gamma_pdf1 G sh r) c t).
             apply ex_RInt_continuous. intros z Hz. apply gamma_pdf1_cont; [|exact G_nonzero].
             destruct (Rle_dec c t); [rewrite Rmin_left, Rmax_right in Hz by lra | rewrite Rmin_right, Rmax_left in Hz by lra]; lra.
          -- apply gamma_pdf1_cont; assumption.
      + unfold plus, zero; cbn. lra.
  Qed.
End GammaIncLaw.
