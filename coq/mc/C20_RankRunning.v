(* C20 -- for the model instance that runs against the repaired tree (accumulating patches, repaired rank
   rule) the rank GMRF.__init__ reports IS \rank of its precision over Q, for EVERY field it builds. *)
From Coq Require Import ZArith.
From CV Require Import Base.LinAlg Base.QcLin Model.C20_Diff Model.C20_Spec Proofs.C20_Nullity Proofs.C20_Running.
From mathcomp Require Import all_ssreflect all_algebra.
From mathcomp Require Import ssrZ zify.
From CVmc Require Import C20_Rank.
Set Implicit Arguments.
Unset Strict Implicit.
Unset Printing Implicit Defensive.
Import GRing.Theory.
Local Open Scope ring_scope.

Theorem running_rank_is_rank_1d dim b order g :
  gmrf_init_gen fd_matrix_acc true 1 dim b order = Some g -> \rank (precQ dim g) = g_rank g.
Proof.
move=> Hg; have [HL Hwf] := running_shape_1d _ _ _ _ _ Hg.
have HB := running_nullity_1d _ _ _ _ _ Hg; have Hr := running_rank_1d _ _ _ _ Hg.
by rewrite /precQ (rank_of_null_basis_lists HL Hwf HB) -{1}Hr addnK.
Qed.

Theorem running_rank_is_rank_2d N b order g :
  gmrf_init_gen fd_matrix_acc true 2 (N * N) b order = Some g -> \rank (precQ (N * N) g) = g_rank g.
Proof.
move=> Hg; have [HL Hwf] := running_shape_2d _ _ _ _ _ Hg.
have HB := running_nullity_2d _ _ _ _ _ Hg; have Hr := running_rank_2d _ _ _ _ Hg.
by rewrite /precQ (rank_of_null_basis_lists HL Hwf HB) -{1}Hr addnK.
Qed.
