(* C12 -- the chain rule of Model.gradient as a theorem about the concrete geometry instances (identity-type,
   element-wise mapped, StepExpansion, linear expansion) and all model kinds of the polynomial family, with the
   Jacobian of par2fun computed by the model (Model/C12_Jac.v: geo_jac) instead of taken as a hypothesis. *)
From CV Require Import Base.Tac Base.LinAlg Base.QcLin Base.Cmp Model.C12_Model Model.C12_Jac Proofs.C12_Model Proofs.C12_Chain.
From Coq Require Import QArith Qcanon Ring.
Local Open Scope Qc_scope.

(* ------------------------------------------------------------------------------------------ *)
(* diagonal matrices                                                                           *)
(* ------------------------------------------------------------------------------------------ *)
Lemma qmattvec_nil_l n y : qmattvec n [] y = qvzero n.
Proof. destruct y; reflexivity. Qed.

Lemma qmattvec_nil_r n B : qmattvec n B [] = qvzero n.
Proof. destruct B; reflexivity. Qed.

Lemma qvzero_S n : qvzero (S n) = 0 :: qvzero n.
Proof. reflexivity. Qed.

Lemma mattvec_cons0 n B y : qmattvec (S n) (map (cons 0) B) y = 0 :: qmattvec n B y.
Proof.
  revert y; induction B as [|r B IH]; intros y.
  - cbn [map]. rewrite !qmattvec_nil_l. reflexivity.
  - destruct y as [|b y]; [rewrite !qmattvec_nil_r; reflexivity|].
    cbn [map]. change (qmattvec (S n) ((0 :: r) :: map (cons 0) B) (b :: y))
      with (qvadd (qvscale b (0 :: r)) (qmattvec (S n) (map (cons 0) B) y)).
    rewrite IH. change (qmattvec n (r :: B) (b :: y)) with (qvadd (qvscale b r) (qmattvec n B y)).
    unfold qvadd, qvscale, vscale. cbn [map vadd]. f_equal. ring.
Qed.

Lemma qvadd_scale_zero_l b n v : length v = n -> qvadd (qvscale b (qvzero n)) v = v.
Proof.
  revert v; induction n as [|n IH]; intros [|a v] H; simpl in H; try discriminate; [reflexivity|].
  rewrite qvzero_S. unfold qvadd, qvscale, vscale in *. cbn [map vadd]. rewrite IH by lia. f_equal. ring.
Qed.

Lemma diagmat_length s : length (diagmat s) = length s.
Proof. induction s as [|a s IH]; [reflexivity|]. simpl. rewrite map_length. f_equal. exact IH. Qed.

Lemma diagmat_wf s : wf_mat (length s) (diagmat s).
Proof.
  induction s as [|a s IH]; [constructor|]. cbn [diagmat length]. constructor.
  - cbn [length]. unfold qvzero. rewrite vzero_length. reflexivity.
  - unfold wf_mat in *. apply Forall_map. eapply Forall_impl; [|exact IH]. intros r Hr. cbn [length]. rewrite Hr. reflexivity.
Qed.

(* diag(s)^T v = v * s *)
Lemma mattvec_diag s v : length v = length s -> qmattvec (length s) (diagmat s) v = vmul v s.
Proof.
  revert v; induction s as [|a s IH]; intros [|b v] H; simpl in H; try discriminate; [reflexivity|].
  cbn [diagmat length].
  change (qmattvec (S (length s)) ((a :: qvzero (length s)) :: map (cons 0) (diagmat s)) (b :: v))
    with (qvadd (qvscale b (a :: qvzero (length s))) (qmattvec (S (length s)) (map (cons 0) (diagmat s)) v)).
  rewrite mattvec_cons0, IH by lia.
  change (qvscale b (a :: qvzero (length s))) with (b * a :: qvscale b (qvzero (length s))).
  change (qvadd (b * a :: qvscale b (qvzero (length s))) (0 :: vmul v s))
    with (b * a + 0 :: qvadd (qvscale b (qvzero (length s))) (vmul v s)).
  rewrite qvadd_scale_zero_l by (rewrite vmul_length; lia). cbn [vmul]. f_equal. ring.
Qed.

(* J diag(s) = J with its columns scaled *)
Lemma matmul_diag n J s : wf_mat n J -> length s = n -> qmatmul n J (diagmat s) = col_scale J s.
Proof.
  intros HJ Hs. unfold qmatmul, matmul, col_scale. apply map_ext_in. intros row Hin.
  unfold wf_mat in HJ. rewrite Forall_forall in HJ. specialize (HJ row Hin). rewrite <- Hs.
  apply (mattvec_diag s row). congruence.
Qed.

Lemma vmul_comm x y : vmul x y = vmul y x.
Proof. revert y; induction x as [|a x IH]; intros [|b y]; simpl; try reflexivity. rewrite IH. f_equal. ring. Qed.

Lemma vmul_ones v w : length v = length w -> vmul v (ones w) = v.
Proof.
  revert w; induction v as [|a v IH]; intros [|b w] H; simpl in H; try discriminate; [reflexivity|].
  cbn [ones map vmul]. fold (ones w). rewrite IH by lia. f_equal. ring.
Qed.

Lemma ones_length w : length (ones w) = length w.
Proof. apply map_length. Qed.

Lemma col_scale_ones n J w : wf_mat n J -> length w = n -> col_scale J (ones w) = J.
Proof.
  intros HJ Hw. unfold col_scale. rewrite <- (map_id J) at 2. apply map_ext_in. intros row Hin.
  unfold wf_mat in HJ. rewrite Forall_forall in HJ. apply vmul_ones. rewrite (HJ row Hin). congruence.
Qed.

Lemma pmap_pderiv_id w : pmap (pderiv [0; 1]) w = ones w.
Proof.
  unfold pmap, ones. apply map_ext. intros t. cbn [pderiv padd]. unfold peval. cbn [fold_right]. ring.
Qed.

(* the Jacobian A diag(phi') of a LINEAR forward map (phi = id) is A *)
Lemma poly_jac_linear n A x : wf_mat n A -> length x = n -> poly_jac A (pderiv [0; 1]) x = A.
Proof. intros HA Hx. rewrite poly_jac_col_scale, pmap_pderiv_id. apply (col_scale_ones n); assumption. Qed.

(* ------------------------------------------------------------------------------------------ *)
(* every model kind of the family F(x) = A phi_F(x) + b                                          *)
(* ------------------------------------------------------------------------------------------ *)
Definition model_gfun (gf : gfun) (n : nat) (A : mat) (csF : list Qc) : Prop :=
  (exists jt, gf = GJac n (poly_jac A (pderiv csF)) jt) \/                          (* Model(jacobian=...) *)
  (exists shaped sel, gf = GDir (poly_dir n A (pderiv csF)) shaped sel) \/          (* Model(gradient=...) *)
  (exists sel jw, gf = GPde (Some (poly_dir n A (pderiv csF), sel)) jw) \/          (* PDEModel, gradient_wrt_parameter (wins) *)
  (exists jt, gf = GPde None (Some (n, poly_jac A (pderiv csF), jt))) \/             (* PDEModel, jacobian_wrt_parameter *)
  (csF = [0; 1] /\ gf = GAdjMat n A) \/                                              (* LinearModel(matrix) *)
  (csF = [0; 1] /\ exists shaped sel, gf = GAdjFun (qmattvec n A) shaped sel).       (* LinearModel(forward, adjoint) *)

Lemma model_gfun_run gf n A csF d wf : model_gfun gf n A csF ->
  wf_mat n A -> length wf = n -> length d = length A ->
  has_gradient_func gf = true /\
  exists flat sel, run_gfun gf false d wf = Ok (qmattvec n (poly_jac A (pderiv csF) wf) d, flat, sel).
Proof.
  intros H HA Hw Hd.
  assert (HJ : wf_mat n (poly_jac A (pderiv csF) wf)).
  { rewrite poly_jac_col_scale. apply col_scale_wf; [exact HA|]. unfold pmap. rewrite map_length. exact Hw. }
  assert (LJ : length d = length (poly_jac A (pderiv csF) wf)).
  { rewrite poly_jac_col_scale, col_scale_length. exact Hd. }
  destruct H as [[jt ->] | [(shaped & sel & ->) | [(sel & jw & ->) | [[jt ->] | [[-> ->] | [-> (shaped & sel & ->)]]]]]];
    split; try reflexivity.
  - exists true, (jac_sel jt). unfold run_gfun. rewrite vecmat_is_mattvec by assumption. reflexivity.
  - exists (negb shaped), sel. unfold run_gfun. rewrite poly_dir_is_transposed_jacobian by assumption. reflexivity.
  - exists true, sel. unfold run_gfun. rewrite poly_dir_is_transposed_jacobian by assumption. reflexivity.
  - exists true, (jac_sel jt). unfold run_gfun. rewrite vecmat_is_mattvec by assumption. reflexivity.
  - exists true, SelDir. unfold run_gfun. rewrite (poly_jac_linear n A wf HA Hw). reflexivity.
  - exists (negb shaped), (match sel with SelNone => SelNone | _ => SelDir end). unfold run_gfun.
    rewrite (poly_jac_linear n A wf HA Hw). reflexivity.
Qed.

(* ------------------------------------------------------------------------------------------ *)
(* geo_jac: shape and the geometry's gradient                                                   *)
(* ------------------------------------------------------------------------------------------ *)
Lemma lin_wf_spec m K : lin_wf m K = true -> wf_mat m K.
Proof.
  unfold lin_wf, wf_mat. rewrite forallb_forall, Forall_forall. intros H r Hr. apply Nat.eqb_eq. apply H. exact Hr.
Qed.

Ltac bool_hyps :=
  repeat match goal with
         | H : _ && _ = true |- _ => apply andb_prop in H; destruct H
         | H : Nat.eqb _ _ = true |- _ => apply Nat.eqb_eq in H
         | H : qcl_eqb _ _ = true |- _ => apply qcl_eqb_eq in H
         | H : qcll_eqb _ _ = true |- _ => apply qcll_eqb_eq in H
         | H : natll_eqb _ _ = true |- _ => apply natll_eqb_eq in H
         end.

(* THE CHAIN RULE for the instances: gradient(direction, wrt) = (J_F(par2fun wrt) J_G(wrt))^T direction, J_G = geo_jac *)
Theorem gradient_chain_rule q gf rg dg n A csF d w wf JG :
  model_gfun gf n A csF -> plain1d (g_cls rg) = true ->
  wf_mat n A -> length d = length A ->
  geo_jac dg w = Some JG -> g_par2fun dg w = Ok wf -> length wf = n ->
  gradient q gf rg dg (GiVec d) (GiVec w) true true =
  Ok (OutVec (qmattvec (length w) (qmatmul (length w) (poly_jac A (pderiv csF) wf) JG) d) false).
Proof.
  intros Hgf Hr HA Hd HJG Hw Ln.
  destruct (model_gfun_run gf n A csF d wf Hgf HA Ln Hd) as (Hg & flat & sel & Hrun).
  set (JF := poly_jac A (pderiv csF) wf) in *.
  assert (HJF : wf_mat n JF).
  { unfold JF. rewrite poly_jac_col_scale. apply col_scale_wf; [exact HA|]. unfold pmap. rewrite map_length. exact Ln. }
  (* the two ways a result is formed *)
  assert (WithGrad : forall gg, g_grad dg = Some gg ->
            (forall v, length v = n -> ggrad_apply gg v w = qmattvec (length w) JG v) ->
            wf_mat (length w) JG -> length JG = n ->
            gradient q gf rg dg (GiVec d) (GiVec w) true true = Ok (OutVec (qmattvec (length w) (qmatmul (length w) JF JG) d) false)).
  { intros gg Hgg Hlaw HG Hlen.
    apply (gradient_chain q gf rg dg gg d w wf n (length w) JF JG flat sel); assumption. }
  assert (NoGrad : g_grad dg = None -> identity_class (g_cls dg) = true -> length w = n ->
            (forall v, length v = n -> g_fun2par_gen dg flat v = Ok v) -> g_f2p_0d dg = false -> JG = diagmat (ones w) ->
            gradient q gf rg dg (GiVec d) (GiVec w) true true = Ok (OutVec (qmattvec (length w) (qmatmul (length w) JF JG) d) false)).
  { intros Hgg Hid Lw Hf2p H0d ->.
    rewrite (gradient_identity_domain q gf rg dg d w wf n JF flat sel) by assumption.
    rewrite Hf2p by (apply qmattvec_length; exact HJF). cbn [rmap]. rewrite H0d, Lw.
    rewrite (matmul_diag n JF (ones w)) by (try assumption; rewrite ones_length; exact Lw).
    rewrite (col_scale_ones n JF w) by assumption. reflexivity. }
  unfold geo_jac in HJG. unfold g_par2fun, g_par2fun_gen in Hw.
  destruct (plain1d (g_cls dg)) eqn:Ep.
  - (* Continuous1D / Discrete / default: par2fun = id *)
    inversion Hw; subst wf.
    destruct (g_grad dg) as [[dcs gsel|idx|m K]|] eqn:Eg; try discriminate.
    + destruct (qcl_eqb dcs (pderiv [0; 1])) eqn:Ed; [|discriminate]. inversion HJG; subst JG. bool_hyps. subst dcs.
      apply (WithGrad _ eq_refl).
      * intros v Lv. cbn [ggrad_apply].
        replace (length w) with (length (pmap (pderiv [0; 1]) w)) by (unfold pmap; apply map_length).
        rewrite mattvec_diag by (unfold pmap; rewrite map_length; congruence). apply vmul_comm.
      * replace (length w) with (length (pmap (pderiv [0; 1]) w)) by (unfold pmap; apply map_length). apply diagmat_wf.
      * rewrite diagmat_length. unfold pmap. rewrite map_length. exact Ln.
    + inversion HJG; subst JG. apply NoGrad; try reflexivity; try assumption.
      * destruct (g_cls dg); try discriminate; reflexivity.
      * intros v _. apply plain1d_fun2par. exact Ep.
      * apply plain1d_0d. exact Ep.
  - destruct (g_conv dg) as [|r c|r c|K M|nfun idx pj sq] eqn:Ec; try discriminate.
    + (* CvId *)
      destruct (g_map dg) as [csG|] eqn:Em.
      * destruct (g_grad dg) as [[dcs gsel|idx|m K]|] eqn:Eg; try discriminate.
        destruct (qcl_eqb dcs (pderiv csG)) eqn:Ed; [|discriminate]. inversion HJG; subst JG. bool_hyps. subst dcs.
        cbn [conv_par2fun rmap omap] in Hw. inversion Hw; subst wf.
        assert (Lw : length w = n) by (unfold pmap in Ln; rewrite map_length in Ln; exact Ln).
        apply (WithGrad _ eq_refl).
        -- intros v Lv. cbn [ggrad_apply].
           replace (length w) with (length (pmap (pderiv csG) w)) by (unfold pmap; apply map_length).
           rewrite mattvec_diag by (unfold pmap; rewrite map_length; congruence). apply vmul_comm.
        -- replace (length w) with (length (pmap (pderiv csG) w)) by (unfold pmap; apply map_length). apply diagmat_wf.
        -- rewrite diagmat_length. unfold pmap. rewrite map_length. exact Lw.
      * destruct (g_grad dg) eqn:Eg; try discriminate.
        destruct (identity_class (g_cls dg) && f2p_is_base (g_f2p dg)) eqn:Ei; [|discriminate]. inversion HJG; subst JG. bool_hyps.
        cbn [conv_par2fun rmap omap] in Hw. inversion Hw; subst wf.
        apply NoGrad; try reflexivity; try assumption.
        -- intros v _. unfold g_fun2par_gen. rewrite Ep. destruct (g_f2p dg); try discriminate. rewrite Ec. reflexivity.
        -- unfold g_f2p_0d. rewrite Ec. destruct (g_f2p dg); rewrite ?andb_false_r; reflexivity.
    + (* CvImgC *)
      destruct (g_map dg) eqn:Em; try discriminate. destruct (g_grad dg) eqn:Eg; try discriminate.
      destruct (identity_class (g_cls dg) && f2p_is_base (g_f2p dg) && Nat.eqb (length w) (r * c)) eqn:Ei; [|discriminate].
      inversion HJG; subst JG. bool_hyps.
      cbn [conv_par2fun] in Hw. rewrite (proj2 (Nat.eqb_eq _ _) H0) in Hw. cbn [rmap omap] in Hw. inversion Hw; subst wf.
      apply NoGrad; try reflexivity; try assumption.
      * intros v Lv. unfold g_fun2par_gen. rewrite Ep. destruct (g_f2p dg); try discriminate. rewrite Ec. cbn [conv_fun2par].
        destruct flat; [reflexivity|]. rewrite (proj2 (Nat.eqb_eq _ _)) by congruence. reflexivity.
      * unfold g_f2p_0d. rewrite Ec. destruct (g_f2p dg); rewrite ?andb_false_r; reflexivity.
    + (* CvLin *)
      destruct (g_map dg) eqn:Em; try discriminate.
      destruct (g_grad dg) as [[dcs gsel|idx|m K']|] eqn:Eg; try discriminate.
      destruct (qcll_eqb K K' && lin_wf m K && Nat.eqb (length w) m && negb (Nat.eqb (length K) 0)) eqn:Ei; [|discriminate].
      inversion HJG; subst JG. bool_hyps. subst K'.
      match goal with H : lin_wf _ _ = true |- _ => apply lin_wf_spec in H; rename H into HK end.
      cbn [conv_par2fun] in Hw. destruct K as [|row K]; [discriminate|].
      assert (Lrow : length row = m) by (inversion HK; assumption).
      rewrite (proj2 (Nat.eqb_eq _ _)) in Hw by congruence. cbn [rmap omap] in Hw. inversion Hw; subst wf.
      apply (WithGrad _ eq_refl).
      * intros v Lv. cbn [ggrad_apply]. congruence.
      * congruence.
      * rewrite <- Ln. cbn [length]. f_equal. unfold qmatvec. rewrite matvec_length. reflexivity.
    + (* CvStep *)
      destruct (g_map dg) eqn:Em; try discriminate.
      destruct (g_grad dg) as [[dcs gsel|idx'|m K']|] eqn:Eg; try discriminate.
      destruct (natll_eqb idx idx' && step_wf nfun idx && Nat.eqb (length w) (length idx)) eqn:Ei; [|discriminate].
      inversion HJG; subst JG. bool_hyps. subst idx'.
      cbn [conv_par2fun] in Hw. rewrite (proj2 (Nat.eqb_eq _ _)) in Hw by assumption. cbn [rmap omap] in Hw. inversion Hw; subst wf.
      assert (Lf : nfun = n) by (rewrite <- Ln; unfold step_par2fun; rewrite map_length, seq_length; reflexivity).
      match goal with H : length w = length idx |- _ => rename H into Lwi end.
      apply (WithGrad _ eq_refl).
      * intros v Lv. rewrite Lwi. apply step_gradient_is_transpose; [assumption | congruence].
      * rewrite Lwi. apply step_jac_wf.
      * rewrite step_jac_length. exact Lf.
Qed.

(* the value computed for the correspondence cells IS the right-hand side of the theorem *)
Corollary chain_rule_value_is_gradient q gf rg dg n A csF d w g :
  model_gfun gf n A csF -> plain1d (g_cls rg) = true -> wf_mat n A -> length d = length A ->
  (forall wf, g_par2fun dg w = Ok wf -> length wf = n) ->
  chain_rule_value A csF dg d w = Some g ->
  gradient q gf rg dg (GiVec d) (GiVec w) true true = Ok (OutVec g false).
Proof.
  intros Hgf Hr HA Hd Hn Hv. unfold chain_rule_value in Hv.
  destruct (geo_jac dg w) as [JG|] eqn:EJ; [|discriminate].
  destruct (g_par2fun dg w) as [wf|] eqn:Ew; [|discriminate]. inversion Hv; subst g.
  apply (gradient_chain_rule q gf rg dg n A csF d w wf JG); try assumption. apply Hn. reflexivity.
Qed.
