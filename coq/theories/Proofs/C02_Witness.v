(* C02 -- witnesses (by computation) for the refuted classes and for non-vacuity. *)
From CV Require Import Base.Tac Base.Cmp Base.Ext Model.C02_MH Proofs.C02_MH.
From Coq Require Import QArith.
Local Open Scope Q_scope.

(* 1-d standard normal whose log-density is v on x > 2 *)
Definition T1 (v : ext) : target := mkT (BQuad [[1]] [0] 0) (HGt 0 2 v).
Definition T2 (v : ext) : target := mkT (BQuad [[1; 0]; [0; 1]] [0; 0] 0) (HGt 0 2 v).

(* unguarded random walk (legacy MH): a NaN-valued proposal is accepted from a consistent finite state *)
Lemma mh_unguarded_accepts_nan :
  exists (T : target) (st : state) (s : Q) (xi : vec) (l : Q),
    sld st = t_logd T (sx st) /\ is_nan (t_logd T (mh_prop s (sx st) xi)) = true /\
    snd (mh_step (t_logd T) GNone s st xi (Fin l)) = true.
Proof. exists (T1 NaN), (mkSt [1] (Fin (- (1 # 2))) []), 1, [2], (- (7 # 10)). repeat split. Qed.

(* ... and a -inf-valued proposal from a state whose cached value is -inf *)
Lemma mh_unguarded_accepts_neginf :
  exists (T : target) (st : state) (s : Q) (xi : vec) (l : Q),
    sld st = t_logd T (sx st) /\ t_logd T (mh_prop s (sx st) xi) = NInf /\
    snd (mh_step (t_logd T) GNone s st xi (Fin l)) = true.
Proof. exists (T1 NInf), (mkSt [3] NInf []), 1, [1], (- (7 # 10)). repeat split. Qed.

Lemma cw_unguarded_accepts_nan :
  exists (T : target) (st : state) (sc z : vec) (logus : list ext),
    sld st = t_logd T (sx st) /\ is_nan (t_logd T (upd (sx st) 0 (nth 0 (cw_prop sc (sx st) z) 0))) = true /\
    nth 0 (snd (cwmh_step (t_logd T) GNone sc st z logus)) false = true.
Proof.
  exists (T2 NaN), (mkSt [1; 0] (Fin (- (1 # 2))) []), [1; 1], [2; 0], [Fin (- (7 # 10)); Fin (- (7 # 10))].
  repeat split.
Qed.

Lemma pcn_unguarded_accepts_nan :
  exists (T : target) (st : state) (a s : Q) (m xi : vec) (l : Q),
    a * a + s * s == 1 /\ sld st = t_logd T (sx st) /\ is_nan (t_logd T (pcn_prop false a s m (sx st) xi)) = true /\
    snd (pcn_step (t_logd T) false GNone a s m st xi (Fin l)) = true.
Proof. exists (T1 NaN), (mkSt [1] (Fin (- (1 # 2))) []), 0, 1, [0], [3], (- (7 # 10)). repeat split. Qed.

(* legacy MALA (NaN guard only): a -inf-valued proposal is accepted from a -inf state *)
Lemma mala_nanguard_accepts_neginf :
  exists (T : target) (st : state) (s : Q) (xi : vec) (l : Q),
    sld st = t_logd T (sx st) /\ sgr st = t_grad T (sx st) /\
    t_logd T (mala_prop s (sx st) (sgr st) xi) = NInf /\
    snd (mala_step (t_logd T) (t_grad T) GNan s st xi (Fin l)) = true.
Proof. exists (T1 NInf), (mkSt [3] NInf [-3]), 1, [5 # 2], (- (7 # 10)). repeat split. Qed.

(* every guard accepts when log u = -inf (u = 0) and the ratio is -inf: only GNanInf refuses *)
Lemma unguarded_accepts_neginf_at_u0 :
  accept GNone NInf (ext_sub NInf (Fin 0)) NInf = true /\ accept GNan NInf (ext_sub NInf (Fin 0)) NInf = true /\
  accept GNanInf NInf (ext_sub NInf (Fin 0)) NInf = false.
Proof. repeat split. Qed.

(* non-vacuity: 2-d quadratic target, x = (1,0), scale 1/2, noise (1/2,-1/4): consistent cache, finite values;
   rejected for log u = -1/8, accepted for log u = -1/2 *)
Definition Tq : target := mkT (BQuad [[1; 0]; [0; 1]] [0; 0] 0) HNo.
Definition st0 : state := mkSt [1; 0] (Fin (- (1 # 2))) [-1; 0].

Lemma example_mh :
  sld st0 = t_logd Tq (sx st0) /\ sgr st0 = t_grad Tq (sx st0) /\
  ext_eqb (t_logd Tq (mh_prop (1 # 2) (sx st0) [1 # 2; - (1 # 4)])) (Fin (- (101 # 128))) = true /\
  mh_step (t_logd Tq) GNanInf (1 # 2) st0 [1 # 2; - (1 # 4)] (Fin (- (1 # 8))) = (st0, false) /\
  snd (mh_step (t_logd Tq) GNanInf (1 # 2) st0 [1 # 2; - (1 # 4)] (Fin (- (1 # 2)))) = true /\
  snd (mala_step (t_logd Tq) (t_grad Tq) GNanInf (1 # 4) st0 [1 # 2; - (1 # 4)] (Fin (- (1 # 2)))) = true /\
  snd (cwmh_step (t_logd Tq) GNanInf [1 # 2; 1 # 2] st0 [1 # 2; - (1 # 4)] [Fin (- (1 # 8)); Fin (- (1 # 8))]) = [false; true].
Proof. vm_compute. repeat split. Qed.
