From CV Require Import Base.Tac Model.C04_Dens Model.C04_Cdf Proofs.C04_Dens Proofs.C04_Cdf Proofs.C04_Norm.
From Coq Require Import Reals Lra.
From Coquelicot Require Import Coquelicot.
Local Open Scope R_scope.

Lemma lim_half : is_lim (fun y => y / 2) p_infty p_infty.
Proof. apply (lim_div_p 2). lra. Qed.

Lemma lim_pexp_1 : is_lim (fun y => y * exp (- y)) p_infty 0.
Proof.
  apply is_lim_ext_loc with (f := fun y => / (exp y / y)).
  - exists 0. intros y Hy. rewrite exp_Ropp. pose proof (exp_pos y). field. split; lra.
  - evar_last.
    + apply is_lim_inv; [apply is_lim_div_exp_p | discriminate].
    + reflexivity.
Qed.

Lemma lim_pexp i : is_lim (fun y => y ^ i * exp (- y)) p_infty 0.
Proof.
  induction i as [|i IH].
  - apply is_lim_ext with (f := fun y => exp (- y / 1)); [intros y; cbn [pow]; rewrite Rmult_1_l; f_equal; field|].
    apply lim_exp_neg. lra.
  - apply is_lim_ext with (f := fun y => 2 ^ (S i) * (((y / 2) ^ i * exp (- (y / 2))) * ((y / 2) * exp (- (y / 2))))).
    + intros y. replace (exp (- y)) with (exp (- (y / 2)) * exp (- (y / 2))) by (rewrite <- exp_plus; f_equal; field).
      set (a := y / 2). replace (y ^ S i) with ((2 * a) ^ S i) by (unfold a; f_equal; field).
      rewrite Rpow_mult_distr. cbn [pow]. ring.
    + evar_last.
      * apply (is_lim_scal_l (fun y => (y / 2) ^ i * exp (- (y / 2)) * (y / 2 * exp (- (y / 2)))) (2 ^ S i) p_infty (Rbar_mult 0 0)).
        apply (is_lim_mult (fun y => (y / 2) ^ i * exp (- (y / 2))) (fun y => y / 2 * exp (- (y / 2))) p_infty 0 0).
        -- apply (is_lim_comp (fun z => z ^ i * exp (- z)) (fun y => y / 2) p_infty 0 p_infty); [exact IH | exact lim_half|].
           exists 0. intros y _. discriminate.
        -- apply (is_lim_comp (fun z => z * exp (- z)) (fun y => y / 2) p_infty 0 p_infty); [exact lim_pexp_1 | exact lim_half|].
           exists 0. intros y _. discriminate.
        -- exact I.
      * cbn. f_equal. ring.
Qed.

Lemma lim_esum_exp k r : 0 < r -> is_lim (fun x => exp (- r * x) * esum k (r * x)) p_infty 0.
Proof.
  intros Hr. induction k as [|k IH]; cbn [esum].
  - apply is_lim_ext with (f := fun x => exp (- x / / r)); [intros x; rewrite Rmult_1_r; f_equal; field; lra|].
    apply lim_exp_neg. apply Rinv_0_lt_compat. exact Hr.
  - apply is_lim_ext with (f := fun x => exp (- r * x) * esum k (r * x) + / INR (fact (S k)) * ((r * x) ^ S k * exp (- (r * x)))).
    + intros x. pose proof (INR_fact_pos (S k)). replace (- r * x) with (- (r * x)) by ring. field. lra.
    + evar_last.
      * apply (is_lim_plus' _ _ p_infty 0 (/ INR (fact (S k)) * 0)); [exact IH|].
        evar_last.
        -- apply (is_lim_scal_l (fun x => (r * x) ^ S k * exp (- (r * x))) (/ INR (fact (S k))) p_infty 0).
           apply (is_lim_comp (fun z => z ^ S k * exp (- z)) (fun x => r * x) p_infty 0 p_infty); [apply lim_pexp | |].
           ++ evar_last; [apply (is_lim_scal_l (fun x => x) r p_infty p_infty); apply is_lim_id|].
              unfold Rbar_mult; cbn. destruct (Rle_dec 0 r) as [H|H]; [|exfalso; lra].
              destruct (Rle_lt_or_eq_dec 0 r H) as [H'|H']; [reflexivity | exfalso; lra].
           ++ exists 0. intros y _. discriminate.
        -- cbn. reflexivity.
      * cbn. f_equal. ring.
Qed.

(* the Gamma density with integer shape integrates to one: cdf -> 1 *)
Theorem gamma_int_normalised k r : 0 < r -> is_lim (gamma_int_cdf1 k r) p_infty 1.
Proof.
  intros Hr. apply is_lim_ext with (f := fun x => 1 - exp (- r * x) * esum k (r * x)).
  - intros x. symmetry. apply gamma_int_cdf_closed.
  - evar_last.
    + apply is_lim_minus'; [apply is_lim_const | apply lim_esum_exp; exact Hr].
    + cbn. f_equal. lra.
Qed.
