(* C13 -- witness for the squeeze() defect class of KLExpansion (a single mode): the guard 2 <= m of kl_roundtrip
   is needed. *)
From CV Require Import Base.Tac Base.Cmp Base.QcLin Model.C13_Geom Proofs.C13_Geom.
From Coq Require Import QArith Qcanon.

Theorem kl_roundtrip_single_mode_refuted : exists (dst idst : list Qc -> list Qc) (N : nat) (coefs : list Qc) (tau : Qc) (a : arr Qc),
  (forall x, length x = N -> length (idst x) = N) /\
  (forall x, length x = N -> dst (idst x) = map (fun v => qcn 2 * qcn N * v)%Qc x) /\
  (1 <= N)%nat /\ length coefs = 1%nat /\ Forall (fun c => c <> 0%Qc) coefs /\ tau <> 0%Qc /\
  shp a = [1%nat] /\ length (dat a) = 1%nat /\
  obind (kl_par2fun idst N 1 coefs tau a) (kl_fun2par dst N 1 coefs tau) <> Some a.
Proof.
  exists (fun x => map (fun v => qcn 2 * qcn 3 * v)%Qc x), (fun x => x), 3%nat, [1%Qc], 1%Qc, (mkArr [1%nat] [qcn 5]).
  split; [intros x H; exact H|]. split; [intros x _; reflexivity|]. split; [lia|]. split; [reflexivity|].
  split; [constructor; [intros E; apply Q2Qc_eq_iff in E; discriminate E | constructor]|].
  split; [intros E; apply Q2Qc_eq_iff in E; discriminate E|]. split; [reflexivity|]. split; [reflexivity|].
  vm_compute. discriminate.
Qed.
