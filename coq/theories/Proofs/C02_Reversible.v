(* C02 -- REVERSIBILITY on a compact interval (stronger than invariance): the Metropolis-Hastings kernel, rejection atom included, is
   self-adjoint in L2(pi):   int_a^b pi f (K g) = int_a^b pi g (K f)   for all continuous test functions f, g
   (g = 1 gives invariance: K 1 = 1).  Continuous pi >= 0 (zeros allowed), jointly continuous q >= 0.
   Proof: the difference is the double integral of gflow(x,y) (f(x) g(y) - g(x) f(y)), an antisymmetric continuous integrand,
   which vanishes by Fubini (Proofs/C02_Fubini.v). *)
From Coq Require Import Reals Lra.
From Coquelicot Require Import Coquelicot.
From CV Require Import Proofs.C02_Countable Proofs.C02_Continuous Proofs.C02_Fubini.
Local Open Scope R_scope.

(* an antisymmetric jointly continuous integrand has zero integral over every square *)
Lemma antisym_zero (H : R -> R -> R) (a b : R) :
  cont2 H -> (forall x y, H x y = - H y x) -> RInt (fun x => RInt (fun y => H x y) a b) a b = 0.
Proof.
  intros CH HA.
  set (I := RInt (fun x => RInt (fun y => H x y) a b) a b).
  assert (E : I = - I).
  { unfold I at 1. rewrite (fubini_continuous H CH a a b b).
    transitivity (RInt (fun y => opp (RInt (fun x => H y x) a b)) a b).
    - apply RInt_ext. intros y _.
      transitivity (RInt (fun x => opp (H y x)) a b).
      + apply RInt_ext. intros x _. unfold opp; simpl. apply HA.
      + apply (@RInt_opp R_CompleteNormedModule (fun x => H y x) a b). apply (cont2_ex_RInt H y a b CH).
    - apply (@RInt_opp R_CompleteNormedModule (fun y => RInt (fun x => H y x) a b) a b). apply (param_ex_RInt H a b a b CH). }
  lra.
Qed.

Section Reversible.
Variables (a b : R).
Variable pi : R -> R.
Variable q : R -> R -> R.
Hypothesis pi_nonneg : forall x, 0 <= pi x.
Hypothesis q_nonneg : forall x y, 0 <= q x y.
Hypothesis pi_cont : forall x, continuity_pt pi x.
Hypothesis q_cont : cont2 q.

Definition wflow (f g : R -> R) (x y : R) : R := f x * hflow pi q g x y.       (* f(x) gflow(x,y) (g(y) - g(x)) *)

Lemma wflow_cont2 f g : (forall x, continuity_pt f x) -> (forall x, continuity_pt g x) -> cont2 (wflow f g).
Proof.
  intros Cf Cg x y. unfold wflow. apply continuity_2d_pt_mult; [apply (cont2_fst f Cf) | apply (hflow_cont2 pi q g pi_cont q_cont Cg)].
Qed.

Lemma lhs_form f g : (forall x, continuity_pt f x) -> (forall x, continuity_pt g x) ->
  RInt (fun x => pi x * f x * Kf a b pi q g x) a b =
  RInt (fun x => pi x * f x * g x) a b + RInt (fun x => RInt (fun y => wflow f g x y) a b) a b.
Proof.
  intros Cf Cg.
  assert (E : forall x, pi x * f x * Kf a b pi q g x = plus (pi x * f x * g x) (RInt (fun y => wflow f g x y) a b)).
  { intro x.
    assert (P := piKf a b pi q pi_nonneg q_nonneg g (fun x => moveint_ex pi q g pi_nonneg q_nonneg pi_cont q_cont Cg a b x) x).
    transitivity (f x * (pi x * Kf a b pi q g x)); [ring|]. rewrite P. unfold plus; simpl.
    rewrite Rmult_plus_distr_l. f_equal; [ring|].
    change (f x * RInt (hflow pi q g x) a b) with (scal (f x) (RInt (hflow pi q g x) a b)).
    rewrite <- (@RInt_scal R_CompleteNormedModule (hflow pi q g x) a b (f x)); [reflexivity|].
    apply (cont2_ex_RInt (hflow pi q g) x a b (hflow_cont2 pi q g pi_cont q_cont Cg)). }
  rewrite (RInt_ext _ _ a b (fun x _ => E x)).
  apply (@RInt_plus R_CompleteNormedModule (fun x => pi x * f x * g x) (fun x => RInt (fun y => wflow f g x y) a b) a b).
  - apply (@ex_RInt_continuous R_CompleteNormedModule). intros z _.
    apply (continuous_mult (fun x => pi x * f x) g); [|apply continuity_pt_filterlim; apply Cg].
    apply (continuous_mult pi f); apply continuity_pt_filterlim; [apply pi_cont | apply Cf].
  - apply (param_ex_RInt (wflow f g) a b a b (wflow_cont2 f g Cf Cg)).
Qed.

Theorem reversible_RInt_continuous f g : (forall x, continuity_pt f x) -> (forall x, continuity_pt g x) ->
  RInt (fun x => pi x * f x * Kf a b pi q g x) a b = RInt (fun x => pi x * g x * Kf a b pi q f x) a b.
Proof.
  intros Cf Cg. rewrite (lhs_form f g Cf Cg), (lhs_form g f Cg Cf).
  assert (E1 : RInt (fun x => pi x * f x * g x) a b = RInt (fun x => pi x * g x * f x) a b) by (apply RInt_ext; intros x _; rewrite Rmult_assoc, (Rmult_comm (f x) (g x)), <- Rmult_assoc; reflexivity).
  rewrite E1.
  pose proof (wflow_cont2 f g Cf Cg) as CA. pose proof (wflow_cont2 g f Cg Cf) as CB.
  set (H := fun x y => wflow f g x y - wflow g f x y).
  assert (CH : cont2 H) by (intros x y; apply continuity_2d_pt_minus; [apply CA | apply CB]).
  assert (HA : forall x y, H x y = - H y x).
  { intros x y. unfold H, wflow, hflow. rewrite (gflow_sym pi q y x). ring. }
  assert (Z : RInt (fun x => RInt (fun y => wflow f g x y) a b) a b - RInt (fun x => RInt (fun y => wflow g f x y) a b) a b = 0).
  { rewrite <- (antisym_zero H a b CH HA).
    transitivity (RInt (fun x => minus (RInt (fun y => wflow f g x y) a b) (RInt (fun y => wflow g f x y) a b)) a b).
    - symmetry. apply (@RInt_minus R_CompleteNormedModule (fun x => RInt (fun y => wflow f g x y) a b) (fun x => RInt (fun y => wflow g f x y) a b) a b);
        [apply (param_ex_RInt (wflow f g) a b a b CA) | apply (param_ex_RInt (wflow g f) a b a b CB)].
    - apply RInt_ext. intros x _. symmetry.
      apply (@RInt_minus R_CompleteNormedModule (fun y => wflow f g x y) (fun y => wflow g f x y) a b);
        [apply (cont2_ex_RInt (wflow f g) x a b CA) | apply (cont2_ex_RInt (wflow g f) x a b CB)]. }
  lra.
Qed.

(* K 1 = 1 (the kernel is Markov), so reversibility with g = 1 is invariance *)
Lemma Kf_one x : Kf a b pi q (fun _ => 1) x = 1.
Proof.
  unfold Kf. rewrite (RInt_ext _ (fun _ => 0)).
  - rewrite RInt_const. unfold scal; simpl. unfold mult; simpl. rewrite Rmult_0_r. apply Rplus_0_r.
  - intros y _. unfold moveint, Rminus. rewrite Rplus_opp_r. apply Rmult_0_r.
Qed.
End Reversible.
