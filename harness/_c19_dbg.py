import numpy as np, cuqi, warnings
warnings.filterwarnings("ignore")
from cuqi.samples import Samples
for dt in ["int64","int32","int8","uint8","bool","float32","float64","float16"]:
    a = np.array([[3,1,0,1,2,1,0],[1,0,1,1,0,0,1]]).astype(dt)
    S = Samples(a)
    out = []
    for nm in ["mean","median","variance","std"]:
        try: r = getattr(S,nm)(); out.append((nm, str(r.dtype), r.tolist()))
        except Exception as e: out.append((nm, type(e).__name__))
    for p in [95, 0.5, -10, 150]:
        try: r = S.compute_ci(p); out.append(("ci%s"%p, str(np.asarray(r).dtype), np.asarray(r).tolist()))
        except Exception as e: out.append(("ci%s"%p, type(e).__name__))
    try: w = S.ci_width(90); out.append(("w", str(w.dtype)))
    except Exception as e: out.append(("w", type(e).__name__))
    g = cuqi.geometry.MappedGeometry(cuqi.geometry.Continuous1D(2), map=lambda x: x/4 + 0.5, imap=lambda f: (f-0.5)*4)
    F = Samples(a, geometry=g).funvals
    out.append(("funvals", str(F.samples.dtype), F.samples[:,0].tolist(), str(F.parameters.samples.dtype)))
    B = S.burnthin(1,2); out.append(("burn", str(B.samples.dtype)))
    print(dt, out)
