(* C14 -- Chains are continuous, resumable from a checkpoint, and recorded faithfully.
   Property theorems only.  All quantify over an arbitrary transition `step` (every sampler, target,
   configuration), arbitrary lists of random inputs (every N, M, split position, seed) and arbitrary
   earlier history.  The samplers of /repo are tied to this generic machine by the correspondence harness
   (bit-for-bit differential runs + the trace instance) and by the footprint facts regenerated from the
   source on every run (coq/gen/Gen_C14.v), which instantiate C14_resume_footprint / C14_reinitialize. *)
From CV Require Import Base.Tac Base.Cmp Model.C14_Chain Model.C14_Burn Model.C14_Out Model.C14_Warm Model.C14_Gibbs Proofs.C14_Chain Proofs.C14_Burn Proofs.C14_Out Proofs.C14_Warm Proofs.C14_Gibbs.
From Coq Require String.
Import String.StringSyntax.

Section Generic.
Variables Cfg St Rnd Pt Acc : Type.
Variable step : Cfg -> St -> Rnd -> St * Acc.
Variable tune : Cfg -> St -> list Acc -> nat -> nat -> St.
Variable point : St -> Pt.
Notation sampler := (@sampler St Pt Acc).
Notation sample := (sample Cfg St Rnd Pt Acc step point).
Notation run_ops := (run_ops Cfg St Rnd Pt Acc step tune point).
Notation states := (states Cfg St Rnd Acc step).

(* drawing N then M = drawing N+M from the same random stream: the whole sampler object coincides
   (state, _samples, _acc, callback log) *)
Theorem C14_split : forall (c : Cfg) (s : sampler) (rs1 rs2 : list Rnd),
  sample c (sample c s rs1) rs2 = sample c s (rs1 ++ rs2).
Proof. intros. symmetry. apply sample_app. Qed.

(* the recorded chain has exactly the requested length, after any earlier history *)
Theorem C14_length : forall (c : Cfg) (s : sampler) (rs : list Rnd),
  length (smp (sample c s rs)) = (length (smp s) + length rs)%nat /\
  length (accs (sample c s rs)) = (length (accs s) + length rs)%nat /\
  length (cbl (sample c s rs)) = (length (cbl s) + length rs)%nat.
Proof. intros. apply sample_length. Qed.

(* the new entries are the consecutive states of one chain, in order: entry i+1 is one transition from
   entry i (from the current state for i = 0), driven by the (i+1)-th random input *)
Theorem C14_order : forall (c : Cfg) (s : sampler) (rs : list Rnd),
  smp (sample c s rs) = smp s ++ map point (states c (st s) rs) /\
  st (sample c s rs) = last (states c (st s) rs) (st s) /\
  forall i d r0, (i < length rs)%nat ->
    nth i (states c (st s) rs) d = fst (step c (nth i (st s :: states c (st s) rs) d) (nth i rs r0)).
Proof.
  intros c s rs. destruct (sample_spec Cfg St Rnd Pt Acc step point c rs s) as (H1 & H2 & _).
  repeat split; [exact H2 | exact H1 |]. intros. apply (states_consecutive Cfg St Rnd Pt Acc step point). assumption.
Qed.

(* any sequence of sample/warmup calls (any tuning schedule): entries already recorded are never altered,
   exactly one entry is added per transition *)
Theorem C14_append_only : forall (c : Cfg) (s : sampler) (ops : list (op Rnd)),
  let s' := run_ops c s ops in
  length (smp s') = (length (smp s) + ops_len Rnd ops)%nat /\
  forall i d, (i < length (smp s))%nat -> nth i (smp s') d = nth i (smp s) d.
Proof.
  intros c s ops s'.
  destruct (grows_entries St Pt Acc s s' _ (run_ops_grows Cfg St Rnd Pt Acc step tune point c ops s)) as (H1 & H2 & _).
  split; assumption.
Qed.

(* the callback is invoked exactly once per transition, with the state that transition produced (the entry
   recorded for it) and that entry's index in the recorded chain -- for any sequence of sample/warmup calls *)
Theorem C14_callback_once : forall (c : Cfg) (s : sampler) (ops : list (op Rnd)),
  let s' := run_ops c s ops in
  length (cbl s') = (length (cbl s) + ops_len Rnd ops)%nat /\
  forall j d e, (j < ops_len Rnd ops)%nat ->
    nth (length (cbl s) + j) (cbl s') (d, e) = (nth (length (smp s) + j) (smp s') d, (length (smp s) + j)%nat).
Proof.
  intros c s ops s'.
  destruct (grows_entries St Pt Acc s s' _ (run_ops_grows Cfg St Rnd Pt Acc step tune point c ops s)) as (_ & _ & H3 & H4).
  split; assumption.
Qed.

(* the stateful interface records the warm-up too and discards it afterwards: warmup(Nb), sample(N) on a sampler with
   empty history, then get_samples().burnthin(Nb) (Samples.burnthin, same definition as in the model of property C19) returns exactly the N
   states produced by the sampling call, in order -- the last N states of the chain *)
Theorem C14_exp_burnin : forall (c : Cfg) (ti : nat) (s : sampler) (rsw rs : list Rnd),
  smp s = [] -> rs <> [] ->
  let w := warmup Cfg St Rnd Pt Acc step tune point c ti s rsw in
  burnthin (length rsw) 1 (smp (sample c w rs)) = Some (map point (states c (st w) rs)) /\
  length (map point (states c (st w) rs)) = length rs.
Proof. intros c ti s rsw rs. exact (exp_burnin Cfg St Rnd Pt Acc step tune point c ti s rsw rs). Qed.

(* what get_samples() hands out is a value.  In the model this is immediate (later operations leave every earlier output
   what it was; output j is the chain recorded after the first j+1 operations); its content is carried by the
   correspondence, which re-reads every object handed out earlier after every later operation and compares with
   `outputs` (check_outputs / check_gibbs_outputs) *)
Theorem C14_outputs_stable : forall (c : Cfg) (s : sampler) (ops1 ops2 : list (op Rnd)),
  firstn (length ops1) (outputs Cfg St Rnd Pt Acc step tune point c s (ops1 ++ ops2)) =
  outputs Cfg St Rnd Pt Acc step tune point c s ops1 /\
  forall j d, (j < length ops1)%nat ->
    nth j (outputs Cfg St Rnd Pt Acc step tune point c s ops1) d = smp (run_ops c s (firstn (S j) ops1)).
Proof.
  intros c s ops1 ops2. split; [apply outputs_stable | intros; apply outputs_nth; assumption].
Qed.

(* a chain handed out earlier is a prefix of every chain the same sampler hands out later (sample / warmup calls only) *)
Theorem C14_outputs_prefix : forall (c : Cfg) (s : sampler) (ops1 ops2 : list (op Rnd)),
  exists tail, smp (run_ops c (s) (ops1 ++ ops2)) = smp (run_ops c s ops1) ++ tail /\ length tail = ops_len Rnd ops2.
Proof. intros. apply outputs_prefix. Qed.

(* checkpoint / resume.  get_state = proj, set_state = inject.  FP: a transition depends on the sampler only
   through the saved keys (configuration equal); current_point is a saved key.  Then a state saved at ANY point and
   loaded into ANY initialised sampler `fresh` continues with exactly the transitions of the uninterrupted run:
   same saved state afterwards, same new chain entries, same acceptance values, same callback arguments. *)
Variable Key : Type.
Variable proj : St -> Key.
Variable inject : Key -> St -> St.
Theorem C14_resume :
  (forall k s, proj (inject k s) = k) ->
  (forall c s1 s2 r, proj s1 = proj s2 ->
     proj (fst (step c s1 r)) = proj (fst (step c s2 r)) /\ snd (step c s1 r) = snd (step c s2 r)) ->
  (forall s1 s2, proj s1 = proj s2 -> point s1 = point s2) ->
  forall (c : Cfg) (mid fresh : sampler) (rs : list Rnd),
  let r1 := sample c (load St Pt Acc Key inject (proj (st mid)) fresh) rs in
  let r2 := sample c mid rs in
  proj (st r1) = proj (st r2) /\
  (exists x, smp r1 = smp fresh ++ x /\ smp r2 = smp mid ++ x /\ length x = length rs) /\
  (exists a, accs r1 = accs fresh ++ a /\ accs r2 = accs mid ++ a) /\
  map fst (skipn (length (cbl fresh)) (cbl r1)) = map fst (skipn (length (cbl mid)) (cbl r2)).
Proof. intros H1 H2 H3 c mid fresh rs. exact (resume Cfg St Rnd Pt Acc step point Key proj inject H1 H2 H3 c mid fresh rs). Qed.

(* ... at ANY checkpoint position of an uninterrupted run rs1 ++ rs2 started from any sampler s: the entries the resumed
   sampler adds are exactly those the uninterrupted run records after position |rs1| *)
Theorem C14_checkpoint_any_position :
  (forall k s, proj (inject k s) = k) ->
  (forall c s1 s2 r, proj s1 = proj s2 ->
     proj (fst (step c s1 r)) = proj (fst (step c s2 r)) /\ snd (step c s1 r) = snd (step c s2 r)) ->
  (forall s1 s2, proj s1 = proj s2 -> point s1 = point s2) ->
  forall (c : Cfg) (s fresh : sampler) (rs1 rs2 : list Rnd),
  let full := sample c s (rs1 ++ rs2) in
  let mid := sample c s rs1 in
  let res := sample c (load St Pt Acc Key inject (proj (st mid)) fresh) rs2 in
  smp full = smp mid ++ skipn (length (smp fresh)) (smp res) /\
  length (skipn (length (smp fresh)) (smp res)) = length rs2 /\
  proj (st res) = proj (st full).
Proof. intros H1 H2 H3 c s fresh rs1 rs2. exact (checkpoint_any_position Cfg St Rnd Pt Acc step point Key proj inject H1 H2 H3 c s fresh rs1 rs2). Qed.

(* stateless interface, _sample(N, Nb) with N + Nb - 1 transitions: exactly N entries are returned; entry i is
   state Nb + i of the chain that starts at x0 (so the burn-in discarded is exactly the first Nb states and,
   without burn-in, the chain begins with the initial point) -- for loops that do not alias their columns *)
Theorem C14_burnin_slice : forall (c : Cfg) (s0 : St) (rs : list Rnd) (n nb : nat) (aliased : bool),
  (1 <= n)%nat -> length rs = (n + nb - 1)%nat ->
  length (legacy_sample Cfg St Rnd Pt Acc step point c aliased s0 rs nb) = n /\
  (forall i d, nth i (legacy_sample Cfg St Rnd Pt Acc step point c false s0 rs nb) (point d) =
               point (nth (nb + i) (legacy_chain Cfg St Rnd Acc step c s0 rs) d)) /\
  (nb = 0%nat -> hd (point s0) (legacy_sample Cfg St Rnd Pt Acc step point c false s0 rs nb) = point s0).
Proof.
  intros c s0 rs n nb a Hn Hl. repeat split.
  - rewrite legacy_sample_length. lia.
  - intros. apply legacy_sample_nth.
  - intros ->. reflexivity.
Qed.

(* stateless interface: one callback per transition, with state k and index k (x0 has index 0, burn-in included) *)
Theorem C14_legacy_callback : forall (c : Cfg) (s0 : St) (rs : list Rnd),
  length (legacy_cb Cfg St Rnd Pt Acc step point c s0 rs) = length rs /\
  forall k d e, (k < length rs)%nat ->
    nth k (legacy_cb Cfg St Rnd Pt Acc step point c s0 rs) (point d, e) =
    (point (nth (S k) (legacy_chain Cfg St Rnd Acc step c s0 rs) d), S k).
Proof. intros. apply legacy_cb_spec. Qed.

(* both Gibbs samplers: calling sample repeatedly continues the same chain *)
Theorem C14_gibbs_continue : forall (c : Cfg) (init : St) (warm stored : list St) (rs1 rs2 : list Rnd),
  gibbs_sample Cfg St Rnd Acc step c init warm (gibbs_sample Cfg St Rnd Acc step c init warm stored rs1) rs2 =
  gibbs_sample Cfg St Rnd Acc step c init warm stored (rs1 ++ rs2) /\
  length (gibbs_sample Cfg St Rnd Acc step c init warm stored rs1) = (length stored + length rs1)%nat.
Proof. intros. split; [apply gibbs_continue | apply gibbs_length]. Qed.
(* both Gibbs samplers: the chain returned by a call is a prefix of the chain returned by the next call *)
Theorem C14_gibbs_outputs_prefix : forall (c : Cfg) (init : St) (warm stored : list St) (rs : list Rnd),
  exists tail, gibbs_sample Cfg St Rnd Acc step c init warm stored rs = stored ++ tail /\ length tail = length rs.
Proof. intros. apply gibbs_prefix. Qed.
(* Gibbs blocks that take several inner transitions per sweep (HybridGibbs num_sampling_steps): the value recorded for the
   block is the state of the block sampler after ALL inner transitions -- the last transition applied to the result of the
   earlier ones, whether or not that last one moved -- and inner transitions compose *)
Theorem C14_gibbs_inner_steps : forall (c : Cfg) (s : St) (rs1 rs2 : list Rnd) (r : Rnd),
  block_after Cfg St Rnd Acc step c s [] = s /\
  block_after Cfg St Rnd Acc step c s (rs1 ++ [r]) = fst (step c (block_after Cfg St Rnd Acc step c s rs1) r) /\
  block_after Cfg St Rnd Acc step c s (rs1 ++ rs2) = block_after Cfg St Rnd Acc step c (block_after Cfg St Rnd Acc step c s rs1) rs2.
Proof.
  intros c s rs1 rs2 r. split; [reflexivity|]. split; [apply block_after_snoc | apply block_after_app].
Qed.
End Generic.
Print Assumptions C14_split.
Print Assumptions C14_length.
Print Assumptions C14_order.
Print Assumptions C14_append_only.
Print Assumptions C14_callback_once.
Print Assumptions C14_exp_burnin.
Print Assumptions C14_outputs_stable.
Print Assumptions C14_outputs_prefix.
Print Assumptions C14_resume.
Print Assumptions C14_checkpoint_any_position.
Print Assumptions C14_burnin_slice.
Print Assumptions C14_legacy_callback.
Print Assumptions C14_gibbs_continue.
Print Assumptions C14_gibbs_outputs_prefix.
Print Assumptions C14_gibbs_inner_steps.

(* REFUTED for loops that pass a view of the stored chain to a helper that mutates it (legacy CWMH):
   what such a loop records is the chain shifted by one -- entry i is state min(i+1, Ns-1) -- so the chain does not
   begin with the initial point and its last state is duplicated.  C14_burnin_slice is therefore stated for
   aliased = false in its second and third clause; the class aliased = true is exactly legacy CWMH. *)
Theorem C14_legacy_alias_partial : forall (A : Type) (l : list A) (i : nat) (d : A), (i < length l)%nat ->
  nth i (legacy_record true l) d = nth (Nat.min (S i) (length l - 1)) l d.
Proof. intros. apply alias_shift_nth. assumption. Qed.
Print Assumptions C14_legacy_alias_partial.

Theorem C14_burnin_slice_refuted :
  exists (ref : list Z) (n : nat),
    let rec := legacy_sample unit nat unit Z unit tr_step (tr_point ref) tt true 0%nat (units n) 0 in
    let chain := map (tr_point ref) (legacy_chain unit nat unit unit tr_step tt 0%nat (units n)) in
    chain = [10; 11; 12]%Z /\ rec = [11; 12; 12]%Z /\ hd 0%Z rec <> tr_point ref 0.
Proof. exact alias_refuted. Qed.
Print Assumptions C14_burnin_slice_refuted.

(* From extracted footprints to the resume hypothesis.  For a sampler class with extracted facts f such that
   footprint_ok holds (checked by vm_compute in coq/gen/Gen_C14.v on every run), every transition function whose
   semantic footprint is within the extracted one (trusted bridge: tr_footprint.py over-approximates) satisfies:
   after set_state(get_state(mid)) on a sampler `fresh` with the same configuration, every saved key -- in particular
   current_point -- has, after every number of further transitions, the value of the uninterrupted run. *)
Theorem C14_resume_footprint : forall (V Rnd : Type) (excused : list string) (f : facts) (stepS : store V -> Rnd -> store V),
  footprint_ok excused f = true ->
  (forall s r a, ~ In a (run_writes f) -> stepS s r a = s a) ->
  (forall s1 s2 r, agree (sem_reads f) s1 s2 -> agree (f_state f) (stepS s1 r) (stepS s2 r)) ->
  forall (orig fresh : store V) (rs1 rs2 : list Rnd) (a : string),
    (forall b, ~ In b (run_writes f) -> fresh b = orig b) -> In a (f_state f) ->
    runS V Rnd stepS (load_store (f_state f) (runS V Rnd stepS orig rs1) fresh) rs2 a =
    runS V Rnd stepS (runS V Rnd stepS orig rs1) rs2 a.
Proof. exact resume_from_facts. Qed.
Print Assumptions C14_resume_footprint.

(* the checker also rules out what would alias recorded history: no saved attribute is mutated in place, no helper
   mutates an argument, step appends only to declared history, and no randomised initialisation result outside the
   saved state (and outside `excused`, the attributes named by a listed finding) is read by step *)
Theorem C14_footprint_checks : forall (excused : list string) (f : facts), footprint_ok excused f = true ->
  (forall a, In a (f_step_inplace f) -> ~ In a (f_state f)) /\ f_step_argmut f = [] /\
  (forall a, In a (f_step_append f) -> In a (f_hist f)) /\
  (forall a, In a (sem_reads f) -> In a (f_hidden_random f) -> In a (f_state f) \/ In a excused).
Proof.
  intros ex f H. destruct (footprint_ok_alias ex f H) as (H1 & H2 & H3).
  repeat split; try assumption. apply footprint_ok_random. exact H.
Qed.
Print Assumptions C14_footprint_checks.

(* reinitialize (clear state and history keys, then initialize) does not depend on anything a run did: after any
   history it yields, on every attribute initialize binds, on every state/history key and on everything runs never
   touch, exactly what it yields on the sampler as first initialised -- given reinit_ok on the extracted facts *)
Theorem C14_reinitialize : forall (V Rnd : Type) (f : facts) (initS : store V -> store V),
  reinit_ok f = true ->
  (forall s a, ~ In a (f_init_w f) -> initS s a = s a) ->
  (forall s1 s2, agree (f_init_r f) s1 s2 -> agree (f_init_w f) (initS s1) (initS s2)) ->
  forall (none : V) (s s1 : store V) (a : string),
    (forall b, ~ In b (run_writes f) -> s b = s1 b) ->
    In a (f_init_w f) \/ ~ In a (run_writes f) \/ In a (f_state f ++ f_hist f) ->
    initS (clear_store none (f_state f ++ f_hist f) s) a = initS (clear_store none (f_state f ++ f_hist f) s1) a.
Proof. exact reinit_from_facts. Qed.
Print Assumptions C14_reinitialize.

Local Open Scope string_scope.
(* reinitialize touches no attribute that initialize does not re-bind -- constructor arguments that initialize leaves
   alone keep their value -- given reinit_ok (every cleared state/history key is re-bound by initialize) *)
Theorem C14_reinitialize_frame : forall (V : Type) (f : facts) (initS : store V -> store V),
  reinit_ok f = true ->
  (forall s a, ~ In a (f_init_w f) -> initS s a = s a) ->
  forall (none : V) (s : store V) (a : string), ~ In a (f_init_w f) ->
    initS (clear_store none (f_state f ++ f_hist f) s) a = s a.
Proof. exact reinit_frame_from_facts. Qed.
Print Assumptions C14_reinitialize_frame.

(* REFUTED outside the guard reinit_ok: a declared state key that initialize never re-binds is left at the cleared
   value.  This was exactly NUTS.max_depth (in _STATE_KEYS, bound only in __init__): reinitialize turned a constructed
   max_depth into the default -- signature NUTS.reinitialize|state-key-not-rebound:max_depth, repaired in /repo by the
   proposed fix (reinitialize now re-binds it, and the regenerated NUTS_reinit lemma of Gen_C14.v states reinit_ok = true) *)
Theorem C14_reinitialize_refuted :
  reinit_ok nuts_like = false /\
  (forall s a, ~ In a (f_init_w nuts_like) -> nuts_like_init s a = s a) /\
  ~ In "max_depth" (f_init_w nuts_like) /\
  nuts_like_store "max_depth" = Some 5%Z /\
  nuts_like_init (clear_store None (f_state nuts_like ++ f_hist nuts_like) nuts_like_store) "max_depth" = None.
Proof. exact reinit_refuted. Qed.
Print Assumptions C14_reinitialize_refuted.

(* REFUTED outside the guard random_ok (part of footprint_ok): C14_resume_footprint asks the fresh sampler to agree
   with the original one on everything runs do not write; a randomised initialisation result that step reads and
   get_state does not save breaks that premise although the footprint inclusion itself holds.  This is exactly
   RegularizedLinearRTO._stepsize -- signature RegularizedLinearRTO.step|hidden-random-outside-state:_stepsize *)
Theorem C14_resume_refuted :
  footprint_ok [] rto_like = false /\ footprint_ok ["_stepsize"] rto_like = true /\
  (forall s r a, ~ In a (run_writes rto_like) -> rto_like_step s r a = s a) /\
  (forall s1 s2 r, agree (sem_reads rto_like) s1 s2 -> agree (f_state rto_like) (rto_like_step s1 r) (rto_like_step s2 r)) /\
  exists orig fresh : store Z,
    (forall b, b <> "_stepsize" -> fresh b = orig b) /\
    runS Z Z rto_like_step (load_store (f_state rto_like) (runS Z Z rto_like_step orig [1%Z]) fresh) [1%Z] "current_point"
    <> runS Z Z rto_like_step (runS Z Z rto_like_step orig [1%Z]) [1%Z] "current_point".
Proof. exact hidden_random_refuted. Qed.
Print Assumptions C14_resume_refuted.

(* checkpoints taken BETWEEN warm-up calls (outside the letter of the property, which speaks of the sampling phase; stated
   so that what is and is not resumable is exact).  A run now mixes transitions and tune calls.  If warm_resume_ok holds on
   the extracted facts -- everything step OR tune reads is saved state or never modified by a run -- then loading a state
   saved at any point into a fresh sampler of the same configuration continues identically through any further mix of
   transitions and tune calls.  Classes for which the regenerated lemma X_warm states `true`: ULA, MALA, LinearRTO,
   RegularizedLinearRTO, UGLA, Direct, Conjugate, ConjugateApprox (tune does nothing) and NUTS with a given step_size
   (excusing _mu, then a function of the configuration, and the step/tune scratch _current_alpha_ratio). *)
Theorem C14_resume_warmup : forall (V Rnd Tn : Type) (stepS : store V -> Rnd -> store V) (tuneS : store V -> Tn -> store V)
    (ex scr : list string) (f : facts),
  warm_resume_ok ex scr f = true ->
  (forall s r a, ~ In a (run_writes (with_tune scr f)) -> stepS s r a = s a) ->
  (forall s t a, ~ In a (run_writes (with_tune scr f)) -> tuneS s t a = s a) ->
  (forall s1 s2 r, agree (sem_reads (with_tune scr f)) s1 s2 -> agree (f_state f) (stepS s1 r) (stepS s2 r)) ->
  (forall s1 s2 t, agree (sem_reads (with_tune scr f)) s1 s2 -> agree (f_state f) (tuneS s1 t) (tuneS s2 t)) ->
  forall (orig fresh : store V) (ops1 ops2 : list (Rnd + Tn)) (a : string),
    (forall b, ~ In b (run_writes (with_tune scr f)) -> fresh b = orig b) -> In a (f_state f) ->
    runS V (Rnd + Tn) (opS V Rnd Tn stepS tuneS) (load_store (f_state f) (runS V (Rnd + Tn) (opS V Rnd Tn stepS tuneS) orig ops1) fresh) ops2 a =
    runS V (Rnd + Tn) (opS V Rnd Tn stepS tuneS) (runS V (Rnd + Tn) (opS V Rnd Tn stepS tuneS) orig ops1) ops2 a.
Proof. intros V Rnd Tn stepS tuneS ex scr f. exact (resume_warmup V Rnd Tn stepS tuneS ex scr f). Qed.
Print Assumptions C14_resume_warmup.

(* REFUTED outside the guard: a tune that reads the acceptance history (MH, CWMH, PCN read _acc, which is history and
   not part of the checkpoint) is resumable in the sampling phase (footprint_ok) but not between warm-up calls *)
Theorem C14_resume_warmup_refuted :
  footprint_ok [] mh_like = true /\ warm_resume_ok [] [] mh_like = false /\
  (forall s r a, ~ In a (run_writes (with_tune [] mh_like)) -> mh_like_step s r a = s a) /\
  (forall s t a, ~ In a (run_writes (with_tune [] mh_like)) -> mh_like_tune s t a = s a) /\
  exists orig : store Z,
    let fresh := orig in
    let ops1 := [inl 1%Z; inl 1%Z] in
    let ops2 := [inr tt; inl 1%Z] in
    runS Z (Z + unit) (opS Z Z unit mh_like_step mh_like_tune)
         (load_store (f_state mh_like) (runS Z (Z + unit) (opS Z Z unit mh_like_step mh_like_tune) orig ops1) fresh) ops2 "current_point"
    <> runS Z (Z + unit) (opS Z Z unit mh_like_step mh_like_tune)
         (runS Z (Z + unit) (opS Z Z unit mh_like_step mh_like_tune) orig ops1) ops2 "current_point".
Proof. exact warm_refuted. Qed.
Print Assumptions C14_resume_warmup_refuted.

(* batches written by sample(Ns, batch_size = k): when the remainder is flushed the files, read in order, are exactly the
   chain recorded by that call *)
Theorem C14_batches : forall (A : Type) (k : nat) (l : list A), (1 <= k)%nat -> concat (batches true k l) = l.
Proof. intros A k l. exact (concat_chunks k l). Qed.
Print Assumptions C14_batches.

(* the code that exists does not flush the remainder: every file then holds exactly k samples (so the files hold a
   multiple of k samples) ... *)
Theorem C14_batches_partial : forall (A : Type) (k : nat) (l : list A),
  Forall (fun b => length b = k) (batches false k l) /\
  length (concat (batches false k l)) = (k * length (batches false k l))%nat.
Proof. intros A k l. exact (batches_unfinalized k l). Qed.
Print Assumptions C14_batches_partial.

(* ... and REFUTED as a faithful record whenever k does not divide the number of samples: the last Ns mod k samples are
   never written -- signature Sampler.sample|batch:remainder-never-flushed *)
Theorem C14_batches_refuted : concat (batches false 3 [1; 2; 3; 4; 5; 6; 7]%Z) = [1; 2; 3; 4; 5; 6]%Z.
Proof. exact batches_refuted. Qed.
Print Assumptions C14_batches_refuted.

(* several batched calls into one directory (the default ./CUQI_samples/): a single call leaves exactly its batches; with a
   second call the files are REFUTED as a record of the chain -- every call numbers its files from 0, so the first files of
   the earlier call are replaced (signature Sampler.sample|batch:next-call-overwrites-files) *)
Theorem C14_batch_files : forall (A : Type) (fin : bool) (k : nat) (c : list A), batch_files fin k [c] [] = batches fin k c.
Proof. intros A fin k c. exact (batch_files_one fin k c). Qed.
Print Assumptions C14_batch_files.

Theorem C14_batch_files_refuted :
  batch_files true 2 [[1; 2; 3; 4; 5]%Z; [6; 7]%Z] [] = [[6; 7]; [3; 4]; [5]]%Z /\
  concat (batch_files true 2 [[1; 2; 3; 4; 5]%Z; [6; 7]%Z] []) <> [1; 2; 3; 4; 5; 6; 7]%Z.
Proof. exact batch_files_refuted. Qed.
Print Assumptions C14_batch_files_refuted.

(* stateless interface: sample_adapt(N, Nb) is refused (division by the adaptation interval int(0.1 N) = 0) iff N < 10 *)
Theorem C14_adapt_refusal : forall n : nat, adapt_defined n = true <-> (10 <= n)%nat.
Proof. exact adapt_defined_iff. Qed.
Print Assumptions C14_adapt_refusal.

(* HybridGibbs as the composite machine that exists (no checkpoint interface of its own): block samplers bl, one sweep = every
   block in order, conditioned on the current points of all blocks, taking its inner transitions.  If every block's
   transition depends on its sampler only through what get_state saves (proj; current_point is a saved key), then block
   samplers that agree on their saved states record the same chain from then on -- i.e. get_state() of every block loaded
   into the blocks of a freshly constructed HybridGibbs of the same configuration continues with exactly the sweeps of the
   uninterrupted run; and N sweeps followed by M sweeps record the chain of N + M sweeps.  (The property asks the Gibbs
   samplers only for the second statement; the first is what the existing pieces provide, checked behaviourally.) *)
Theorem C14_gibbs_composite : forall (Bs V Rnd K : Type) (bstep : nat -> list V -> Bs -> Rnd -> Bs) (point : Bs -> V)
    (proj : Bs -> K) (pk : K -> V),
  (forall b, point b = pk (proj b)) ->
  (forall i vs b1 b2 r, proj b1 = proj b2 -> proj (bstep i vs b1 r) = proj (bstep i vs b2 r)) ->
  (forall (rsss : list (list (list Rnd))) (l1 l2 : list Bs), map proj l1 = map proj l2 ->
     gibbs_chain Bs V Rnd bstep point l1 rsss = gibbs_chain Bs V Rnd bstep point l2 rsss) /\
  (forall (r1 r2 : list (list (list Rnd))) (bl : list Bs),
     gibbs_chain Bs V Rnd bstep point bl (r1 ++ r2) =
     gibbs_chain Bs V Rnd bstep point bl r1 ++ gibbs_chain Bs V Rnd bstep point (after Bs V Rnd bstep point bl r1) r2).
Proof.
  intros Bs V Rnd K bstep point proj pk H1 H2. split.
  - intros rsss l1 l2. exact (gibbs_chain_proj Bs V Rnd K bstep point proj pk H1 H2 rsss l1 l2).
  - intros r1 r2 bl. exact (gibbs_chain_app Bs V Rnd bstep point r1 bl r2).
Qed.
Print Assumptions C14_gibbs_composite.

(* the instance the generated cases evaluate (a state = its position in the reference chain; get_state = the position;
   set_state replaces it) satisfies the three hypotheses of C14_resume / C14_checkpoint_any_position: for it they are facts,
   so every TResume evaluated by check_exp is covered by those theorems *)
Theorem C14_trace_instance : forall ref : list Z,
  (forall (k : nat) (s : nat), (fun s' : nat => s') ((fun (k' : nat) (_ : nat) => k') k s) = k) /\
  (forall (c : unit) (s1 s2 : nat) (r : unit), s1 = s2 ->
     fst (tr_step c s1 r) = fst (tr_step c s2 r) /\ snd (tr_step c s1 r) = snd (tr_step c s2 r)) /\
  (forall s1 s2 : nat, s1 = s2 -> tr_point ref s1 = tr_point ref s2).
Proof. intros ref. repeat split; intros; subst; reflexivity. Qed.
Print Assumptions C14_trace_instance.

(* non-vacuity: a two-component state whose second component is not saved and not read satisfies the hypotheses
   of C14_resume; a small fact record satisfies footprint_ok and reinit_ok; the trace instance runs *)
Example C14_example :
  (let step := fun (_ : unit) (s : Z * Z) (r : Z) => ((fst s + r, snd s + 1), fst s)%Z in
   let proj := fun s : Z * Z => fst s in
   let inject := fun (k : Z) (s : Z * Z) => (k, snd s) in
   (forall k s, proj (inject k s) = k) /\
   (forall c s1 s2 r, proj s1 = proj s2 ->
      proj (fst (step c s1 r)) = proj (fst (step c s2 r)) /\ snd (step c s1 r) = snd (step c s2 r)) /\
   smp (sample unit (Z * Z) Z Z Z step fst tt (mkS (5, 0)%Z [] [] [] []) [1; 2; 3]%Z) = [6; 8; 11]%Z) /\
  (let f := mkFacts ["current_point"; "scale"] ["_samples"; "_acc"] ["current_point"; "scale"; "target"; "_tmp"]
                    ["current_point"; "_tmp"] ["_tmp"] [] [] [] ["_acc"] ["scale"] ["initial_point"; "initial_scale"]
                    ["current_point"; "scale"; "_samples"; "_acc"] [] in
   footprint_ok [] f = true /\ reinit_ok f = true /\ tune_ok f = true) /\
  (let g := mkFacts ["current_point"; "_epsilon"; "_H_bar"] ["_samples"; "_acc"] ["current_point"; "_epsilon"; "target"]
                    ["current_point"; "_alpha"] [] [] [] [] ["_H_bar"; "_mu"; "_alpha"] ["_H_bar"; "_epsilon"] ["initial_point"]
                    ["current_point"; "_epsilon"; "_H_bar"; "_mu"; "_samples"; "_acc"] ["_mu"] in
   warm_resume_ok ["_mu"] ["_alpha"] g = true /\ warm_resume_ok [] ["_alpha"] g = false /\ warm_resume_ok ["_mu"] [] g = false) /\
  concat (batches true 3 [1; 2; 3; 4; 5; 6; 7]%Z) = [1; 2; 3; 4; 5; 6; 7]%Z /\
  check_exp [100; 101; 102; 103; 104]%Z [TSample 2; TResume; TSample 2] [103; 104]%Z 3
            [(101, 0%nat); (102, 1%nat); (103, 0%nat); (104, 1%nat)]%Z [] = true.
Proof.
  repeat split; intros; try (vm_compute; reflexivity); cbn in *; congruence.
Qed.
