(* C09 -- legacy cuqi.sampler.Gibbs with the real legacy block samplers whose draw the model computes itself:
   cuqi.sampler.LinearRTO (a fresh object per update: it builds its stacked system from the conditional it is constructed
   with; draw = least-squares solution with scripted normals, Model/C09_Rto.v) and cuqi.sampler.Conjugate (Gaussian-Gamma:
   scripted standard Gamma variate / rate read off the target).  Same legacy wiring (Model/C09_Gibbs.v Section Legacy) at the
   richer type of targets of Model/C09_Gibbs2.v.  No proofs here. *)
From CV Require Import Base.Tac Base.Cmp Base.QcLin Model.C09_Rto Model.C09_Nnls Model.C09_Gibbs Model.C09_Gibbs2.
From Coq Require Import QArith Qround Qabs Qcanon.
Local Open Scope Q_scope.

Inductive lkind2 := L2Opq | L2Conj | L2Ls (sb : lsblock).

(* the model's exact draw m and the float the implementation returned: continue from the implementation's value when they
   agree to 1e-5 (scale-free, floor = the block's scale), otherwise from the model's (every later comparison then fails) *)
Definition adoptv (floor : Q) (m obs : vec) : vec :=
  if Nat.eqb (length m) (length obs) && Qle_bool (vmaxabs (vsub m obs)) (tol7 * (vmaxabs m + vmaxabs obs + floor))
  then obs else map Qred m ++ [1].

(* the random item of a least-squares block carries  observed point ++ normals ++ sqrt certificates ++ dd certificates *)
Definition ls_draw (tol : Q) (sb : lsblock) (i : nat) (a : list vec) (n : nat) (r : rnd) : option vec :=
  let rows := ls_rows (fst sb) i a in
  let k := length rows in
  let es := firstn k (skipn n (r_vec r)) in
  let ss := firstn k (skipn (n + k) (r_vec r)) in
  let dds := firstn k (skipn (n + k + k) (r_vec r)) in
  let z := zip4 rows es ss dds in
  if Nat.eqb (length z) k && forallb (fun q => cert_ok tol (fst (fst (fst q))) (snd (fst q)) (snd q)) z
  then match (if snd sb then nnls_draw n (to_noisy z) else rto_draw n (to_noisy z)) with
       | Some m => Some (map (fun c : Qc => this c) m)
       | None => None
       end
  else None.

Definition cltrans2 (tol : Q) (ks : list lkind2) (floors : list Q) (i : nat) (t : vec -> tgt2) (x : vec) (r : rnd) : vec :=
  match nth i ks L2Opq with
  | L2Opq => r_vec r
  | L2Conj =>                          (* t(p) = -rate * p + (terms cancelling in differences) *)
      let p0 := match x with v :: _ => v | [] => 1 end in
      let rate := (fst (t [p0]) - fst (t [2 * p0])) / p0 in
      adoptv 0 [r_logu r / rate] (r_vec r)
  | L2Ls sb =>
      let n := length x in
      match ls_draw tol sb i (snd (t x)) n r with
      | Some m => adoptv (nth i floors 0) m (firstn n (r_vec r))
      | None => [1; 1; 1; 1; 1; 1; 1]            (* certificate / solve failure: a value no observation matches *)
      end
  end.

Fixpoint legacy_calls2 (tol : Q) (jt : list vec -> Q) (ks : list lkind2) (floors : list Q) (init0 : list vec) (sc : list (list (list rnd)))
    (ops : list lop) (t0 : nat) (st : @lst vec) : list lobs * list (@ev vec tgt2 vec) :=
  match ops with
  | [] => ([], [])
  | LSample ns nb :: r =>
      match lsample (cond (jt2 jt)) (cltrans2 tol ks floors) (script sc) init0 ns nb t0 st with
      | LOk st' lg =>
          let r' := legacy_calls2 tol jt ks floors init0 sc r (t0 + nb + ns) st' in
          (LObs (match l_samples st' with Some s => s | None => [] end)
                (match l_warm st' with Some w => w | None => [] end) :: fst r', lg ++ snd r')
      | LIndexError => let r' := legacy_calls2 tol jt ks floors init0 sc r t0 st in (LObsIndexError :: fst r', snd r')
      | LValueError => let r' := legacy_calls2 tol jt ks floors init0 sc r t0 st in (LObsValueError :: fst r', snd r')
      end
  end.

Definition lev_proj (e : @ev vec tgt2 vec) : @ev vec Q vec :=
  mkEv (e_blk e) (e_j e) (e_cur e) (fun p => fst (e_tgt e p)) (e_s e).

Definition check_legacy_tol2 (ctol : Q) (jt : list vec -> Q) (ks : list lkind2) (floors : list Q) (init0 : list vec) (sc : list (list (list rnd)))
    (ops : list lop) (probes : list (list vec)) (combos : list (list (list Z))) (tol : Q) (oobs : list lobs) (olog : list oev) : bool :=
  let r := legacy_calls2 ctol jt ks floors init0 sc ops 0 (mkL None None) in
  all2 (lobs_close tol) (fst r) oobs && all2 (lev_ok_tol tol probes combos) (map lev_proj (snd r)) olog.
