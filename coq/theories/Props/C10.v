(* C10 -- Conjugate and direct samplers draw from the exact conditional.
   Property theorems only: each is closed by `exact <lemma>` and followed by Print Assumptions.

   Reading guide.  `proportional_on_pos logf logg` = "f/g does not depend on s on s > 0" (densities proportional
   as functions of the hyper-parameter).  `post_logd lnG lik alpha beta` = Posterior.logd = likelihood + Gamma prior.
   `sampler_logpdf lnG m L1 Ax b alpha beta` = log-density of the Gamma the code constructs:
        Gamma(shape = m/2 + alpha, rate = .5*||L1 @ (Ax - b)||^2 + beta),   L1 = distribution(1).sqrtprec.
   lnG (scipy's gammaln) is universally quantified: no law of it is used.
   What is NOT proved here: that numpy.random.gamma(shape, scale) has the Gamma density (law of the generator,
   DESIGN section 1), and that a callable which passes the three-point probe IS the identity/reciprocal
   (it need not be: C10_probe_refuted). *)
From CV Require Import Base.Tac Base.LinAlg Base.Cmp Model.C10_Conj Model.C10_ConjR
                       Proofs.C10_Kernel Proofs.C10_Exact Proofs.C10_Valid Proofs.C10_Carrier
                       Proofs.C10_Approx Proofs.C10_Probe2 Proofs.C10_Vec Proofs.C10_Full Proofs.C10_Checks Proofs.C10_Life
                       Model.C10_Dep Model.C10_Direct Model.C10_Lmrf
                       Proofs.C10_Probe3 Proofs.C10_MonoExact Proofs.C10_Reg Proofs.C10_DirectLife Proofs.C10_Lmrf Proofs.C10_Affine Proofs.C10_Integral Proofs.C10_RegCheck Proofs.C10_MonoIff.
From Coq Require Import Reals QArith Qabs Qreals Lra.

(* ------------------------------------------------------------------------------------------------- *)
(* 1. the Gamma kernel identity and its converse                                                      *)
(* ------------------------------------------------------------------------------------------------- *)

(* any likelihood of the form (rank/2) ln s - s q/2 + c, times a Gamma(alpha,beta) prior, is proportional to
   Gamma(rank/2 + alpha, q/2 + beta) -- for all rank, q, c, alpha, beta *)
Theorem C10_gamma_kernel :
  forall (lnG : R -> R) (lik : R -> R) (rank q c alpha beta shape rate : R),
    (forall s, 0 < s -> lik s = rank / 2 * ln s - s * (q / 2) + c)%R ->
    shape = (rank / 2 + alpha)%R -> rate = (q / 2 + beta)%R ->
    proportional_on_pos (post_logd lnG lik alpha beta) (gamma_logpdf lnG shape rate).
Proof. exact prop_from_core. Qed.
Print Assumptions C10_gamma_kernel.

(* ... and no other Gamma is: shape and rate are determined by the target *)
Theorem C10_gamma_kernel_unique :
  forall (lnG : R -> R) (lik : R -> R) (rank q c alpha beta shape rate : R),
    (forall s, 0 < s -> lik s = rank / 2 * ln s - s * (q / 2) + c)%R ->
    proportional_on_pos (post_logd lnG lik alpha beta) (gamma_logpdf lnG shape rate) ->
    shape = (rank / 2 + alpha)%R /\ rate = (q / 2 + beta)%R.
Proof. exact core_unique. Qed.
Print Assumptions C10_gamma_kernel_unique.

(* ------------------------------------------------------------------------------------------------- *)
(* 2. the supported pairs: every dimension, data vector b, forward-model output Ax, alpha, beta        *)
(* ------------------------------------------------------------------------------------------------- *)

(* Gaussian(mean = Ax, cov = f(s)) with f the reciprocal *)
Theorem C10_gaussian_cov_exact :
  forall (lnG : R -> R) (cov_fun : R -> R) (Ax b : Rvec) (alpha beta : R),
    (forall s, 0 < s -> cov_fun s = 1 / s)%R -> length Ax = length b ->
    proportional_on_pos (post_logd lnG (lik_gauss_cov cov_fun Ax b) alpha beta)
      (sampler_logpdf lnG (length b) (sqrtprec_of (from_cov_scalar (length b) (cov_fun 1%R))) Ax b alpha beta).
Proof. exact gauss_cov_exact. Qed.
Print Assumptions C10_gaussian_cov_exact.

(* Gaussian(mean = Ax, prec = f(s)) with f the identity *)
Theorem C10_gaussian_prec_exact :
  forall (lnG : R -> R) (prec_fun : R -> R) (Ax b : Rvec) (alpha beta : R),
    (forall s, 0 < s -> prec_fun s = s)%R -> length Ax = length b ->
    proportional_on_pos (post_logd lnG (lik_gauss_prec prec_fun Ax b) alpha beta)
      (sampler_logpdf lnG (length b) (sqrtprec_of (from_prec_scalar (length b) (prec_fun 1%R))) Ax b alpha beta).
Proof. exact gauss_prec_exact. Qed.
Print Assumptions C10_gaussian_prec_exact.

(* any Gaussian whose precision is s * L1^T L1 (rank `rank`): the Gamma with m is the exact conditional
   iff m = rank.  (This is the class on which the legacy sampler, which validates nothing, is exact.) *)
Theorem C10_gaussian_homogeneous_exact_iff :
  forall (lnG : R -> R) (rank : nat) (logdet1 : R) (L1 : Rmat) (Ax b : Rvec) (alpha beta : R) (m : nat),
    proportional_on_pos (post_logd lnG (lik_gauss_homog rank logdet1 L1 Ax b) alpha beta)
      (sampler_logpdf lnG m (Rmscale (sqrt 1) L1) Ax b alpha beta)
    <-> m = rank.
Proof. exact gauss_homog_exact_iff. Qed.
Print Assumptions C10_gaussian_homogeneous_exact_iff.

(* GMRF(mean = Ax, prec = f(s)), f the identity; `rank`, `logdet` are what the GMRF object stores and uses in
   its own logpdf; cholT is the factor the code keeps, with the law  cholT^T cholT = P  of the Cholesky oracle.
   The sampler (m = len(b)) draws from the exact conditional IFF the stored rank equals len(b). *)
Theorem C10_gmrf_exact_iff :
  forall (lnG : R -> R) (prec_fun : R -> R) (rank : nat) (logdet : R) (cholT P : Rmat) (Ax b : Rvec) (alpha beta : R),
    (forall s, 0 < s -> prec_fun s = s)%R ->
    chol_law (length b) cholT P -> length Ax = length b ->
    (proportional_on_pos (post_logd lnG (lik_gmrf prec_fun rank logdet P Ax b) alpha beta)
       (sampler_logpdf lnG (length b) (gmrf_sqrtprec cholT (prec_fun 1%R)) Ax b alpha beta)
     <-> rank = length b).
Proof. exact gmrf_exact_iff. Qed.
Print Assumptions C10_gmrf_exact_iff.

(* zero boundary conditions (the code stores rank = dim under either rank rule): m = len(b) = rank, exact *)
Theorem C10_gmrf_zero_bc_exact :
  forall (lnG : R -> R) (rule : rank_rule) (order pd : nat) (prec_fun : R -> R) (logdet : R) (cholT P : Rmat) (Ax b : Rvec) (alpha beta : R),
    (forall s, 0 < s -> prec_fun s = s)%R ->
    chol_law (length b) cholT P -> length Ax = length b ->
    proportional_on_pos (post_logd lnG (lik_gmrf prec_fun (gmrf_code_rank rule BZero order pd (length b)) logdet P Ax b) alpha beta)
       (sampler_logpdf lnG (length b) (gmrf_sqrtprec cholT (prec_fun 1%R)) Ax b alpha beta).
Proof.
  exact (fun lnG rule order pd pf ld cT P Ax b al be H1 H2 H3 =>
           proj2 (gmrf_exact_iff lnG pf (gmrf_code_rank rule BZero order pd (length b)) ld cT P Ax b al be H1 H2 H3)
                 (gmrf_code_rank_zero rule order pd (length b))).
Qed.
Print Assumptions C10_gmrf_zero_bc_exact.

(* FIXED DEFECT (commit 2db3e3f; known_findings.tsv: exp./legacy.Conjugate|GMRF:bc=periodic,neumann|shape:m/2-vs-rank/2).
   Before the repair the samplers used m = len(b).  For every field that is rank-deficient under the rank rule in
   force (gmrf_nullity > 0: every periodic/neumann field under today's rule; every periodic/neumann field of order
   1 or 2 under the rule of fixes/C20_gmrf_rank_rule.diff), every dimension > 0, data, prior and factor, that
   Gamma(len(b)/2 + alpha, .) is NOT proportional to the target's own density.  If the witness of this class fails
   again the check reports "fixed defect has returned". *)
Theorem C10_gmrf_rank_deficient_refuted :
  forall (lnG : R -> R) (rule : rank_rule) (bc : bc_type) (order pd : nat) (prec_fun : R -> R) (logdet : R) (cholT P : Rmat)
         (Ax b : Rvec) (alpha beta : R),
    (0 < gmrf_nullity rule bc order pd)%nat -> (0 < length b)%nat ->
    (forall s, 0 < s -> prec_fun s = s)%R ->
    chol_law (length b) cholT P -> length Ax = length b ->
    ~ proportional_on_pos (post_logd lnG (lik_gmrf prec_fun (gmrf_code_rank rule bc order pd (length b)) logdet P Ax b) alpha beta)
        (sampler_logpdf lnG (length b) (gmrf_sqrtprec cholT (prec_fun 1%R)) Ax b alpha beta).
Proof.
  exact (fun lnG rule bc order pd pf ld cT P Ax b al be Hnul Hn H1 H2 H3 Hprop =>
           gmrf_code_rank_deficient rule bc order pd (length b) Hnul Hn
             (proj1 (gmrf_exact_iff lnG pf (gmrf_code_rank rule bc order pd (length b)) ld cT P Ax b al be H1 H2 H3) Hprop)).
Qed.
Print Assumptions C10_gmrf_rank_deficient_refuted.

(* which fields are rank-deficient: today's rule -- all periodic/neumann; the proposed rule -- those of order >= 1 *)
Theorem C10_gmrf_nullity_rules :
  (forall bc order pd, bc <> BZero -> gmrf_nullity RuleDimMinus1 bc order pd = 1%nat)
  /\ (forall bc order pd, (0 < gmrf_nullity RuleNullity bc order pd)%nat <-> bc <> BZero /\ order <> 0%nat).
Proof. exact (conj gmrf_nullity_legacy gmrf_nullity_new_pos). Qed.
Print Assumptions C10_gmrf_nullity_rules.

(* a concrete witness inside the class (neumann, order 1, dim 2: P = [[1,-1],[-1,1]], stored rank 1, m = 2) *)
Theorem C10_gmrf_exact_refuted :
  exists (bc : bc_type) (cholT P : Rmat) (Ax b : Rvec),
    chol_law (length b) cholT P /\ length Ax = length b /\
    forall (lnG : R -> R) (logdet alpha beta : R),
    ~ proportional_on_pos (post_logd lnG (lik_gmrf (fun s => s) (gmrf_code_rank RuleDimMinus1 bc 1 1 (length b)) logdet P Ax b) alpha beta)
        (sampler_logpdf lnG (length b) (gmrf_sqrtprec cholT 1%R) Ax b alpha beta).
Proof. exact gmrf_refuted_witness. Qed.
Print Assumptions C10_gmrf_exact_refuted.

(* THE CODE AS IT IS NOW (after 2db3e3f: m = the distribution's own rank): exact for every stored rank, hence for every
   boundary condition, order, physical dimension and either rank rule (the periodic/neumann rate is a separate matter:
   C10_gmrf_regularised_rate) *)
Theorem C10_gmrf_rank_shape_exact :
  forall (lnG : R -> R) (prec_fun : R -> R) (rank : nat) (logdet : R) (cholT P : Rmat) (Ax b : Rvec) (alpha beta : R),
    (forall s, 0 < s -> prec_fun s = s)%R ->
    chol_law (length b) cholT P -> length Ax = length b ->
    proportional_on_pos (post_logd lnG (lik_gmrf prec_fun rank logdet P Ax b) alpha beta)
       (sampler_logpdf lnG rank (gmrf_sqrtprec cholT (prec_fun 1%R)) Ax b alpha beta).
Proof. exact gmrf_rank_shape_exact. Qed.
Print Assumptions C10_gmrf_rank_shape_exact.

(* the same with the model's own bookkeeping spelled out: the m the executable model uses for a GMRF
   (sampler_m KGMRF (gmrf_code_rank ...)) is the rank in the target's density *)
Theorem C10_gmrf_exact :
  forall (lnG : R -> R) (rule : rank_rule) (bc : bc_type) (order pd : nat) (prec_fun : R -> R) (logdet : R) (cholT P : Rmat)
         (Ax b : Rvec) (bq : list Q) (alpha beta : R),
    (forall s, 0 < s -> prec_fun s = s)%R -> length bq = length b ->
    chol_law (length b) cholT P -> length Ax = length b ->
    let rk := gmrf_code_rank rule bc order pd (length b) in
    proportional_on_pos (post_logd lnG (lik_gmrf prec_fun rk logdet P Ax b) alpha beta)
       (sampler_logpdf lnG (sampler_m KGMRF rk bq) (gmrf_sqrtprec cholT (prec_fun 1%R)) Ax b alpha beta).
Proof.
  exact (fun lnG rule bc order pd pf ld cT P Ax b bq al be H1 _ H2 H3 =>
           gmrf_rank_shape_exact lnG pf (gmrf_code_rank rule bc order pd (length b)) ld cT P Ax b al be H1 H2 H3).
Qed.
Print Assumptions C10_gmrf_exact.

(* FINDING (known_findings.tsv: Conjugate|GMRF:bc=periodic,neumann|rate:sqrt-eps-regularisation).
   periodic / neumann: the factor is taken of P + eps I (eps = sqrt(machine eps) = 2^-26); the rate the sampler
   uses then exceeds the rate implied by the target's density by exactly eps ||Ax - b||^2 / 2 ... *)
Theorem C10_gmrf_regularised_rate :
  forall (n : nat) (cholT P : Rmat) (eps : R) (Ax b : Rvec) (beta : R),
    chol_law_reg n cholT P eps -> length Ax = n -> length b = n ->
    r_rate (gmrf_sqrtprec cholT 1%R) Ax b beta
    = ((Rdot (Rvsub b Ax) (Rmatvec P (Rvsub b Ax)) / 2 + beta) + eps * Rnormsq (Rvsub b Ax) / 2)%R.
Proof. exact (gmrf_regularised_rate (fun x => x)). Qed.
Print Assumptions C10_gmrf_regularised_rate.

(* ... so whatever m is used, the draw is not from the exact conditional unless eps ||Ax - b||^2 = 0 *)
Theorem C10_gmrf_regularised_refuted :
  forall (lnG : R -> R) (prec_fun : R -> R) (rank : nat) (logdet : R) (cholT P : Rmat) (eps : R) (Ax b : Rvec)
         (alpha beta : R) (m : nat),
    (forall s, 0 < s -> prec_fun s = s)%R ->
    chol_law_reg (length b) cholT P eps -> length Ax = length b ->
    (eps * Rnormsq (Rvsub b Ax) <> 0)%R ->
    ~ proportional_on_pos (post_logd lnG (lik_gmrf prec_fun rank logdet P Ax b) alpha beta)
        (sampler_logpdf lnG m (gmrf_sqrtprec cholT (prec_fun 1%R)) Ax b alpha beta).
Proof. exact gmrf_regularised_never_exact. Qed.
Print Assumptions C10_gmrf_regularised_refuted.

(* ------------------------------------------------------------------------------------------------- *)
(* 3. structural validation                                                                           *)
(* ------------------------------------------------------------------------------------------------- *)

(* acceptance by the experimental Conjugate implies: Posterior, Gamma prior of dimension 1, (regularized)
   Gaussian/GMRF likelihood, EXACTLY ONE mutable variable whose callable mentions the parameter, that variable is
   cov (and passes the reciprocal probe) or prec (and passes the identity probe) *)
Theorem C10_structure_checked :
  forall (t : target) (key : string), validate_exp t = Accept key -> accepted_structure t key.
Proof. exact validate_exp_accept. Qed.
Print Assumptions C10_structure_checked.

Theorem C10_approx_structure_checked :
  forall (t : target) (key : string), validate_approx t = Accept key ->
    t_lik t = KLMRF /\ t_prior t = KGamma /\ t_prior_dim t = 1%nat /\ t_location_sum_zero t = true
    /\ exists f, refs (t_par_name t) (t_mutable t) = [(s_scale, f)] /\ probe_reciprocal f = PTrue.
Proof. exact validate_approx_accept. Qed.
Print Assumptions C10_approx_structure_checked.

(* the refusals named by the property *)
Theorem C10_rejects_several_occurrences :
  forall t : target, (length (refs (t_par_name t) (t_mutable t)) <> 1)%nat -> forall key, validate_exp t <> Accept key.
Proof. exact exp_rejects_multiple. Qed.
Print Assumptions C10_rejects_several_occurrences.

Theorem C10_rejects_nonscalar_gamma :
  forall t : target, t_prior_dim t <> 1%nat -> forall key, validate_exp t <> Accept key.
Proof. exact exp_rejects_nonscalar_gamma. Qed.
Print Assumptions C10_rejects_nonscalar_gamma.

Theorem C10_rejects_other_variables :
  forall (t : target) (k : string) (f : fval), refs (t_par_name t) (t_mutable t) = [(k, f)] ->
    k <> s_cov -> k <> s_prec -> forall key, validate_exp t <> Accept key.
Proof. exact exp_rejects_other_keys. Qed.
Print Assumptions C10_rejects_other_variables.

Theorem C10_rejects_other_pairs :
  forall t : target, t_prior t = KOtherPrior \/ t_lik t = KLMRF \/ t_lik t = KOtherLik ->
    forall key, validate_exp t <> Accept key.
Proof. exact exp_rejects_other_pairs. Qed.
Print Assumptions C10_rejects_other_pairs.

(* the three-point probes: sound only up to an explicit neighbourhood (partial: NOT a decision procedure).
   Missing for the full statement "accepted => the callable is the identity": nothing finite can give it. *)
Theorem C10_probe_sound_partial :
  (forall n, probe_identity (repeat DVar n) = true)
  /\ probe_reciprocal [DInv DVar] = PTrue
  /\ (forall c p, probe_identity [DMul (DConst c) (dpow p)] = true ->
        p = 1%nat /\ (Qabs (c - 1) <= 100001 # 10000000000)%Q)
  /\ (forall a b, probe_identity [DAdd (DMul (DConst a) DVar) (DConst b)] = true ->
        (Qabs (a - 1) <= 103 # 10000000)%Q /\ (Qabs b <= 205 # 10000000)%Q)
  /\ (forall a b, (Qabs (a - 1) <= 5 # 1000000)%Q -> (Qabs b <= 5 # 1000000)%Q ->
        probe_identity [DAdd (DMul (DConst a) DVar) (DConst b)] = true).
Proof.
  exact (conj probe_identity_accepts_identity (conj probe_reciprocal_accepts_reciprocal
        (conj probe_identity_monomial (conj probe_identity_affine_outer probe_identity_affine_inner)))).
Qed.
Print Assumptions C10_probe_sound_partial.

(* FINDING (low severity; known_findings.tsv: Conjugate|probe:three-point|non-identity-accepted) *)
Theorem C10_probe_refuted :
  exists f s, validate_exp (witness_target [f]) = Accept s_prec /\ ~ (deval f s == s)%Q.
Proof. exact exp_accepts_non_identity. Qed.
Print Assumptions C10_probe_refuted.

(* FINDING (known_findings.tsv: legacy.Conjugate|no-structural-validation): the legacy sampler's acceptance does
   not depend on the mutable variables at all ... *)
Theorem C10_legacy_ignores_dependence :
  forall (t : target) (vars : list (string * attr)) (par : string),
    validate_legacy (with_mutable t vars par) = validate_legacy t.
Proof. exact legacy_ignores_dependence. Qed.
Print Assumptions C10_legacy_ignores_dependence.

(* ... it accepts a target the experimental sampler refuses ... *)
Theorem C10_legacy_structure_refuted :
  exists t, validate_legacy t = Accept s_empty /\ validate_exp t = Reject RWrongFun.
Proof. exact legacy_accepts_unsupported. Qed.
Print Assumptions C10_legacy_structure_refuted.

(* ... and then draws from a Gamma that is not proportional to the target (prec = lambda s: s**2, dim 1) *)
Theorem C10_legacy_exact_refuted :
  forall lnG : R -> R,
  let prec_fun := fun s : R => (s * s)%R in
  prec_fun 1%R = 1%R /\
  ~ proportional_on_pos (post_logd lnG (lik_gauss_prec prec_fun [0%R] [1%R]) 1 1)
      (sampler_logpdf lnG 1 (sqrtprec_of (from_prec_scalar 1 (prec_fun 1%R))) [0%R] [1%R] 1 1).
Proof. exact legacy_refuted_witness. Qed.
Print Assumptions C10_legacy_exact_refuted.

(* ------------------------------------------------------------------------------------------------- *)
(* 4. Direct                                                                                          *)
(* ------------------------------------------------------------------------------------------------- *)

(* the chain Direct produces is, draw by draw, what target.sample() returns on the randomness consumed; the
   current point is the last draw; every step reports acceptance 1 *)
Theorem C10_direct :
  forall (Rnd Pt : Type) (target_sample : Rnd -> Pt) (st : dstate Pt) (rs : list Rnd),
    snd (direct_run target_sample st rs) = map target_sample rs
    /\ n_steps (fst (direct_run target_sample st rs)) = (n_steps st + length rs)%nat
    /\ current_point (fst (direct_run target_sample st rs))
       = match rev rs with [] => current_point st | r :: _ => Some (target_sample r) end.
Proof.
  exact (fun Rnd Pt ts st rs => conj (direct_run_is_target_sample Rnd Pt ts st rs) (direct_run_state Rnd Pt ts st rs)).
Qed.
Print Assumptions C10_direct.


(* ------------------------------------------------------------------------------------------------- *)
(* 5. one formula, two carriers                                                                       *)
(* ------------------------------------------------------------------------------------------------- *)

(* the executable parameters over Q that every run compares with the code are the real-valued parameters of
   the exactness theorems: Q2R commutes with shape and rate (all sizes) *)
Theorem C10_model_carriers_agree :
  forall (m : nat) (alpha beta : Q) (L : list (list Q)) (Ax b : list Q),
    Q2R (q_shape m alpha) = r_shape m (Q2R alpha)
    /\ Q2R (q_rate L Ax b beta) = r_rate (Q2Rm L) (Q2Rv Ax) (Q2Rv b) (Q2R beta).
Proof. exact (fun m alpha beta L Ax b => conj (shape_carriers_agree m alpha) (rate_carriers_agree L Ax b beta)). Qed.
Print Assumptions C10_model_carriers_agree.

(* ------------------------------------------------------------------------------------------------- *)
(* 6. the other Gaussian branches: vector / diagonal-matrix covariance and precision                   *)
(* ------------------------------------------------------------------------------------------------- *)

(* prec = s * c for any positive weight vector c (prec = lambda s: s*np.ones(m) is c = 1): vector branch of
   get_sqrtprec_from_prec -- logdet = sum(-log(prec)), sqrtprec = diag(sqrt(prec)) *)
Theorem C10_gaussian_precvec_exact :
  forall (lnG : R -> R) (prec_fun : R -> Rvec) (c0 Ax b : Rvec) (alpha beta : R),
    (forall s, 0 < s -> prec_fun s = map (fun a => s * a) c0)%R -> Forall (fun a => 0 < a)%R c0 ->
    length c0 = length b -> length Ax = length b ->
    proportional_on_pos (post_logd lnG (lik_gauss_precvec prec_fun Ax b) alpha beta)
      (sampler_logpdf lnG (length b) (sqrtprec_of (from_prec_vector (prec_fun 1%R))) Ax b alpha beta).
Proof. exact gauss_precvec_exact. Qed.
Print Assumptions C10_gaussian_precvec_exact.

(* cov = c / s, vector branch of get_sqrtprec_from_cov *)
Theorem C10_gaussian_covvec_exact :
  forall (lnG : R -> R) (cov_fun : R -> Rvec) (c0 Ax b : Rvec) (alpha beta : R),
    (forall s, 0 < s -> cov_fun s = map (fun a => a / s) c0)%R -> Forall (fun a => 0 < a)%R c0 ->
    length c0 = length b -> length Ax = length b ->
    proportional_on_pos (post_logd lnG (lik_gauss_covvec cov_fun Ax b) alpha beta)
      (sampler_logpdf lnG (length b) (sqrtprec_of (from_cov_vector (cov_fun 1%R))) Ax b alpha beta).
Proof. exact gauss_covvec_exact. Qed.
Print Assumptions C10_gaussian_covvec_exact.

(* cov = C / s with C a diagonal matrix (diagonal branch: var = cov.diagonal()) -- reached through the legacy sampler *)
Theorem C10_gaussian_covdiag_exact :
  forall (lnG : R -> R) (cov_fun : R -> Rmat) (c0 Ax b : Rvec) (alpha beta : R),
    (forall s, 0 < s -> diag_of (cov_fun s) = map (fun a => a / s) c0)%R -> Forall (fun a => 0 < a)%R c0 ->
    length c0 = length b -> length Ax = length b ->
    proportional_on_pos (post_logd lnG (lik_gauss_covdiag cov_fun Ax b) alpha beta)
      (sampler_logpdf lnG (length b) (sqrtprec_of (from_cov_vector (diag_of (cov_fun 1%R)))) Ax b alpha beta).
Proof. exact gauss_covdiag_exact. Qed.
Print Assumptions C10_gaussian_covdiag_exact.

(* ------------------------------------------------------------------------------------------------- *)
(* 7. ConjugateApprox: what exactly it is                                                             *)
(* ------------------------------------------------------------------------------------------------- *)

(* The Gamma(len(x) + alpha, ||W^(1/2) D x||^2 + beta) it draws from is the EXACT conditional of the density that
   has the LMRF's formula with len(x) factors (instead of len(Dx)) and the smoothed penalty
   sum_i t_i^2 / sqrt(t_i^2 + delta), t = Dx, (instead of ||Dx||_1) -- for every delta, D, x, alpha, beta *)
Theorem C10_approx_exact_for_smoothed :
  forall (lnG : R -> R) (scale_fun : R -> R) (delta : R) (D : Rmat) (x : Rvec) (alpha beta : R),
    (forall s, 0 < s -> scale_fun s = 1 / s)%R ->
    proportional_on_pos
      (post_logd lnG (fun s => lmrf_like_logpdf (length x) (approx_penalty delta (Rmatvec D x)) (scale_fun s)) alpha beta)
      (gamma_logpdf lnG (approx_shape_R (length x) alpha) (approx_rate_R delta D x beta)).
Proof. exact approx_exact_for_smoothed. Qed.
Print Assumptions C10_approx_exact_for_smoothed.

(* against the LMRF's own density (LMRF.logpdf): exact iff D x has as many entries as x and the smoothed penalty
   equals the l1 norm ... *)
Theorem C10_approx_vs_lmrf_iff :
  forall (lnG : R -> R) (scale_fun : R -> R) (delta : R) (D : Rmat) (x : Rvec) (alpha beta : R),
    (forall s, 0 < s -> scale_fun s = 1 / s)%R ->
    (proportional_on_pos (post_logd lnG (lik_lmrf scale_fun D x) alpha beta)
       (gamma_logpdf lnG (approx_shape_R (length x) alpha) (approx_rate_R delta D x beta))
     <-> length (Rmatvec D x) = length x /\ approx_penalty delta (Rmatvec D x) = norm1 (Rmatvec D x)).
Proof. exact approx_vs_lmrf_iff. Qed.
Print Assumptions C10_approx_vs_lmrf_iff.

(* ... which for a positive delta (the code uses 1e-5) happens only when D x = 0: the sampler is approximate, never
   exact, on every non-constant signal *)
Theorem C10_approx_exact_iff_trivial :
  forall (lnG : R -> R) (scale_fun : R -> R) (delta : R) (D : Rmat) (x : Rvec) (alpha beta : R),
    (0 < delta)%R -> (forall s, 0 < s -> scale_fun s = 1 / s)%R ->
    (proportional_on_pos (post_logd lnG (lik_lmrf scale_fun D x) alpha beta)
       (gamma_logpdf lnG (approx_shape_R (length x) alpha) (approx_rate_R delta D x beta))
     <-> length (Rmatvec D x) = length x /\ Forall (fun t => t = 0%R) (Rmatvec D x)).
Proof. exact approx_exact_iff_trivial. Qed.
Print Assumptions C10_approx_exact_iff_trivial.

(* the size of the approximation in the rate: 0 <= ||v||_1 - penalty <= len(v) * sqrt(delta) *)
Theorem C10_approx_penalty_bounds :
  forall (delta : R) (v : Rvec), (0 < delta)%R ->
    (0 <= approx_penalty delta v)%R /\ (approx_penalty delta v <= norm1 v)%R
    /\ (norm1 v - approx_penalty delta v <= INR (length v) * sqrt delta)%R
    /\ (approx_penalty delta v = norm1 v -> Forall (fun t => t = 0%R) v).
Proof. exact approx_penalty_bounds. Qed.
Print Assumptions C10_approx_penalty_bounds.

(* ------------------------------------------------------------------------------------------------- *)
(* 8. the reciprocal probe: mirror of C10_probe_sound_partial                                          *)
(* ------------------------------------------------------------------------------------------------- *)

Theorem C10_probe_reciprocal_sound_partial :
  (forall c p, probe_reciprocal [DMul (DConst c) (DInv (dpow p))] = PTrue ->
        p = 1%nat /\ (Qabs (c - 1) <= 1000000002 # 1000000000000000000)%Q)
  /\ (forall a b, probe_reciprocal [DAdd (DMul (DConst a) (DInv DVar)) (DConst b)] = PTrue ->
        (Qabs (a - 1) <= 103 # 100000000000)%Q /\ (Qabs b <= 205 # 100000000000)%Q)
  /\ (forall a b, (Qabs (a - 1) <= 4 # 10000000000)%Q -> (Qabs b <= 4 # 1000000000000)%Q ->
        probe_reciprocal [DAdd (DMul (DConst a) (DInv DVar)) (DConst b)] = PTrue).
Proof. exact (conj probe_reciprocal_monomial (conj probe_reciprocal_affine_outer probe_reciprocal_affine_inner)). Qed.
Print Assumptions C10_probe_reciprocal_sound_partial.

Theorem C10_probe_reciprocal_refuted :
  exists f s, probe_reciprocal [f] = PTrue /\ ~ (deval f s == 1 / s)%Q.
Proof. exact probe_reciprocal_refuted. Qed.
Print Assumptions C10_probe_reciprocal_refuted.

(* ------------------------------------------------------------------------------------------------- *)
(* 9. dense full matrices from the laws of the numpy oracles; the regularized pairs                     *)
(* ------------------------------------------------------------------------------------------------- *)

(* prec = s * P1 with a full (non-diagonal) matrix: rank_fn / logdet_fn / cholT_fn stand for numpy's matrix_rank, slogdet and
   cholesky; hypotheses are their laws on the family s*P1 (cholesky: L^T L = P; det(sP) = s^n det P; P1 invertible).
   m = the distribution's rank at unit hyper-parameter, L = its sqrtprec there -- as in the code *)
Theorem C10_gaussian_full_prec_exact :
  forall (lnG : R -> R) (rank_fn : Rmat -> nat) (logdet_fn : Rmat -> R) (cholT_fn : Rmat -> Rmat)
         (prec_fun : R -> Rmat) (P1 : Rmat) (Ax b : Rvec) (alpha beta : R),
    let n := length b in
    (forall s, 0 < s -> prec_fun s = Rmscale s P1)%R ->
    (forall s, 0 < s -> chol_law n (cholT_fn (Rmscale s P1)) (Rmscale s P1))%R ->
    (forall s, 0 < s -> logdet_fn (Rmscale s P1) = INR n * ln s + logdet_fn P1)%R ->
    (forall s, 0 < s -> rank_fn (Rmscale s P1) = n)%R ->
    length Ax = n ->
    proportional_on_pos (post_logd lnG (lik_gauss_precfull rank_fn logdet_fn cholT_fn prec_fun Ax b) alpha beta)
      (sampler_logpdf lnG (fst (fst (from_prec_full rank_fn logdet_fn cholT_fn (prec_fun 1%R))))
                      (sqrtprec_of (from_prec_full rank_fn logdet_fn cholT_fn (prec_fun 1%R))) Ax b alpha beta).
Proof. exact (fun lnG rk ld ch => gauss_precfull_exact lnG rk ld (fun M => M) ch). Qed.
Print Assumptions C10_gaussian_full_prec_exact.

(* cov = C1 / s with a full matrix: additionally numpy's inv with inv(C/s) = s inv(C), det(C/s) = det C / s^n *)
Theorem C10_gaussian_full_cov_exact :
  forall (lnG : R -> R) (rank_fn : Rmat -> nat) (logdet_fn : Rmat -> R) (inv_fn cholT_fn : Rmat -> Rmat)
         (cov_fun : R -> Rmat) (C1 : Rmat) (Ax b : Rvec) (alpha beta : R),
    let n := length b in
    (forall s, 0 < s -> cov_fun s = Rmscale (1 / s) C1)%R ->
    (forall s, 0 < s -> chol_law n (cholT_fn (inv_fn (Rmscale (1 / s) C1))) (inv_fn (Rmscale (1 / s) C1)))%R ->
    (forall s v, (0 < s)%R -> length v = n ->
        Rmatvec (inv_fn (Rmscale (1 / s) C1)) v = Rvscale s (Rmatvec (inv_fn C1) v)) ->
    (forall s, 0 < s -> logdet_fn (Rmscale (1 / s) C1) = logdet_fn C1 - INR n * ln s)%R ->
    (forall s, 0 < s -> rank_fn (Rmscale (1 / s) C1) = n)%R ->
    length Ax = n ->
    proportional_on_pos (post_logd lnG (lik_gauss_covfull rank_fn logdet_fn inv_fn cholT_fn cov_fun Ax b) alpha beta)
      (sampler_logpdf lnG (fst (fst (from_cov_full rank_fn logdet_fn inv_fn cholT_fn (cov_fun 1%R))))
                      (sqrtprec_of (from_cov_full rank_fn logdet_fn inv_fn cholT_fn (cov_fun 1%R))) Ax b alpha beta).
Proof. exact gauss_covfull_exact. Qed.
Print Assumptions C10_gaussian_full_cov_exact.

(* regularized pairs: the Gamma with m = count_nonzero(b) is the exact conditional of the density given by the documented
   support rule (exponent count_nonzero(b)/2, unchanged quadratic term) *)
Theorem C10_regularized_support_rule_exact :
  forall (lnG : R -> R) (k : lik_kind) (bq : list Q) (gmrf_rank : nat) (lik : R -> R) (q c : R) (L1 : Rmat) (Ax b : Rvec) (alpha beta : R),
    is_reg k = true ->
    (forall s, 0 < s -> lik s = INR (count_nonzero bq) / 2 * ln s - s * (q / 2) + c)%R ->
    Rnormsq (Rmatvec L1 (Rvsub Ax b)) = q ->
    proportional_on_pos (post_logd lnG lik alpha beta) (sampler_logpdf lnG (sampler_m k gmrf_rank bq) L1 Ax b alpha beta).
Proof. exact regularized_support_rule_exact. Qed.
Print Assumptions C10_regularized_support_rule_exact.

Example C10_oracle_laws_satisfiable :
  let P1 := [[2%R]] in let n := 1%nat in
  (forall s, 0 < s -> chol_law n (ex_cholT (Rmscale s P1)) (Rmscale s P1))%R
  /\ (forall s, 0 < s -> ex_logdet (Rmscale s P1) = INR n * ln s + ex_logdet P1)%R
  /\ (forall s, 0 < s -> ex_rank (Rmscale s P1) = n)%R.
Proof. exact ex_laws. Qed.

(* ------------------------------------------------------------------------------------------------- *)
(* 10. what a passing correspondence case means for the theorems                                       *)
(* ------------------------------------------------------------------------------------------------- *)

(* `check_shape ... = true` (evaluated by vm_compute in every shard) says the observed shape argument of
   numpy.random.gamma IS the shape of the exactness theorems; `check_rate ... = true` says the observed rate is within
   relative 1e-9 of the theorems' rate for the implementation's own factor L *)
Theorem C10_checks_sound :
  (forall k rk bq alpha obs, check_shape k rk bq alpha obs = true -> Q2R obs = r_shape (sampler_m k rk bq) (Q2R alpha))
  /\ (forall n P reg L Ax b beta obs_rate obs_scale, check_rate n P reg L Ax b beta obs_rate obs_scale = true ->
        (Rabs (Q2R obs_rate - r_rate (Q2Rm L) (Q2Rv Ax) (Q2Rv b) (Q2R beta))
         <= Q2R tol9 * Rabs (r_rate (Q2Rm L) (Q2Rv Ax) (Q2Rv b) (Q2R beta)))%R).
Proof. exact (conj check_shape_sound check_rate_sound). Qed.
Print Assumptions C10_checks_sound.

(* ------------------------------------------------------------------------------------------------- *)
(* 11. the refusals hold in every state of a sampler object                                            *)
(* ------------------------------------------------------------------------------------------------- *)

(* `sampler.target = value` on a sampler that is un-initialised, initialised, has stepped / warmed up / sampled, with or
   without an earlier target: along ANY history of assignments every target gets exactly the verdict a fresh sampler gives
   it -- in particular an accepted one has the supported structure -- and initialisation is not touched *)
Theorem C10_retarget_validates_in_every_state :
  forall (k : bool) (i : iface) (smp : exp_sampler) (ts : list target),
    snd (assign_all k i smp ts) = map (validate i) ts
    /\ (forall t key, snd (set_target k IExp smp t) = Accept key -> accepted_structure t key)
    /\ (forall t, es_initialized (fst (set_target k i smp t)) = es_initialized smp).
Proof.
  exact (fun k i smp ts => conj (assign_all_verdicts k i smp ts)
                                (conj (fun t key => retarget_accept_structure k smp t key) (set_target_keeps_initialized k i smp))).
Qed.
Print Assumptions C10_retarget_validates_in_every_state.

(* FINDING (known_findings.tsv: exp.Conjugate|refused-target-retained): the setter assigns before it validates, so a refused
   target stays in the object (and a later step() samples it) *)
Theorem C10_refused_target_retained_refuted :
  exists smp t r, snd (set_target true IExp smp t) = Reject r /\ es_target (fst (set_target true IExp smp t)) = Some t
                  /\ es_target smp <> Some t.
Proof. exact refused_target_retained. Qed.
Print Assumptions C10_refused_target_retained_refuted.

(* with the repaired setter (fixes/C10_retarget_restore.diff) the object always holds the last accepted target *)
Theorem C10_retarget_restoring_holds_last_accepted :
  forall (i : iface) (smp : exp_sampler) (ts : list target),
    es_target (fst (assign_all false i smp ts)) = last_accepted i (es_target smp) ts.
Proof. exact assign_all_restoring_holds_last_accepted. Qed.
Print Assumptions C10_retarget_restoring_holds_last_accepted.

(* ------------------------------------------------------------------------------------------------- *)
(* 12. the probes characterised exactly (round 5)                                                      *)
(* ------------------------------------------------------------------------------------------------- *)

(* what a probe reads: the values of the callable at 1, 10, 100 and nothing else.  id_pass e / rec_pass e are the three
   tolerance inequalities written out (numpy.allclose: |v - x| <= 1e-8 + 1e-5 x; math.isclose against r > 0:
   r (1 - 1e-9) <= v and v (1 - 1e-9) <= r); two callables agreeing at the three points get the same verdicts *)
Theorem C10_probe_reads_three_values :
  (forall f, probe_identity f = true <-> Forall id_pass f)
  /\ (forall f, probe_reciprocal f = PTypeError <-> length f <> 1%nat)
  /\ (forall e, probe_reciprocal [e] = PTrue <-> rec_pass e)
  /\ (forall f f', Forall2 same_at_probe_pts f f' -> probe_identity f = probe_identity f')
  /\ (forall e e', same_at_probe_pts e e' -> probe_reciprocal [e] = probe_reciprocal [e']).
Proof.
  exact (conj probe_identity_spec (conj (fun f => proj1 (probe_reciprocal_spec f)) (conj rec_pass_single
        (conj probe_identity_ext probe_reciprocal_ext)))).
Qed.
Print Assumptions C10_probe_reads_three_values.

(* FINDING, as a universal statement (known_findings.tsv: exp.Conjugate|probe:three-point|non-identity-accepted): ANY multiple
   h (s-1)(s-10)(s-100) -- h any expression -- can be added to ANY callable without changing either verdict ... *)
Theorem C10_probe_blind_to_vanishing_multiples :
  forall e h : dexp,
    probe_identity [dperturb e h] = probe_identity [e] /\ probe_reciprocal [dperturb e h] = probe_reciprocal [e].
Proof. exact probes_blind_to_vanishing_multiples. Qed.
Print Assumptions C10_probe_blind_to_vanishing_multiples.

(* ... so the accepted maps are not even bounded: s + h (s-1)(s-10)(s-100) passes for every h and is 784 h away from s at s = 2 *)
Theorem C10_probe_cubic_family_refuted :
  forall h : Q, probe_identity [dperturb DVar (DConst h)] = true /\ (deval (dperturb DVar (DConst h)) 2 - 2 == 784 * h)%Q.
Proof. exact probe_identity_cubic_family. Qed.
Print Assumptions C10_probe_cubic_family_refuted.

(* on the class c * s^k, k ANY integer (positive, zero, negative), both probes are decision procedures *)
Theorem C10_probe_identity_decides_monomials :
  forall (c : Q) (k : Z),
    probe_identity [dmono c k] = true <-> k = 1%Z /\ (Qabs (c - 1) <= 100001 # 10000000000)%Q.
Proof. exact probe_identity_mono_iff. Qed.
Print Assumptions C10_probe_identity_decides_monomials.

Theorem C10_probe_reciprocal_decides_monomials :
  forall (c : Q) (k : Z),
    probe_reciprocal [dmono c k] = PTrue <-> k = (-1)%Z /\ (1 - py_reltol <= c)%Q /\ (c * (1 - py_reltol) <= 1)%Q.
Proof. exact probe_reciprocal_mono_iff. Qed.
Print Assumptions C10_probe_reciprocal_decides_monomials.

(* polynomials of degree <= 2 (as many coefficients as probe points): acceptance confines every coefficient and the map stays
   within an explicit distance of the identity for EVERY s >= 0; an explicit inner box is accepted.  Degree 3 is the first
   degree where this fails (C10_probe_cubic_family_refuted) *)
Theorem C10_probe_quadratic_sound :
  (forall a0 a1 a2, probe_identity [dquad a0 a1 a2] = true ->
      (Qabs a0 <= 25 # 1000000)%Q /\ (Qabs (a1 - 1) <= 15 # 1000000)%Q /\ (Qabs a2 <= 25 # 100000000)%Q)
  /\ (forall a0 a1 a2 s, probe_identity [dquad a0 a1 a2] = true -> (0 <= s)%Q ->
      (Qabs (deval (dquad a0 a1 a2) s - s) <= (25 # 1000000) + (15 # 1000000) * s + (25 # 100000000) * (s * s))%Q)
  /\ (forall a0 a1 a2, (Qabs a0 <= 3 # 1000000)%Q -> (Qabs (a1 - 1) <= 3 # 1000000)%Q -> (Qabs a2 <= 3 # 100000000)%Q ->
      probe_identity [dquad a0 a1 a2] = true).
Proof. exact (conj probe_identity_quadratic (conj probe_identity_quadratic_uniform probe_identity_quadratic_inner)). Qed.
Print Assumptions C10_probe_quadratic_sound.

(* the mirror for the reciprocal probe: a0 + a1 / s + a2 / s^2 *)
Theorem C10_probe_reciprocal_quadratic_sound :
  forall a0 a1 a2, probe_reciprocal [drquad a0 a1 a2] = PTrue ->
    (Qabs a0 <= 25 # 1000000000000)%Q /\ (Qabs (a1 - 1) <= 15 # 10000000000)%Q /\ (Qabs a2 <= 25 # 10000000000)%Q.
Proof. exact probe_reciprocal_quadratic. Qed.
Print Assumptions C10_probe_reciprocal_quadratic_sound.

(* ------------------------------------------------------------------------------------------------- *)
(* 13. on monomial dependences acceptance IMPLIES exactness                                            *)
(* ------------------------------------------------------------------------------------------------- *)

(* the samplers evaluate the likelihood's distribution at unit hyper-parameter, so a constant factor in the dependence is carried
   by L: prec = c s, cov = c / s (Gaussian) and prec = c s (GMRF) are sampled exactly for EVERY c > 0 *)
Theorem C10_scaled_dependence_exact :
  forall (lnG : R -> R) (c : R), (0 < c)%R ->
  (forall (prec_fun : R -> R) (Ax b : Rvec) (alpha beta : R),
      (forall s, 0 < s -> prec_fun s = c * s)%R -> length Ax = length b ->
      proportional_on_pos (post_logd lnG (lik_gauss_prec prec_fun Ax b) alpha beta)
        (sampler_logpdf lnG (length b) (sqrtprec_of (from_prec_scalar (length b) (prec_fun 1%R))) Ax b alpha beta))
  /\ (forall (cov_fun : R -> R) (Ax b : Rvec) (alpha beta : R),
      (forall s, 0 < s -> cov_fun s = c / s)%R -> length Ax = length b ->
      proportional_on_pos (post_logd lnG (lik_gauss_cov cov_fun Ax b) alpha beta)
        (sampler_logpdf lnG (length b) (sqrtprec_of (from_cov_scalar (length b) (cov_fun 1%R))) Ax b alpha beta))
  /\ (forall (prec_fun : R -> R) (rank : nat) (logdet : R) (cholT P : Rmat) (Ax b : Rvec) (alpha beta : R),
      (forall s, 0 < s -> prec_fun s = c * s)%R -> chol_law (length b) cholT P -> length Ax = length b ->
      proportional_on_pos (post_logd lnG (lik_gmrf prec_fun rank logdet P Ax b) alpha beta)
        (sampler_logpdf lnG rank (gmrf_sqrtprec cholT (prec_fun 1%R)) Ax b alpha beta)).
Proof.
  exact (fun lnG c Hc => conj (fun pf Ax b al be Hf Hl => gauss_prec_scaled_exact lnG pf c Ax b al be Hc Hf Hl)
         (conj (fun cf Ax b al be Hf Hl => gauss_cov_scaled_exact lnG cf c Ax b al be Hc Hf Hl)
               (fun pf rk ld cT P Ax b al be Hf Hch Hl => gmrf_scaled_exact lnG pf c rk ld cT P Ax b al be Hc Hf Hch Hl))).
Qed.
Print Assumptions C10_scaled_dependence_exact.

(* hence INSIDE the class s -> c s^k the probe is sound with no tolerance caveat: a monomial callable (the tree the harness turns
   into the Python lambda, read over R by Rdeval) that is accepted is sampled from its exact conditional *)
Theorem C10_probe_sound_on_monomials :
  forall (lnG : R -> R) (c : Q) (k : Z) (Ax b : Rvec) (alpha beta : R), length Ax = length b ->
  (probe_identity [dmono c k] = true ->
     proportional_on_pos (post_logd lnG (lik_gauss_prec (Rdeval (dmono c k)) Ax b) alpha beta)
       (sampler_logpdf lnG (length b) (sqrtprec_of (from_prec_scalar (length b) (Rdeval (dmono c k) 1%R))) Ax b alpha beta))
  /\ (probe_identity [dmono c k] = true ->
      forall (rank : nat) (logdet : R) (cholT P : Rmat), chol_law (length b) cholT P ->
      proportional_on_pos (post_logd lnG (lik_gmrf (Rdeval (dmono c k)) rank logdet P Ax b) alpha beta)
        (sampler_logpdf lnG rank (gmrf_sqrtprec cholT (Rdeval (dmono c k) 1%R)) Ax b alpha beta))
  /\ (probe_reciprocal [dmono c k] = PTrue ->
      proportional_on_pos (post_logd lnG (lik_gauss_cov (Rdeval (dmono c k)) Ax b) alpha beta)
        (sampler_logpdf lnG (length b) (sqrtprec_of (from_cov_scalar (length b) (Rdeval (dmono c k) 1%R))) Ax b alpha beta)).
Proof.
  exact (fun lnG c k Ax b al be Hl =>
           conj (fun H => probe_mono_gauss_prec_exact lnG c k Ax b al be H Hl)
          (conj (fun H rk ld cT P Hch => probe_mono_gmrf_exact lnG c k rk ld cT P Ax b al be H Hch Hl)
                (fun H => probe_mono_gauss_cov_exact lnG c k Ax b al be H Hl))).
Qed.
Print Assumptions C10_probe_sound_on_monomials.

(* ... and the converse, for EVERY c > 0, integer k and data set with at least one datum: Gaussian(mean = Ax, prec = c s^k) is sampled from its
   exact conditional IF AND ONLY IF k = 1.  So on monomials the experimental sampler never lets an inexact dependence through (what it
   refuses with k = 1 would have been exact: a harmless refusal), and the legacy sampler -- which validates nothing (open finding
   legacy.Conjugate|no-structural-validation) -- is exact on c s and on no other monomial *)
Theorem C10_monomial_exact_iff :
  forall (lnG : R -> R) (c : Q) (k : Z) (Ax b : Rvec) (alpha beta : R),
    (0 < Q2R c)%R -> length Ax = length b -> (0 < length b)%nat ->
    (proportional_on_pos (post_logd lnG (lik_gauss_prec (Rdeval (dmono c k)) Ax b) alpha beta)
       (sampler_logpdf lnG (length b) (sqrtprec_of (from_prec_scalar (length b) (Rdeval (dmono c k) 1%R))) Ax b alpha beta)
     <-> k = 1%Z).
Proof. exact mono_exact_iff. Qed.
Print Assumptions C10_monomial_exact_iff.

(* the same for GMRF(mean = Ax, prec = c s^k) with stored rank > 0 (any boundary condition, order, rank rule) ... *)
Theorem C10_monomial_exact_iff_gmrf :
  forall (lnG : R -> R) (c : Q) (k : Z) (rank : nat) (logdet : R) (cholT P : Rmat) (Ax b : Rvec) (alpha beta : R),
    (0 < Q2R c)%R -> (0 < rank)%nat -> chol_law (length b) cholT P -> length Ax = length b ->
    (proportional_on_pos (post_logd lnG (lik_gmrf (Rdeval (dmono c k)) rank logdet P Ax b) alpha beta)
       (sampler_logpdf lnG rank (gmrf_sqrtprec cholT (Rdeval (dmono c k) 1%R)) Ax b alpha beta)
     <-> k = 1%Z).
Proof. exact gmrf_mono_exact_iff. Qed.
Print Assumptions C10_monomial_exact_iff_gmrf.

(* ... and for Gaussian(mean = Ax, cov = c s^k): exact iff k = -1 *)
Theorem C10_monomial_exact_iff_cov :
  forall (lnG : R -> R) (c : Q) (k : Z) (Ax b : Rvec) (alpha beta : R),
    (0 < Q2R c)%R -> length Ax = length b -> (0 < length b)%nat ->
    (proportional_on_pos (post_logd lnG (lik_gauss_cov (Rdeval (dmono c k)) Ax b) alpha beta)
       (sampler_logpdf lnG (length b) (sqrtprec_of (from_cov_scalar (length b) (Rdeval (dmono c k) 1%R))) Ax b alpha beta)
     <-> k = (-1)%Z).
Proof. exact cov_mono_exact_iff. Qed.
Print Assumptions C10_monomial_exact_iff_cov.

(* the real-valued reading of a dependence tree is the image of the rational one the executable model evaluates *)
Theorem C10_dependence_denotation :
  forall (e : dexp) (s : Q), ddef e s -> Q2R (deval e s) = Rdeval e (Q2R s).
Proof. exact Rdeval_deval. Qed.
Print Assumptions C10_dependence_denotation.

(* ------------------------------------------------------------------------------------------------- *)
(* 14. the sqrt(eps) regularisation of periodic / neumann GMRFs, quantified for every x                 *)
(* ------------------------------------------------------------------------------------------------- *)

(* what the code draws from IS an exact conditional -- of the target density times exp(- s eps ||b - Ax||^2 / 2) *)
Theorem C10_gmrf_regularised_exact_for_tilted :
  forall (lnG : R -> R) (prec_fun : R -> R) (rank : nat) (logdet : R) (cholT P : Rmat) (eps : R) (Ax b : Rvec) (alpha beta : R),
    (forall s, 0 < s -> prec_fun s = s)%R -> chol_law_reg (length b) cholT P eps -> length Ax = length b ->
    proportional_on_pos (post_logd lnG (lik_gmrf_tilted prec_fun rank logdet P eps Ax b) alpha beta)
       (sampler_logpdf lnG rank (gmrf_sqrtprec cholT (prec_fun 1%R)) Ax b alpha beta).
Proof. exact gmrf_regularised_exact_for_tilted. Qed.
Print Assumptions C10_gmrf_regularised_exact_for_tilted.

(* the log-density ratio sampler / conditional as a function of s:  const - s eps ||b - Ax||^2 / 2, an identity for all s, s' *)
Theorem C10_gmrf_regularised_logratio :
  forall (lnG : R -> R) (prec_fun : R -> R) (rank : nat) (logdet : R) (cholT P : Rmat) (eps : R) (Ax b : Rvec) (alpha beta s s' : R),
    (forall s, 0 < s -> prec_fun s = s)%R -> chol_law_reg (length b) cholT P eps -> length Ax = length b ->
    (0 < s)%R -> (0 < s')%R ->
    ((sampler_logpdf lnG rank (gmrf_sqrtprec cholT (prec_fun 1%R)) Ax b alpha beta s
        - post_logd lnG (lik_gmrf prec_fun rank logdet P Ax b) alpha beta s)
     - (sampler_logpdf lnG rank (gmrf_sqrtprec cholT (prec_fun 1%R)) Ax b alpha beta s'
        - post_logd lnG (lik_gmrf prec_fun rank logdet P Ax b) alpha beta s')
     = - (s - s') * (eps * Rnormsq (Rvsub b Ax) / 2))%R.
Proof. exact gmrf_regularised_logratio. Qed.
Print Assumptions C10_gmrf_regularised_logratio.

(* the rate identity with the executable model's constant (gmrf_reg bc: 0 for zero, 2^-26 otherwise), every bc at once;
   zero boundary conditions are exact *)
Theorem C10_gmrf_model_rate_identity :
  (forall (bc : bc_type) (n : nat) (cholT P : Rmat) (Ax b : Rvec) (beta : R),
      chol_law_reg n cholT P (reg_R bc) -> length Ax = n -> length b = n ->
      r_rate (gmrf_sqrtprec cholT 1%R) Ax b beta
      = ((Rdot (Rvsub b Ax) (Rmatvec P (Rvsub b Ax)) / 2 + beta) + reg_R bc * Rnormsq (Rvsub b Ax) / 2)%R)
  /\ reg_R BZero = 0%R /\ (forall bc, bc <> BZero -> reg_R bc = (/ 67108864)%R)
  /\ (forall (lnG : R -> R) (prec_fun : R -> R) (rank : nat) (logdet : R) (cholT P : Rmat) (Ax b : Rvec) (alpha beta : R),
      (forall s, 0 < s -> prec_fun s = s)%R -> chol_law_reg (length b) cholT P (reg_R BZero) -> length Ax = length b ->
      proportional_on_pos (post_logd lnG (lik_gmrf prec_fun rank logdet P Ax b) alpha beta)
         (sampler_logpdf lnG rank (gmrf_sqrtprec cholT (prec_fun 1%R)) Ax b alpha beta)).
Proof.
  exact (conj (gmrf_model_rate_identity (fun x => x)) (conj reg_R_zero (conj reg_R_nonzero gmrf_zero_bc_reg_exact))).
Qed.
Print Assumptions C10_gmrf_model_rate_identity.

(* size: the sampler's rate is never below the conditional's; relative excess <= eps ||b - Ax||^2 / (2 beta) ... *)
Theorem C10_gmrf_regularised_excess_bounds :
  forall (n : nat) (cholT P : Rmat) (eps : R) (Ax b : Rvec) (beta : R),
    chol_law_reg n cholT P eps -> length Ax = n -> length b = n -> (0 <= eps)%R -> (0 < beta)%R ->
    (0 <= Rdot (Rvsub b Ax) (Rmatvec P (Rvsub b Ax)))%R ->
    let r_cond := (Rdot (Rvsub b Ax) (Rmatvec P (Rvsub b Ax)) / 2 + beta)%R in
    let r_smp := r_rate (gmrf_sqrtprec cholT 1%R) Ax b beta in
    (r_cond <= r_smp)%R /\ ((r_smp - r_cond) / r_cond <= eps * Rnormsq (Rvsub b Ax) / (2 * beta))%R.
Proof. exact (gmrf_regularised_excess_bounds (fun x => x)). Qed.
Print Assumptions C10_gmrf_regularised_excess_bounds.

(* ... and that bound is of the right order: in null-space directions of P (a constant shift of the field) the conditional's rate
   stays beta while the sampler's grows like eps ||v||^2 / 2 -- for every K some data make the sampler's rate exceed K times the
   conditional's (the finding is small for O(1) data, not uniformly small) *)
Theorem C10_gmrf_regularised_relative_excess_unbounded :
  forall eps beta K : R, (0 < eps)%R -> (0 < beta)%R -> (0 < K)%R ->
  exists (Ax b : Rvec),
    length Ax = 2%nat /\ length b = 2%nat
    /\ chol_law_reg 2 (reg_wit_M eps) reg_wit_P eps
    /\ (Rdot (Rvsub b Ax) (Rmatvec reg_wit_P (Rvsub b Ax)) / 2 + beta = beta)%R
    /\ (K * beta < r_rate (gmrf_sqrtprec (reg_wit_M eps) 1%R) Ax b beta)%R.
Proof.
  exact (fun eps beta K He Hb HK =>
    match gmrf_regularised_relative_excess_unbounded eps beta K He Hb HK with
    | ex_intro _ Ax (ex_intro _ b (conj H1 (conj H2 (conj H3 H4)))) =>
        ex_intro _ Ax (ex_intro _ b (conj H1 (conj H2 (conj (reg_wit_law eps (Rlt_le _ _ He)) (conj H3 H4)))))
    end).
Qed.
Print Assumptions C10_gmrf_regularised_relative_excess_unbounded.

(* ------------------------------------------------------------------------------------------------- *)
(* 15. Direct over its whole life                                                                      *)
(* ------------------------------------------------------------------------------------------------- *)

(* draw k = what the k-th call of target.sample() returns (None: it raises).  Direct(target, initial).sample(ns).warmup(nw):
   call 0 is made by the constructor's validation and thrown away; the chain is calls 1 .. ns+nw, in order; the initial point never
   enters it; every acceptance entry is 1; exactly ns+nw+1 calls are made *)
Theorem C10_direct_life :
  forall (Pt : Type) (draw : nat -> option Pt) (initial : Pt) (ns nw : nat),
    (forall k, (k <= ns + nw)%nat -> draw k <> None) ->
    exists st, direct_life draw initial ns nw = DOk st
      /\ map Some (dl_chain st) = map draw (seq 1 (ns + nw))
      /\ dl_acc st = repeat 1%Q (S (ns + nw))
      /\ dl_calls st = S (ns + nw)
      /\ Some (dl_current st) = match (ns + nw)%nat with O => Some initial | S m => draw (S m) end.
Proof. exact direct_life_chain. Qed.
Print Assumptions C10_direct_life.

(* the constructor refuses exactly the targets whose sample() raises; a later draw that raises -- inside sample() or inside
   warmup() -- comes out with the chain built so far *)
Theorem C10_direct_refusal_and_failure :
  forall (Pt : Type) (draw : nat -> option Pt) (initial : Pt),
    (direct_new draw initial = DRefused <-> draw 0%nat = None)
    /\ (forall ns nw j, (j < ns + nw)%nat -> (forall k, (k <= j)%nat -> draw k <> None) -> draw (S j) = None ->
          exists st, direct_life draw initial ns nw = DRaised st /\ map Some (dl_chain st) = map draw (seq 1 j)).
Proof.
  exact (fun Pt draw initial => conj (direct_refuses_iff Pt draw initial)
                                      (fun ns nw j => direct_life_raises_anywhere Pt draw initial ns nw j)).
Qed.
Print Assumptions C10_direct_refusal_and_failure.

(* a passing direct-life case: the model's life on the TABLE of the target's own consecutive draws ends normally and its chain is
   the observed chain *)
Theorem C10_direct_check_sound :
  forall (table : list (option (list Q))) (initial : list Q) (ns nw : nat) (chain : list (list Q)) (cur acc : list Q),
    check_direct_life table initial ns nw (ObsDone chain cur acc) = true ->
    exists st, direct_life (table_draw table) initial ns nw = DOk st /\ qll_eqb (dl_chain st) chain = true.
Proof. exact check_direct_life_sound. Qed.
Print Assumptions C10_direct_check_sound.

(* ------------------------------------------------------------------------------------------------- *)
(* 16. ConjugateApprox on the operators LMRF builds for a 1-D field                                     *)
(* ------------------------------------------------------------------------------------------------- *)

(* lmrf_diff_op bc n is the modelled FirstOrderFiniteDifference matrix (compared entry by entry with the object's in every run).
   The sampler's Gamma has the RATE of the exact conditional of the smoothed density with the LMRF's own number of factors len(Dx),
   and its SHAPE is off by len(x) - len(Dx) = -1 (zero, periodic) / +1 (neumann) -- every size, state, delta, prior *)
Theorem C10_approx_shape_offset_1d :
  forall (lnG : R -> R) (scale_fun : R -> R) (delta : R) (bc : bc_type) (x : Rvec) (alpha beta : R),
    (forall s, 0 < s -> scale_fun s = 1 / s)%R -> (0 < length x)%nat ->
    let D := Q2Rm (lmrf_diff_op bc (length x)) in
    let Dx := Rmatvec D x in
    proportional_on_pos (post_logd lnG (fun s => lmrf_like_logpdf (length Dx) (approx_penalty delta Dx) (scale_fun s)) alpha beta)
       (gamma_logpdf lnG (INR (length Dx) + alpha) (approx_rate_R delta D x beta))
    /\ approx_shape_R (length x) alpha = ((INR (length Dx) + alpha) + match bc with BNeumann => 1 | _ => -1 end)%R.
Proof. exact approx_shape_offset_1d. Qed.
Print Assumptions C10_approx_shape_offset_1d.

(* against LMRF.logpdf itself: never exact on a 1-D field (no boundary condition gives a square operator) *)
Theorem C10_approx_never_exact_1d :
  forall (lnG : R -> R) (scale_fun : R -> R) (delta : R) (bc : bc_type) (x : Rvec) (alpha beta : R),
    (forall s, 0 < s -> scale_fun s = 1 / s)%R -> (0 < length x)%nat ->
    ~ proportional_on_pos (post_logd lnG (lik_lmrf scale_fun (Q2Rm (lmrf_diff_op bc (length x))) x) alpha beta)
        (gamma_logpdf lnG (approx_shape_R (length x) alpha) (approx_rate_R delta (Q2Rm (lmrf_diff_op bc (length x))) x beta)).
Proof. exact approx_never_exact_1d. Qed.
Print Assumptions C10_approx_never_exact_1d.

Theorem C10_lmrf_operator_shape :
  forall (bc : bc_type) (n : nat),
    length (lmrf_diff_op bc n) = lmrf_rows bc n /\ wf_mat n (lmrf_diff_op bc n) /\ ((0 < n)%nat -> lmrf_rows bc n <> n).
Proof. exact (fun bc n => conj (lmrf_diff_op_rows bc n) (conj (lmrf_diff_op_wf bc n) (lmrf_rows_ne bc n))). Qed.
Print Assumptions C10_lmrf_operator_shape.

(* 2-D fields (N x N, Image2D): operator vstack([kron(I, D), kron(D, I)]).  Against LMRF.logpdf the draw is exact iff the grid is the
   2 x 2 neumann one AND D x = 0; the shape misses N^2 - 2 N rows factors (about half of them) *)
Theorem C10_approx_exact_2d_iff :
  forall (lnG : R -> R) (scale_fun : R -> R) (delta : R) (bc : bc_type) (N : nat) (x : Rvec) (alpha beta : R),
    (0 < delta)%R -> (forall s, 0 < s -> scale_fun s = 1 / s)%R -> (0 < N)%nat -> length x = (N * N)%nat ->
    let D := Q2Rm (lmrf_diff_op_2d bc N) in
    (proportional_on_pos (post_logd lnG (lik_lmrf scale_fun D x) alpha beta)
       (gamma_logpdf lnG (approx_shape_R (length x) alpha) (approx_rate_R delta D x beta))
     <-> (bc = BNeumann /\ N = 2%nat) /\ Forall (fun t => t = 0%R) (Rmatvec D x)).
Proof. exact approx_exact_2d_iff. Qed.
Print Assumptions C10_approx_exact_2d_iff.

Theorem C10_approx_shape_offset_2d :
  forall (lnG : R -> R) (scale_fun : R -> R) (delta : R) (bc : bc_type) (N : nat) (x : Rvec) (alpha beta : R),
    (forall s, 0 < s -> scale_fun s = 1 / s)%R -> length x = (N * N)%nat ->
    let D := Q2Rm (lmrf_diff_op_2d bc N) in
    let Dx := Rmatvec D x in
    proportional_on_pos (post_logd lnG (fun s => lmrf_like_logpdf (length Dx) (approx_penalty delta Dx) (scale_fun s)) alpha beta)
       (gamma_logpdf lnG (INR (length Dx) + alpha) (approx_rate_R delta D x beta))
    /\ approx_shape_R (length x) alpha = ((INR (length Dx) + alpha) + (INR (N * N) - INR (2 * N * lmrf_rows bc N)))%R.
Proof. exact approx_shape_offset_2d. Qed.
Print Assumptions C10_approx_shape_offset_2d.

Theorem C10_lmrf_operator_shape_2d :
  forall (bc : bc_type) (N : nat),
    length (lmrf_diff_op_2d bc N) = (2 * N * lmrf_rows bc N)%nat /\ wf_mat (N * N) (lmrf_diff_op_2d bc N)
    /\ ((0 < N)%nat -> ((2 * N * lmrf_rows bc N = N * N)%nat <-> bc = BNeumann /\ N = 2%nat)).
Proof. exact (fun bc N => conj (lmrf_diff_op_2d_rows bc N) (conj (lmrf_diff_op_2d_wf bc N) (lmrf_2d_square_iff bc N))). Qed.
Print Assumptions C10_lmrf_operator_shape_2d.

(* ------------------------------------------------------------------------------------------------- *)
(* 17. affine dependences: the tolerance of the probe lets in targets outside the conjugate structure         *)
(* ------------------------------------------------------------------------------------------------- *)

(* Gaussian(mean = Ax, prec = a s + b) with a, b > 0 and at least one datum, and GMRF(prec = a s + b) with stored rank > 0:
   NO Gamma(k, r) is proportional to the posterior of s -- the conditional is not a Gamma at all *)
Theorem C10_affine_dependence_never_gamma :
  forall (lnG : R -> R) (prec_fun : R -> R) (a b : R), (0 < a)%R -> (0 < b)%R -> (forall s, 0 < s -> prec_fun s = a * s + b)%R ->
  (forall (Ax Bv : Rvec) (alpha beta k r : R), length Ax = length Bv -> (0 < length Bv)%nat ->
     ~ proportional_on_pos (post_logd lnG (lik_gauss_prec prec_fun Ax Bv) alpha beta) (gamma_logpdf lnG k r))
  /\ (forall (rank : nat) (logdet : R) (P : Rmat) (Ax Bv : Rvec) (alpha beta k r : R), (0 < rank)%nat ->
     ~ proportional_on_pos (post_logd lnG (lik_gmrf prec_fun rank logdet P Ax Bv) alpha beta) (gamma_logpdf lnG k r)).
Proof.
  exact (fun lnG pf a b Ha Hb Hf =>
           conj (fun Ax Bv al be k r Hl Hn => gauss_prec_affine_never_gamma lnG pf a b Ax Bv al be k r Ha Hb Hf Hl Hn)
                (fun rk ld P Ax Bv al be k r Hr => gmrf_affine_never_gamma lnG pf a b rk ld P Ax Bv al be k r Ha Hb Hf Hr)).
Qed.
Print Assumptions C10_affine_dependence_never_gamma.

(* FINDING, sharpened (known_findings.tsv: exp.Conjugate|probe:three-point|non-identity-accepted): no contrived polynomial is needed --
   prec = lambda s: s + 2^-20 is accepted by the experimental sampler (it lies inside the probe's tolerance box; harness cell
   validate/.../s+2^-20), and for every data vector, forward output and prior no Gamma whatsoever is its conditional *)
Theorem C10_affine_accepted_refuted :
  forall (lnG : R -> R) (Ax Bv : Rvec) (alpha beta k r : R), length Ax = length Bv -> (0 < length Bv)%nat ->
    validate_exp (witness_target [affine_witness]) = Accept s_prec
    /\ ~ proportional_on_pos (post_logd lnG (lik_gauss_prec (Rdeval affine_witness) Ax Bv) alpha beta) (gamma_logpdf lnG k r).
Proof. exact affine_accepted_not_conjugate. Qed.
Print Assumptions C10_affine_accepted_refuted.

(* ------------------------------------------------------------------------------------------------- *)
(* 18. from `proportional` to `the same distribution`; what a passing rate case exhibits                *)
(* ------------------------------------------------------------------------------------------------- *)

(* Int = the integral over s > 0, of which two laws are used (it sees the values on s > 0 only; it is homogeneous).  If the target's
   density in s is proportional to the sampler's Gamma density (every exactness theorem above) and that Gamma density is normalised,
   then the NORMALISED conditional density of the hyper-parameter equals the Gamma density at every s > 0 and every event has the same
   probability under both.  (Still outside: that numpy.random.gamma has that density.) *)
Theorem C10_integral_form :
  forall (Int : (R -> R) -> R),
    (forall f g : R -> R, (forall s, 0 < s -> f s = g s)%R -> Int f = Int g) ->
    (forall (c : R) (f : R -> R), Int (fun s => c * f s)%R = (c * Int f)%R) ->
    forall (logf logg : R -> R) (Z : R),
      proportional_on_pos logf logg -> Int (fun s => exp (logg s)) = 1%R -> Int (fun s => exp (logf s)) = Z ->
      (0 < Z)%R
      /\ (forall s, 0 < s -> exp (logf s) / Z = exp (logg s))%R
      /\ (forall ind : R -> R, Int (fun s => ind s * (exp (logf s) / Z))%R = Int (fun s => ind s * exp (logg s))%R).
Proof. exact normalised_conditional_is_sampler_density. Qed.
Print Assumptions C10_integral_form.

(* a passing `check_rate` case (every shard): the observed rate is, within relative 1e-9, the conditional's rate v.Pv/2 + beta PLUS
   reg ||b - Ax||^2 / 2 -- the right-hand side of C10_gmrf_model_rate_identity with the model's reg (0 or 2^-26) *)
Theorem C10_rate_case_exhibits_excess :
  forall (n : nat) (P : list (list Q)) (reg : Q) (L : list (list Q)) (Ax b : list Q) (beta obs_rate obs_scale : Q),
    check_rate n P reg L Ax b beta obs_rate obs_scale = true ->
    length P = n -> wf_mat n P -> length Ax = n -> length b = n ->
    let v := Rvsub (Q2Rv b) (Q2Rv Ax) in
    let target := ((Rdot v (Rmatvec (Q2Rm P) v) / 2 + Q2R beta) + Q2R reg * Rnormsq v / 2)%R in
    (Rabs (Q2R obs_rate - target) <= Q2R tol9 * Rabs target)%R.
Proof. exact check_rate_excess_sound. Qed.
Print Assumptions C10_rate_case_exhibits_excess.

Example C10_integral_laws_satisfiable :
  let Int := fun f : R -> R => f 1%R in
  (forall f g : R -> R, (forall s, 0 < s -> f s = g s)%R -> Int f = Int g)
  /\ (forall (c : R) (f : R -> R), Int (fun s => c * f s)%R = (c * Int f)%R)
  /\ Int (fun s => exp ((fun _ => 0%R) s)) = 1%R.
Proof. exact integral_laws_satisfiable. Qed.

(* non-vacuity of the hypotheses of sections 13, 16, 17: a positive rational coefficient with an accepted monomial, a reciprocal scale
   law, a Cholesky law with positive rank, positive affine coefficients *)
Example C10_nonvacuous_round5_exactness :
  (exists c : Q, (0 < Q2R c)%R /\ probe_identity [dmono c 1] = true /\ ~ (c == 1)%Q)
  /\ (exists scale_fun : R -> R, forall s, (0 < s)%R -> scale_fun s = (1 / s)%R)
  /\ (exists (cholT P : Rmat) (b : Rvec) (rank : nat), chol_law (length b) cholT P /\ (0 < rank)%nat /\ (0 < length b)%nat)
  /\ (exists a b : R, (0 < a)%R /\ (0 < b)%R /\ forall s, (0 < s)%R -> Rdeval affine_witness s = (a * s + b)%R).
Proof.
  split; [| split; [| split]].
  - exists (100001 # 100000)%Q. split; [unfold Q2R; simpl; lra | split; [vm_compute; reflexivity | vm_compute; discriminate]].
  - exists (fun s => 1 / s)%R. intros s _. reflexivity.
  - exists wit_cholT, wit_P, [1%R; 0%R], 1%nat. split; [exact wit_chol_law | split; simpl; lia].
  - exists 1%R, (/ 1048576)%R. split; [lra | split; [lra | intros s _; apply affine_witness_denotes]].
Qed.

(* non-vacuity of the round-5 hypotheses *)
Example C10_nonvacuous_round5 :
  (probe_identity [dmono (100001 # 100000) 1] = true /\ probe_reciprocal [dmono (1000000001 # 1000000000) (-1)] = PTrue
   /\ probe_identity [dquad (1 # 1000000) (1000001 # 1000000) (- (1 # 100000000))] = true
   /\ probe_identity [dperturb DVar (DConst 1000)] = true)
  /\ (forall eps, (0 <= eps)%R -> chol_law_reg 2 (reg_wit_M eps) reg_wit_P eps)
  /\ (check_direct_life [Some [5%Q]; Some [7%Q]; Some [9%Q]] [1%Q] 1 1 (ObsDone [[7%Q]; [9%Q]] [9%Q] [1%Q; 1%Q; 1%Q]) = true
      /\ check_direct_life [None] [1%Q] 1 1 ObsRefused = true
      /\ check_direct_life [Some [5%Q]; Some [7%Q]; None] [1%Q] 3 0 (ObsRaised [[7%Q]]) = true)
  /\ (check_diffop BZero 2 [[1; 0]; [-1; 1]; [0; -1]]%Q = true
      /\ check_diffop BPeriodic 3 [[1; 0; -1]; [-1; 1; 0]; [0; -1; 1]; [1; 0; -1]]%Q = true
      /\ check_diffop BPeriodic 2 [[1; -1]; [-1; 1]; [1; -1]]%Q = true
      /\ check_diffop BNeumann 3 [[-1; 1; 0]; [0; -1; 1]]%Q = true).
Proof. exact (conj probe_classes_nonvacuous (conj reg_wit_law (conj direct_life_nonvacuous lmrf_op_values))). Qed.

(* ------------------------------------------------------------------------------------------------- *)
(* non-vacuity: the hypotheses of the exactness theorems are satisfiable                              *)
(* ------------------------------------------------------------------------------------------------- *)
Example C10_nonvacuous :
  (exists (cov_fun : R -> R) (Ax b : Rvec), (forall s, 0 < s -> cov_fun s = 1 / s)%R /\ length Ax = length b /\ (0 < length b)%nat)
  /\ (exists (cholT P : Rmat) (b : Rvec), chol_law (length b) cholT P /\ (0 < length b)%nat)
  /\ (exists t key, validate_exp t = Accept key).
Proof. exact nonvacuous. Qed.

Example C10_nonvacuous_more :
  (exists (c0 Ax b : Rvec), Forall (fun a => 0 < a)%R c0 /\ length c0 = length b /\ length Ax = length b /\ (0 < length b)%nat)
  /\ (exists (delta : R) (v : Rvec), (0 < delta)%R /\ (approx_penalty delta v < norm1 v)%R)
  /\ (exists a b, ~ (a == 1)%Q /\ ~ (b == 0)%Q /\ probe_reciprocal [DAdd (DMul (DConst a) (DInv DVar)) (DConst b)] = PTrue).
Proof. exact nonvacuous_more. Qed.
