(* C08 -- the link between the doubling loop (`dist (doublings ..)` on the orbit abstraction) and the block
   kernel of C08_Block.v, for ALL depths: started at an in-slice position i, after j doublings the loop is alive
   with trajectory (j, a) and current state x with probability 2^-j * pk j a i x.  Corollaries: every one of the
   2^j trajectories containing i arises with probability exactly 2^-j (times "it is alive"), and started from
   the counting measure on the slice the current state is uniform on the slice of the trajectory. *)
From CV Require Import Base.Tac Base.Ext Model.C08_NUTS Proofs.C08_Prog Proofs.C08_Tree Proofs.C08_Top Proofs.C08_Law
                       Proofs.C08_Orbit Proofs.C08_Block.
From Coq Require Import QArith Qabs Qminmax Lqa Qfield.
Local Open Scope Z_scope.

(* decompose an event by the value of a key that ranges over a finite list *)
Lemma dist_partition {A} (m : prog A) (P : A -> bool) (key : A -> Z) (l : list Z) :
  NoDup l -> all_out (fun s => P s = true -> In (key s) l) m ->
  (dist m (fun s => b2q (P s)) == qs (fun x => dist m (fun s => b2q (P s && (key s =? x)))) l)%Q.
Proof.
  intros ND. induction m as [s | st p k IH]; intros Hin.
  - cbn [dist]. cbn [all_out] in Hin. destruct (P s) eqn:EP.
    + specialize (Hin eq_refl). cbn [andb].
      rewrite (qs_single (fun x => b2q (key s =? x)) l (key s) ND).
      * destruct (in_dec Z.eq_dec (key s) l); [rewrite Z.eqb_refl; reflexivity | contradiction].
      * intros x _ Hx. replace (key s =? x) with false by (symmetry; apply Z.eqb_neq; congruence). reflexivity.
    + cbn [andb b2q]. symmetry. apply qs_zero. reflexivity.
  - cbn [dist]. destruct Hin as [H1 H2]. rewrite (IH true H1), (IH false H2).
    rewrite <- !qs_scale, <- qs_plus. reflexivity.
Qed.

(* ---------------- more finite sums ---------------- *)
Lemma qs_swap (f : Z -> Z -> Q) l1 l2 :
  (qs (fun a => qs (fun b => f a b) l2) l1 == qs (fun b => qs (fun a => f a b) l1) l2)%Q.
Proof.
  induction l1 as [|a l1 IH].
  - symmetry. apply qs_zero. reflexivity.
  - rewrite qs_cons, IH, <- qs_plus. apply qs_ext. intros b _. rewrite qs_cons. reflexivity.
Qed.

Lemma qs_shift (f : Z -> Q) (c : Z) : forall n lo, (qs f (zr (lo + c) n) == qs (fun a => f (a + c)%Z) (zr lo n))%Q.
Proof.
  induction n as [|n IH]; intros lo; [reflexivity|]. cbn [zr]. rewrite !qs_cons.
  replace (lo + c + 1) with (lo + 1 + c) by lia. rewrite IH. reflexivity.
Qed.

Lemma qs_window (f : Z -> Q) lo n a m : lo <= a -> a + Z.of_nat m <= lo + Z.of_nat n ->
  (forall i, i < a \/ a + Z.of_nat m <= i -> (f i == 0)%Q) -> (qs f (zr lo n) == qs f (zr a m))%Q.
Proof.
  intros H1 H2 Hz.
  replace n with (Z.to_nat (a - lo) + (m + Z.to_nat (lo + Z.of_nat n - a - Z.of_nat m)))%nat by lia.
  rewrite !zr_app, !qs_app. replace (lo + Z.of_nat (Z.to_nat (a - lo))) with a by lia.
  rewrite (qs_zero f (zr lo _)), (qs_zero f (zr (a + Z.of_nat m) _)); [ring | |].
  - intros x Hx. apply zr_In in Hx. apply Hz. lia.
  - intros x Hx. apply zr_In in Hx. apply Hz. lia.
Qed.

Lemma dist_qs {A} (m : prog A) (f : Z -> A -> Q) l :
  (dist m (fun s => qs (fun a => f a s) l) == qs (fun a => dist m (f a)) l)%Q.
Proof.
  induction l as [|a l IH].
  - apply (dist_const m 0%Q).
  - rewrite qs_cons, <- IH, <- dist_plus. apply dist_ext. intros s. rewrite qs_cons. reflexivity.
Qed.

Section Alive.
Variable H : Z -> ext.
Variable L : Z -> ext.
Variable U : Z -> Z -> bool.
Variable A : Z -> Q.
Variable logu : ext.
Variable guard : bool.
(* the non-finite guard does not interfere: legacy sampler, or a target whose log-density is finite on the orbit *)
Hypothesis Hfin : guard = false \/ forall i, finite_logd Z L i = true.
(* the start itself is never tested for divergence; with a finite slice variable an in-slice state is not divergent *)
Hypothesis Hsl : forall i, sl H logu i = true -> nd H logu i = true.

Notation dbuildZ := (dbuild Z zleap H U A logu).
Notation sl := (sl H logu).
Notation nd := (nd H logu).
Notation okb := (okb H U logu).
Notation bn := (bn H logu).
Notation pk := (pk H U logu).
Notation ee := (ee H U logu).
Notation doublings := (doublings Z zleap H L U A logu guard).
Notation doubling := (doubling Z zleap H L U A logu guard).
Notation doubling_dir := (doubling_dir Z zleap H L U A logu guard).

(* the block a new sub-tree covers *)
Definition nblk (s : Z) (v : bool) (j : nat) : Z := if v then s + 1 else s - pw j.

Lemma cnt_slice_in_block s v m k :
  In k (filter (in_slice Z H logu) (oleaves s v m)) <->
  ((if v then s + 1 else s - Z.of_nat m) <= k < (if v then s + 1 else s - Z.of_nat m) + Z.of_nat m) /\ sl k = true.
Proof.
  rewrite filter_In, oleaves_In. unfold C08_Block.sl. split.
  - intros ((t & Ht & ->) & Hs). split; [|exact Hs]. unfold opos. destruct v; lia.
  - intros (Hr & Hs). split; [|exact Hs]. destruct v; [exists (k - s) | exists (s - k)]; unfold opos; lia.
Qed.

Lemma cnt_slice_oleaves s v m :
  cnt_slice Z H logu (oleaves s v m) = cnt_slice Z H logu (zr (if v then s + 1 else s - Z.of_nat m) m).
Proof.
  unfold cnt_slice. f_equal.
  apply Nat.le_antisymm; apply NoDup_incl_length.
  - apply NoDup_filter, oleaves_NoDup.
  - intros k Hk. apply cnt_slice_in_block in Hk as (Hr & Hs). apply filter_In. split; [apply zr_In; lia | exact Hs].
  - apply NoDup_filter, zr_NoDup.
  - intros k Hk. apply filter_In in Hk as (Hr & Hs). apply zr_In in Hr. apply cnt_slice_in_block. split; [lia | exact Hs].
Qed.

(* BuildTree's continue flag is the block predicate *)
Lemma dbuild_ok_okb : forall j s v, k_ok Z (dbuildZ s v j) = okb j (nblk s v j).
Proof.
  induction j as [|j IH]; intros s v.
  - cbn. unfold nblk, C08_Block.nd, pw. cbn. destruct v; cbn; f_equal; lia.
  - cbn [dbuild C08_Block.okb].
    destruct (dbuild_orbit H U A logu j s v) as (m1 & B1 & L1 & O1 & M1 & P1).
    destruct (k_ok Z (dbuildZ s v j)) eqn:Hok.
    + specialize (O1 eq_refl). subst m1.
      assert (Epw : Z.of_nat (2 ^ j) = pw j) by reflexivity.
      set (e := if v then k_plus Z (dbuildZ s v j) else k_minus Z (dbuildZ s v j)).
      assert (Ee : e = if v then s + pw j else s - pw j) by (unfold e; destruct v; [rewrite P1 | rewrite M1]; rewrite Epw; reflexivity).
      clearbody e. subst e.
      destruct (dbuild_orbit H U A logu j (if v then s + pw j else s - pw j) v) as (m2 & B2 & L2 & O2 & M2 & P2).
      cbn [k_ok]. rewrite (IH (if v then s + pw j else s - pw j) v). rewrite (IH s v) in Hok.
      rewrite (IH (if v then s + pw j else s - pw j) v) in O2.
      destruct v; unfold nblk in *; rewrite pw_S.
      * rewrite Hok. cbn [andb].
        replace (s + pw j + 1) with (s + 1 + pw j) in * by lia.
        destruct (okb j (s + 1 + pw j)) eqn:E2; cbn [andb]; [|reflexivity].
        rewrite M1, P2, (O2 eq_refl), Epw. f_equal. lia.
      * replace (s - pw j - pw j) with (s - 2 * pw j) in * by lia.
        replace (s - 2 * pw j + pw j) with (s - pw j) by lia. rewrite Hok, andb_true_r.
        destruct (okb j (s - 2 * pw j)) eqn:E2; cbn [andb]; [|reflexivity].
        rewrite P1, M2, (O2 eq_refl), Epw. f_equal; lia.
    + rewrite (IH s v) in Hok |- *. destruct v; unfold nblk in *; rewrite pw_S.
      * rewrite Hok. reflexivity.
      * replace (s - 2 * pw j + pw j) with (s - pw j) by lia. rewrite Hok, andb_false_r. reflexivity.
Qed.

(* a sub-tree that says continue covers its whole block *)
Lemma dbuild_block j s v : k_ok Z (dbuildZ s v j) = true ->
  let b := nblk s v j in
  k_leaves Z (dbuildZ s v j) = oleaves s v (2 ^ j) /\
  k_n Z (dbuildZ s v j) = bn j b /\ k_minus Z (dbuildZ s v j) = b /\ k_plus Z (dbuildZ s v j) = b + pw j - 1.
Proof.
  intros Hok b. destruct (dbuild_orbit H U A logu j s v) as (m & B & L1 & O1 & M1 & P1).
  specialize (O1 Hok). subst m. split; [exact L1|]. split; [|split].
  - rewrite dbuild_counts, L1, cnt_slice_oleaves. unfold C08_Block.bn, b, nblk, pw. reflexivity.
  - rewrite M1. unfold b, nblk, pw. destruct v; reflexivity.
  - rewrite P1. unfold b, nblk, pw. destruct v; lia.
Qed.

(* the sub-sampled candidate of a sub-tree that says continue: a * P(candidate = k) *)
Lemma selp_block j s v k n : k_ok Z (dbuildZ s v j) = true ->
  let b := nblk s v j in
  (acc_prob (bn j b) n * selp Z zleap H U A logu Z.eqb s v j k
   == b2q (inb j b k && sl k) * (acc_prob (bn j b) n / inject_Z (bn j b)))%Q.
Proof.
  intros Hok b. destruct (dbuild_block j s v Hok) as (LL & N & _ & _). fold b in N.
  destruct (inb j b k && sl k) eqn:E.
  - assert (Hin : In k (filter (in_slice Z H logu) (k_leaves Z (dbuildZ s v j)))).
    { rewrite LL. apply cnt_slice_in_block. apply andb_true_iff in E as [Ein Es]. unfold inb in Ein.
      apply andb_true_iff in Ein as [E1 E2]. apply Z.leb_le in E1. apply Z.ltb_lt in E2.
      split; [|exact Es]. unfold b, nblk, pw in *. destruct v; lia. }
    destruct (selp_orbit H U A logu j s v k Hin) as [Es _]. rewrite Es, N. cbn [b2q]. unfold Qdiv. ring.
  - cbn [b2q]. rewrite Qmult_0_l.
    pose proof (selp_uniform Z zleap H U A logu Z.eqb j s v k) as Un. rewrite N in Un.
    assert (Hocc : occ Z H logu Z.eqb k (k_leaves Z (dbuildZ s v j)) = 0).
    { unfold occ. destruct (filter (fun x => x =? k) (filter (in_slice Z H logu) (k_leaves Z (dbuildZ s v j)))) as [|y r] eqn:Ef; [reflexivity|].
      exfalso. assert (Hy : In y (y :: r)) by (left; reflexivity). rewrite <- Ef in Hy.
      apply filter_In in Hy as [Hy Ey]. apply Z.eqb_eq in Ey. subst y. rewrite LL in Hy.
      apply cnt_slice_in_block in Hy as (Hr & Hs).
      assert (inb j b k = true).
      { unfold inb. apply andb_true_iff. split; [apply Z.leb_le | apply Z.ltb_lt]; unfold b, nblk, pw in *; destruct v; lia. }
      rewrite H0, Hs in E. discriminate. }
    rewrite Hocc in Un. change (inject_Z 0) with 0%Q in Un.
    destruct (Z.eq_dec (bn j b) 0) as [E0 | E0].
    + rewrite E0. assert (Ea : (acc_prob 0 n == 0)%Q).
      { unfold acc_prob. assert (E1 : (inject_Z 0 / inject_Z n == 0)%Q) by (unfold Qdiv; change (inject_Z 0) with 0%Q; ring).
        rewrite E1. apply Q.min_r. lra. }
      rewrite Ea. ring.
    + assert (Hq : ~ (inject_Z (bn j b) == 0)%Q) by (intros Q0; unfold Qeq, inject_Z in Q0; simpl in Q0; lia).
      assert (Es : (selp Z zleap H U A logu Z.eqb s v j k == 0)%Q).
      { apply (Qmult_inj_r _ _ (inject_Z (bn j b)) Hq). rewrite Un. ring. }
      rewrite Es. ring.
Qed.

(* ---------------- invariants of a live loop state on the orbit ---------------- *)
Definition inv_blk (st : top Z) : Prop :=
  p_s st = true ->
  p_plus st = p_minus st + pw (p_j st) - 1 /\ p_n st = bn (p_j st) (p_minus st) /\
  p_minus st <= p_cur st <= p_plus st.

Lemma inv_blk_step st : inv_blk st -> p_s st = true -> all_out inv_blk (doubling st).
Proof.
  intros Hst Eps. destruct (Hst Eps) as (Hp & Hn & Hc).
  apply doubling_inv_update. intros v t a K Lf _. unfold inv_blk.
  cbn [top_update p_s p_plus p_minus p_n p_j p_cur]. intros Hs.
  apply andb_true_iff in Hs as [Hok _].
  apply skel_fields in K. destruct K as (M & P & N & O & _ & _ & LL & _).
  unfold dir_skel, dir_start in *. rewrite O in Hok.
  destruct (dbuild_block (p_j st) (if v then p_plus st else p_minus st) v Hok) as (L1 & N1 & M1 & P1).
  rewrite pw_S, bn_S. rewrite N, N1, M, P, M1, P1, Hn. unfold nblk.
  assert (Hsel : forall x, In x (t_leaves t) ->
            (if v then p_plus st + 1 else p_minus st - pw (p_j st)) <= x <=
            (if v then p_plus st + 1 else p_minus st - pw (p_j st)) + pw (p_j st) - 1).
  { intros x Hx. rewrite LL, L1 in Hx. apply oleaves_In in Hx as (tt & Ht & ->). unfold opos, pw. destruct v; lia. }
  pose proof (pw_pos (p_j st)).
  assert (Hcur : forall lo, (forall x, In x (t_leaves t) -> lo <= x <= lo + pw (p_j st) - 1) ->
            (a = true -> lo <= t_sel t <= lo + pw (p_j st) - 1)).
  { intros lo Hl _. apply Hl, Lf. }
  destruct v.
  - split; [lia | split].
    + f_equal. f_equal. lia.
    + destruct a; [specialize (Hsel _ Lf) | ]; lia.
  - replace (p_minus st - pw (p_j st) + pw (p_j st)) with (p_minus st) by lia.
    split; [lia | split].
    + lia.
    + destruct a; [specialize (Hsel _ Lf) | ]; lia.
Qed.

Lemma doublings_inv_blk k i : sl i = true -> all_out inv_blk (doublings k (top_init i)).
Proof.
  intros Hi. apply doublings_inv; [apply inv_blk_step|]. unfold inv_blk. cbn. intros _.
  unfold pw, C08_Block.bn, cnt_slice. cbn [Nat.pow zr filter]. unfold C08_Block.sl in Hi. rewrite Hi. cbn. lia.
Qed.

Lemma doublings_pj : forall k st,
  all_out (fun st' => (p_j st' <= p_j st + k)%nat /\ (p_s st' = true -> p_j st' = (p_j st + k)%nat)) (doublings k st).
Proof.
  induction k as [|k IH]; intros st; cbn [C08_NUTS.doublings].
  - cbn. split; intros; lia.
  - destruct (p_s st) eqn:Eps; cbn [negb].
    + change (all_out (fun st' => (p_j st' <= p_j st + S k)%nat /\ (p_s st' = true -> p_j st' = (p_j st + S k)%nat))
                      (bind (doubling st) (doublings k))).
      rewrite all_out_bind. eapply all_out_impl; [| apply (doubling_j Z zleap H L U A logu guard st)].
      intros st1 E1. cbn beta. eapply all_out_impl; [| apply (IH st1)]. intros st' [B1 B2]. rewrite E1 in B1, B2.
      split; [lia | intros Hs; rewrite (B2 Hs); lia].
    + cbn. split; [lia | congruence].
Qed.

Lemma doublings_snoc : forall k st (f : top Z -> Q),
  (dist (doublings (S k) st) f == dist (doublings k st) (fun st' => dist (doublings 1 st') f))%Q.
Proof.
  induction k as [|k IH]; intros st f.
  - reflexivity.
  - change (doublings (S (S k)) st) with (if negb (p_s st) then Ret st else bind (doubling st) (doublings (S k))).
    change (doublings (S k) st) with (if negb (p_s st) then Ret st else bind (doubling st) (doublings k)).
    destruct (p_s st) eqn:Eps; cbn [negb].
    + rewrite !dist_bind. apply dist_ext. intros st1. apply IH.
    + cbn [dist C08_NUTS.doublings]. rewrite Eps. reflexivity.
Qed.

(* every outcome of one direction of a doubling is the update by a tree with the deterministic skeleton *)
Lemma doubling_dir_out (st : top Z) v (Inv : top Z -> Prop) :
  (forall t a, skel_of Z t = dir_skel Z zleap H U A logu st v -> Inv (top_update U st v t a)) ->
  all_out Inv (doubling_dir st v).
Proof.
  intros Hu. unfold C08_NUTS.doubling_dir. rewrite all_out_bind.
  eapply all_out_impl; [| apply (build_skel Z zleap H U A logu (p_j st) (dir_start Z st v) v)].
  intros t K. destruct (t_ok t); cbn; [split|]; apply Hu; exact K.
Qed.

Definition alive_ind (j : nat) (a x : Z) (st : top Z) : Q :=
  b2q (p_s st && (p_j st =? j)%nat && (p_minus st =? a) && (p_cur st =? x)).

Lemma fin_leaves l : guard = false \/ Forall (fun s => finite_logd Z L s = true) l.
Proof. destruct Hfin as [-> | F]; [left; reflexivity | right; apply Forall_forall; intros; apply F]. Qed.

(* one direction of one doubling, from a live state with trajectory (j, a) *)
Lemma dir_law (st : top Z) (v : bool) (j : nat) (a' x' : Z) :
  p_s st = true -> p_j st = j -> p_plus st = p_minus st + pw j - 1 -> p_n st = bn j (p_minus st) ->
  let a := p_minus st in
  let nb := if v then a + pw j else a - pw j in                (* the new half *)
  let lo := if v then a else a - pw j in                       (* the new trajectory *)
  (dist (doubling_dir st v) (alive_ind (S j) a' x')
   == b2q (lo =? a') * b2q (okb j nb && U lo (lo + pw (S j) - 1)) *
      ((1 - acc_prob (bn j nb) (bn j a)) * b2q (p_cur st =? x')
       + b2q (inb j nb x' && sl x') * (acc_prob (bn j nb) (bn j a) / inject_Z (bn j nb))))%Q.
Proof.
  intros Eps Ej Hp Hn. subst j. intros a nb lo.
  set (d := dir_skel Z zleap H U A logu st v).
  assert (Enb : nblk (dir_start Z st v) v (p_j st) = nb).
  { unfold nblk, dir_start, nb, a. destruct v; [rewrite Hp; lia | reflexivity]. }
  assert (Eok : k_ok Z d = okb (p_j st) nb).
  { unfold d, dir_skel. rewrite dbuild_ok_okb, Enb. reflexivity. }
  destruct (okb (p_j st) nb) eqn:Hok.
  - (* the new half says continue *)
    destruct (dbuild_block (p_j st) (dir_start Z st v) v) as (LL & N1 & M1 & P1).
    { unfold d, dir_skel in Eok. exact Eok. }
    rewrite Enb in N1, M1, P1.
    assert (Emn : (if v then p_minus st else k_minus Z d) = lo).
    { unfold lo, a, d, dir_skel. destruct v; [reflexivity | rewrite M1; reflexivity]. }
    assert (Epl : (if v then k_plus Z d else p_plus st) = lo + pw (S (p_j st)) - 1).
    { unfold lo, a, d, dir_skel. rewrite pw_S. destruct v; [rewrite P1; unfold nb, a; lia | rewrite Hp; lia]. }
    rewrite (dist_ext_out (fun st' => p_s st' = U lo (lo + pw (S (p_j st)) - 1) /\ p_j st' = S (p_j st) /\ p_minus st' = lo)
               (doubling_dir st v) (alive_ind (S (p_j st)) a' x')
               (fun st' => (b2q (U lo (lo + pw (S (p_j st)) - 1) && (lo =? a')) * cur_ind Z Z.eqb x' st')%Q)).
    + rewrite dist_scale.
      rewrite (doubling_dir_law0 Z zleap H L U A logu Z.eqb guard st v x').
      2:{ fold d. exact Eok. }
      2:{ apply fin_leaves. }
      fold d.
      assert (EN : k_n Z d = bn (p_j st) nb) by (unfold d; exact N1).
      rewrite EN, Hn. fold a.
      pose proof (selp_block (p_j st) (dir_start Z st v) v x' (bn (p_j st) a) Eok) as SB. cbn zeta in SB.
      rewrite Enb in SB. rewrite SB. unfold cur_ind.
      destruct (U lo (lo + pw (S (p_j st)) - 1)), (lo =? a'), (p_cur st =? x'); cbn [andb b2q]; ring.
    + apply doubling_dir_out. intros t acc K. apply skel_fields in K. destruct K as (M & P & _ & O & _).
      cbn [top_update p_s p_j p_minus]. fold d in M, P, O. rewrite M, P, O, Eok, Emn, Epl. cbn [andb]. auto.
    + intros st' (E1 & E2 & E3). unfold alive_ind, cur_ind. rewrite E1, E2, E3, Nat.eqb_refl.
      destruct (U lo (lo + pw (S (p_j st)) - 1)), (lo =? a'), (p_cur st' =? x'); cbn [andb b2q]; ring.
  - (* it says stop: no longer alive *)
    rewrite (doubling_dir_dead Z zleap H L U A logu guard st v).
    + cbn [andb b2q]. ring.
    + fold d. exact Eok.
    + intros st' Es. unfold alive_ind. rewrite Es. reflexivity.
Qed.

Definition alive_blk (j : nat) (a : Z) (st : top Z) : Q := b2q (p_s st && (p_j st =? j)%nat && (p_minus st =? a)).

(* one doubling from a live state, both directions *)
Lemma doubling_law (st : top Z) (j : nat) (a' x' : Z) :
  p_s st = true -> p_j st = j -> inv_blk st ->
  let b' := a' + pw j in
  let nL := bn j a' in let nR := bn j b' in
  let uu := U a' (a' + pw (S j) - 1) in
  (dist (doubling st) (alive_ind (S j) a' x')
   == (1 # 2) * (b2q (okb j b' && uu) *
                   ((1 - acc_prob nR nL) * alive_ind j a' x' st
                    + b2q (inb j b' x' && sl x') * (acc_prob nR nL / inject_Z nR) * alive_blk j a' st)
                 + b2q (okb j a' && uu) *
                   ((1 - acc_prob nL nR) * alive_ind j b' x' st
                    + b2q (inb j a' x' && sl x') * (acc_prob nL nR / inject_Z nL) * alive_blk j b' st)))%Q.
Proof.
  intros Eps Ej Hinv b' nL nR uu. destruct (Hinv Eps) as (Hp & Hn & _). rewrite Ej in Hp, Hn.
  unfold C08_NUTS.doubling. cbn [dist].
  rewrite (dir_law st true j a' x' Eps Ej Hp Hn), (dir_law st false j a' x' Eps Ej Hp Hn). cbn zeta.
  unfold alive_ind, alive_blk. rewrite Eps, Ej, Nat.eqb_refl. cbn [andb].
  destruct (p_minus st =? a') eqn:E1.
  - apply Z.eqb_eq in E1. rewrite E1.
    assert (E2 : (a' - pw j =? a') = false) by (apply Z.eqb_neq; pose proof (pw_pos j); lia).
    assert (E3 : (a' =? b') = false) by (apply Z.eqb_neq; unfold b'; pose proof (pw_pos j); lia).
    rewrite E2, E3. fold b'. fold nL. fold nR. fold uu. cbn [b2q andb]. ring.
  - destruct (p_minus st =? b') eqn:E2.
    + apply Z.eqb_eq in E2. rewrite E2. unfold b'.
      replace (a' + pw j - pw j) with a' by lia. rewrite Z.eqb_refl. fold b'. fold nL. fold nR. fold uu.
      cbn [b2q andb]. ring.
    + assert (E3 : (p_minus st - pw j =? a') = false) by (apply Z.eqb_neq; apply Z.eqb_neq in E2; unfold b' in E2; lia).
      rewrite E3. cbn [b2q andb]. ring.
Qed.

(* ---------------- the law of the live loop state, all depths ---------------- *)
Theorem alive_law : forall j i a x, sl i = true ->
  (dist (doublings j (top_init i)) (alive_ind j a x) == / inject_Z (pw j) * pk j a i x)%Q.
Proof.
  induction j as [|j IH]; intros i a x Hi.
  - cbn [C08_NUTS.doublings dist C08_Block.pk]. unfold alive_ind. cbn [top_init p_s p_j p_minus p_cur Nat.eqb andb].
    unfold pw. cbn [Nat.pow]. change (inject_Z (Z.of_nat 1)) with 1%Q.
    destruct (i =? a) eqn:E1.
    + apply Z.eqb_eq in E1. subst a. rewrite Hi, (Hsl i Hi), (Z.eqb_sym x i). destruct (i =? x); cbn; reflexivity.
    + cbn. reflexivity.
  - rewrite doublings_snoc.
    set (b' := a + pw j). set (nL := bn j a). set (nR := bn j b'). set (uu := U a (a + pw (S j) - 1)).
    (* the integrand after the last doubling, on the outcomes of the first j *)
    rewrite (dist_ext_out (fun st' => inv_blk st' /\ (p_j st' <= j)%nat /\ (p_s st' = true -> p_j st' = j))
               (doublings j (top_init i)) _
               (fun st => ((1 # 2) * (b2q (okb j b' && uu) *
                   ((1 - acc_prob nR nL) * alive_ind j a x st
                    + b2q (inb j b' x && sl x) * (acc_prob nR nL / inject_Z nR) * alive_blk j a st)
                 + b2q (okb j a && uu) *
                   ((1 - acc_prob nL nR) * alive_ind j b' x st
                    + b2q (inb j a x && sl x) * (acc_prob nL nR / inject_Z nL) * alive_blk j b' st)))%Q)).
    2:{ apply all_out_and; [apply doublings_inv_blk; exact Hi|].
        eapply all_out_impl; [| apply (doublings_pj j (top_init i))]. cbn [top_init p_j]. intros st' [B1 B2]. split; [lia|].
        intros Hs. rewrite (B2 Hs). lia. }
    2:{ intros st' (Hinv & Hle & Hal). cbn [C08_NUTS.doublings].
        destruct (p_s st') eqn:Eps; cbn [negb].
        - rewrite dist_bind. rewrite (dist_ext _ _ (alive_ind (S j) a x)) by (intros; reflexivity).
          apply (doubling_law st' j a x Eps (Hal eq_refl) Hinv).
        - cbn [dist]. unfold alive_ind, alive_blk. rewrite Eps. cbn [andb b2q]. ring. }
    (* linearity, the induction hypothesis and the row sums *)
    assert (DA : forall c, (dist (doublings j (top_init i)) (alive_blk j c) == / inject_Z (pw j) * b2q (ee j c i))%Q).
    { intros c. unfold alive_blk.
      rewrite (dist_partition _ (fun st => p_s st && (p_j st =? j)%nat && (p_minus st =? c)) (fun st => p_cur st) (zr c (2 ^ j))).
      - rewrite (qs_ext _ (fun x0 => (/ inject_Z (pw j) * pk j c i x0)%Q)).
        + rewrite qs_scale, pk_rowsum. reflexivity.
        + intros x0 _. apply (IH i c x0 Hi).
      - apply zr_NoDup.
      - eapply all_out_impl; [| apply (doublings_inv_blk j i Hi)]. intros st' Hinv HP.
        apply andb_true_iff in HP as [HP E3]. apply andb_true_iff in HP as [Eps E2].
        apply Nat.eqb_eq in E2. apply Z.eqb_eq in E3. destruct (Hinv Eps) as (Hp & _ & Hc).
        apply zr_In. rewrite E2, E3 in *. unfold pw in *. lia. }
    rewrite dist_scale.
    rewrite (dist_ext _ _ (fun st => (b2q (okb j b' && uu) * (1 - acc_prob nR nL) * alive_ind j a x st
                                     + (b2q (okb j b' && uu) * (b2q (inb j b' x && sl x) * (acc_prob nR nL / inject_Z nR)) * alive_blk j a st
                                        + (b2q (okb j a && uu) * (1 - acc_prob nL nR) * alive_ind j b' x st
                                           + b2q (okb j a && uu) * (b2q (inb j a x && sl x) * (acc_prob nL nR / inject_Z nL)) * alive_blk j b' st)))%Q))
      by (intros; ring).
    rewrite !dist_plus, !dist_scale, (IH i a x Hi), (IH i b' x Hi), (DA a), (DA b').
    (* compare with the block kernel one level up *)
    cbn [C08_Block.pk]. fold b'. fold nL. fold nR. fold uu. rewrite pw_S, inject_Z_mult.
    assert (Hq : ~ (inject_Z (pw j) == 0)%Q).
    { intros Q0. unfold Qeq, inject_Z in Q0. simpl in Q0. pose proof (pw_pos j). lia. }
    change (inject_Z 2) with (2 # 1)%Q.
    set (qR := (acc_prob nR nL / inject_Z nR)%Q). set (qL := (acc_prob nL nR / inject_Z nL)%Q).
    destruct (i <? b') eqn:Ei.
    + (* the start lies in the left half: nothing arrives from a start in the right half *)
      assert (Z1 : ee j b' i = false).
      { unfold C08_Block.ee, inb. apply Z.ltb_lt in Ei. replace (b' <=? i) with false by (symmetry; apply Z.leb_gt; lia).
        rewrite andb_false_r. reflexivity. }
      rewrite (pk_support_i H U logu j b' i x Z1), Z1.
      destruct (x <? b') eqn:Ex.
      * assert (Z2 : inb j b' x && sl x = false).
        { unfold inb. apply Z.ltb_lt in Ex. replace (b' <=? x) with false by (symmetry; apply Z.leb_gt; lia). reflexivity. }
        rewrite Z2. destruct (okb j a) eqn:Ea.
        -- cbn [andb b2q]. field. exact Hq.
        -- assert (Z3 : ee j a i = false) by (unfold C08_Block.ee; rewrite Ea; reflexivity).
           rewrite (pk_support_i H U logu j a i x Z3). cbn [andb b2q]. field. exact Hq.
      * assert (Z2 : inb j a x && sl x = false).
        { unfold inb. apply Z.ltb_ge in Ex. unfold b' in Ex. replace (x <? a + pw j) with false by (symmetry; apply Z.ltb_ge; lia).
          rewrite andb_false_r. reflexivity. }
        rewrite (pk_support_x H U logu j a i x Z2), Z2.
        destruct (okb j a) eqn:Ea.
        -- cbn [andb b2q]. field. exact Hq.
        -- assert (Z3 : ee j a i = false) by (unfold C08_Block.ee; rewrite Ea; reflexivity).
           rewrite Z3. cbn [andb b2q]. field. exact Hq.
    + assert (Z1 : ee j a i = false).
      { unfold C08_Block.ee, inb. apply Z.ltb_ge in Ei. unfold b' in Ei. replace (i <? a + pw j) with false by (symmetry; apply Z.ltb_ge; lia).
        rewrite !andb_false_r. reflexivity. }
      rewrite (pk_support_i H U logu j a i x Z1), Z1.
      destruct (x <? b') eqn:Ex.
      * assert (Z2 : inb j b' x && sl x = false).
        { unfold inb. apply Z.ltb_lt in Ex. replace (b' <=? x) with false by (symmetry; apply Z.leb_gt; lia). reflexivity. }
        rewrite (pk_support_x H U logu j b' i x Z2), Z2.
        destruct (okb j b') eqn:Eb.
        -- rewrite andb_true_r. cbn [andb b2q]. field. exact Hq.
        -- assert (Z3 : ee j b' i = false) by (unfold C08_Block.ee; rewrite Eb; reflexivity).
           rewrite Z3, andb_false_r. cbn [andb b2q]. field. exact Hq.
      * assert (Z2 : inb j a x && sl x = false).
        { unfold inb. apply Z.ltb_ge in Ex. unfold b' in Ex. replace (x <? a + pw j) with false by (symmetry; apply Z.ltb_ge; lia).
          rewrite andb_false_r. reflexivity. }
        rewrite Z2. destruct (okb j b') eqn:Eb.
        -- rewrite andb_true_r. cbn [andb b2q]. field. exact Hq.
        -- assert (Z3 : ee j b' i = false) by (unfold C08_Block.ee; rewrite Eb; reflexivity).
           rewrite (pk_support_i H U logu j b' i x Z3), andb_false_r. cbn [andb b2q]. field. exact Hq.
Qed.

(* the 2^-j law: each of the 2^j trajectories of 2^j positions that contain the start arises from exactly one
   direction sequence, i.e. with probability exactly 2^-j -- if the loop is still alive with it; no other does *)
Theorem alive_position_law j i a : sl i = true ->
  (dist (doublings j (top_init i)) (alive_blk j a) == / inject_Z (pw j) * b2q (okb j a && inb j a i))%Q.
Proof.
  intros Hi. unfold alive_blk.
  rewrite (dist_partition _ (fun st => p_s st && (p_j st =? j)%nat && (p_minus st =? a)) (fun st => p_cur st) (zr a (2 ^ j))).
  - rewrite (qs_ext _ (fun x0 => (/ inject_Z (pw j) * pk j a i x0)%Q)).
    + rewrite qs_scale, pk_rowsum. unfold C08_Block.ee. rewrite Hi, andb_true_r. reflexivity.
    + intros x0 _. apply (alive_law j i a x0 Hi).
  - apply zr_NoDup.
  - eapply all_out_impl; [| apply (doublings_inv_blk j i Hi)]. intros st' Hinv HP.
    apply andb_true_iff in HP as [HP E3]. apply andb_true_iff in HP as [Eps E2].
    apply Nat.eqb_eq in E2. apply Z.eqb_eq in E3. destruct (Hinv Eps) as (Hp & _ & Hc).
    apply zr_In. rewrite E2, E3 in *. unfold pw in *. lia.
Qed.

(* Hoffman-Gelman's symmetry on the orbit: start from the counting measure on the slice; then, on the event that
   the loop is alive after j doublings with trajectory (j, a), the current state is uniformly distributed on the
   in-slice positions of that trajectory (each with the weight 2^-j of the trajectory) *)
Theorem alive_uniform j a x :
  (qs (fun i => if sl i then dist (doublings j (top_init i)) (alive_ind j a x) else 0) (zr a (2 ^ j))
   == / inject_Z (pw j) * b2q (okb j a && inb j a x && sl x))%Q.
Proof.
  rewrite (qs_ext _ (fun i => (/ inject_Z (pw j) * pk j a i x)%Q)).
  - rewrite qs_scale, pk_colsum. reflexivity.
  - intros i _. destruct (sl i) eqn:Hi.
    + apply (alive_law j i a x Hi).
    + rewrite (pk_support_i H U logu j a i x); [ring|]. unfold C08_Block.ee. rewrite Hi, andb_false_r. reflexivity.
Qed.


(* ================= the complete transition: accounting for the mass that has stopped ================= *)
Notation curi := (cur_ind Z Z.eqb).

(* one direction of one doubling, looking only at the current state (whether or not the loop stays alive) *)
Lemma dir_cur (st : top Z) (v : bool) (j : nat) (k : Z) :
  p_s st = true -> p_j st = j -> p_plus st = p_minus st + pw j - 1 -> p_n st = bn j (p_minus st) ->
  let a := p_minus st in
  let nb := if v then a + pw j else a - pw j in
  (dist (doubling_dir st v) (curi k)
   == curi k st - b2q (okb j nb) * acc_prob (bn j nb) (bn j a) * curi k st
      + b2q (okb j nb) * (b2q (inb j nb k && sl k) * (acc_prob (bn j nb) (bn j a) / inject_Z (bn j nb))))%Q.
Proof.
  intros Eps Ej Hp Hn. subst j. intros a nb.
  set (d := dir_skel Z zleap H U A logu st v).
  assert (Enb : nblk (dir_start Z st v) v (p_j st) = nb).
  { unfold nblk, dir_start, nb, a. destruct v; [rewrite Hp; lia | reflexivity]. }
  assert (Eok : k_ok Z d = okb (p_j st) nb).
  { unfold d, dir_skel. rewrite dbuild_ok_okb, Enb. reflexivity. }
  destruct (okb (p_j st) nb) eqn:Hok.
  - destruct (dbuild_block (p_j st) (dir_start Z st v) v) as (LL & N1 & M1 & P1).
    { unfold d, dir_skel in Eok. exact Eok. }
    rewrite Enb in N1.
    rewrite (doubling_dir_law0 Z zleap H L U A logu Z.eqb guard st v k).
    2:{ fold d. exact Eok. }
    2:{ apply fin_leaves. }
    fold d. assert (EN : k_n Z d = bn (p_j st) nb) by (unfold d; exact N1).
    rewrite EN, Hn. fold a.
    pose proof (selp_block (p_j st) (dir_start Z st v) v k (bn (p_j st) a) Eok) as SB. cbn zeta in SB.
    rewrite Enb in SB. rewrite SB. cbn [b2q]. ring.
  - rewrite (dist_ext_out (fun st' => p_cur st' = p_cur st) (doubling_dir st v) (curi k) (fun _ => curi k st)).
    + rewrite dist_const. cbn [b2q]. ring.
    + eapply all_out_impl; [| apply (doubling_dir_stop Z zleap H L U A logu guard st v)].
      * intros st' (E & _). exact E.
      * fold d. exact Eok.
    + intros st' E. unfold cur_ind. rewrite E. reflexivity.
Qed.

(* coefficients of one doubling at level j seen from position k: a trajectory (j, a) extended to the right (P)
   or to the left (M) *)
Definition cP (j : nat) (a : Z) : Q := (b2q (okb j (a + pw j)) * acc_prob (bn j (a + pw j)) (bn j a))%Q.
Definition dP (j : nat) (k a : Z) : Q :=
  (b2q (okb j (a + pw j)) * (b2q (inb j (a + pw j) k && sl k) * (acc_prob (bn j (a + pw j)) (bn j a) / inject_Z (bn j (a + pw j)))))%Q.
Definition cM (j : nat) (a : Z) : Q := (b2q (okb j (a - pw j)) * acc_prob (bn j (a - pw j)) (bn j a))%Q.
Definition dM (j : nat) (k a : Z) : Q :=
  (b2q (okb j (a - pw j)) * (b2q (inb j (a - pw j) k && sl k) * (acc_prob (bn j (a - pw j)) (bn j a) / inject_Z (bn j (a - pw j)))))%Q.
Definition gP (j : nat) (k a : Z) (st : top Z) : Q := (dP j k a * alive_blk j a st - cP j a * alive_ind j a k st)%Q.
Definition gM (j : nat) (k a : Z) (st : top Z) : Q := (dM j k a * alive_blk j a st - cM j a * alive_ind j a k st)%Q.
(* the trajectories (j, a) whose extension to the right / left can touch position k *)
Definition rP (j : nat) (k : Z) : list Z := zr (k - 2 * pw j + 1) (2 * 2 ^ j).
Definition rM (j : nat) (k : Z) : list Z := zr (k - pw j + 1) (2 * 2 ^ j).

Lemma alive_other (st : top Z) j a x : p_minus st <> a -> alive_blk j a st = 0%Q /\ alive_ind j a x st = 0%Q.
Proof.
  intros Hne. unfold alive_blk, alive_ind. replace (p_minus st =? a) with false by (symmetry; apply Z.eqb_neq; exact Hne).
  rewrite !andb_false_r. cbn. split; reflexivity.
Qed.

(* the last doubling, looking at the current state only *)
Lemma cur_step (st : top Z) (j : nat) (k : Z) :
  inv_blk st -> (p_s st = true -> p_j st = j) ->
  (dist (doublings 1 st) (curi k)
   == curi k st + (1 # 2) * (qs (fun a => gP j k a st) (rP j k) + qs (fun a => gM j k a st) (rM j k)))%Q.
Proof.
  intros Hinv Hj. cbn [C08_NUTS.doublings]. destruct (p_s st) eqn:Eps; cbn [negb].
  - specialize (Hj eq_refl). destruct (Hinv Eps) as (Hp & Hn & Hc). rewrite Hj in Hp, Hn.
    rewrite dist_bind. rewrite (dist_ext _ _ (curi k)) by (intros; reflexivity).
    unfold C08_NUTS.doubling. cbn [dist].
    rewrite (dir_cur st true j k Eps Hj Hp Hn), (dir_cur st false j k Eps Hj Hp Hn). cbn zeta.
    set (a0 := p_minus st) in *.
    assert (Ab : alive_blk j a0 st = 1%Q).
    { unfold alive_blk, a0. rewrite Eps, Hj, Nat.eqb_refl, Z.eqb_refl. reflexivity. }
    assert (Ai : alive_ind j a0 k st = curi k st).
    { unfold alive_ind, cur_ind, a0. rewrite Eps, Hj, Nat.eqb_refl, Z.eqb_refl. cbn [andb]. destruct (p_cur st =? k); reflexivity. }
    pose proof (pw_pos j) as Hpw.
    assert (SP : (qs (fun a => gP j k a st) (rP j k) == dP j k a0 - cP j a0 * curi k st)%Q).
    { unfold rP. rewrite (qs_single _ _ a0 (zr_NoDup _ _)).
      - destruct (in_dec Z.eq_dec a0 _) as [Hin | Hout].
        + unfold gP. rewrite Ab, Ai. ring.
        + rewrite zr_In in Hout.
          assert (E1 : inb j (a0 + pw j) k = false).
          { unfold inb. destruct (a0 + pw j <=? k) eqn:E; [|reflexivity]. apply Z.leb_le in E. cbn [andb].
            apply Z.ltb_ge. unfold pw in *. lia. }
          assert (E2 : curi k st = 0%Q).
          { unfold cur_ind. destruct (p_cur st =? k) eqn:E; [|reflexivity]. apply Z.eqb_eq in E. exfalso. apply Hout. unfold pw in *. lia. }
          unfold dP. rewrite E1, E2. cbn [andb b2q]. ring.
      - intros a _ Hne. unfold gP. destruct (alive_other st j a k) as [Z1 Z2]; [unfold a0 in Hne; congruence|]. rewrite Z1, Z2. ring. }
    assert (SM : (qs (fun a => gM j k a st) (rM j k) == dM j k a0 - cM j a0 * curi k st)%Q).
    { unfold rM. rewrite (qs_single _ _ a0 (zr_NoDup _ _)).
      - destruct (in_dec Z.eq_dec a0 _) as [Hin | Hout].
        + unfold gM. rewrite Ab, Ai. ring.
        + rewrite zr_In in Hout.
          assert (E1 : inb j (a0 - pw j) k = false).
          { unfold inb. destruct (a0 - pw j <=? k) eqn:E; [|reflexivity]. apply Z.leb_le in E. cbn [andb].
            apply Z.ltb_ge. unfold pw in *. lia. }
          assert (E2 : curi k st = 0%Q).
          { unfold cur_ind. destruct (p_cur st =? k) eqn:E; [|reflexivity]. apply Z.eqb_eq in E. exfalso. apply Hout. unfold pw in *. lia. }
          unfold dM. rewrite E1, E2. cbn [andb b2q]. ring.
      - intros a _ Hne. unfold gM. destruct (alive_other st j a k) as [Z1 Z2]; [unfold a0 in Hne; congruence|]. rewrite Z1, Z2. ring. }
    rewrite SP, SM. unfold dP, cP, dM, cM. fold a0. ring.
  - cbn [dist]. rewrite (qs_zero (fun a => gP j k a st)), (qs_zero (fun a => gM j k a st)); [ring | |].
    + intros a _. unfold gM, alive_blk, alive_ind. rewrite Eps. cbn [andb b2q]. ring.
    + intros a _. unfold gP, alive_blk, alive_ind. rewrite Eps. cbn [andb b2q]. ring.
Qed.


Lemma pw_mono j J : (j < J)%nat -> 2 * pw j <= pw J.
Proof.
  intros Hlt. rewrite <- pw_S. unfold pw. apply inj_le. apply Nat.pow_le_mono_r; lia.
Qed.

Lemma bn_pos j a k : inb j a k && sl k = true -> 1 <= bn j a.
Proof.
  intros E. apply andb_true_iff in E as [Ein Es]. unfold inb in Ein. apply andb_true_iff in Ein as [E1 E2].
  apply Z.leb_le in E1. apply Z.ltb_lt in E2. unfold C08_Block.bn, cnt_slice.
  assert (Hin : In k (filter (in_slice Z H logu) (zr a (2 ^ j)))).
  { apply filter_In. split; [apply zr_In; unfold pw in E2; lia | exact Es]. }
  destruct (filter (in_slice Z H logu) (zr a (2 ^ j))); [destruct Hin | cbn; lia].
Qed.

(* expectation from start i, weighted by "i is in the slice" *)
Definition ex (j : nat) (i : Z) (f : top Z -> Q) : Q := (b2q (sl i) * dist (doublings j (top_init i)) f)%Q.

(* sums over the starts in a window that contains the block *)
Lemma sum_alive_ind j a x lo n : lo <= a -> a + pw j <= lo + Z.of_nat n ->
  (qs (fun i => ex j i (alive_ind j a x)) (zr lo n) == / inject_Z (pw j) * b2q (okb j a && inb j a x && sl x))%Q.
Proof.
  intros H1 H2. rewrite (qs_window _ lo n a (2 ^ j) H1); [| exact H2 |].
  - rewrite <- (alive_uniform j a x). apply qs_ext. intros i _. unfold ex. destruct (sl i); cbn [b2q]; ring.
  - intros i Hi. unfold ex. destruct (sl i) eqn:Es; cbn [b2q]; [|ring].
    rewrite (alive_law j i a x Es), (pk_support_i H U logu j a i x); [ring|].
    unfold C08_Block.ee, inb. fold (pw j) in Hi.
    assert (E : (a <=? i) && (i <? a + pw j) = false).
    { destruct Hi as [Hi | Hi]; [replace (a <=? i) with false by (symmetry; apply Z.leb_gt; lia); reflexivity
                                | replace (i <? a + pw j) with false by (symmetry; apply Z.ltb_ge; lia); apply andb_false_r]. }
    rewrite E, andb_false_r. reflexivity.
Qed.

Lemma sum_alive_blk j a lo n : lo <= a -> a + pw j <= lo + Z.of_nat n ->
  (qs (fun i => ex j i (alive_blk j a)) (zr lo n) == / inject_Z (pw j) * (b2q (okb j a) * inject_Z (bn j a)))%Q.
Proof.
  intros H1 H2.
  rewrite (qs_ext _ (fun i => (/ inject_Z (pw j) * b2q (okb j a) * b2q (inb j a i && sl i))%Q)).
  - rewrite qs_scale. rewrite (qs_window _ lo n a (2 ^ j) H1); [| exact H2 |].
    + rewrite bn_count. ring.
    + intros i Hi. fold (pw j) in Hi. unfold inb.
      assert (E : (a <=? i) && (i <? a + pw j) = false).
      { destruct Hi as [Hi | Hi]; [replace (a <=? i) with false by (symmetry; apply Z.leb_gt; lia); reflexivity
                                  | replace (i <? a + pw j) with false by (symmetry; apply Z.ltb_ge; lia); apply andb_false_r]. }
      rewrite E. reflexivity.
  - intros i _. unfold ex. destruct (sl i) eqn:Es; cbn [b2q].
    + rewrite (alive_position_law j i a Es). destruct (okb j a), (inb j a i); cbn [andb b2q]; ring.
    + rewrite andb_false_r. cbn [b2q]. ring.
Qed.

(* the two directions that can join blocks (j, a) and (j, a + 2^j) cancel: this is where
   n_L min(1, n_R/n_L)/n_R + 1 - min(1, n_L/n_R) = 1 enters *)
Lemma pair_zero j k a :
  (dP j k a * (b2q (okb j a) * inject_Z (bn j a)) - cP j a * b2q (okb j a && inb j a k && sl k)
   + (dM j k (a + pw j) * (b2q (okb j (a + pw j)) * inject_Z (bn j (a + pw j)))
      - cM j (a + pw j) * b2q (okb j (a + pw j) && inb j (a + pw j) k && sl k)) == 0)%Q.
Proof.
  unfold dP, cP, dM, cM. replace (a + pw j - pw j) with a by lia.
  set (b := a + pw j). set (nL := bn j a). set (nR := bn j b).
  destruct (okb j a), (okb j b); cbn [andb b2q]; try ring.
  destruct (inb j a k && sl k) eqn:EL; destruct (inb j b k && sl k) eqn:ER; cbn [b2q].
  - pose proof (acc_balance nL nR (bn_nonneg H logu j a) (bn_pos j b k ER)) as B1.
    pose proof (acc_balance nR nL (bn_nonneg H logu j b) (bn_pos j a k EL)) as B2.
    unfold Qdiv in *. 
    transitivity ((inject_Z nL * (acc_prob nR nL * / inject_Z nR) + (1 - acc_prob nL nR))
                  + (inject_Z nR * (acc_prob nL nR * / inject_Z nL) + (1 - acc_prob nR nL)) - 2)%Q; [ring|].
    rewrite B1, B2. ring.
  - pose proof (acc_balance nR nL (bn_nonneg H logu j b) (bn_pos j a k EL)) as B2. unfold Qdiv in *.
    transitivity ((inject_Z nR * (acc_prob nL nR * / inject_Z nL) + (1 - acc_prob nR nL)) - 1)%Q; [ring|].
    rewrite B2. ring.
  - pose proof (acc_balance nL nR (bn_nonneg H logu j a) (bn_pos j b k ER)) as B1. unfold Qdiv in *.
    transitivity ((inject_Z nL * (acc_prob nR nL * / inject_Z nR) + (1 - acc_prob nL nR)) - 1)%Q; [ring|].
    rewrite B1. ring.
  - ring.
Qed.

(* one more doubling, from one start *)
Lemma start_step j i k : sl i = true ->
  (dist (doublings (S j) (top_init i)) (curi k)
   == dist (doublings j (top_init i)) (curi k)
      + (1 # 2) * (qs (fun a => dP j k a * dist (doublings j (top_init i)) (alive_blk j a)
                                - cP j a * dist (doublings j (top_init i)) (alive_ind j a k)) (rP j k)
                   + qs (fun a => dM j k a * dist (doublings j (top_init i)) (alive_blk j a)
                                  - cM j a * dist (doublings j (top_init i)) (alive_ind j a k)) (rM j k)))%Q.
Proof.
  intros Hi. rewrite doublings_snoc.
  rewrite (dist_ext_out (fun st' => inv_blk st' /\ (p_s st' = true -> p_j st' = j))
             (doublings j (top_init i)) _
             (fun st => (curi k st + (1 # 2) * (qs (fun a => gP j k a st) (rP j k) + qs (fun a => gM j k a st) (rM j k)))%Q)).
  - rewrite dist_plus, dist_scale, dist_plus, !dist_qs.
    rewrite (qs_ext (fun a => dist (doublings j (top_init i)) (gP j k a))
               (fun a => (dP j k a * dist (doublings j (top_init i)) (alive_blk j a) - cP j a * dist (doublings j (top_init i)) (alive_ind j a k))%Q) (rP j k)).
    2:{ intros a _. unfold gP.
        rewrite (dist_ext _ _ (fun st => (dP j k a * alive_blk j a st + (- cP j a) * alive_ind j a k st)%Q)) by (intros; ring).
        rewrite dist_lin. ring. }
    rewrite (qs_ext (fun a => dist (doublings j (top_init i)) (gM j k a))
               (fun a => (dM j k a * dist (doublings j (top_init i)) (alive_blk j a) - cM j a * dist (doublings j (top_init i)) (alive_ind j a k))%Q) (rM j k)).
    2:{ intros a _. unfold gM.
        rewrite (dist_ext _ _ (fun st => (dM j k a * alive_blk j a st + (- cM j a) * alive_ind j a k st)%Q)) by (intros; ring).
        rewrite dist_lin. ring. }
    reflexivity.
  - apply all_out_and; [apply doublings_inv_blk; exact Hi|].
    eapply all_out_impl; [| apply (doublings_pj j (top_init i))]. cbn [top_init p_j]. intros st' [_ B2] Hs. rewrite (B2 Hs). lia.
  - intros st' (Hinv & Hj). apply (cur_step st' j k Hinv Hj).
Qed.

(* the counting measure on the slice is preserved by every further doubling *)
Definition mass (j : nat) (k : Z) (W : list Z) : Q := qs (fun i => ex j i (curi k)) W.

Lemma mass_step j J k : (j < J)%nat ->
  (mass (S j) k (zr (k - pw J) (2 * 2 ^ J + 1)) == mass j k (zr (k - pw J) (2 * 2 ^ J + 1)))%Q.
Proof.
  intros Hlt. set (W := zr (k - pw J) (2 * 2 ^ J + 1)). unfold mass.
  pose proof (pw_mono j J Hlt) as Hm. pose proof (pw_pos j) as Hp.
  assert (HW : Z.of_nat (2 * 2 ^ J + 1) = 2 * pw J + 1) by (unfold pw; lia).
  rewrite (qs_ext (fun i => ex (S j) i (curi k))
             (fun i => (ex j i (curi k)
                        + (1 # 2) * (qs (fun a => dP j k a * ex j i (alive_blk j a) - cP j a * ex j i (alive_ind j a k)) (rP j k)
                                     + qs (fun a => dM j k a * ex j i (alive_blk j a) - cM j a * ex j i (alive_ind j a k)) (rM j k)))%Q) W).
  2:{ intros i _. unfold ex. destruct (sl i) eqn:Es; cbn [b2q].
      - rewrite (start_step j i k Es).
        rewrite (qs_ext (fun a => (dP j k a * (1 * dist (doublings j (top_init i)) (alive_blk j a)) - cP j a * (1 * dist (doublings j (top_init i)) (alive_ind j a k)))%Q)
                   (fun a => (dP j k a * dist (doublings j (top_init i)) (alive_blk j a) - cP j a * dist (doublings j (top_init i)) (alive_ind j a k))%Q))
          by (intros; ring).
        rewrite (qs_ext (fun a => (dM j k a * (1 * dist (doublings j (top_init i)) (alive_blk j a)) - cM j a * (1 * dist (doublings j (top_init i)) (alive_ind j a k)))%Q)
                   (fun a => (dM j k a * dist (doublings j (top_init i)) (alive_blk j a) - cM j a * dist (doublings j (top_init i)) (alive_ind j a k))%Q))
          by (intros; ring).
        ring.
      - rewrite (qs_zero (fun a => (dP j k a * (0 * _) - cP j a * (0 * _))%Q)) by (intros; ring).
        rewrite (qs_zero (fun a => (dM j k a * (0 * _) - cM j a * (0 * _))%Q)) by (intros; ring).
        ring. }
  rewrite qs_plus, qs_scale, qs_plus.
  (* exchange the sums over starts and over trajectories *)
  rewrite (qs_swap (fun i a => (dP j k a * ex j i (alive_blk j a) - cP j a * ex j i (alive_ind j a k))%Q) W (rP j k)).
  rewrite (qs_swap (fun i a => (dM j k a * ex j i (alive_blk j a) - cM j a * ex j i (alive_ind j a k))%Q) W (rM j k)).
  assert (InnerP : forall a, In a (rP j k) ->
            (qs (fun i => dP j k a * ex j i (alive_blk j a) - cP j a * ex j i (alive_ind j a k)) W
             == / inject_Z (pw j) * (dP j k a * (b2q (okb j a) * inject_Z (bn j a)) - cP j a * b2q (okb j a && inb j a k && sl k)))%Q).
  { intros a Ha. unfold rP in Ha. apply zr_In in Ha.
    rewrite (qs_ext _ (fun i => (dP j k a * ex j i (alive_blk j a) + (- cP j a) * ex j i (alive_ind j a k))%Q)) by (intros; ring).
    rewrite qs_plus, !qs_scale. unfold W.
    rewrite (sum_alive_blk j a), (sum_alive_ind j a k); try (unfold pw in *; lia). ring. }
  assert (InnerM : forall a, In a (rM j k) ->
            (qs (fun i => dM j k a * ex j i (alive_blk j a) - cM j a * ex j i (alive_ind j a k)) W
             == / inject_Z (pw j) * (dM j k a * (b2q (okb j a) * inject_Z (bn j a)) - cM j a * b2q (okb j a && inb j a k && sl k)))%Q).
  { intros a Ha. unfold rM in Ha. apply zr_In in Ha.
    rewrite (qs_ext _ (fun i => (dM j k a * ex j i (alive_blk j a) + (- cM j a) * ex j i (alive_ind j a k))%Q)) by (intros; ring).
    rewrite qs_plus, !qs_scale. unfold W.
    rewrite (sum_alive_blk j a), (sum_alive_ind j a k); try (unfold pw in *; lia). ring. }
  rewrite (qs_ext _ _ (rP j k) InnerP), (qs_ext _ _ (rM j k) InnerM).
  (* shift the left-extension sum onto the same index range and cancel pairwise *)
  unfold rM. replace (k - pw j + 1) with (k - 2 * pw j + 1 + pw j) by lia. rewrite qs_shift. fold (rP j k).
  rewrite <- qs_plus. rewrite (qs_zero _ (rP j k)); [ring|].
  intros a _. rewrite <- Qmult_plus_distr_r.
  pose proof (pair_zero j k a) as PZ.
  rewrite (Qplus_comm _ _) in PZ.
  match goal with |- (_ * ?e == 0)%Q => assert (E : (e == 0)%Q) end.
  { rewrite <- PZ. ring. }
  rewrite E. ring.
Qed.

Theorem mass_const J k : forall j, (j <= J)%nat ->
  (mass j k (zr (k - pw J) (2 * 2 ^ J + 1)) == b2q (sl k))%Q.
Proof.
  induction j as [|j IH]; intros Hle.
  - unfold mass, ex. cbn [C08_NUTS.doublings dist].
    rewrite (qs_single _ _ k (zr_NoDup _ _)).
    + destruct (in_dec Z.eq_dec k _) as [_ | Hout].
      * unfold cur_ind. cbn [top_init p_cur]. rewrite Z.eqb_refl. ring.
      * exfalso. apply Hout. apply zr_In. pose proof (pw_pos J). unfold pw in *. lia.
    + intros x _ Hne. unfold cur_ind. cbn [top_init p_cur].
      replace (x =? k) with false by (symmetry; apply Z.eqb_neq; exact Hne). ring.
  - rewrite (mass_step j J k) by lia. apply IH. lia.
Qed.

(* ---------------- invariance on the orbit, every depth ---------------- *)
Theorem orbit_stationary (max_depth : nat) (k : Z) : sl k = true ->
  (qs (fun i => if sl i then dist (transition Z zleap H L U A logu guard max_depth i) (curi k) else 0)
      (zr (k - pw (S max_depth)) (2 * 2 ^ S max_depth + 1)) == 1)%Q.
Proof.
  intros Hk. pose proof (mass_const (S max_depth) k (S max_depth) (le_n _)) as M. rewrite Hk in M. cbn [b2q] in M.
  rewrite <- M. unfold mass. apply qs_ext. intros i _. unfold ex, C08_NUTS.transition. destruct (sl i); cbn [b2q]; ring.
Qed.

End Alive.

(* with a finite slice variable an in-slice position is never divergent *)
Lemma sl_nd_fin (H : Z -> ext) (u : Q) i : sl H (Fin u) i = true -> nd H (Fin u) i = true.
Proof.
  unfold sl, nd, in_slice, not_diverged, delta_max. destruct (H i) as [| | |q]; cbn; try congruence.
  intros Hle. apply Qle_bool_iff in Hle. apply negb_true_iff.
  destruct (Qle_bool (1000 + q) u) eqn:E; [|reflexivity]. apply Qle_bool_iff in E. lra.
Qed.
