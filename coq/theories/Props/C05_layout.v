(* C05 -- "one draw is returned as an array with the distribution's geometry and several draws as a sample collection with one
   column per draw", for ModifiedHalfNormal._sample as repaired by /repo commit c35fc0e (finding ModifiedHalfNormal._sample|dim>1,
   now `fixed`): for every dimension, every N >= 0, scalar and vector parameters and every stream of kernel results, the array
   has one row per component and one column per draw, entry (i, j) is the (i N + j)-th kernel result, and the kernel call that
   produced it received the parameters of component i (scalar parameters: the same triple for every component).
   The correspondence (cells mhn-layout/...) replaces _MHN_sample by a recorder and compares calls and array exactly. *)
From CV Require Import Base.Tac Base.Cmp Model.C05_Sample Model.C05_EpsLaw Proofs.C05_Layout.
From Coq Require Import QArith.

Theorem C05_mhn_layout : forall (vector : bool) (dim N : nat) (ps : list triple) (vals : list Q) (d : triple),
  (if vector then length ps = dim else ps <> []) -> length vals = (dim * N)%nat ->
  let comps := mhn_component_params vector dim ps in
  let out := mhn_layout N comps vals in
  length out = dim /\ (forall row, In row out -> length row = N) /\
  length (mhn_calls N comps) = (dim * N)%nat /\
  forall i j, (i < dim)%nat -> (j < N)%nat ->
    nth j (nth i out []) 0 = nth (i * N + j) vals 0 /\
    nth (i * N + j) (mhn_calls N comps) d = nth i comps d /\
    (vector = false -> nth i comps d = hd d ps).
Proof. exact mhn_layout_spec. Qed.
Print Assumptions C05_mhn_layout.

Theorem C05_mhn_layout_cell_sound : forall vector dim N ps vals calls obs,
  check_mhn_layout vector dim N ps vals calls obs = true ->
  qll_eqb obs (mhn_layout N (mhn_component_params vector dim ps) vals) = true.
Proof. exact check_mhn_layout_sound. Qed.
Print Assumptions C05_mhn_layout_cell_sound.

(* non-vacuity: dimension 2, N = 3, vector parameters *)
Example C05_mhn_layout_example :
  let ps := [(2, 1, 1); (3, 1, -1)]%Q in
  mhn_layout 3 (mhn_component_params true 2 ps) [1; 2; 3; 4; 5; 6]%Q = [[1; 2; 3]; [4; 5; 6]]%Q /\
  mhn_calls 3 (mhn_component_params true 2 ps) = [(2, 1, 1); (2, 1, 1); (2, 1, 1); (3, 1, -1); (3, 1, -1); (3, 1, -1)]%Q.
Proof. split; reflexivity. Qed.
