(* C10 -- dependence trees (Model/C10_Conj.v `dexp`): definedness, the real-valued denotation, and the classes of
   maps the probe theorems of Proofs/C10_Probe3.v quantify over.  Definitions only.

   The harness builds the Python callable from the SAME tree (gen_C10.py d_float); the classes below are written with
   the same constructors its helpers Pow / Mul / Inv / Add produce, so a generated case of a class IS an instance. *)
From CV Require Import Base.Tac Model.C10_Conj.
From Coq Require Import QArith Reals.

(* every division in the tree is by a non-zero number at s (Python raises ZeroDivisionError otherwise; the model's
   Qinv totalises 1/0 = 0 -- theorems that evaluate a tree state this as a hypothesis) *)
Fixpoint ddef (e : dexp) (s : Q) : Prop :=
  match e with
  | DVar | DConst _ => True
  | DAdd a b | DSub a b | DMul a b => ddef a s /\ ddef b s
  | DInv a => ddef a s /\ ~ (deval a s == 0)%Q
  end.

(* the same tree read over R *)
Fixpoint Rdeval (e : dexp) (s : R) : R :=
  match e with
  | DVar => s
  | DConst c => Q2R c
  | DAdd a b => Rdeval a s + Rdeval b s
  | DSub a b => Rdeval a s - Rdeval b s
  | DMul a b => Rdeval a s * Rdeval b s
  | DInv a => / Rdeval a s
  end%R.

(* s^p as the harness writes it: s * (s * (... * 1)) *)
Fixpoint dpown (p : nat) : dexp := match p with O => DConst 1 | S p' => DMul DVar (dpown p') end.

(* c * s^k for an integer exponent: c * s^p  resp.  c * (1 / s^p) *)
Definition dmono (c : Q) (k : Z) : dexp :=
  match k with
  | Zneg p => DMul (DConst c) (DInv (dpown (Pos.to_nat p)))
  | _ => DMul (DConst c) (dpown (Z.to_nat k))
  end.

(* a0 + a1 s + a2 s^2   and   a0 + a1 / s + a2 / s^2 *)
Definition dquad (a0 a1 a2 : Q) : dexp :=
  DAdd (DAdd (DConst a0) (DMul (DConst a1) DVar)) (DMul (DConst a2) (DMul DVar DVar)).
Definition drquad (a0 a1 a2 : Q) : dexp :=
  DAdd (DAdd (DConst a0) (DMul (DConst a1) (DInv DVar))) (DMul (DConst a2) (DMul (DInv DVar) (DInv DVar))).

(* (s - 1)(s - 10)(s - 100): vanishes exactly on the probe points *)
Definition vanish3 : dexp :=
  DMul (DMul (DSub DVar (DConst 1)) (DSub DVar (DConst 10))) (DSub DVar (DConst 100)).
(* e + h * (s-1)(s-10)(s-100) *)
Definition dperturb (e h : dexp) : dexp := DAdd e (DMul h vanish3).
