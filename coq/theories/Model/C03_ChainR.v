(* C03 -- likelihood through a forward model and a TRANSCENDENTAL elementwise domain geometry that supplies its own
   derivative (MappedGeometry(map = exp) / (map = sin) with gradient(direction, wrt) = direction * map'(wrt)); real-valued
   model, evaluated per case by `interval`.  Code path: Gaussian._gradient (callable-mean branch) -> Model.gradient:
       u    = par2fun(theta) = phi(theta)                    (elementwise)
       dev  = data - F(u),  F(u) = A (u.u) + B u             (A = 0: linear model)
       grad = domain_geometry.gradient( J_F(u)^T (prec @ dev), theta ) = phi'(theta) * (J_F(u)^T (prec @ dev))
   NO proofs in this file (Proofs/C03_ChainR.v: instance of the general chain rule of Proofs/C03_Chain.v). *)
From CV Require Import Base.Tac Base.LinAlg Model.C03_GradR.
From Coq Require Import Reals.
Open Scope R_scope.

Inductive tmap := TExp | TSin.
Definition tphi (m : tmap) (t : R) : R := match m with TExp => exp t | TSin => sin t end.
Definition tphi' (m : tmap) (t : R) : R := match m with TExp => exp t | TSin => cos t end.

Fixpoint rvmulM (x y : list R) : list R :=
  match x, y with a :: x', b :: y' => (a * b) :: rvmulM x' y' | _, _ => [] end.

Definition tfwd (A B : list (list R)) (u : list R) : list R := rvadd (rmatvec A (rvmulM u u)) (rmatvec B u).
Definition tjact (n : nat) (A B : list (list R)) (u y : list R) : list R :=         (* J_F(u)^T y *)
  rvadd (rvmulM (rvscale 2 u) (rmattvec n A y)) (rmattvec n B y).

Definition tlik_logk (m : tmap) (A B P : list (list R)) (data th : list R) : R :=
  let r := rvsub data (tfwd A B (map (tphi m) th)) in - (/ 2 * rdot r (rmatvec P r)).
Definition tlik_grad (m : tmap) (A B P : list (list R)) (data th : list R) : list R :=
  let n := length th in
  let u := map (tphi m) th in
  rvmulM (map (tphi' m) th) (tjact n A B u (rmatvec P (rvsub data (tfwd A B u)))).
