(* C14 -- HybridGibbs.step's reinitialise-and-restore of a block sampler keeps state and history. *)
From CV Require Import Base.Tac Base.Cmp Model.C14_Chain Model.C14_Block Proofs.C14_Chain.
From Coq Require String.
Import String.StringSyntax.
Local Open Scope string_scope.

Section BlockVisitProofs.
Variable V : Type.
Variable none : V.
Variable initS : store V -> store V.
Variable cache : store V -> string -> V.
Notation visit := (visit V none initS cache).
Notation visit_nuts := (visit_nuts V none initS).
Notation reinitialize := (reinitialize V none initS).

(* every saved key that is not a cached target evaluation, and every history key, survives the visit *)
Lemma visit_keeps K H C s a : In a (K ++ H) -> ~ In a C -> visit K H C s a = s a.
Proof.
  intros Ha Hc. unfold C14_Block.visit. apply mem_false in Hc. rewrite Hc.
  unfold load_store. apply mem_In in Ha. rewrite Ha. reflexivity.
Qed.

(* everything else is what a fresh initialisation on the new conditional binds *)
Lemma visit_fresh K H C s a : ~ In a (K ++ H) -> ~ In a C -> visit K H C s a = reinitialize K H s a.
Proof.
  intros Ha Hc. unfold C14_Block.visit. apply mem_false in Hc. rewrite Hc.
  unfold load_store. apply mem_false in Ha. rewrite Ha. reflexivity.
Qed.

(* the cached evaluations are recomputed on the restored store: if the evaluation reads only the target and the current
   point (a saved key), it is the evaluation of the NEW conditional at the OLD point, whatever else the sampler holds *)
Lemma visit_cached K H C s a :
  (forall s1 s2 b, s1 "_target" = s2 "_target" -> s1 "current_point" = s2 "current_point" -> cache s1 b = cache s2 b) ->
  In "current_point" (K ++ H) -> ~ In "_target" (K ++ H) ->
  (forall s0, initS s0 "_target" = s0 "_target") ->
  In a C -> visit K H C s a = cache s a.
Proof.
  intros Hc Hcp Ht Hi Ha. unfold C14_Block.visit. apply mem_In in Ha. rewrite Ha. apply Hc.
  - unfold load_store. apply mem_false in Ht. rewrite Ht. unfold C14_Block.reinitialize. rewrite Hi.
    unfold clear_store. rewrite Ht. reflexivity.
  - unfold load_store. apply mem_In in Hcp. rewrite Hcp. reflexivity.
Qed.

(* NUTS block: whatever the sampler held under its state and history keys -- except the current point -- is lost in
   every sweep (documented: "samplers like NUTS will lose their internal state between Gibbs steps") *)
Lemma visit_nuts_forgets K H s1 s2 :
  (forall t1 t2, (forall b, t1 b = t2 b) -> forall b, initS t1 b = initS t2 b) ->
  (forall b, ~ In b (K ++ H) -> b <> "initial_point" -> s1 b = s2 b) ->
  s1 "current_point" = s2 "current_point" ->
  forall a, visit_nuts K H s1 a = visit_nuts K H s2 a.
Proof.
  intros Hext Hout Hcp a. unfold C14_Block.visit_nuts, C14_Block.reinitialize. apply Hext. intros b.
  unfold clear_store. destruct (mem b (K ++ H)) eqn:E; [reflexivity|].
  unfold upd. destruct (String.eqb b "initial_point") eqn:E2; [exact Hcp|].
  apply Hout; [apply mem_false; exact E|]. intros ->. rewrite String.eqb_refl in E2. discriminate.
Qed.
End BlockVisitProofs.

(* ------------------------------------------------------------------------------------------ *)
Section LegacyGibbsWarmProofs.
Variables Cfg St Rnd Acc : Type.
Variable step : Cfg -> St -> Rnd -> St * Acc.
Notation states := (states Cfg St Rnd Acc step).
Notation g_call := (g_call Cfg St Rnd Acc step).
Notation g_start := (g_start St).

(* a later call without warm-up, on a sampler that keeps its record: the record is untouched, and the stored chain grows by
   the transitions from the last state reached so far (the last stored state, or -- when nothing is stored yet -- the last
   warm-up state, or the initial point) *)
Lemma g_call_later c init w stored rs :
  g_call true c init (mkG (Some w) stored) [] rs =
  Some (mkG (Some w) (stored ++ states c (last (w ++ stored) init) rs)).
Proof. reflexivity. Qed.

(* two later calls are one, zero-length calls included, whatever has been stored so far *)
Lemma g_call_twice c init w stored rs1 rs2 :
  match g_call true c init (mkG (Some w) stored) [] rs1 with
  | Some g1 => g_call true c init g1 [] rs2
  | None => None
  end = g_call true c init (mkG (Some w) stored) [] (rs1 ++ rs2).
Proof.
  rewrite !g_call_later. cbn [C14_Block.g_call g_warm g_stored C14_Block.g_start C14_Block.g_warm_list C14_Chain.states last].
  f_equal. f_equal. rewrite <- app_assoc. f_equal. rewrite (states_app Cfg St Rnd Acc step c rs1). f_equal. f_equal.
  rewrite app_assoc. rewrite (last_app_default (w ++ stored)). reflexivity.
Qed.

(* every sequence of later calls -- any number, any lengths, zero-length calls anywhere -- is one call *)
Lemma g_later_one c init w rss : forall stored,
  g_later Cfg St Rnd Acc step c init (mkG (Some w) stored) rss =
  Some (mkG (Some w) (stored ++ states c (last (w ++ stored) init) (concat rss))).
Proof.
  induction rss as [|rs rest IH]; intros stored.
  - cbn. rewrite app_nil_r. reflexivity.
  - cbn [C14_Block.g_later concat]. rewrite g_call_later. rewrite IH.
    f_equal. f_equal. rewrite <- app_assoc. f_equal.
    rewrite (states_app Cfg St Rnd Acc step c rs). f_equal. f_equal.
    rewrite app_assoc. rewrite (last_app_default (w ++ stored)). reflexivity.
Qed.

(* the first call records its warm-up sweeps *)
Lemma g_call_first c init rs_warm rs :
  g_call true c init (mkG None []) rs_warm rs =
  Some (mkG (Some (states c init rs_warm)) (states c (last (states c init rs_warm) init) rs)).
Proof. reflexivity. Qed.
End LegacyGibbsWarmProofs.

(* the code that drops the record (keeps = false): warm-up of 2 sweeps, then sample(0), sample(0), sample(1).  The third
   call starts from the initial point 0 instead of the last warm-up state 2: with the transition s -> s + 1 it stores 1,
   one call sample(1, 2) stores 3 *)
Definition cnt_step (_ : unit) (s : nat) (_ : unit) : nat * unit := (S s, tt).
Lemma g_drop_witness :
  (match g_call unit nat unit unit cnt_step false tt 0%nat (mkG None []) [tt; tt] [] with
   | Some g1 => match g_call unit nat unit unit cnt_step false tt 0%nat g1 [] [] with
                | Some g2 => match g_call unit nat unit unit cnt_step false tt 0%nat g2 [] [tt] with
                             | Some g3 => (g_warm g1, g_warm g2, g_stored g3)
                             | None => (None, None, [])
                             end
                | None => (None, None, [])
                end
   | None => (None, None, [])
   end) = (Some [1; 2]%nat, Some [], [1]%nat) /\
  option_map g_stored (g_call unit nat unit unit cnt_step false tt 0%nat (mkG None []) [tt; tt] [tt]) = Some [3]%nat.
Proof. split; reflexivity. Qed.
