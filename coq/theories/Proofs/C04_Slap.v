(* C04 -- proofs, part 14: the documented SmoothedLaplace density  1/(2b) exp(- sqrt((x-mu)^2 + beta) / b)  is NOT normalised for
   beta > 0: it lies strictly below the Laplace density, so its mass over [mu - T, mu + T] stays below 1 - gap for a fixed gap > 0
   (the Laplace mass minus the difference of the two densities integrated over [mu - 1, mu + 1]). *)
From CV Require Import Base.Tac Model.C04_Dens Proofs.C04_Dens Proofs.C04_Norm.
From Coq Require Import Reals Lra.
From Coquelicot Require Import Coquelicot.
Local Open Scope R_scope.

Definition slap_dens (mu b beta x : R) : R := slap_pdf1 beta (mu, b, x).

Lemma slap_dens_lt mu b beta x : 0 < b -> 0 < beta -> slap_dens mu b beta x < laplace_dens mu b x.
Proof.
  intros Hb Hbe. unfold slap_dens, laplace_dens, slap_pdf1, laplace_pdf1.
  apply Rmult_lt_compat_l; [apply Rdiv_lt_0_compat; lra|]. apply exp_increasing.
  assert (H : Rabs (x - mu) < sqrt ((x - mu) ^ 2 + beta)).
  { rewrite <- sqrt_Rsqr_abs. apply sqrt_lt_1_alt. rewrite Rsqr_pow2. pose proof (pow2_ge_0 (x - mu)). lra. }
  unfold Rdiv. assert (0 < / b) by (apply Rinv_0_lt_compat; exact Hb). nra.
Qed.

Lemma slap_dens_cont mu b beta x : 0 < b -> 0 < beta -> continuous (slap_dens mu b beta) x.
Proof.
  intros Hb Hbe. apply (ex_derive_continuous (slap_dens mu b beta)). unfold slap_dens, slap_pdf1.
  pose proof (pow2_ge_0 (x - mu)). auto_derive. repeat split; try lra; nra.
Qed.

Lemma laplace_dens_cont mu b x : 0 < b -> continuous (laplace_dens mu b) x.
Proof.
  intros Hb. unfold laplace_dens, laplace_pdf1.
  apply (continuous_comp (fun x => Rabs (x - mu)) (fun y => 1 / (2 * b) * exp (- y / b))).
  - apply continuous_Rabs_comp. apply (ex_derive_continuous (fun x => x - mu)). auto_derive. exact I.
  - apply (ex_derive_continuous (fun y => 1 / (2 * b) * exp (- y / b))). auto_derive. lra.
Qed.

Lemma slap_ex_RInt mu b beta u v : 0 < b -> 0 < beta -> ex_RInt (slap_dens mu b beta) u v.
Proof. intros Hb Hbe. apply (@ex_RInt_continuous R_CompleteNormedModule). intros t _. apply slap_dens_cont; assumption. Qed.

Lemma lap_ex_RInt mu b u v : 0 < b -> ex_RInt (laplace_dens mu b) u v.
Proof. intros Hb. apply (@ex_RInt_continuous R_CompleteNormedModule). intros t _. apply laplace_dens_cont; assumption. Qed.

Definition slap_gap (mu b beta : R) : R := RInt (laplace_dens mu b) (mu - 1) (mu + 1) - RInt (slap_dens mu b beta) (mu - 1) (mu + 1).

Lemma slap_gap_pos mu b beta : 0 < b -> 0 < beta -> 0 < slap_gap mu b beta.
Proof.
  intros Hb Hbe. unfold slap_gap. apply Rlt_Rminus.
  apply RInt_lt; [lra | | |].
  - intros x _. apply laplace_dens_cont. exact Hb.
  - intros x _. apply slap_dens_cont; assumption.
  - intros x _. apply slap_dens_lt; assumption.
Qed.

Lemma RInt_split3 (f : R -> R) a b c d : (forall u v, ex_RInt f u v) ->
  RInt f a d = RInt f a b + RInt f b c + RInt f c d.
Proof.
  intros Hex.
  rewrite <- (RInt_Chasles f a c d) by apply Hex. rewrite <- (RInt_Chasles f a b c) by apply Hex. reflexivity.
Qed.

(* the mass of every interval [mu - T, mu + T], T >= 1, is at most 1 - gap with gap > 0 independent of T *)
Theorem slap_subnormalised mu b beta : 0 < b -> 0 < beta ->
  0 < slap_gap mu b beta /\ forall T, 1 <= T -> RInt (slap_dens mu b beta) (mu - T) (mu + T) <= 1 - exp (- T / b) - slap_gap mu b beta.
Proof.
  intros Hb Hbe. split; [apply slap_gap_pos; assumption|]. intros T HT.
  rewrite <- (is_RInt_unique _ _ _ _ (laplace_mass mu b T Hb ltac:(lra))).
  rewrite (RInt_split3 (slap_dens mu b beta) (mu - T) (mu - 1) (mu + 1) (mu + T)) by (intros u v; apply slap_ex_RInt; assumption).
  rewrite (RInt_split3 (laplace_dens mu b) (mu - T) (mu - 1) (mu + 1) (mu + T)) by (intros u v; apply lap_ex_RInt; assumption).
  unfold slap_gap.
  assert (H1 : RInt (slap_dens mu b beta) (mu - T) (mu - 1) <= RInt (laplace_dens mu b) (mu - T) (mu - 1)).
  { apply RInt_le; [lra | apply slap_ex_RInt; assumption | apply lap_ex_RInt; assumption |].
    intros x _. left. apply slap_dens_lt; assumption. }
  assert (H2 : RInt (slap_dens mu b beta) (mu + 1) (mu + T) <= RInt (laplace_dens mu b) (mu + 1) (mu + T)).
  { apply RInt_le; [lra | apply slap_ex_RInt; assumption | apply lap_ex_RInt; assumption |].
    intros x _. left. apply slap_dens_lt; assumption. }
  lra.
Qed.

(* hence it does not integrate to one *)
Theorem slap_not_normalised mu b beta : 0 < b -> 0 < beta ->
  ~ is_lim (fun T => RInt (slap_dens mu b beta) (mu - T) (mu + T)) p_infty 1.
Proof.
  intros Hb Hbe Hlim. destruct (slap_subnormalised mu b beta Hb Hbe) as [Hg Hle].
  assert (H : Rbar_le 1 (1 - slap_gap mu b beta)).
  { apply (is_lim_le_loc (fun T => RInt (slap_dens mu b beta) (mu - T) (mu + T)) (fun _ => 1 - slap_gap mu b beta) p_infty 1 (1 - slap_gap mu b beta)).
    - exists 1. intros T HT. pose proof (Hle T ltac:(lra)). pose proof (exp_pos (- T / b)). lra.
    - exact Hlim.
    - apply is_lim_const. }
  cbn in H. lra.
Qed.
