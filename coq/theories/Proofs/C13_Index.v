(* C13 -- multi-index arithmetic of reshape/ravel in C and Fortran order (any number of axes), the
   Fortran flattening and its inverse, and the Image2D maps built on them. *)
From CV Require Import Base.Tac Base.Cmp Model.C13_Geom Proofs.C13_Lists.

Definition inb (idx s : list nat) : Prop := Forall2 (fun i k => (i < k)%nat) idx s.

Lemma prodn_cons k r : prodn (k :: r) = (k * prodn r)%nat.
Proof. reflexivity. Qed.

Lemma prodn_app s t : prodn (s ++ t) = (prodn s * prodn t)%nat.
Proof. induction s as [|k s IH]; [cbn [app]; change (prodn []) with 1%nat; lia|]. cbn [app]. rewrite !prodn_cons, IH. lia. Qed.

Lemma unravelF_bound s : forall n, (n < prodn s)%nat -> inb (unravelF s n) s.
Proof.
  induction s as [|k r IH]; intros n H; [constructor|].
  rewrite prodn_cons in H. cbn [unravelF]. assert (k <> 0)%nat by (intros ->; lia).
  constructor; [apply Nat.mod_upper_bound; assumption|]. apply IH. apply Nat.div_lt_upper_bound; [assumption | lia].
Qed.

Lemma unravelC_bound s : forall n, (n < prodn s)%nat -> inb (unravelC s n) s.
Proof.
  induction s as [|k r IH]; intros n H; [constructor|].
  rewrite prodn_cons in H. cbn [unravelC]. assert (prodn r <> 0)%nat by (intros E; rewrite E in H; lia).
  constructor; [apply Nat.div_lt_upper_bound; [assumption | lia]|]. apply IH. apply Nat.mod_upper_bound; assumption.
Qed.

Lemma ravelF_unravelF s : forall n, (n < prodn s)%nat -> ravelF s (unravelF s n) = n.
Proof.
  induction s as [|k r IH]; intros n H; [cbn in *; lia|].
  rewrite prodn_cons in H. cbn [unravelF ravelF]. assert (k <> 0)%nat by (intros ->; lia).
  rewrite IH by (apply Nat.div_lt_upper_bound; [assumption | lia]).
  pose proof (Nat.div_mod n k). lia.
Qed.

Lemma ravelC_unravelC s : forall n, (n < prodn s)%nat -> ravelC s (unravelC s n) = n.
Proof.
  induction s as [|k r IH]; intros n H; [cbn in *; lia|].
  rewrite prodn_cons in H. cbn [unravelC ravelC]. assert (prodn r <> 0)%nat by (intros E; rewrite E in H; lia).
  rewrite IH by (apply Nat.mod_upper_bound; assumption).
  pose proof (Nat.div_mod n (prodn r)). lia.
Qed.

Lemma ravelF_lt s : forall idx, inb idx s -> (ravelF s idx < prodn s)%nat.
Proof.
  induction s as [|k r IH]; intros idx H; inversion H; subst; [cbn; lia|].
  cbn [ravelF]. rewrite prodn_cons. match goal with Hr : Forall2 _ _ r |- _ => specialize (IH _ Hr) end. nia.
Qed.

Lemma ravelC_lt s : forall idx, inb idx s -> (ravelC s idx < prodn s)%nat.
Proof.
  induction s as [|k r IH]; intros idx H; inversion H; subst; [cbn; lia|].
  cbn [ravelC]. rewrite prodn_cons. match goal with Hr : Forall2 _ _ r |- _ => specialize (IH _ Hr) end. nia.
Qed.

Lemma unravelF_ravelF s : forall idx, inb idx s -> unravelF s (ravelF s idx) = idx.
Proof.
  induction s as [|k r IH]; intros idx H; inversion H as [|i k' ir r' Hi Hr]; subst; [reflexivity|].
  cbn [ravelF unravelF]. assert (k <> 0)%nat by lia. f_equal.
  - rewrite Nat.mul_comm, Nat.mod_add by assumption. apply Nat.mod_small. exact Hi.
  - rewrite Nat.mul_comm, Nat.div_add by assumption. rewrite Nat.div_small by exact Hi. cbn [Nat.add]. apply IH. exact Hr.
Qed.

Lemma unravelC_ravelC s : forall idx, inb idx s -> unravelC s (ravelC s idx) = idx.
Proof.
  induction s as [|k r IH]; intros idx H; inversion H as [|i k' ir r' Hi Hr]; subst; [reflexivity|].
  cbn [ravelC unravelC]. pose proof (ravelC_lt r ir Hr) as Hlt. assert (prodn r <> 0)%nat by lia. f_equal.
  - rewrite Nat.add_comm, Nat.div_add by assumption. rewrite Nat.div_small by exact Hlt. reflexivity.
  - rewrite Nat.add_comm, Nat.mod_add by assumption. rewrite Nat.mod_small by exact Hlt. apply IH. exact Hr.
Qed.

Section ToF.
Context {A : Type} (d : A).

Lemma to_F_length s (x : list A) : length (to_F d s x) = prodn s.
Proof. apply gather_length. Qed.
Lemma from_F_length s (x : list A) : length (from_F d s x) = prodn s.
Proof. apply gather_length. Qed.

Lemma nth_to_F s (x : list A) f : (f < prodn s)%nat -> nth f (to_F d s x) d = nth (ravelC s (unravelF s f)) x d.
Proof. intros H. unfold to_F. rewrite nth_gather by exact H. reflexivity. Qed.
Lemma nth_from_F s (x : list A) t : (t < prodn s)%nat -> nth t (from_F d s x) d = nth (ravelF s (unravelC s t)) x d.
Proof. intros H. unfold from_F. rewrite nth_gather by exact H. reflexivity. Qed.

Theorem to_F_from_F s (x : list A) : length x = prodn s -> to_F d s (from_F d s x) = x.
Proof.
  intros Hx. apply nth_ext with (d := d) (d' := d); [rewrite to_F_length; symmetry; exact Hx|].
  intros f Hf. rewrite to_F_length in Hf. rewrite nth_to_F by exact Hf.
  pose proof (unravelF_bound s f Hf) as Hb.
  rewrite nth_from_F by (apply ravelC_lt; exact Hb).
  rewrite unravelC_ravelC by exact Hb. rewrite ravelF_unravelF by exact Hf. reflexivity.
Qed.

Theorem from_F_to_F s (x : list A) : length x = prodn s -> from_F d s (to_F d s x) = x.
Proof.
  intros Hx. apply nth_ext with (d := d) (d' := d); [rewrite from_F_length; symmetry; exact Hx|].
  intros t Ht. rewrite from_F_length in Ht. rewrite nth_from_F by exact Ht.
  pose proof (unravelC_bound s t Ht) as Hb.
  rewrite nth_to_F by (apply ravelF_lt; exact Hb).
  rewrite unravelF_ravelF by exact Hb. rewrite ravelC_unravelC by exact Ht. reflexivity.
Qed.

(* one axis: both flattenings coincide *)
Lemma to_F_1d m (x : list A) : length x = m -> to_F d [m] x = x.
Proof.
  intros Hx. apply nth_ext with (d := d) (d' := d); [rewrite to_F_length; cbn; lia|].
  intros f Hf. rewrite to_F_length in Hf. rewrite nth_to_F by exact Hf.
  assert (Hm : (f < m)%nat) by (cbn in Hf; lia).
  assert (E : ravelC [m] (unravelF [m] f) = f).
  { cbn [unravelF ravelC prodn fold_right]. rewrite Nat.mod_small by exact Hm. lia. }
  rewrite E. reflexivity.
Qed.

(* explicit index formulas for two and three axes *)
Lemma srcF_2 r c t : (t < r * c)%nat -> ravelF [r; c] (unravelC [r; c] t) = (t / c + r * (t mod c))%nat.
Proof.
  intros H. cbn [unravelC ravelF prodn fold_right].
  rewrite !Nat.mul_1_r, !Nat.div_1_r. lia.
Qed.

Lemma srcF_3 r c k t : ravelF [r; c; k] (unravelC [r; c; k] t)
  = (t / (c * k) + r * (t mod (c * k) / k + c * (t mod (c * k) mod k)))%nat.
Proof.
  cbn [unravelC ravelF prodn fold_right].
  rewrite !Nat.mul_1_r, !Nat.div_1_r. lia.
Qed.

Lemma from_F_trailing1 r c (x : list A) : from_F d [r; c; 1%nat] x = from_F d [r; c] x.
Proof.
  unfold from_F. replace (prodn [r; c; 1%nat]) with (prodn [r; c]) by (cbn; lia).
  unfold gather. apply map_ext_in. intros t Ht. apply in_seq in Ht.
  assert (E : ravelF [r; c; 1%nat] (unravelC [r; c; 1%nat] t) = ravelF [r; c] (unravelC [r; c] t)).
  { cbn [unravelC ravelF prodn fold_right].
    rewrite !Nat.mul_1_r, !Nat.div_1_r, !Nat.mod_1_r. lia. }
  rewrite E. reflexivity.
Qed.

(* ---------------- Image2D ---------------- *)
Lemma reshape_tail_vec r c o (a : arr A) : (0 < r * c)%nat -> shp a = [(r * c)%nat] ->
  reshape_tail d [r; c] o a = Some (mkArr [r; c; 1%nat]
     (match o with OC => dat a | OF => from_F d [r; c; 1%nat] (to_F d [(r * c)%nat] (dat a)) end)).
Proof.
  intros Hp Hs. unfold reshape_tail. rewrite Hs.
  replace (prodn [(r * c)%nat]) with (r * c)%nat by (cbn; lia).
  replace (prodn [r; c]) with (r * c)%nat by (cbn; lia).
  destruct (r * c =? 0)%nat eqn:E0; [apply Nat.eqb_eq in E0; lia|].
  rewrite Nat.mod_same by lia. cbn [Nat.eqb negb]. rewrite Nat.div_same by lia. reflexivity.
Qed.

Lemma reshape_tail_batch r c o k (a : arr A) : (0 < r * c)%nat -> shp a = [(r * c)%nat; k] ->
  reshape_tail d [r; c] o a = Some (mkArr [r; c; k]
     (match o with OC => dat a | OF => from_F d [r; c; k] (to_F d [(r * c)%nat; k] (dat a)) end)).
Proof.
  intros Hp Hs. unfold reshape_tail. rewrite Hs.
  replace (prodn [(r * c)%nat; k]) with (k * (r * c))%nat by (cbn; lia).
  replace (prodn [r; c]) with (r * c)%nat by (cbn; lia).
  destruct (r * c =? 0)%nat eqn:E0; [apply Nat.eqb_eq in E0; lia|].
  rewrite Nat.mod_mul by lia. cbn [Nat.eqb negb]. rewrite Nat.div_mul by lia. reflexivity.
Qed.

Theorem image_par2fun_vec r c o (a : arr A) : (0 < r * c)%nat -> shp a = [(r * c)%nat] -> length (dat a) = (r * c)%nat ->
  image_par2fun d r c o false a = Some (mkArr [r; c] (match o with OC => dat a | OF => from_F d [r; c] (dat a) end)).
Proof.
  intros Hp Hs Hl. unfold image_par2fun. rewrite reshape_tail_vec by assumption. cbn [shp dat].
  destruct o; [reflexivity|]. rewrite from_F_trailing1, to_F_1d by exact Hl. reflexivity.
Qed.

Theorem image_roundtrip_par r c o v (a : arr A) :
  (0 < r * c)%nat -> shp a = [(r * c)%nat] -> length (dat a) = (r * c)%nat ->
  obind (image_par2fun d r c o v a) (image_fun2par d o v) = Some a.
Proof.
  intros Hp Hs Hl. destruct v.
  - cbn. destruct a; reflexivity.
  - rewrite image_par2fun_vec by assumption. cbn [obind]. unfold image_fun2par. cbn [shp dat].
    replace (prodn [r; c]) with (r * c)%nat by (cbn; lia).
    destruct a as [s x]; cbn [shp dat] in *; subst s. f_equal. f_equal.
    destruct o; [reflexivity|]. apply to_F_from_F. rewrite Hl. cbn; lia.
Qed.

Theorem image_roundtrip_fun r c o (a : arr A) :
  (0 < r * c)%nat -> shp a = [r; c] -> length (dat a) = (r * c)%nat ->
  obind (image_fun2par d o false a) (image_par2fun d r c o false) = Some a.
Proof.
  intros Hp Hs Hl. unfold image_fun2par. cbn [obind]. rewrite Hs.
  replace (prodn [r; c]) with (r * c)%nat by (cbn; lia).
  rewrite image_par2fun_vec; cbn [shp dat]; try assumption; try reflexivity.
  - destruct a as [s x]; cbn [shp dat] in *; subst s. f_equal. f_equal.
    destruct o; [reflexivity|]. apply from_F_to_F. rewrite Hl. cbn; lia.
  - destruct o; [exact Hl|]. rewrite to_F_length. cbn; lia.
Qed.

Theorem image_par2fun_shape r c o (a b : arr A) :
  (0 < r * c)%nat -> shp a = [(r * c)%nat] -> length (dat a) = (r * c)%nat ->
  image_par2fun d r c o false a = Some b -> shp b = [r; c] /\ length (dat b) = (r * c)%nat.
Proof.
  intros Hp Hs Hl H. rewrite image_par2fun_vec in H by assumption. inversion H; subst. cbn [shp dat].
  split; [reflexivity|]. destruct o; [exact Hl|]. rewrite from_F_length. cbn; lia.
Qed.

(* documented placement: pixel (i,j) is parameter i*c+j in C order and i+r*j in Fortran order *)
Theorem image_par2fun_pixel r c o (a b : arr A) i j :
  (0 < r * c)%nat -> shp a = [(r * c)%nat] -> length (dat a) = (r * c)%nat ->
  image_par2fun d r c o false a = Some b -> (i < r)%nat -> (j < c)%nat ->
  nth (i * c + j) (dat b) d = nth (match o with OC => i * c + j | OF => i + r * j end)%nat (dat a) d.
Proof.
  intros Hp Hs Hl H Hi Hj. rewrite image_par2fun_vec in H by assumption. inversion H; subst. cbn [dat].
  destruct o; [reflexivity|].
  assert (Ht : (i * c + j < r * c)%nat) by nia.
  rewrite nth_from_F by (cbn; lia). rewrite srcF_2 by exact Ht.
  assert (E1 : ((i * c + j) / c = i)%nat) by (rewrite Nat.div_add_l by lia; rewrite Nat.div_small by exact Hj; lia).
  assert (E2 : ((i * c + j) mod c = j)%nat) by (rewrite Nat.add_comm, Nat.mod_add by lia; apply Nat.mod_small; exact Hj).
  rewrite E1, E2. reflexivity.
Qed.
End ToF.

Section ImageBatch.
Context {A : Type} (d : A).

Lemma col_of_from_F_batch r c k jb (x : list A) : (0 < r * c)%nat -> (jb < k)%nat ->
  col_of d (r * c) k jb (from_F d [r; c; k] (to_F d [(r * c)%nat; k] x)) = from_F d [r; c] (col_of d (r * c) k jb x).
Proof.
  intros Hp Hjb.
  assert (Hc : (0 < c)%nat) by nia. assert (Hr : (0 < r)%nat) by nia. assert (Hk : (0 < k)%nat) by lia.
  apply nth_ext with (d := d) (d' := d).
  - rewrite col_of_length, from_F_length. cbn; lia.
  - intros p Hpl. rewrite col_of_length in Hpl. rewrite nth_col_of by exact Hpl.
    assert (P3 : prodn [r; c; k] = (r * c * k)%nat) by (cbn; lia).
    assert (P2 : prodn [(r * c)%nat; k] = (r * c * k)%nat) by (cbn; lia).
    assert (Ht : (p * k + jb < r * c * k)%nat) by nia.
    rewrite nth_from_F by (rewrite P3; exact Ht). rewrite srcF_3.
    set (t := (p * k + jb)%nat) in *.
    assert (Etk : (t / k = p)%nat) by (unfold t; rewrite Nat.div_add_l by lia; rewrite Nat.div_small by exact Hjb; lia).
    assert (Etm : (t mod k = jb)%nat) by (unfold t; rewrite Nat.add_comm, Nat.mod_add by lia; apply Nat.mod_small; exact Hjb).
    assert (E1 : (t / (c * k) = p / c)%nat) by (rewrite (Nat.mul_comm c k), <- Nat.div_div by lia; rewrite Etk; reflexivity).
    assert (Em : (t mod (c * k) = jb + k * (p mod c))%nat)
      by (rewrite (Nat.mul_comm c k), Nat.mod_mul_r by lia; rewrite Etk, Etm; reflexivity).
    assert (E2 : (t mod (c * k) / k = p mod c)%nat)
      by (rewrite Em, (Nat.mul_comm k), Nat.div_add by lia; rewrite Nat.div_small by exact Hjb; lia).
    assert (E3 : (t mod (c * k) mod k = jb)%nat)
      by (rewrite Em, (Nat.mul_comm k), Nat.mod_add by lia; apply Nat.mod_small; exact Hjb).
    rewrite E1, E2, E3.
    assert (Hi : (p / c < r)%nat) by (apply Nat.div_lt_upper_bound; lia).
    assert (Hj : (p mod c < c)%nat) by (apply Nat.mod_upper_bound; lia).
    set (i := (p / c)%nat) in *. set (j := (p mod c)%nat) in *.
    assert (Hg : (i + r * j < r * c)%nat) by nia.
    assert (Hf : (i + r * (j + c * jb) < r * c * k)%nat) by nia.
    rewrite nth_to_F by (rewrite P2; exact Hf).
    assert (Esrc : ravelC [(r * c)%nat; k] (unravelF [(r * c)%nat; k] (i + r * (j + c * jb))) = ((i + r * j) * k + jb)%nat).
    { cbn [unravelF ravelC prodn fold_right]. rewrite !Nat.mul_1_r.
      replace (i + r * (j + c * jb))%nat with ((i + r * j) + jb * (r * c))%nat by lia.
      rewrite Nat.mod_add by lia. rewrite Nat.div_add by lia.
      rewrite (Nat.mod_small (i + r * j)) by exact Hg. rewrite (Nat.div_small (i + r * j)) by exact Hg.
      cbn [Nat.add]. rewrite Nat.mod_small by exact Hjb. lia. }
    rewrite Esrc.
    rewrite nth_from_F by (cbn; lia). rewrite srcF_2 by exact Hpl. fold i j.
    rewrite nth_col_of by exact Hg. reflexivity.
Qed.

(* Image2D.par2fun on a batch acts column by column: input (r*c, k), output (r, c, k); member j of the output
   (the slice [..., j], whose C-order data is col_of (r*c) k j) is par2fun of column j *)
Theorem image_par2fun_columnwise r c o k (a : arr A) :
  (0 < r * c)%nat -> (2 <= k)%nat -> shp a = [(r * c)%nat; k] -> length (dat a) = (r * c * k)%nat ->
  exists b, image_par2fun d r c o false a = Some b /\ shp b = [r; c; k] /\ length (dat b) = (r * c * k)%nat /\
    forall j, (j < k)%nat ->
      image_par2fun d r c o false (mkArr [(r * c)%nat] (col_of d (r * c) k j (dat a)))
      = Some (mkArr [r; c] (col_of d (r * c) k j (dat b))).
Proof.
  intros Hp Hk Hs Hl.
  exists (mkArr [r; c; k] (match o with OC => dat a | OF => from_F d [r; c; k] (to_F d [(r * c)%nat; k] (dat a)) end)).
  split; [|split; [reflexivity|split]].
  - unfold image_par2fun. rewrite (reshape_tail_batch d r c o k a Hp Hs). cbn [shp].
    destruct k as [|[|k']]; [lia | lia | reflexivity].
  - cbn [dat]. destruct o; [exact Hl|]. rewrite from_F_length. cbn; lia.
  - intros j Hj. rewrite image_par2fun_vec; cbn [shp dat]; try assumption; try reflexivity; [|apply col_of_length].
    destruct o; [reflexivity|]. rewrite col_of_from_F_batch by assumption. reflexivity.
Qed.
End ImageBatch.

(* the defect: fun2par of a batch of images does NOT return a (r*c, k) batch -- it ravels the batch axis too *)
Theorem image_fun2par_batch_refuted : exists r c o k (a b : arr nat),
  (2 <= k)%nat /\ shp a = [r; c; k] /\ length (dat a) = (r * c * k)%nat /\
  image_fun2par 0%nat o false a = Some b /\ shp b <> [(r * c)%nat; k].
Proof.
  exists 2%nat, 3%nat, OC, 2%nat, (mkArr [2; 3; 2]%nat (seq 0 12)), (mkArr [12%nat] (seq 0 12)).
  repeat split; try (vm_compute; lia). discriminate.
Qed.

(* what it does instead, for every batch: one flat vector of r*c*k entries *)
Theorem image_fun2par_batch_shape {A} (d : A) r c o k (a b : arr A) :
  shp a = [r; c; k] -> image_fun2par d o false a = Some b -> shp b = [(r * c * k)%nat].
Proof. intros Hs H. unfold image_fun2par in H. inversion H; subst. cbn [shp]. rewrite Hs. f_equal. cbn; lia. Qed.
