(* C16 -- two model-independent facts over the reals used for CGLS's finite termination:
   (1) the classical conjugate-gradient induction at the level of the inner products (scalars indexed by iteration
       numbers): from the recurrences of the residuals s_k and directions p_k follow <s_i,s_j> = 0 and <p_i,H p_j> = 0
       for all i < j;
   (2) R^n contains at most n pairwise orthogonal vectors of positive length (Bessel's inequality + counting). *)
From CV Require Import Base.Tac Base.LinAlg Proofs.C16_Grad.
From Coq Require Import Reals Lra Sorting.Sorted.
Local Open Scope R_scope.

(* ================= (1) the CG induction on scalars ================= *)
Section Scalar.
Variables (ss sh ph : nat -> nat -> R) (a b : nat -> R) (K : nat).
(* ss i j = <s_i,s_j>, sh i j = <s_i,H p_j>, ph i j = <p_i,H p_j>, a = step lengths, b = the beta's *)
Hypothesis ss_sym : forall i j, ss i j = ss j i.
Hypothesis ph_sym : forall i j, ph i j = ph j i.
Hypothesis R1 : forall k j, ss (S k) j = ss k j - a k * sh j k.              (* s_{k+1} = s_k - a_k H p_k *)
Hypothesis R2 : forall j k, sh (S j) k = ph (S j) k - b j * ph j k.          (* p_{j+1} = s_{j+1} + b_j p_j *)
Hypothesis R20 : forall k, sh 0 k = ph 0 k.                                  (* p_0 = s_0 *)
Hypothesis Ha : forall k, (k < K)%nat -> a k * ph k k = ss k k.              (* a_k = gamma_k / delta_k *)
Hypothesis Hb : forall k, (k < K)%nat -> b k * ss k k = ss (S k) (S k).      (* b_k = gamma_{k+1} / gamma_k *)
Hypothesis Hnz : forall k, (k < K)%nat -> ss k k <> 0.

Lemma a_nz k : (k < K)%nat -> a k <> 0.
Proof. intros Hk E. pose proof (Ha k Hk) as H. rewrite E in H. apply (Hnz k Hk). lra. Qed.

Theorem cg_scalar_orthogonality : forall k, (k <= K)%nat -> forall i j, (i < j)%nat -> (j <= k)%nat -> ss i j = 0 /\ ph i j = 0.
Proof.
  induction k as [|k IH]; intros HkK i j Hij Hjk; [lia|].
  assert (IHk : forall i j, (i < j)%nat -> (j <= k)%nat -> ss i j = 0 /\ ph i j = 0) by (intros; apply IH; lia).
  clear IH.
  destruct (Nat.eq_dec j (S k)) as [-> | Hne]; [ | apply IHk; lia].
  assert (HkK' : (k < K)%nat) by lia.
  (* sh i k for i <= k *)
  assert (Hsh_lt : forall i0, (i0 < k)%nat -> sh i0 k = 0).
  { intros [|i0] Hi0.
    - rewrite R20. apply IHk; lia.
    - rewrite R2. destruct (IHk (S i0) k ltac:(lia) ltac:(lia)) as (_ & E1).
      destruct (IHk i0 k ltac:(lia) ltac:(lia)) as (_ & E2). rewrite E1, E2. ring. }
  assert (Hsh_kk : sh k k = ph k k).
  { destruct k as [|k']; [apply R20|]. rewrite R2.
    destruct (IHk k' (S k') ltac:(lia) ltac:(lia)) as (_ & E2). rewrite E2. ring. }
  (* A: the new residual is orthogonal to all earlier ones *)
  assert (A : forall i0, (i0 <= k)%nat -> ss (S k) i0 = 0).
  { intros i0 Hi0. rewrite R1. destruct (Nat.eq_dec i0 k) as [-> | Hn].
    - rewrite Hsh_kk. pose proof (Ha k HkK'). lra.
    - rewrite (Hsh_lt i0) by lia. rewrite (ss_sym k i0). destruct (IHk i0 k ltac:(lia) ltac:(lia)) as (E & _). rewrite E. ring. }
  split; [rewrite ss_sym; apply A; lia|].
  (* B: the new direction is conjugate to all earlier ones *)
  rewrite ph_sym.
  assert (R4 : a i * sh (S k) i = ss i (S k) - ss (S i) (S k)).
  { pose proof (R1 i (S k)) as H. lra. }
  assert (E0 : ss i (S k) = 0) by (rewrite ss_sym; apply A; lia).
  pose proof (R2 k i) as H2.
  destruct (Nat.eq_dec i k) as [-> | Hn].
  - (* i = k *)
    rewrite E0 in R4. pose proof (Ha k HkK') as Hak. pose proof (Hb k HkK') as Hbk. pose proof (a_nz k HkK') as Hnz'.
    assert (E : a k * ph (S k) k = 0) by nra.
    destruct (Rmult_integral _ _ E); [contradiction | assumption].
  - assert (E1 : ss (S i) (S k) = 0) by (rewrite ss_sym; apply A; lia).
    rewrite E0, E1 in R4. assert (Hai : a i <> 0) by (apply a_nz; lia).
    assert (Es : sh (S k) i = 0) by (destruct (Rmult_integral (a i) (sh (S k) i)); [lra | contradiction | assumption]).
    destruct (IHk i k ltac:(lia) ltac:(lia)) as (_ & E3). rewrite (ph_sym k i), E3 in H2. lra.
Qed.
End Scalar.

(* ================= (2) at most n orthogonal vectors of positive length in R^n ================= *)
Definition sumR (l : list R) : R := fold_right Rplus 0 l.

Lemma sumR_map_plus {A} (f g : A -> R) l : sumR (map (fun x => f x + g x) l) = sumR (map f l) + sumR (map g l).
Proof. induction l as [|x l IH]; cbn; [ring|]. unfold sumR in *. rewrite IH. ring. Qed.

Lemma sumR_cons a l : sumR (a :: l) = a + sumR l.
Proof. reflexivity. Qed.

Lemma sumR_swap {A B} (f : A -> B -> R) (ks : list A) (vs : list B) :
  sumR (map (fun k => sumR (map (f k) vs)) ks) = sumR (map (fun v => sumR (map (fun k => f k v) ks)) vs).
Proof.
  induction ks as [|k ks IH]; cbn [map].
  - induction vs as [|v vs IHv]; cbn [map]; [reflexivity|]. rewrite sumR_cons, <- IHv. cbn. ring.
  - rewrite sumR_cons, IH.
    rewrite (map_ext (fun v => sumR (f k v :: map (fun k0 => f k0 v) ks)) (fun v => f k v + sumR (map (fun k0 => f k0 v) ks)))
      by (intros; apply sumR_cons).
    rewrite (sumR_map_plus (f k) (fun v => sumR (map (fun k0 => f k0 v) ks)) vs). reflexivity.
Qed.

Lemma sumR_le {A} (f g : A -> R) l : (forall x, In x l -> f x <= g x) -> sumR (map f l) <= sumR (map g l).
Proof.
  induction l as [|x l IH]; intros H; cbn; [lra|].
  pose proof (H x (or_introl eq_refl)). unfold sumR in *. pose proof (IH (fun y Hy => H y (or_intror Hy))). lra.
Qed.

Lemma sumR_const {A} (l : list A) c : sumR (map (fun _ => c) l) = INR (length l) * c.
Proof. induction l as [|x l IH]; [cbn; ring|]. cbn [map sumR fold_right length]. unfold sumR in IH. rewrite IH, S_INR. ring. Qed.

Lemma Rdot_sumsq v : Rdot v v = sumR (map (fun x => x * x) v).
Proof. induction v as [|x v IH]; cbn; [reflexivity|]. unfold sumR in *. rewrite IH. reflexivity. Qed.

Lemma Rdot_nonneg v : 0 <= Rdot v v.
Proof. induction v as [|x v IH]; cbn; [lra|]. nra. Qed.

Lemma Rdot_sub_l x y z : length x = length y -> Rdot (vsub Rminus x y) z = Rdot x z - Rdot y z.
Proof. apply (dot_vsub_l R 0 1 Rplus Rmult Rminus Ropp RTheory). Qed.
Lemma Rdot_sub_r x y z : length y = length z -> Rdot x (vsub Rminus y z) = Rdot x y - Rdot x z.
Proof. apply (dot_vsub_r R 0 1 Rplus Rmult Rminus Ropp RTheory). Qed.
Lemma Rdot_scale_l c x y : Rdot (Rvscale c x) y = c * Rdot x y.
Proof. apply (dot_vscale_l R 0 1 Rplus Rmult Rminus Ropp RTheory). Qed.
Lemma Rdot_scale_r c x y : Rdot x (Rvscale c y) = c * Rdot x y.
Proof. apply (dot_vscale_r R 0 1 Rplus Rmult Rminus Ropp RTheory). Qed.
Lemma Rdot_comm x y : Rdot x y = Rdot y x.
Proof. apply (dot_comm R 0 1 Rplus Rmult Rminus Ropp RTheory). Qed.

(* Bessel's inequality for an orthogonal family *)
Lemma bessel n : forall (vs : list (list R)) (u : list R),
  length u = n -> Forall (fun v => length v = n) vs ->
  ForallOrdPairs (fun v w => Rdot v w = 0) vs -> Forall (fun v => 0 < Rdot v v) vs ->
  sumR (map (fun v => Rdot u v * Rdot u v / Rdot v v) vs) <= Rdot u u.
Proof.
  induction vs as [|v vs IH]; intros u Hu Hlen Horth Hpos; cbn.
  - apply Rdot_nonneg.
  - inversion Hlen as [|? ? Hv Hlen']; subst. inversion Horth as [|? ? Hvw Horth']; subst. inversion Hpos as [|? ? Hvpos Hpos']; subst.
    set (c := Rdot u v / Rdot v v).
    set (u' := vsub Rminus u (Rvscale c v)).
    assert (Hu' : length u' = length v).
    { unfold u'. rewrite vsub_length; rewrite ?vscale_length; lia. }
    assert (Hdot : forall w, In w vs -> Rdot u' w = Rdot u w).
    { intros w Hw. unfold u'. rewrite Rdot_sub_l by (rewrite vscale_length; lia). rewrite Rdot_scale_l.
      rewrite Forall_forall in Hvw. rewrite (Hvw w Hw). ring. }
    assert (Hnorm : Rdot u' u' = Rdot u u - Rdot u v * Rdot u v / Rdot v v).
    { unfold u'. rewrite Rdot_sub_l, !Rdot_sub_r by (rewrite ?vscale_length; lia).
      rewrite !Rdot_scale_l, !Rdot_scale_r. rewrite (Rdot_comm v u). unfold c. field. lra. }
    pose proof (IH u' ltac:(lia) Hlen' Horth' Hpos') as HB.
    rewrite (map_ext_in (fun w => Rdot u' w * Rdot u' w / Rdot w w) (fun w => Rdot u w * Rdot u w / Rdot w w)) in HB
      by (intros w Hw; rewrite (Hdot w Hw); reflexivity).
    unfold sumR in *. lra.
Qed.

Lemma unit_self n k : (k < n)%nat -> Rdot (unit_vec 0 1 n k) (unit_vec 0 1 n k) = 1.
Proof.
  revert k; induction n as [|n IH]; intros k Hk; [lia|]. destruct k as [|k]; cbn.
  - rewrite (dot_vzero_l R 0 1 Rplus Rmult Rminus Ropp RTheory). ring.
  - rewrite IH by lia. ring.
Qed.
Lemma unit_len n k : length (unit_vec 0 1 n k) = n.
Proof. revert k; induction n as [|n IH]; intros k; cbn; [reflexivity|]. destruct k; cbn; [rewrite vzero_length | rewrite IH]; reflexivity. Qed.

Theorem orthogonal_family_bound n (vs : list (list R)) :
  Forall (fun v => length v = n) vs -> ForallOrdPairs (fun v w => Rdot v w = 0) vs -> Forall (fun v => 0 < Rdot v v) vs ->
  (length vs <= n)%nat.
Proof.
  intros Hlen Horth Hpos.
  set (f := fun (k : nat) (v : list R) => nth k v 0 * nth k v 0 / Rdot v v).
  assert (H1 : sumR (map (fun k => sumR (map (f k) vs)) (seq 0 n)) <= INR n).
  { replace (INR n) with (sumR (map (fun _ : nat => 1) (seq 0 n))) by (rewrite sumR_const, seq_length; ring).
    apply sumR_le. intros k Hk. apply in_seq in Hk.
    pose proof (bessel n vs (unit_vec 0 1 n k) (unit_len n k) Hlen Horth Hpos) as HB.
    rewrite unit_self in HB by lia.
    rewrite (map_ext_in _ (f k)) in HB; [exact HB|].
    intros v Hv. rewrite Forall_forall in Hlen. unfold f.
    rewrite (dot_unit_vec R 0 1 Rplus Rmult Rminus Ropp RTheory n k v (Hlen v Hv)) by lia. reflexivity. }
  rewrite sumR_swap in H1.
  assert (H2 : sumR (map (fun v => sumR (map (fun k => f k v) (seq 0 n))) vs) = INR (length vs)).
  { rewrite <- (Rmult_1_r (INR (length vs))), <- sumR_const. f_equal. apply map_ext_in. intros v Hv.
    rewrite Forall_forall in Hlen, Hpos. pose proof (Hlen v Hv) as Hl. pose proof (Hpos v Hv) as Hp.
    unfold f. rewrite (map_ext _ (fun k => / Rdot v v * (nth k v 0 * nth k v 0))) by (intros; field; lra).
    assert (E : sumR (map (fun k => / Rdot v v * (nth k v 0 * nth k v 0)) (seq 0 n)) = / Rdot v v * sumR (map (fun k => nth k v 0 * nth k v 0) (seq 0 n))).
    { generalize (seq 0 n). intros l. induction l as [|k l IHl]; cbn; [ring|]. unfold sumR in *. rewrite IHl. ring. }
    rewrite E. rewrite <- (map_map (fun k => nth k v 0) (fun x => x * x)), (map_nth_seq v n Hl), <- Rdot_sumsq. field. lra. }
  rewrite H2 in H1. apply INR_le. exact H1.
Qed.
