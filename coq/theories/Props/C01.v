(* C01 -- Conditioning a joint distribution preserves the joint log-density.
   Property theorems only: each is closed by `exact <lemma>` / a one-line assembly of lemmas of
   Proofs/C01_Cond.v and followed by Print Assumptions.

   All theorems quantify over: every value type `val`, every commutative monoid of log-densities
   (MonLaws: Z, Qc, R, ...), every list of factors (any number of variables, any dependency
   structure, any factor functions), every keyword set / list of steps / completion.
   `None` = the call raised.  `wf` is what JointDistribution.__init__ enforces (unique names, every
   parameter of every factor has a distribution) plus: a factor's own name is not one of its
   conditioning variables, and conditional factors carry no folded constant (constants are only
   ever added to non-conditional densities -- C01_wf_preserved shows this is an invariant). *)
From CV Require Import Base.Tac Base.Cmp Model.C01_Cond Proofs.C01_Cond.
From Coq Require Import Permutation.

(* one conditioning call: the returned object -- joint, MultipleLikelihoodPosterior, Posterior,
   single Distribution, whichever branch of _reduce_to_single_density is taken -- evaluated at the
   remaining variables equals the joint evaluated at the complete assignment (equal also as
   errors: an incomplete or over-complete `rest` is refused on both sides) *)
Theorem C01_step : forall (val : Type) (M : Mon), MonLaws M ->
  forall (fl : flavor) (J : list (dens val M)) (kw rest : list (var * val)) (o : obj val M),
  wf val M J -> NoDup (dom kw) -> incl (dom kw) (jparams J) ->
  (forall v, In v (dom kw) -> ~ In v (dom rest)) ->
  jcond_kw fl J kw = Some o ->
  obj_logd_kw o rest = jlogd_kw J (kw ++ rest).
Proof. intros val M ML fl J kw rest o. exact (step_joint val M ML fl J kw o rest). Qed.
Print Assumptions C01_step.

(* conditioning a well-formed joint never raises *)
Theorem C01_step_defined : forall (val : Type) (M : Mon), MonLaws M ->
  forall (fl : flavor) (J : list (dens val M)) (kw : list (var * val)),
  wf val M J -> exists o, jcond_kw fl J kw = Some o.
Proof. intros val M ML fl J kw. exact (jcond_kw_defined val M ML fl J kw). Qed.
Print Assumptions C01_step_defined.

(* any list of conditioning calls (any order, any grouping, continuing on a reduced single
   Distribution, and -- pnamed = true, i.e. with fixes/C01_posterior_name.diff -- on a Posterior
   conditioned on its own parameter by keyword; in the code as it stands (pnamed = false) that last
   step is refused, see C01_posterior_keyword_refuted): induction over the steps *)
Theorem C01_sequence : forall (val : Type) (M : Mon), MonLaws M ->
  forall (pnamed : bool) (steps : list (list (var * val))) (o o' : obj val M) (rest : list (var * val)),
  wf_obj val M o -> run_steps_kw pnamed o steps = Some o' ->
  NoDup (dom (concat steps ++ rest)) -> incl (dom (concat steps)) (obj_params o) ->
  obj_logd_kw o' rest = obj_logd_kw o (concat steps ++ rest).
Proof. intros val M ML pnamed steps o o' rest W H ND I. exact (proj1 (sequence_steps val M ML pnamed steps o o' rest W H ND I)). Qed.
Print Assumptions C01_sequence.

(* two histories fixing the same variables to the same values, in any order and grouping, give
   objects with the same log-density *)
Theorem C01_order_irrelevant : forall (val : Type) (M : Mon), MonLaws M ->
  forall (pnamed : bool) (o o1 o2 : obj val M) (s1 s2 : list (list (var * val))) (rest : list (var * val)),
  wf_obj val M o -> run_steps_kw pnamed o s1 = Some o1 -> run_steps_kw pnamed o s2 = Some o2 ->
  Permutation (concat s1) (concat s2) ->
  NoDup (dom (concat s1 ++ rest)) -> incl (dom (concat s1)) (obj_params o) ->
  obj_logd_kw o1 rest = obj_logd_kw o2 rest.
Proof. intros val M ML pnamed o o1 o2 s1 s2 rest. exact (order_irrelevant val M ML pnamed o s1 s2 o1 o2 rest). Qed.
Print Assumptions C01_order_irrelevant.

(* branching histories: any number of children derived from the SAME parent object, in any order,
   including the identical conditioning repeated, each evaluate to the parent at the corresponding
   complete assignment.  (In the model objects are values, so "the parent is unchanged by deriving a
   child" holds by construction; that the implementation's objects do not share mutable state --
   e.g. _add_constants_to_density writing onto a factor still referenced by the parent -- is what the
   check_history correspondence cases test: every earlier object is re-evaluated after each step.) *)
Theorem C01_branching : forall (val : Type) (M : Mon), MonLaws M ->
  forall (pnamed : bool) (o : obj val M) (kws : list (list (var * val))),
  wf_obj val M o ->
  forall kw o' rest, In kw kws -> obj_cond_kw pnamed o kw = Some o' ->
  NoDup (dom kw) -> incl (dom kw) (obj_params o) -> (forall v, In v (dom kw) -> ~ In v (dom rest)) ->
  obj_logd_kw o' rest = obj_logd_kw o (kw ++ rest).
Proof.
  intros val M ML pnamed o kws W kw o' rest _ H ND I Hd.
  exact (proj1 (obj_step val M ML pnamed o kw o' rest W H ND I Hd)).
Qed.
Print Assumptions C01_branching.

(* positional calls equal the keyword calls they abbreviate: joint evaluation and conditioning,
   Posterior, Likelihood, Distribution (non-conditional and conditional; `strict` = either state
   of the code w.r.t. the finding below) *)
Theorem C01_positional : forall (val : Type) (M : Mon), MonLaws M ->
  (forall (fl : flavor) (J : list (dens val M)) (args : list val) (kw : list (var * val)),
     wf val M J -> length args <= length (jparams J) ->
     (forall k, In k (firstn (length args) (jparams J)) -> ~ In k (dom kw)) ->
     jlogd J args kw = jlogd_kw J (kw ++ combine (jparams J) args) /\
     jcond fl J args kw = jcond_kw fl J (kw ++ combine (jparams J) args)) /\
  (forall strict ld x pr c y, wf_obj val M (OP ld x pr c) ->
     post_logd strict ld x pr c [y] [] = obj_logd_kw (OP ld x pr c) [(dname pr, y)]) /\
  (forall (d : dist val M) x (args : list val), wf_dist val M d -> length args = length (dfree d) ->
     lik_logd d x args [] = dens_logd_kw (L d x) (combine (dfree d) args)) /\
  (forall strict (d : dist val M) y, dfree d = [] ->
     dist_logd strict d [y] [] = dens_logd_kw (D d) [(dname d, y)]) /\
  (forall strict (d : dist val M) (pre : list val) y,
     wf_dist val M d -> dfree d <> [] -> length pre = length (dfree d) ->
     dist_logd strict d (pre ++ [y]) [] = dens_logd_kw (D d) (combine (dfree d) pre ++ [(dname d, y)])).
Proof.
  intros val M ML. split; [|split; [|split; [|split]]].
  - intros fl J args kw W L Hn. split; [exact (jlogd_positional val M J args kw W L Hn) | exact (jcond_positional val M fl J args kw W L Hn)].
  - intros strict ld x pr c y. exact (post_positional val M strict ld x pr c y).
  - intros d x args. exact (lik_positional val M d x args).
  - intros strict d y. exact (dist_noncond_positional val M strict d y).
  - intros strict d pre y. exact (dist_cond_positional val M strict d pre y).
Qed.
Print Assumptions C01_positional.

(* conditioning on data: whenever the reduction returns a Posterior its log-density is
   log-likelihood + log-prior + the sum of all evaluated (fixed) factors, and this is the joint
   log-density at the complete assignment *)
Theorem C01_posterior_expansion : forall (val : Type) (M : Mon), MonLaws M ->
  forall (fl : flavor) (J : list (dens val M)) (kw : list (var * val)) ld data pr c (x : val),
  wf val M J -> NoDup (dom kw) -> incl (dom kw) (jparams J) -> ~ In (dname pr) (dom kw) ->
  jcond_kw fl J kw = Some (OP ld data pr c) ->
  obj_logd_kw (OP ld data pr c) [(dname pr, x)] =
    oadd (oadd (dens_val (L ld data) (combine (dfree ld) [x])) (dens_val (D pr) [(dname pr, x)])) (Some c)
  /\ obj_logd_kw (OP ld data pr c) [(dname pr, x)] = jlogd_kw J (kw ++ [(dname pr, x)]).
Proof.
  intros val M ML fl J kw ld data pr c x W ND I N H. split.
  - destruct (jcond_kw_spec val M ML fl J kw _ W H) as [_ [[Fpr _] _]].
    cbn [obj_logd_kw]. unfold dparams. rewrite Fpr. unfold keys_ok. cbn. now rewrite Nat.eqb_refl.
  - apply (step_joint val M ML fl J kw _ _ W ND I); [|exact H].
    intros v Hv [<-|[]]. contradiction.
Qed.
Print Assumptions C01_posterior_expansion.

(* exactly one distribution and one likelihood left => always a Posterior carrying the constants
   (the "parameter names differ: stay joint" branch is dead for well-formed joints) *)
Theorem C01_posterior_branch : forall (val : Type) (M : Mon), MonLaws M ->
  forall (fl : flavor) (J : list (dens val M)),
  wf val M J -> length (filter isD J) = 1 -> length (filter isL J) = 1 ->
  exists ld x pr, reduce fl J = Some (OP ld x pr (evsum J)) /\ In (L ld x) J /\ In (D pr) J.
Proof. intros val M ML fl J. exact (reduce_posterior val M fl J). Qed.
Print Assumptions C01_posterior_branch.

(* the multiple-likelihood view: when the reduction returns a MultipleLikelihoodPosterior, it
   evaluates to the joint log-density *)
Theorem C01_mlp : forall (val : Type) (M : Mon), MonLaws M ->
  forall (fl : flavor) (J J' : list (dens val M)) (kw rest : list (var * val)),
  wf val M J -> NoDup (dom kw) -> incl (dom kw) (jparams J) ->
  (forall v, In v (dom kw) -> ~ In v (dom rest)) ->
  jcond_kw fl J kw = Some (OJ FMLP J') ->
  jlogd_kw J' rest = jlogd_kw J (kw ++ rest).
Proof. intros val M ML fl J J' kw rest W ND I Hd H. exact (step_joint val M ML fl J kw (OJ FMLP J') rest W ND I Hd H). Qed.
Print Assumptions C01_mlp.

(* the stacked-vector view: the concatenation of the variables' values (lengths = the dimensions
   of the distributions, in parameter order) evaluates to the joint log-density *)
Theorem C01_stacked : forall (A : Type) (M : Mon) (J : list (dens (list A) M)) (vals : list (list A)),
  map (@length A) vals = jdims J ->
  stacked_logd J (concat vals) = jlogd_kw J (combine (jparams J) vals).
Proof. intros A M J vals. exact (stacked_ok J vals). Qed.
Print Assumptions C01_stacked.

(* refusal: an evaluation that returns a number names every parameter exactly once -- so a
   missing variable, an unknown keyword, a variable given both by position and by keyword, or too
   many positional arguments are all refused, at every call level (joint / MLP, Posterior,
   Likelihood, Distribution, EvaluatedDensity).  Holds for the repaired code (strict = true)
   without guard, and for the code as it stands outside the class `main_positional_with_keywords`. *)
Theorem C01_refusal : forall (val : Type) (M : Mon), MonLaws M ->
  forall (vsplit : list nat -> val -> list val) (strict : bool) (o : obj val M) (args : list val) (kw : list (var * val)) v,
  wf_obj val M o -> NoDup (dom kw) ->
  strict = true \/ ~ main_positional_with_keywords val M o args kw ->
  obj_logd vsplit strict o args kw = Some v ->
  match o with
  | OJ FStacked J =>      (* the stacked object: exactly one vector, positionally or as `stacked_input=` *)
      exists x, ((args = [x] /\ kw = []) \/ (args = [] /\ kw = [(stacked_key, x)])) /\
                jlogd_kw J (combine (jparams J) (vsplit (jdims J) x)) = Some v
  | _ =>
      length args <= length (obj_params o) /\
      (forall k, In k (dom kw) -> In k (obj_params o) /\ ~ In k (firstn (length args) (obj_params o))) /\
      (forall p, In p (obj_params o) -> In p (dom kw) \/ In p (firstn (length args) (obj_params o)))
  end.
Proof.
  intros val M ML vsplit strict o args kw v W ND G H.
  assert (Q : (forall J, o <> OJ FStacked J) ->
              length args <= length (obj_params o) /\
              (forall k, In k (dom kw) -> In k (obj_params o) /\ ~ In k (firstn (length args) (obj_params o))) /\
              (forall p, In p (obj_params o) -> In p (dom kw) \/ In p (firstn (length args) (obj_params o)))).
  { intros NS. exact (call_complete_cases val _ args kw (obj_logd_Some val M vsplit strict o args kw v W ND NS G H)). }
  destruct o as [[| |] J|ld x pr c|f]; try (apply Q; intros J'; discriminate).
  exact (stacked_call_Some val M vsplit J args kw v H).
Qed.
Print Assumptions C01_refusal.

(* REPAIRED DEFECT (Distribution.logd|main-positional:other-keywords-ignored, fix 5b3a052): in the code before the repair
   (strict = false) the guard of C01_refusal is needed: x | z evaluated as logd(zval, xval, foo=..)
   (unknown keyword 7) and logd(zval, xval, x=..) (own name 0 given twice) return numbers *)
Definition C01_w_dist : dist Z ZM := @mkDist Z ZM 0 1 [1] [] [] 0%Z (fun vs => fold_right Z.add 0%Z vs).
Theorem C01_refusal_refuted :
  exists (o : obj Z ZM) (args : list Z) (kw1 kw2 : list (var * Z)) v1 v2,
    wf_obj Z ZM o /\ main_positional_with_keywords Z ZM o args kw1 /\
    obj_logd (fun _ x => [x]) false o args kw1 = Some v1 /\ ~ In 7 (obj_params o) /\ In 7 (dom kw1) /\
    obj_logd (fun _ x => [x]) false o args kw2 = Some v2 /\ In 0 (dom kw2) /\ In 0 (firstn (length args) (obj_params o)) /\
    obj_logd (fun _ x => [x]) true o args kw1 = None /\ obj_logd (fun _ x => [x]) true o args kw2 = None.
Proof.
  exists (OD (D C01_w_dist)), [5; 6]%Z, [(7, 1%Z)], [(0, 9%Z)], 11%Z, 11%Z.
  split; [split; [split; [repeat constructor; cbn; tauto | cbn; intuition congruence] | intros _; reflexivity]|].
  split; [exists C01_w_dist; repeat split; cbn; congruence|].
  vm_compute. intuition congruence.
Qed.
Print Assumptions C01_refusal_refuted.

(* the invariant behind the theorems: conditioning keeps a joint well-formed ... *)
Theorem C01_wf_preserved : forall (val : Type) (M : Mon), MonLaws M ->
  forall (fl : flavor) (J : list (dens val M)) (kw : list (var * val)) (o : obj val M),
  wf val M J -> jcond_kw fl J kw = Some o ->
  wf_obj val M o /\ obj_params o = filter (notin val kw) (jparams J).
Proof.
  intros val M ML fl J kw o W H. destruct (jcond_kw_spec val M ML fl J kw o W H) as [P [WO _]]. now split.
Qed.
Print Assumptions C01_wf_preserved.

(* ... and makes the branch `n_dist = 0, n_likelihood = 1` of _reduce_to_single_density -- the
   only one that returns a density WITHOUT folding the evaluated constants in -- unreachable, as
   well as the fall-through that returns None (n_dist = 0, n_likelihood > 1) *)
Theorem C01_bare_likelihood_unreachable : forall (val : Type) (M : Mon), MonLaws M ->
  forall (fl : flavor) (J : list (dens val M)) (kw : list (var * val)),
  wf val M J ->
  (exists o, jcond_kw fl J kw = Some o) /\
  (forall o, jcond_kw fl J kw = Some o -> forall d x, o <> OD (L d x)) /\
  (forall d x, In (L d x) J -> filter isD J <> []).
Proof.
  intros val M ML fl J kw W. split; [exact (jcond_kw_defined val M ML fl J kw W)|]. split.
  - intros o H. destruct (jcond_kw_spec val M ML fl J kw o W H) as [_ [_ [_ NL]]]. exact NL.
  - intros d x. exact (lik_needs_dist val M J d x W).
Qed.
Print Assumptions C01_bare_likelihood_unreachable.

(* the guard "conditional factors carry no constant" in wf is tight: Likelihood.logd adds
   distribution._constant to distribution(...).logd(data), which already contains it, so a
   conditional distribution with a hand-set _constant = 5 turned into a likelihood counts it twice
   (not reachable through the public API; recorded so that the guard is not mistaken for slack) *)
Definition C01_c_dist : dist Z ZM := @mkDist Z ZM 0 1 [1] [] [] 5%Z (fun vs => fold_right Z.add 0%Z vs).
Definition C01_c_prior : dist Z ZM := @mkDist Z ZM 1 1 [] [] [] 0%Z (fun vs => fold_right Z.add 0%Z vs).
Theorem C01_constant_guard_tight :
  let J := [D C01_c_dist; D C01_c_prior] in
  jlogd_kw J [(0, 2%Z); (1, 3%Z)] = Some 13%Z /\
  (exists o, jcond_kw FJoint J [(0, 2%Z)] = Some o /\ obj_logd_kw o [(1, 3%Z)] = Some 18%Z).
Proof. split; [reflexivity|]. eexists. split; reflexivity. Qed.
Print Assumptions C01_constant_guard_tight.

(* order of the conditioning variables (positional passing depends on it): None attributes first,
   then callable arguments by first appearance; conditioning removes exactly the given names and
   keeps the order of the rest *)
Theorem C01_conditioning_variables : forall (val : Type) (M : Mon) name dim (ss : list slot) attrs c f (kw : list (var * val)),
  cond_vars (map (bind_slot (dom kw)) ss) = filter (fun v => negb (mem v (dom kw))) (cond_vars ss) /\
  dfree (dist_bind (@mk_dist val M name dim ss attrs c f) kw) = cond_vars (map (bind_slot (dom kw)) ss).
Proof. intros val M name dim ss attrs c f kw. split; [apply cond_vars_bind | apply dfree_mk_dist]. Qed.
Print Assumptions C01_conditioning_variables.

(* non-vacuity: the 4-variable hierarchical graph of the class docstring
   p(d) p(l) p(x|d) p(y|x,l)   (names d=0, l=1, x=2, y=3) is well-formed; conditioning on y gives a
   joint over d,l,x; then on d,l a Posterior in x; both evaluate to the joint log-density, and a
   missing variable is refused *)
Definition C01_ex_f : list Z -> Z := fun vs => fold_right (fun a b => (a + 2 * b)%Z) 0%Z vs.
Definition C01_ex_J : list (dens Z ZM) :=
  [D (@mk_dist Z ZM 0 1 [SFixed] [] 0%Z C01_ex_f); D (@mk_dist Z ZM 1 1 [SFixed] [] 0%Z C01_ex_f);
   D (@mk_dist Z ZM 2 1 [SFixed; SFn [0]] [] 0%Z C01_ex_f); D (@mk_dist Z ZM 3 1 [SFn [2]; SFn [1]] [] 0%Z C01_ex_f)].
Example C01_example :
  wf Z ZM C01_ex_J /\ MonLaws ZM /\
  jlogd_kw C01_ex_J [(0%nat, 1%Z); (1%nat, 2%Z); (2%nat, 3%Z); (3%nat, 4%Z)] = Some 33%Z /\
  (exists o1 o2, jcond_kw FJoint C01_ex_J [(3, 4%Z)] = Some o1 /\ obj_kind o1 = 0 /\
                 obj_logd_kw o1 [(0%nat, 1%Z); (1%nat, 2%Z); (2%nat, 3%Z)] = Some 33%Z /\
                 obj_cond_kw false o1 [(1, 2%Z); (0, 1%Z)] = Some o2 /\ obj_kind o2 = 2 /\
                 obj_logd_kw o2 [(2, 3%Z)] = Some 33%Z /\ obj_logd_kw o2 [] = None) /\
  jlogd_kw C01_ex_J [(0%nat, 1%Z); (1%nat, 2%Z); (2%nat, 3%Z)] = None.
Proof.
  split.
  - split; [|split].
    + cbn. repeat constructor; cbn; intuition congruence.
    + apply Forall_forall. intros f [<-|[<-|[<-|[<-|[]]]]]; cbn; (split; [split; [repeat constructor; cbn; intuition congruence | cbn; intuition congruence] | intros _; reflexivity]).
    + apply Forall_forall. intros f [<-|[<-|[<-|[<-|[]]]]]; cbn; intros v; cbn; intuition.
  - split; [exact ZM_laws|]. split; [reflexivity|]. split; [|reflexivity].
    eexists. eexists. repeat split; reflexivity.
Qed.

(* conditioning a Posterior on its own parameter by keyword.  With the Posterior carrying its
   prior's name (pnamed = true, fixes/C01_posterior_name.diff) the call returns the
   EvaluatedDensity of exactly the posterior's log-density at that value, so "data first, then the
   parameter" is one more step of C01_sequence and equals the joint at the complete assignment *)
Theorem C01_posterior_keyword : forall (val : Type) (M : Mon), MonLaws M ->
  forall ld data pr (c : car M) (x : val),
  wf_obj val M (OP ld data pr c) ->
  obj_cond_kw true (OP ld data pr c) [(dname pr, x)] =
    match obj_logd_kw (OP ld data pr c) [(dname pr, x)] with
    | Some v => Some (OD (E (dname pr) v))
    | None => None
    end.
Proof.
  intros val M ML ld data pr c x W. cbn [obj_cond_kw]. unfold post_cond. cbn [andb]. rewrite Nat.eqb_refl.
  now rewrite (post_positional val M false ld data pr c x W).
Qed.
Print Assumptions C01_posterior_keyword.

(* FINDING (Posterior._condition|own-parameter-by-keyword): in the code as it stands (pnamed = false)
   the property's "in one step or several" fails for the history  data first, then the parameter by
   keyword: on the docstring graph, J(y,d,l) is a Posterior in x and J(y,d,l)(x=..) is refused,
   whereas J(y,d,l,x) in one step, and the two steps with the repaired code, give the joint value *)
Theorem C01_posterior_keyword_refuted :
  exists (J : list (dens Z ZM)) (kw1 kw2 : list (var * Z)) o1 o2 o3,
    wf Z ZM J /\ jcond_kw FJoint J kw1 = Some o1 /\ obj_kind o1 = 2 /\ dom kw2 = obj_params o1 /\
    obj_cond_kw false o1 kw2 = None /\
    obj_cond_kw true o1 kw2 = Some o2 /\ jcond_kw FJoint J (kw1 ++ kw2) = Some o3 /\
    obj_logd_kw o2 [] = jlogd_kw J (kw1 ++ kw2) /\ obj_logd_kw o3 [] = jlogd_kw J (kw1 ++ kw2) /\
    jlogd_kw J (kw1 ++ kw2) = Some 33%Z.
Proof.
  exists C01_ex_J, [(3%nat, 4%Z); (0%nat, 1%Z); (1%nat, 2%Z)], [(2%nat, 3%Z)].
  do 3 eexists. split; [exact (proj1 C01_example)|]. repeat split; reflexivity.
Qed.
Print Assumptions C01_posterior_keyword_refuted.

(* the order in which the code adds floating-point numbers, stated without any monoid law (so it
   holds verbatim for IEEE addition, Model FM): a joint evaluates to ((0 + f1) + f2) + ... over its
   factors in order; a Posterior to (likelihood + prior) + c with c = ((0 + e1) + e2) + ... over the
   evaluated factors in order; a reduced Distribution carries its own _constant + that sum *)
Theorem C01_summation_order : forall (val : Type) (M : Mon),
  (forall (J : list (dens val M)) (a : list (var * val)), wf val M J ->
     jlogd_kw J a = if keys_ok a (jparams J)
                    then fold_left oadd (map (fun f => dens_val f a) J) (Some (mzero M)) else None) /\
  (forall fl (J : list (dens val M)), wf val M J -> length (filter isD J) = 1 -> length (filter isL J) = 1 ->
     exists ld x pr, reduce fl J = Some (OP ld x pr (evsum J))) /\
  (forall fl (J : list (dens val M)), wf val M J -> length (filter isD J) = 1 -> filter isL J = [] ->
     exists d, In (D d) J /\ reduce fl J = Some (OD (D (add_const d (evsum J))))) /\
  (forall (J : list (dens val M)),
     evsum J = fold_left (fun acc f => match f with E _ v => madd M acc v | _ => acc end) J (mzero M)).
Proof.
  intros val M. split; [|split; [|split]].
  - intros J a. exact (jlogd_kw_order val M J a).
  - intros fl J W HD HL. destruct (reduce_posterior val M fl J W HD HL) as [ld [x [pr [R _]]]]. eauto.
  - intros fl J. exact (reduce_distribution val M fl J).
  - reflexivity.
Qed.
Print Assumptions C01_summation_order.

(* BayesianProblem: its target is the conditioned joint (set_data = conditioning, refused once the
   target is no longer a joint); .likelihood / .prior are views of the Posterior target and
   posterior = likelihood + prior + folded constant at every value *)
Theorem C01_problem_views : forall (val : Type) (M : Mon) ld data pr (c : car M) (x : val),
  wf_obj val M (OP ld data pr c) ->
  obj_view 0 (OP ld data pr c) = Some (OD (L ld data)) /\
  obj_view 1 (OP ld data pr c) = Some (OD (D pr)) /\
  obj_logd_kw (OP ld data pr c) [(dname pr, x)] =
    oadd (oadd (obj_logd_kw (OD (L ld data)) [(dname pr, x)]) (obj_logd_kw (OD (D pr)) [(dname pr, x)])) (Some c) /\
  (forall fl (J : list (dens val M)) (kw : list (var * val)), bp_set_data (OJ fl J) kw = jcond_kw fl J kw) /\
  (forall kw : list (var * val), bp_set_data (OP ld data pr c) kw = None).
Proof.
  intros val M ld data pr c x W. destruct (problem_views val M ld data pr c x W) as [A [B C]].
  repeat split; assumption || reflexivity.
Qed.
Print Assumptions C01_problem_views.

(* the stacked OBJECT (J._as_stacked(), possibly conditioned further: C01_step holds for every
   flavour, so conditioning a stacked joint is covered): evaluated at the concatenation of the values
   it equals the keyword evaluation of the same factors *)
Theorem C01_stacked_object : forall (A : Type) (M : Mon) (strict : bool) (fl : flavor)
  (J : list (dens (list A) M)) (vals : list (list A)),
  wf (list A) M J -> map (@length A) vals = jdims J ->
  obj_stack (OJ fl J) = Some (OJ FStacked J) /\
  obj_logd split_at strict (OJ FStacked J) [concat vals] [] = jlogd_kw J (combine (jparams J) vals).
Proof.
  intros A M strict fl J vals W H.
  destruct (stacked_object (list A) M split_at strict fl J (concat vals) vals W) as [S1 S2].
  - rewrite <- H. apply split_at_concat.
  - split; [exact S1 | exact S2].
Qed.
Print Assumptions C01_stacked_object.


(* re-assembly: a reduced (non-conditional) Distribution -- with whatever constants the reduction
   folded into it -- put into a new JointDistribution is a well-formed joint that evaluates like the
   distribution; so by C01_step / C01_sequence every further conditioning of the new joint still
   equals the ORIGINAL joint at the complete assignment.  Any well-formed list of single densities
   can be re-assembled. *)
Theorem C01_reassembly : forall (val : Type) (M : Mon), MonLaws M ->
  (forall (d : dist val M), wf_dens val M (D d) -> dfree d = [] ->
     obj_join [Some (OD (D d))] = Some (OJ FJoint [D d]) /\ wf val M [D d] /\
     forall a : list (var * val), jlogd_kw [D d] a = dens_logd_kw (D d) a) /\
  (forall (fs : list (dens val M)), wf val M fs ->
     obj_join (map (fun f => Some (OD f)) fs) = Some (OJ FJoint fs)).
Proof.
  intros val M ML. split; [intros d; exact (join_single val M ML d) | intros fs; exact (join_wf val M fs)].
Qed.
Print Assumptions C01_reassembly.

(* a Posterior built directly by the user from a likelihood and its prior is the object the joint's
   reduction builds from the same two factors; hence everything proved for reduced Posteriors
   (C01_sequence, C01_posterior_keyword with name=prior.name, C01_problem_views) applies to it *)
Theorem C01_user_posterior : forall (val : Type) (M : Mon), MonLaws M ->
  forall (ld pr : dist val M) (data : val),
  wf val M [L ld data; D pr] ->
  obj_mkpost (OD (L ld data)) (OD (D pr)) = Some (OP ld data pr (mzero M)) /\
  reduce FJoint [L ld data; D pr] = Some (OP ld data pr (mzero M)) /\
  wf_obj val M (OP ld data pr (mzero M)).
Proof. intros val M ML ld pr data. exact (mkpost_reduce val M ML ld pr data). Qed.
Print Assumptions C01_user_posterior.

(* link between the layers: the general entry point  obj(keywords...)  -- JointDistribution._condition,
   Posterior / Distribution / Likelihood / EvaluatedDensity ._condition with their argument parsing,
   the "mutable variable is not a conditioning variable" refusal -- called with keywords over the
   object's current parameters IS the keyword layer on which C01_step / C01_sequence /
   C01_order_irrelevant / C01_branching are stated (a distribution's own name is not the name of one
   of its mutable attributes) *)
Theorem C01_general_entry : forall (val : Type) (M : Mon) (pnamed strict : bool) (o : obj val M) (kw : list (var * val)),
  wf_obj val M o ->
  (match o with OD (D d) => ~ In (dname d) (dattrs d) | _ => True end) ->
  incl (dom kw) (obj_params o) ->
  obj_cond pnamed strict o [] kw = obj_cond_kw pnamed o kw.
Proof. intros val M pnamed strict o kw. exact (obj_cond_keywords val M pnamed strict o kw). Qed.
Print Assumptions C01_general_entry.

(* OPEN FINDING Distribution._condition|keyword-names-attribute-and-variable -- scope of every theorem above
   w.r.t. the code as it stands: the model's binding (a keyword reaches the callables that take it and
   the None attribute of that name) is the code's behaviour exactly when no OTHER attribute carries the
   name of a conditioning variable (slots_attrs_own); the usual  scale = lambda scale: 1/scale  and the
   None attributes satisfy it, an attribute `cov` holding a value or a callable of another variable while
   a variable `cov` enters through the mean does not (the code then overwrites that attribute:
   witness replayed by the harness on every run; with fixes/C01_condition_attribute_collision.diff
   the guard is not needed).  Non-vacuity / tightness of the guard as a decision procedure: *)
Example C01_attrs_own_examples :
  slots_attrs_own [SFn [5]; SFixed] [5; 100] = true /\          (* scale = lambda scale: ...           *)
  slots_attrs_own [SUnset 5; SFn [6]] [5; 101] = true /\        (* mean = None named after its variable *)
  slots_attrs_own [SFn [5]; SFn [6]] [100; 5] = false /\        (* attribute 5 holds a callable of 6    *)
  slots_attrs_own [SFn [5]; SFixed] [100; 5] = false.           (* attribute 5 holds a plain value      *)
Proof. repeat split; reflexivity. Qed.
