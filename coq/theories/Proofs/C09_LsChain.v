(* C09 -- closing the chain for a LinearRTO block inside the Gibbs state machine: the rational conditional of the joint's
   Gaussian factors (Model/C09_Gibbs.v, over Q) IS the Qc-valued conditional qcond of the rows the block's transition hands
   to rto_draw (Model/C09_Gibbs2.v to_noisy), so the mean / precision facts of Proofs/C09_Rto.v are facts about the joint
   conditioned on the current other blocks. *)
From CV Require Import Base.Tac Base.Cmp Base.LinAlg Base.QcLin Model.C09_Rto Model.C09_Gibbs Model.C09_Gibbs2 Proofs.C09_Rto Proofs.C09_LsTie.
From Coq Require Import QArith Qabs Qcanon Setoid Morphisms.
Local Open Scope Q_scope.

Lemma this_qc (q : Q) : this (qc q) == q.
Proof. unfold qc, Q2Qc. cbn [this]. apply Qred_correct. Qed.
Lemma this_plus (a b : Qc) : this (a + b)%Qc == this a + this b.
Proof. unfold Qcplus, Q2Qc. cbn [this]. apply Qred_correct. Qed.
Lemma this_mult (a b : Qc) : this (a * b)%Qc == this a * this b.
Proof. unfold Qcmult, Q2Qc. cbn [this]. apply Qred_correct. Qed.
Lemma this_opp (a : Qc) : this (- a)%Qc == - this a.
Proof. unfold Qcopp, Q2Qc. cbn [this]. apply Qred_correct. Qed.
Lemma this_minus (a b : Qc) : this (a - b)%Qc == this a - this b.
Proof. unfold Qcminus. rewrite this_plus, this_opp. reflexivity. Qed.

Lemma this_qdot (a p : vec) : this (QcLin.qdot (qvec a) (qvec p)) == qdot a p.
Proof.
  unfold QcLin.qdot, qvec. revert p. induction a as [|x a IH]; intros [|y p]; cbn [map dot qdot]; try reflexivity.
  rewrite this_plus, this_mult, !this_qc, IH. reflexivity.
Qed.

Definition zrow (q : (vec * Q * Q * option Q) * Q * Q * Q) : vec * Q * Q * option Q := fst (fst (fst q)).

Lemma zip4_rows rows : forall es ss dds, length (zip4 rows es ss dds) = length rows -> map zrow (zip4 rows es ss dds) = rows.
Proof.
  induction rows as [|r rows IH]; intros es ss dds H; [reflexivity | ].
  destruct es as [|e es], ss as [|s ss], dds as [|d dds]; cbn in H; try discriminate.
  cbn [zip4 map zrow fst]. f_equal. apply IH. lia.
Qed.

(* the Qc-valued conditional of the rows handed to rto_draw = the rational one of the rows, when the dd certificates are 1 *)
Lemma qcond_to_noisy z p : (forall q, In q z -> snd q == 1) ->
  this (qcond (to_noisy z) (qvec p)) == ls_q (map zrow z) p.
Proof.
  intros Hdd. unfold qcond, ls_q. rewrite this_mult, this_opp.
  rewrite (fold_left_qsum (fun row : vec * Q * Q * option Q =>
             snd (fst row) * ((snd (fst (fst row)) - qdot (fst (fst (fst row))) p) * (snd (fst (fst row)) - qdot (fst (fst (fst row))) p))) (map zrow z) 0).
  rewrite qsumf_map.
  assert (E : this (rsum (fun p0 : lsrow * Qc => (ls_w (fst p0) * ((ls_c (fst p0) - QcLin.qdot (ls_a (fst p0)) (qvec p)) * (ls_c (fst p0) - QcLin.qdot (ls_a (fst p0)) (qvec p))))%Qc) (to_noisy z))
              == qsumf (fun q => snd (fst (zrow q)) * ((snd (fst (fst (zrow q))) - qdot (fst (fst (fst (zrow q)))) p) * (snd (fst (fst (zrow q))) - qdot (fst (fst (fst (zrow q)))) p))) z).
  { unfold rsum, qsumf, to_noisy. induction z as [|q z IH]; cbn [map fold_right]; [reflexivity | ].
    rewrite this_plus, IH by (intros q0 Hq0; apply Hdd; right; exact Hq0).
    apply Qplus_comp; [ | reflexivity].
    cbn [fst snd ls_w ls_c ls_a]. rewrite this_mult, this_mult, !this_minus, !this_qc, this_qdot.
    unfold row_w, zrow. rewrite (Hdd q (or_introl eq_refl)). rewrite Qmult_1_r. reflexivity. }
  rewrite E. assert (Hh : this (Q2Qc (1 # 2)) == 1 # 2) by reflexivity. rewrite Hh. ring.
Qed.

(* the transition of an (unconstrained, non-Laplace) least-squares block at the assignment a: the conditional of the joint's
   factors, as a function of the block's value p, is the conditional qcond of the rows it hands to rto_draw *)
Theorem ls_block_conditional_is_qcond (sp : lsspec) (i : nat) (a : list vec) (es ss dds : list Q) (p : vec) :
  (i < length a)%nat -> length p = length (nth i a []) ->
  (forall gl, In gl sp -> g_w (fst gl) <> inl i) ->
  let z := zip4 (ls_rows sp i a) es ss dds in
  length z = length (ls_rows sp i a) -> (forall q, In q z -> snd q == 1) ->
  this (qcond (to_noisy z) (qvec p)) == fold_right (fun gl acc => gfac_val (upd a i p) (fst gl) + acc) 0 sp.
Proof.
  intros Hi Hp Hw z Hz Hdd.
  rewrite (qcond_to_noisy z p Hdd). unfold z. rewrite (zip4_rows _ es ss dds Hz).
  exact (ls_rows_conditional sp i a p Hi Hp Hw).
Qed.
