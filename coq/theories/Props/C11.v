(* C11 -- Conditioning, evaluating and sampling never alter the objects they start from.
   Property theorems only (statements in full; each closed by `exact`/application of lemmas of Proofs/C11_Heap.v and
   followed by Print Assumptions).  `den k h l` is the reading of object l through all the fields its behaviour depends
   on, to depth k; `ext h h'` says that every object of h still exists in h' with the same semantic fields. *)
From CV Require Import Base.Tac Model.C11_Heap Proofs.C11_Heap.
From Coq Require String.
Import String.StringSyntax.
Open Scope string_scope.
Open Scope list_scope.

(* Frame theorem, abstract form: ANY transition that writes only to locations it allocated itself, to cache fields the
   denotation does not read, or to scratch objects re-synchronised before every read (that is `ext`) leaves the
   denotation of every object that existed before unchanged, to every depth. *)
Theorem C11_frame : forall (k : nat) (h h' : heap), closed h -> ext h h' ->
  forall l, l < length h -> den k h' l = den k h l.
Proof. exact den_ext. Qed.
Print Assumptions C11_frame.

(* ... lifted to arbitrary histories h -> h1 -> ... -> hn (any interleaving of operations on the original and on the
   objects derived from it; thousands of Gibbs re-conditionings are just a long list) *)
Theorem C11_history : forall (hs : list heap) (h : heap) (k : nat) (l : loc),
  closed h -> chain h hs -> l < length h -> den k (last hs h) l = den k h l.
Proof. exact history. Qed.
Print Assumptions C11_history.

(* the executable check evaluated on every OBSERVED heap transition of the implementation (harness, `check_frame`)
   establishes exactly the hypotheses of C11_frame, hence the conclusion for the observed heaps *)
Theorem C11_frame_check_sound : forall h h' : heap, check_frame false h h' = true ->
  ext h h' /\ closed h /\ closed h' /\ forall k l, l < length h -> den k h' l = den k h l.
Proof. exact check_frame_sound. Qed.
Print Assumptions C11_frame_check_sound.

(* Density._make_copy *)
Theorem C11_frame_make_copy : forall (h : heap) (self : loc), ext h (fst (make_copy h self)).
Proof. exact make_copy_frame. Qed.
Print Assumptions C11_frame_make_copy.

(* Conditioning (Distribution._condition with every setter, to_likelihood, Likelihood._condition,
   JointDistribution._condition with factor-list copy, reduction to Posterior / MultipleLikelihoodPosterior /
   distribution / likelihood and _add_constants_to_density), for EVERY operand class, keyword list, heap and nesting
   depth, for the code in which the constant is re-bound (`inplace = false`: proposed fix fixes/C11_constant_rebind.diff;
   on the unrepaired code this is the behaviour whenever the reduced density's constant is not an ndarray): every object
   that existed before keeps its denotation, and the result is a new object unless it is an already existing
   EvaluatedDensity/Likelihood returned as is. *)
Theorem C11_frame_cond : forall (hints : list (string * list string)) (fuel : nat) (h : heap) (self : loc)
    (kw : list (string * value)) (h' : heap) (r : loc),
  cond hints false fuel h self kw = Some (h', r) ->
  ext h h' /\ fresh_or_nondist h h' r /\
  (closed h -> forall k l, l < length h -> den k h' l = den k h l).
Proof.
  intros hints fuel h self kw h' r H. destruct (cond_frame hints fuel h self kw h' r H) as [E F].
  split; [exact E|]. split; [exact F|]. intros C k l Hl. apply den_ext; assumption.
Qed.
Print Assumptions C11_frame_cond.

(* any sequence of conditionings of any live objects (Gibbs: thousands of them) *)
Theorem C11_history_cond : forall (hints : list (string * list string)) (fuel : nat)
    (ops : list (loc * list (string * value))) (h h' : heap),
  cond_seq hints false fuel h ops = Some h' -> closed h ->
  forall k l, l < length h -> den k h' l = den k h l.
Proof. intros hints fuel ops h h' H C k l Hl. apply den_ext; auto. eapply cond_seq_ext; eassumption. Qed.
Print Assumptions C11_history_cond.

(* REFUTED for the code as it stands (`density._constant += ...`, inplace = true) on the class excluded above: when the
   reduced density's constant is an ndarray shared with the object it was copied from, conditioning the joint changes
   the denotation of that pre-existing object (finding JointDistribution._add_constants_to_density|shared-ndarray-constant) *)
Theorem C11_frame_cond_refuted :
  exists (h : heap) (self : loc) (kw : list (string * value)) (h' : heap) (r l : loc),
    closed h /\ cond [] true 5 h self kw = Some (h', r) /\ l < length h /\ den 3 h' l <> den 3 h l.
Proof. exact cond_inplace_refuted. Qed.
Print Assumptions C11_frame_cond_refuted.

(* Distribution.to_likelihood allocates, never writes old objects (Model.forward(distribution): Props/C11_Geom.v) *)
Theorem C11_frame_to_likelihood : forall hints (h : heap) (d : loc) (data : value) (name : option string) (h1 : heap) (r : loc),
  to_likelihood hints h d data name = (h1, r) -> ext h h1 /\ length h <= r.
Proof. intros hints h d data name h1 r H. eapply to_likelihood_spec; [apply ext_refl | exact H]. Qed.
Print Assumptions C11_frame_to_likelihood.

(* Lognormal: the `_normal` getter writes only into the scratch Gaussian it re-synchronises *)
Theorem C11_frame_lognormal_sync : forall (h : heap) (self : loc) (o : obj) (g : loc) (og : obj),
  get h self = Some o -> getf o "_Gaussian" = Some (VRef g) -> get h g = Some og -> is_scratch og = true ->
  ext h (lognormal_sync h self).
Proof. exact lognormal_sync_frame. Qed.
Print Assumptions C11_frame_lognormal_sync.

(* Sampler objects (the block samplers a Gibbs sampler holds and re-targets at every step): re-binding ANY attribute of an
   object of a sampler class -- cached target evaluations, initial point, target, state -- leaves every other object, and
   hence the denotation of every density / likelihood / model, unchanged.  This is the rule behind the translator's
   generic kind "sampler-attr" (no per-site list). *)
Theorem C11_frame_sampler_write : forall (h : heap) (l : loc) (f : string) (v : value) (o : obj),
  get h l = Some o -> String.prefix "Sampler." (class_of o) = true -> f <> "__class__" ->
  ext h (setattr h l f v) /\
  (closed h -> forall k l', l' < length h -> den k (setattr h l f v) l' = den k h l').
Proof.
  intros h l f v o G S F.
  assert (E : ext h (setattr h l f v)).
  { eapply ext_setattr_scratch; [exact G | | exact F | apply ext_refl].
    unfold is_scratch, scratch_class. rewrite S. apply orb_true_r. }
  split; [exact E|]. intros C k l' Hl. apply den_ext; assumption.
Qed.
Print Assumptions C11_frame_sampler_write.

(* a conditioned copy keeps the random-variable name of its original: the name of the copy IS the name read at the original *)
Theorem C11_copy_keeps_name : forall (k : nat) (h : heap) (self : loc) (o : obj),
  get h self = Some o -> str_eqb (class_of o) "Likelihood" = false ->
  name_of (S k) (fst (make_copy h self)) (snd (make_copy h self)) = name_of k (fst (make_copy h self)) self.
Proof. exact copy_keeps_name. Qed.
Print Assumptions C11_copy_keeps_name.

(* non-vacuity: on a concrete closed heap (a joint of a Gaussian whose constant is an ndarray and an evaluated density)
   conditioning with the re-binding code succeeds, returns a new object and leaves object 0 unchanged *)
Example C11_example :
  closed witness_heap /\
  match cond [] false 5 witness_heap 2 [] with
  | Some (h', r) => den 3 h' 0 = den 3 witness_heap 0 /\ length witness_heap <= r
  | None => False end.
Proof. split; [apply closed_b_sound; vm_compute; reflexivity | exact cond_rebind_witness_ok]. Qed.
