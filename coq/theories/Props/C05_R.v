(* C05 -- real-valued property theorems: the density of each numpy/scipy generator AS CALLED by a family's _sample is the
   family's own density; change of variables for transformed draws; the rejection schemes of ModifiedHalfNormal.
   (See Props/C05.v for the statement of what is and is not proved about "draws follow the density".) *)
From CV Require Import Model.C05_SampleR Proofs.C05_Wiring.
From Coq Require Import Reals Lra.
From Coquelicot Require Import Coquelicot.

(* ---------------- generator wiring: density of the generator as called = the family's own density ---------------- *)
Open Scope R_scope.
Theorem C05_wiring_normal : forall mean std x, 0 < std ->
  np_normal_pdf mean std x = exp (cuqi_normal_logpdf mean std x).
Proof. exact wiring_normal. Qed.
Print Assumptions C05_wiring_normal.

Theorem C05_wiring_laplace : forall loc scale x, 0 < scale ->
  np_laplace_pdf loc scale x = exp (cuqi_laplace_logpdf loc scale x).
Proof. exact wiring_laplace. Qed.
Print Assumptions C05_wiring_laplace.

Theorem C05_wiring_uniform : forall low high, low < high ->
  np_uniform_pdf low high = exp (cuqi_uniform_logpdf low high).
Proof. exact wiring_uniform. Qed.
Print Assumptions C05_wiring_uniform.

(* Gamma hands over scale = 1/rate; handing over the rate itself would be another density (second part) *)
Theorem C05_wiring_gamma : forall Gam shape rate x, 0 < rate -> Gam <> 0 ->
  np_gamma_pdf Gam (fst (gamma_call shape rate)) (snd (gamma_call shape rate)) x = cuqi_gamma_pdf Gam shape rate x.
Proof. exact wiring_gamma. Qed.
Print Assumptions C05_wiring_gamma.

Theorem C05_wiring_gamma_miswired_differs :
  exists Gam shape rate x, 0 < rate /\ 0 < x /\ np_gamma_pdf Gam shape rate x <> cuqi_gamma_pdf Gam shape rate x.
Proof. exact wiring_gamma_rate_as_scale_differs. Qed.
Print Assumptions C05_wiring_gamma_miswired_differs.

Theorem C05_wiring_cauchy : forall loc scale x, 0 < scale ->
  sp_cauchy_pdf loc scale x = exp (cuqi_cauchy_logpdf loc scale x).
Proof. exact wiring_cauchy. Qed.
Print Assumptions C05_wiring_cauchy.

(* Lognormal draws exp(Y), Y the Gaussian draw: the distribution function of exp(Y) is F(ln x), and its derivative is
   the pdf the class reports (normal pdf at ln x, times 1/x) *)
Theorem C05_wiring_lognormal : forall (F : R -> R) mean std x,
  (forall y, is_derive F y (normal_pdf mean std y)) -> 0 < x ->
  is_derive (fun t => F (ln t)) x (cuqi_lognormal_pdf mean std x).
Proof. exact wiring_lognormal. Qed.
Print Assumptions C05_wiring_lognormal.

(* InverseGamma and Beta call scipy's rvs of the very distribution object, with the very arguments, that their logpdf
   calls (checked case by case by the correspondence): no density identity to prove beyond that of the wiring model. *)

(* ---------------- ModifiedHalfNormal rejection schemes ---------------- *)
(* scheme 1 (sqrt of a Gamma(alpha/2, scale 1/delta) proposal).  X = sqrt T has density p_T(x^2) 2x: *)
Theorem C05_mhn_sqrt_gamma_density : forall (F f : R -> R) x,
  (forall t, is_derive F t (f t)) -> is_derive (fun y => F (y ^ 2)) x (f (x ^ 2) * (2 * x)).
Proof. exact sqrt_change_of_variables. Qed.
Print Assumptions C05_mhn_sqrt_gamma_density.

(* proposal density x acceptance ratio is proportional to x^(a-1) exp(-b x^2 + g x) (the log-difference is free of x),
   the ratio is at most 1, and the delta of the code lies in (0, beta) so that both facts apply *)
Theorem C05_mhn_gamma_proposal : forall lnGam a b g x, 0 < a -> 0 < b -> 0 < g -> 0 < x ->
  let d := mhn_delta a b g in
  0 < d < b /\
  mhn_gam_logg lnGam a d x + mhn_gam_logacc b g d x - mhn_logf a b g x
    = (a / 2) * ln d - lnGam + ln 2 - g * g / (4 * (b - d)) /\
  mhn_gam_logacc b g d x <= 0.
Proof.
  intros lnGam a b g x Ha Hb Hg Hx d. pose proof (mhn_delta_range a b g Ha Hb Hg) as Hd. fold d in Hd.
  split; [exact Hd|]. split.
  - apply mhn_gamma_proposal_proportional; [exact Hx | apply Rgt_not_eq; apply (proj2 Hd)].
  - apply mhn_gamma_proposal_acc_le_1. apply (proj2 Hd).
Qed.
Print Assumptions C05_mhn_gamma_proposal.

(* scheme 2 (normal proposal): proportionality holds as coded; the acceptance ratio is at most 1 only on the guard
   (alpha - 2) ln mu <= 0, which is the exact complement of the refuted class below *)
Theorem C05_mhn_normal_proposal : forall a b g x, 0 < b -> 1 < a -> 0 < g -> 0 < x ->
  let mu := mhn_mu a b g in
  mhn_norm_logg b mu x + mhn_norm_logacc a b g mu x - mhn_logf a b g x
    = b * mu * mu - g * mu - ln mu - ln (sqrt (PI / b)) /\
  ((a - 2) * ln mu <= 0 -> mhn_norm_logacc a b g mu x <= 0) /\
  mhn_norm_logacc_fixed a b g mu x <= 0.
Proof.
  intros a b g x Hb Ha Hg Hx mu. destruct (mhn_mu_root a b g Hb Ha Hg) as [Hmu Hroot]. fold mu in Hmu, Hroot.
  split; [apply mhn_normal_proposal_proportional; exact Hb|]. split.
  - intros Hguard. apply mhn_normal_proposal_acc_le_1_guarded; try assumption; lra.
  - apply mhn_normal_proposal_fixed_acc_le_1; try assumption; lra.
Qed.
Print Assumptions C05_mhn_normal_proposal.

(* REFUTED class (finding ModifiedHalfNormal._MHN_sample_normal_proposal|acceptance-above-one) *)
Theorem C05_mhn_normal_proposal_refuted :
  exists a b g x, 1 < a /\ 0 < b /\ 0 < g /\ 0 < x /\ 0 < (a - 2) * ln (mhn_mu a b g) /\
                  1 < mhn_norm_logacc a b g (mhn_mu a b g) x.
Proof. exact mhn_normal_proposal_acc_refuted. Qed.
Print Assumptions C05_mhn_normal_proposal_refuted.

(* ---------------- InverseGamma and Beta (deepening round) ---------------- *)
(* scipy's loc/scale inverse-gamma density -- the law scipy documents for invgamma.rvs(a, loc, scale), which is what
   InverseGamma._sample calls, with the same arguments its logpdf hands to invgamma.logpdf -- is the density the class documents *)
Theorem C05_wiring_invgamma : forall Gam a loc scale x, 0 < scale -> loc < x -> Gam <> 0 ->
  sp_invgamma_pdf Gam a loc scale x = cuqi_invgamma_pdf Gam a loc scale x.
Proof. exact wiring_invgamma. Qed.
Print Assumptions C05_wiring_invgamma.

(* ... and it is the law of loc + scale / G, G ~ Gamma(a, 1) (a law-equivalent representation; the installed scipy 1.12 draws
   invgamma by inversion of a uniform, which is C05_push_invgamma in Props/C05_push.v -- found in the third deepening round with
   the twin-stream cells push/InverseGamma): the distribution function of that variable is 1 - F_G(scale/(x-loc)); its derivative
   is the documented density *)
Theorem C05_invgamma_generation : forall (F : R -> R) Gam a loc scale x,
  (forall g, is_derive F g (std_gamma_pdf Gam a g)) -> 0 < scale -> loc < x -> Gam <> 0 ->
  is_derive (fun t => 1 - F (scale / (t - loc))) x (cuqi_invgamma_pdf Gam a loc scale x).
Proof.
  intros F Gam a loc scale x HF Hs Hx HG. rewrite <- invgamma_rvs_density by assumption.
  apply invgamma_change_of_variables; assumption.
Qed.
Print Assumptions C05_invgamma_generation.

(* Beta: the documented density of scipy/numpy's beta variates, x^(a-1) (1-x)^(b-1) / B(a,b), is the class's documented one
   whenever B(a,b) = Gamma(a) Gamma(b) / Gamma(a+b) (the values of the Gamma function enter as parameters) *)
Theorem C05_wiring_beta : forall Ga Gb Gab Bab a b x, Ga <> 0 -> Gb <> 0 -> Gab <> 0 -> Bab = Ga * Gb / Gab ->
  sp_beta_pdf Bab a b x = cuqi_beta_pdf Ga Gb Gab a b x.
Proof. exact wiring_beta. Qed.
Print Assumptions C05_wiring_beta.

(* ---------------- ModifiedHalfNormal, scheme 3 (gamma <= 0), for EVERY matching point m > 0 ---------------- *)
(* the proposal Gamma(alpha v1, rate v2) is proper (1/2 <= v1 < 1, v2 > 0); the density of X = m T^v1 times the acceptance
   ratio is proportional to x^(alpha-1) exp(-beta x^2 + gamma x); the acceptance ratio never exceeds 1 *)
Theorem C05_mhn_negative_gamma : forall lnGam a b g m x, 0 < b -> g <= 0 -> 0 < m -> 0 < x ->
  (/ 2 <= mhn_neg_v1 b g m < 1 /\ 0 < mhn_neg_v2 b g m) /\
  mhn_neg_logg lnGam a b g m x + mhn_neg_logacc b g m (mhn_neg_t b g m x) - mhn_logf a b g x
    = a * mhn_neg_v1 b g m * ln (mhn_neg_v2 b g m) - lnGam + ln (/ (mhn_neg_v1 b g m * m)) - (a - 1) * ln m /\
  (forall t, 0 < t -> mhn_neg_logacc b g m t <= 0).
Proof.
  intros lnGam a b g m x Hb Hg Hm Hx. split; [apply mhn_neg_params; assumption|]. split.
  - apply mhn_negative_gamma_proportional; assumption.
  - intros t Ht. apply mhn_negative_gamma_acc_le_1; assumption.
Qed.
Print Assumptions C05_mhn_negative_gamma.

(* ---------------- non-vacuity ---------------- *)
Example C05_R_example : (3 - 2) * ln (mhn_mu 3 3 3) <= 0 /\ 0 < mhn_delta 1 2 3 < 2.
Proof. split; [exact mhn_normal_guard_example | apply mhn_delta_range; lra]. Qed.
