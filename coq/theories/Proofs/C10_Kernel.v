(* C10 -- the Gamma kernel identity, its converse (uniqueness), and the linear-algebra facts that connect
   "sqrtprec evaluated at unit hyper-parameter" with the target's own quadratic form.  All sizes. *)
From CV Require Import Base.Tac Base.LinAlg Model.C10_Conj Model.C10_ConjR.
From Coq Require Import Reals Lra RealField.
Open Scope R_scope.

(* ---------- instances of the generic list lemmas at R ---------- *)

Lemma Rmatvec_mscale c A v : Rmatvec (Rmscale c A) v = Rvscale c (Rmatvec A v).
Proof.
  unfold Rmatvec, Rmscale, Rvscale, matvec, vscale. rewrite !map_map.
  apply map_ext. intros row.
  exact (dot_vscale_l R 0 1 Rplus Rmult Rminus Ropp RTheory c row v).
Qed.

Lemma Rnormsq_vscale c v : Rnormsq (Rvscale c v) = c * c * Rnormsq v.
Proof. exact (normsq_vscale R 0 1 Rplus Rmult Rminus Ropp RTheory c v). Qed.

Lemma map_nth_seq {A} (v : list A) d : map (fun i => nth i v d) (seq 0 (length v)) = v.
Proof.
  apply nth_ext with (d := d) (d' := d).
  - rewrite map_length, seq_length. reflexivity.
  - intros n Hn. rewrite map_length, seq_length in Hn.
    rewrite nth_indep with (d' := nth 0 v d) by (rewrite map_length, seq_length; exact Hn).
    rewrite map_nth with (f := fun i => nth i v d) (d := 0%nat).
    rewrite seq_nth by exact Hn. simpl.
    apply nth_indep. exact Hn.
Qed.

Lemma Rmatvec_ident n v : length v = n -> Rmatvec (Rident n) v = v.
Proof.
  intros H. unfold Rmatvec, Rident, matvec. rewrite map_map.
  transitivity (map (fun i => nth i v 0) (seq 0 n)); [| subst n; apply map_nth_seq].
  apply map_ext_in. intros i Hi. apply in_seq in Hi.
  apply (dot_unit_vec R 0 1 Rplus Rmult Rminus Ropp RTheory); lia.
Qed.

Lemma Rvsub_swap x y : Rvsub x y = Rvscale (-1) (Rvsub y x).
Proof.
  revert y; induction x as [|a x IH]; intros [|b y]; simpl; try reflexivity.
  rewrite IH. f_equal. ring.
Qed.

Lemma Rmatvec_vscale A c v : Rmatvec A (Rvscale c v) = Rvscale c (Rmatvec A v).
Proof. exact (matvec_vscale R 0 1 Rplus Rmult Rminus Ropp RTheory A c v). Qed.

(* the sign of the residual is irrelevant: the sampler uses Ax - b, the density b - Ax *)
Lemma Rnormsq_matvec_swap L x y : Rnormsq (Rmatvec L (Rvsub x y)) = Rnormsq (Rmatvec L (Rvsub y x)).
Proof. rewrite (Rvsub_swap x y), Rmatvec_vscale, Rnormsq_vscale. ring. Qed.

Lemma Rvsub_length x y : length x = length y -> length (Rvsub x y) = length x.
Proof. exact (vsub_length R Rminus x y). Qed.

(* ||L v||^2 = v . (L^T L) v  (adjoint identity) *)
Lemma Rnormsq_matvec n L v : wf_mat n L -> length v = n ->
  Rnormsq (Rmatvec L v) = Rdot v (Rmattvec n L (Rmatvec L v)).
Proof. exact (normsq_matvec R 0 1 Rplus Rmult Rminus Ropp RTheory n L v). Qed.

(* ---------- the scalar kernel ---------- *)

Section Kernel.
Variable lnGamma : R -> R.
Notation gpdf := (gamma_logpdf lnGamma).

(* a log-likelihood of the form  (rank/2) ln s - s q/2 + c  times a Gamma(alpha, beta) prior is proportional
   to Gamma(rank/2 + alpha, q/2 + beta) *)
Lemma kernel_identity (rank q c alpha beta s s' : R) :
  (rank / 2 * ln s - s * (q / 2) + c) + gpdf alpha beta s - gpdf (rank / 2 + alpha) (q / 2 + beta) s
  = (rank / 2 * ln s' - s' * (q / 2) + c) + gpdf alpha beta s' - gpdf (rank / 2 + alpha) (q / 2 + beta) s'.
Proof. unfold gamma_logpdf. ring. Qed.

Lemma ln2_pos : 0 < ln 2.
Proof. rewrite <- ln_1. apply ln_increasing; lra. Qed.

Lemma ln4 : ln 4 = 2 * ln 2.
Proof. replace 4 with (2 * 2) by ring. rewrite ln_mult by lra. ring. Qed.

(* a ln s - r s constant on s > 0 forces a = r = 0 *)
Lemma log_linear_constant (a r : R) :
  (forall s s', 0 < s -> 0 < s' -> a * ln s - r * s = a * ln s' - r * s') -> a = 0 /\ r = 0.
Proof.
  intros H.
  pose proof (H 1 2 ltac:(lra) ltac:(lra)) as H12.
  pose proof (H 1 4 ltac:(lra) ltac:(lra)) as H14.
  rewrite ln_1 in H12, H14. rewrite ln4 in H14.
  pose proof ln2_pos as L2.
  assert (Ha : a * ln 2 = 0) by lra.
  assert (a = 0) as -> by (apply Rmult_integral in Ha as [Ha|Ha]; lra).
  split; lra.
Qed.

(* converse of kernel_identity: the proportional Gamma is unique *)
Lemma kernel_unique (rank q c alpha beta k r : R) :
  proportional_on_pos (fun s => (rank / 2 * ln s - s * (q / 2) + c) + gpdf alpha beta s) (gpdf k r) ->
  k = rank / 2 + alpha /\ r = q / 2 + beta.
Proof.
  intros H.
  destruct (log_linear_constant (rank / 2 + alpha - k) (q / 2 + beta - r)) as [Ha Hr].
  - intros s s' Hs Hs'. specialize (H s s' Hs Hs'). unfold gamma_logpdf in H. lra.
  - split; lra.
Qed.

End Kernel.
