(* C15 -- MAP/ML estimates are true maximisers; direct Gaussian sampling has exact moments.
   Property theorems only (model level, lists over Qc, every size); the matrix identities over an arbitrary field
   (push-through, Woodbury, uniqueness of the stationary point, covariance of the Cholesky draw) are in Props/C15_mc.v.

   Vocabulary (Model/C15_MAP.v, Proofs/C15_Top.v):
     map_direct fixed m n A b x0 ce cx   the closed-form branch of BayesianProblem.MAP as coded; ce, cx = what the
                                         .cov getters hand out (None = NotImplementedError); fixed = the code with
                                         fixes/C15_vector_cov.diff applied
     dense_of true k c                   the covariance matrix MEANT by a scalar / vector of variances / matrix
     cov_guard fixed ce cx               fixed = true, or neither covariance is a vector of length >= 2
     lg_wf, is_prec, pos_def             shapes; symmetric PSD left inverse of a covariance; positive definiteness
     post_grad / post_q                  gradient of the log-posterior / -2 log posterior + const, precision form *)
From CV Require Import Base.Tac Base.LinAlg Base.Cmp Base.QcLin Model.C15_MAP Proofs.C15_Lin Proofs.C15_MAP Proofs.C15_Top.
From Coq Require Import QArith Qcanon.
Local Open Scope Qc_scope.

(* The returned closed-form estimate is the maximiser of the posterior density: the forces balance
   (Ce z = b - A x and Cx A^T z = x - x0 for one z: the inverse-free form of "gradient = 0"), the gradient of the
   log-posterior vanishes for every precision pair, no point has larger posterior density, and the maximiser is unique
   when the prior precision is positive definite.  Guarded by the exact complement of the refuted class below. *)
Theorem C15_closed_form_is_posterior_mode :
  forall (fixed : bool) (m n : nat) (A : list (list Qc)) (b x0 : list Qc) (ce cx : covform) (x : list Qc),
  cov_guard fixed ce cx ->
  map_direct fixed m n A b x0 (Some ce) (Some cx) = Val x ->
  let Ce := dense_of true m ce in let Cx := dense_of true n cx in
  lg_wf m n A Ce Cx b ->
  length x = n /\
  (exists z, length z = m /\ qmatvec Ce z = qvsub b (qmatvec A x) /\ qmatvec Cx (qmattvec n A z) = qvsub x x0) /\
  forall Pe Px, is_prec m Ce Pe -> is_prec n Cx Px ->
    post_grad n A Pe Px b x0 x = qvzero n /\
    (forall y, length y = n -> post_q A Pe Px b x0 x <= post_q A Pe Px b x0 y) /\
    (pos_def n Px -> forall y, length y = n -> y <> x -> post_q A Pe Px b x0 x < post_q A Pe Px b x0 y).
Proof. exact closed_form_is_posterior_mode. Qed.
Print Assumptions C15_closed_form_is_posterior_mode.

(* finding BayesianProblem.MAP|direct:vector-noise-cov:row-broadcast -- the unrepaired code (fixed = false) with a
   vector of noise variances returns a point that is NOT the posterior mean; the repaired code returns the mean *)
Theorem C15_vector_noise_cov_refuted :
  exists m n A b x0 ce cx x y,
    is_plain_vector ce = true /\ is_plain_vector cx = false /\
    map_direct false m n A b x0 (Some ce) (Some cx) = Val x /\
    post_mean_exact m n A b x0 ce cx = Some y /\ x <> y /\
    map_direct true m n A b x0 (Some ce) (Some cx) = Val y.
Proof. exact vector_noise_cov_refuted. Qed.
Print Assumptions C15_vector_noise_cov_refuted.

(* finding BayesianProblem.MAP|direct:vector-prior-cov:dot-product -- the same for a vector of prior variances *)
Theorem C15_vector_prior_cov_refuted :
  exists m n A b x0 ce cx x y,
    is_plain_vector ce = false /\ is_plain_vector cx = true /\
    map_direct false m n A b x0 (Some ce) (Some cx) = Val x /\
    post_mean_exact m n A b x0 ce cx = Some y /\ x <> y /\
    map_direct true m n A b x0 (Some ce) (Some cx) = Val y.
Proof. exact vector_prior_cov_refuted. Qed.
Print Assumptions C15_vector_prior_cov_refuted.

(* what "posterior mean" means in the two witnesses: the solution of the normal equations H y = A^T Pe b + Px x0 *)
Theorem C15_posterior_mean_spec :
  forall (m n : nat) (A : list (list Qc)) (b x0 : list Qc) (ce cx : covform) (y : list Qc),
  post_mean_exact m n A b x0 ce cx = Some y ->
  exists Pe Px, qinv (dense_of true m ce) = Some Pe /\ qinv (dense_of true n cx) = Some Px /\
    qmatvec (post_prec n A Pe Px) y = post_rhs n A Pe Px b x0.
Proof. exact post_mean_exact_spec. Qed.
Print Assumptions C15_posterior_mean_spec.

(* ... spelled out as compositions (the assembled matrix A^T Pe A acts as A^T (Pe (A y)) for symmetric Pe):
   A^T Pe A y + Px y = A^T Pe b + Px x0 *)
Theorem C15_posterior_mean_normal_eq :
  forall (m n : nat) (A : list (list Qc)) (b x0 : list Qc) (ce cx : covform) (y : list Qc),
  post_mean_exact m n A b x0 ce cx = Some y ->
  exists Pe Px, qinv (dense_of true m ce) = Some Pe /\ qinv (dense_of true n cx) = Some Px /\
    (wf_mat n A -> length A = m -> wf_mat m Pe -> length Pe = m -> q_sym m Pe -> wf_mat n Px -> length Px = n ->
     length y = n ->
     qvadd (qmattvec n A (qmatvec Pe (qmatvec A y))) (qmatvec Px y) =
     qvadd (qmattvec n A (qmatvec Pe b)) (qmatvec Px x0)).
Proof. exact post_mean_exact_normal_eq. Qed.
Print Assumptions C15_posterior_mean_normal_eq.

(* "If a requested estimate cannot be computed correctly the call fails": Gaussians created with prec / sqrtcov /
   sqrtprec (no compute_cov() since) make MAP and the direct sampler raise, whichever of the two it is; a value is
   only ever returned with both covariances at hand; a length-1 prior mean with n > 1 raises *)
Theorem C15_refusal :
  forall (fixed : bool) (m n : nat) (A : list (list Qc)) (b x0 : list Qc) (p : gparam) (c : covform) (other : option covform),
  p <> PCov ->
  map_direct fixed m n A b x0 (cov_getter p c None) other = ENotImpl /\
  map_direct fixed m n A b x0 other (cov_getter p c None) = ENotImpl /\
  sample_direct fixed m n A b x0 (cov_getter p c None) other = SErr ENotImpl /\
  sample_direct fixed m n A b x0 other (cov_getter p c None) = SErr ENotImpl.
Proof. exact refusal. Qed.
Print Assumptions C15_refusal.

Theorem C15_value_needs_cov :
  forall (fixed : bool) (m n : nat) (A : list (list Qc)) (b x0 : list Qc) (ce cx : option covform) (x : list Qc),
  map_direct fixed m n A b x0 ce cx = Val x -> exists ce' cx', ce = Some ce' /\ cx = Some cx'.
Proof. exact value_needs_cov. Qed.
Print Assumptions C15_value_needs_cov.

Theorem C15_scalar_mean_refused :
  forall (fixed : bool) (m n : nat) (A : list (list Qc)) (b x0 : list Qc) (ce cx : covform),
  length x0 <> n -> map_direct fixed m n A b x0 (Some ce) (Some cx) = EValue.
Proof. exact scalar_mean_refused. Qed.
Print Assumptions C15_scalar_mean_refused.

(* direct sampling x = mu + L z: the offset is the closed-form MAP (hence, by the first theorem, the posterior mode)
   and the covariance the harness checks L L^T against is a two-sided inverse of the posterior precision
   A^T Pe A + Px built from right inverses Pe, Px of the covariances the code holds *)
Theorem C15_cholesky_draw :
  forall (fixed : bool) (m n : nat) (A : list (list Qc)) (b x0 : list Qc) (ce cx : covform) (mu : list Qc) (C : list (list Qc)),
  sample_direct fixed m n A b x0 (Some ce) (Some cx) = SLaw mu C ->
  map_direct fixed m n A b x0 (Some ce) (Some cx) = Val mu /\
  exists CeM CxM Pe Px,
    expand_cov fixed m ce = NMat CeM /\ expand_cov fixed n cx = NMat CxM /\
    qmatmul (length CeM) CeM Pe = qident (length CeM) /\ qmatmul (length CxM) CxM Px = qident (length CxM) /\
    let H := post_prec n A Pe Px in
    qmatmul (length H) H C = qident (length H) /\ qmatmul (length H) C H = qident (length H).
Proof. exact cholesky_draw_law. Qed.
Print Assumptions C15_cholesky_draw.

(* the factor read off from the scripted draws and accepted by the check is lower triangular *)
Theorem C15_read_off_factor_lower :
  forall L : list (list Qc), is_lower L = true ->
  forall i j, (i < length L)%nat -> (i < j)%nat -> nth j (nth i L []) 0 = 0.
Proof. exact is_lower_spec. Qed.
Print Assumptions C15_read_off_factor_lower.

(* route selection: the closed form is used exactly for Gaussian prior, Gaussian noise, LinearModel and both
   dimensions within MAX_DIM_INV; sample_posterior takes the direct route under exactly the same condition *)
Theorem C15_route :
  forall (P : pinfo) (d : nat),
  (map_route P d = RDirect <->
   p_prior P = DGaussian /\ p_lik P = DGaussian /\ p_model P = MLinear /\ (p_n P <= d)%nat /\ (p_m P <= d)%nat) /\
  sample_route_direct P d = match map_route P d with RDirect => true | ROptimiser => false end.
Proof. intros P d. split; [exact (map_route_direct_iff P d) | exact (sample_route_eq_map_route P d)]. Qed.
Print Assumptions C15_route.

(* _solve_max_point: L-BFGS-B exactly for a CMRF prior with a posterior gradient, else scipy's minimize; the start
   point is the given one or the ones vector; the gradient is handed over iff the density has one *)
Theorem C15_optimiser_setup :
  forall (P : pinfo) (g : bool) (x0 : option (list Qc)),
  (fst (fst (solve_max_point_setup P g x0)) = SLBFGSB <-> p_prior P = DCMRF /\ p_has_grad P = true) /\
  snd (fst (solve_max_point_setup P g x0)) = g /\
  snd (solve_max_point_setup P g x0) = match x0 with Some v => v | None => repeat 1 (p_n P) end.
Proof. intros P g x0. split; [exact (solver_choice P g x0) | split; reflexivity]. Qed.
Print Assumptions C15_optimiser_setup.

(* non-vacuity: a concrete 2x3 problem with full covariance matrices meets the hypotheses, and its closed-form
   estimate has zero posterior gradient *)
Example C15_example :
  exists x Pe Px, map_core 2 3 wA wb (qvec [1; 0; -1]%Q) (NMat eCe) (NMat eCx) = Val x /\
    qinv eCe = Some Pe /\ qinv eCx = Some Px /\
    post_grad 3 wA Pe Px wb (qvec [1; 0; -1]%Q) x = qvzero 3.
Proof. exact closed_example. Qed.
