import numpy as np, cuqi, traceback
from cuqi.samples import Samples, JointSamples
a = Samples(np.array([[40.,-39,19,30,3]]), is_par=False, is_vec=True)
b = Samples(np.array([[-40.,18,29,-24,3]]), is_par=False, is_vec=True)
a.median()
R = JointSamples({"x": b, "y": a}).burnthin(0, 1)
o2, o3 = R["x"], R["y"]
f = o3.funvals
f.ci_width(0)
print(o2.compute_rhat(o3))
f.median()
try:
    print(o2.compute_rhat(o3))
except Exception:
    traceback.print_exc()
print(vars(o2.geometry), vars(o3.geometry))
