import sys, os
sys.path.insert(0, "/verif/harness")
import common
from common import Ctx
repo = sys.argv[1] if len(sys.argv) > 1 else "/repo"
ctx = Ctx("C19", "quick", 0, repo)
cuqi = common.setup_python_env(repo)
import gen_C19 as g
import random
rng = random.Random(5)
tot = 0; mx = 0; fails = 0
for h in range(60):
    m = g.gen_history(rng, h, 10, plots=(h % 4 == 3))
    c, res = g.history_case(cuqi, m)
    tot += len(c.expr); mx = max(mx, len(c.expr))
    if res["fail"]:
        fails += 1
        if fails <= 3: print(c.signature, res["fail"][:1500])
print("avg expr", tot // 60, "max", mx, "fails", fails)
if len(sys.argv) > 2:
    m = g.gen_history(rng, 3, 10, plots=True); c, res = g.history_case(cuqi, m); print(c.expr[:3000]); print(m["ops"])
