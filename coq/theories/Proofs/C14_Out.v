(* C14 -- hand-outs are values: later operations leave every earlier output unchanged, and every earlier chain is a
   prefix of every later one (no checkpoint load / reinitialize in between). *)
From CV Require Import Base.Tac Base.Cmp Model.C14_Chain Model.C14_Out Proofs.C14_Chain.

Section OutProofs.
Variables Cfg St Rnd Pt Acc : Type.
Variable step : Cfg -> St -> Rnd -> St * Acc.
Variable tune : Cfg -> St -> list Acc -> nat -> nat -> St.
Variable point : St -> Pt.
Notation sampler := (@sampler St Pt Acc).
Notation run_ops := (run_ops Cfg St Rnd Pt Acc step tune point).
Notation outputs := (outputs Cfg St Rnd Pt Acc step tune point).

Lemma outputs_app c ops1 : forall (s : sampler) ops2,
  outputs c s (ops1 ++ ops2) = outputs c s ops1 ++ outputs c (run_ops c s ops1) ops2.
Proof.
  induction ops1 as [|o ops1 IH]; intros s ops2; [reflexivity|].
  cbn [app C14_Out.outputs]. rewrite IH. reflexivity.
Qed.

Lemma outputs_length c ops : forall s : sampler, length (outputs c s ops) = length ops.
Proof. induction ops as [|o ops IH]; intros s; cbn; [reflexivity|]. rewrite IH. reflexivity. Qed.

(* whatever is done afterwards, the outputs handed out so far are what they were *)
Lemma outputs_stable c (s : sampler) ops1 ops2 :
  firstn (length ops1) (outputs c s (ops1 ++ ops2)) = outputs c s ops1.
Proof.
  rewrite outputs_app, <- (outputs_length c ops1 s), firstn_app, Nat.sub_diag, firstn_all. cbn [firstn].
  apply app_nil_r.
Qed.

(* the j-th output is the chain recorded after the first j+1 operations *)
Lemma outputs_nth c ops : forall (s : sampler) j d, (j < length ops)%nat ->
  nth j (outputs c s ops) d = smp (run_ops c s (firstn (S j) ops)).
Proof.
  induction ops as [|o ops IH]; intros s j d Hj; cbn in Hj; [lia|].
  destruct j as [|j]; [reflexivity|].
  cbn [C14_Out.outputs nth firstn]. rewrite IH by lia. reflexivity.
Qed.

(* an earlier chain is a prefix of every later chain of the same sampler *)
Lemma run_ops_app c ops1 ops2 (s : sampler) : run_ops c s (ops1 ++ ops2) = run_ops c (run_ops c s ops1) ops2.
Proof. unfold C14_Chain.run_ops. apply fold_left_app. Qed.

Lemma outputs_prefix c (s : sampler) ops1 ops2 :
  exists tail, smp (run_ops c s (ops1 ++ ops2)) = smp (run_ops c s ops1) ++ tail /\ length tail = ops_len Rnd ops2.
Proof.
  rewrite run_ops_app.
  destruct (run_ops_grows Cfg St Rnd Pt Acc step tune point c ops2 (run_ops c s ops1)) as (t & L & S & _).
  exists t. split; assumption.
Qed.

(* Gibbs: each returned chain is a prefix of the next one *)
Lemma gibbs_prefix c init warm stored rs :
  exists tail, gibbs_sample Cfg St Rnd Acc step c init warm stored rs = stored ++ tail /\ length tail = length rs.
Proof.
  unfold gibbs_sample. eexists. split; [reflexivity|]. apply (states_length Cfg St Rnd Acc step).
Qed.

Lemma gibbs_outputs_app c init warm calls1 : forall stored calls2,
  gibbs_outputs Cfg St Rnd Acc step c init warm stored (calls1 ++ calls2) =
  gibbs_outputs Cfg St Rnd Acc step c init warm stored calls1 ++
  gibbs_outputs Cfg St Rnd Acc step c init warm
    (fold_left (gibbs_sample Cfg St Rnd Acc step c init warm) calls1 stored) calls2.
Proof.
  induction calls1 as [|rs calls1 IH]; intros stored calls2; [reflexivity|].
  cbn [app C14_Out.gibbs_outputs fold_left]. rewrite IH. reflexivity.
Qed.
End OutProofs.
