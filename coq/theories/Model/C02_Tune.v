(* C02 -- the scale adaptation (tune) of MH / CWMH / PCN (experimental `tune`, legacy `_sample_adapt`):
     zeta       = 1/sqrt(update_count+1)
     scale_temp = exp(log(scale_temp) + zeta*(hat_acc - star_acc))         (per component for CWMH)
     scale      = min(scale_temp, 1)
   over R (no proofs here; Proofs/C02_Tune.v).  hat_acc is the mean of the acceptance flags of the window. *)
From Coq Require Import Reals List ZArith.
Import ListNotations.
Local Open Scope R_scope.

Definition zeta (k : Z) : R := 1 / sqrt (IZR k).                 (* k = update_count + 1 *)
Definition hat_acc (accepted total : Z) : R := IZR accepted / IZR total.
Definition tune_temp (lam : R) (k : Z) (h star : R) : R := exp (ln lam + zeta k * (h - star)).
Definition tune_scale (lam : R) (k : Z) (h star : R) : R := Rmin (tune_temp lam k h star) 1.

Definition star_mh : R := 234 / 1000.
Definition star_pcn : R := 44 / 100.
Definition star_cw (dim : Z) : R := 21 / 100 / IZR dim + 23 / 100.

(* a run of adaptation steps: windows given as (accepted, total); returns the list of scales after each step *)
Fixpoint tune_seq (lam : R) (k : Z) (star : R) (windows : list (Z * Z)) : list R :=
  match windows with
  | [] => []
  | (a, n) :: r => let t := tune_temp lam k (hat_acc a n) star in Rmin t 1 :: tune_seq t (k + 1) star r
  end.
