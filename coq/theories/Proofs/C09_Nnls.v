(* C09 -- the model's RegularizedLinearRTO draw minimises the perturbed least-squares objective over the non-negative orthant. *)
From CV Require Import Base.Tac Base.Cmp Base.LinAlg Base.QcLin Model.C09_Rto Model.C09_Nnls Proofs.C09_Rto.
From Coq Require Import QArith Qcanon.
Local Open Scope Qc_scope.

Lemma first_some_in {A B} (f : A -> option B) l b : first_some f l = Some b -> exists a, In a l /\ f a = Some b.
Proof.
  induction l as [|a l IH]; cbn; [discriminate | ].
  destruct (f a) as [b0|] eqn:E.
  - intros H; injection H as <-. exists a. split; [left; reflexivity | exact E].
  - intros H. destruct (IH H) as (a0 & Hin & Hf). exists a0. split; [right; exact Hin | exact Hf].
Qed.

Lemma nnls_draw_kkt n re x : nnls_draw n re = Some x -> kkt_ok n re x = true.
Proof.
  unfold nnls_draw. intros H. destruct (first_some_in _ _ _ H) as (mask & _ & Hc).
  unfold candidate in Hc. destruct (rto_draw _ _) as [xf|]; [ | discriminate].
  destruct (kkt_ok n re (expand mask xf)) eqn:E; [ | discriminate]. injection Hc as <-. exact E.
Qed.

Lemma qc_leb_le a b : qc_leb a b = true -> a <= b.
Proof. unfold qc_leb, Qcle. apply Qle_bool_iff. Qed.

Lemma qdot_compl x : forall g, forallb (fun p => qc_eqb (fst p * snd p) 0) (combine x g) = true -> qdot x g = 0.
Proof.
  unfold qdot. induction x as [|a x IH]; intros [|b g]; cbn [combine forallb dot fst snd]; try reflexivity.
  intros H. apply andb_true_iff in H. destruct H as (H1 & H2). apply qc_eqb_eq in H1. rewrite H1, (IH g H2). ring.
Qed.

Lemma qdot_nonneg y : forall g, (forall a, In a y -> 0 <= a) -> (forall b, In b g -> 0 <= b) -> 0 <= qdot y g.
Proof.
  unfold qdot. induction y as [|a y IH]; intros [|b g] Hy Hg; cbn [dot]; try apply Qcle_refl.
  replace 0 with (0 + 0) by ring. apply Qcplus_le_compat.
  - apply Qcmult_le_0_compat; [apply Hy; left; reflexivity | apply Hg; left; reflexivity].
  - apply IH; intros c Hc; [apply Hy | apply Hg]; right; exact Hc.
Qed.

Lemma forallb_leb l : forallb (fun a => qc_leb 0 a) l = true -> forall a, In a l -> 0 <= a.
Proof. intros H a Ha. apply qc_leb_le. exact (proj1 (forallb_forall _ _) H a Ha). Qed.

Lemma nrm_lhs_length n re x : rows_wf n re -> length (nrm_lhs n re x) = n.
Proof. intros H. unfold nrm_lhs, qmattvec. apply mattvec_length. apply rows_wf_mat. exact H. Qed.
Lemma nrm_rhs_length n re : rows_wf n re -> length (nrm_rhs n re) = n.
Proof. intros H. unfold nrm_rhs, qmattvec. apply mattvec_length. apply rows_wf_mat. exact H. Qed.

Lemma qdot_pgrad n re x v : rows_wf n re -> length v = n ->
  qdot v (pgrad n re x) = Bform re x v - F0form re v - Nform re v.
Proof.
  intros Hwf Hv. unfold pgrad, qdot, qvsub.
  rewrite (dot_vsub_r Qc 0 1 Qcplus Qcmult Qcminus Qcopp Qcrt) by (rewrite nrm_lhs_length, nrm_rhs_length by exact Hwf; reflexivity).
  fold qdot. rewrite (weak_lhs n re x v Hwf Hv), (weak_rhs n re v Hwf Hv). ring.
Qed.

Lemma half_two : Q2Qc (1 # 2) * (1 + 1) = 1.
Proof. apply Qc_is_canon. reflexivity. Qed.

(* KKT => global minimiser over the orthant (the objective is convex: w >= 0) *)
Theorem kkt_optimal n re x : rows_wf n re -> Forall (fun p => 0 <= ls_w (fst p)) re -> kkt_ok n re x = true ->
  length x = n /\ (forall a, In a x -> 0 <= a) /\
  forall y, length y = n -> (forall a, In a y -> 0 <= a) -> pobj re x <= pobj re y.
Proof.
  intros Hwf Hw Hk. unfold kkt_ok in Hk.
  apply andb_true_iff in Hk. destruct Hk as (Hk & Hc).
  apply andb_true_iff in Hk. destruct Hk as (Hk & Hg).
  apply andb_true_iff in Hk. destruct Hk as (Hl & Hx).
  apply Nat.eqb_eq in Hl. split; [exact Hl | ]. split; [exact (forallb_leb x Hx) | ].
  intros y Hy Hy0.
  pose proof (qdot_pgrad n re x y Hwf Hy) as Gy. pose proof (qdot_pgrad n re x x Hwf Hl) as Gx.
  rewrite (qdot_compl x _ Hc) in Gx.
  pose proof (qdot_nonneg y (pgrad n re x) Hy0 (forallb_leb _ Hg)) as Py. rewrite Gy in Py.
  set (S := rsum (fun p => ls_w (fst p) * ((qdot (ls_a (fst p)) y - qdot (ls_a (fst p)) x) * (qdot (ls_a (fst p)) y - qdot (ls_a (fst p)) x))) re).
  assert (HS : 0 <= S).
  { apply rsum_nonneg. intros p Hp. apply Qcmult_le_0_compat; [exact (proj1 (Forall_forall _ _) Hw p Hp) | apply Qc_sq_nonneg]. }
  assert (Hh : 0 <= Q2Qc (1 # 2)) by (unfold Qcle; cbn; discriminate).
  pose proof (Qcmult_le_0_compat _ _ Hh HS) as HhS.
  assert (E : pobj re y = pobj re x + (Q2Qc (1 # 2) * S + (Bform re x y - F0form re y - Nform re y))).
  { unfold pobj, qcond. rewrite (square_identity re y x). fold S.
    pose proof half_two as H2. revert H2. generalize (Q2Qc (1 # 2)). intros h H2.
    transitivity (- - h * rsum (fun p => ls_w (fst p) * ((ls_c (fst p) - qdot (ls_a (fst p)) x) * (ls_c (fst p) - qdot (ls_a (fst p)) x))) re - Nform re x
                  + (h * S + (h * (1 + 1)) * (Bform re x y - F0form re y - Nform re y) - (h * (1 + 1)) * (Bform re x x - F0form re x - Nform re x)
                     + (h * (1 + 1) - 1) * (Nform re y - Nform re x))).
    - ring.
    - rewrite H2, <- Gx. ring. }
  rewrite E. replace (pobj re x) with (pobj re x + 0) at 1 by ring.
  apply Qcplus_le_compat; [apply Qcle_refl | ].
  replace 0 with (0 + 0) by ring. apply Qcplus_le_compat; assumption.
Qed.

Theorem nnls_draw_optimal n re x : rows_wf n re -> Forall (fun p => 0 <= ls_w (fst p)) re -> nnls_draw n re = Some x ->
  length x = n /\ (forall a, In a x -> 0 <= a) /\
  forall y, length y = n -> (forall a, In a y -> 0 <= a) -> pobj re x <= pobj re y.
Proof. intros Hwf Hw Hd. exact (kkt_optimal n re x Hwf Hw (nnls_draw_kkt n re x Hd)). Qed.

(* non-vacuity: rows whose unconstrained solution has a negative entry; the constrained draw exists and differs *)
Definition ex_nn : noisy :=
  [(mkLS [Q2Qc 1; Q2Qc 0] (Q2Qc 4) (Q2Qc 2) (Q2Qc (-1)), Q2Qc (1 # 2));
   (mkLS [Q2Qc 1; Q2Qc 1] (Q2Qc 4) (Q2Qc 2) (Q2Qc 3), Q2Qc (-1));
   (mkLS [Q2Qc 0; Q2Qc 1] (Q2Qc 1) (Q2Qc 1) (Q2Qc 0), Q2Qc 2)].
Lemma ex_nn_ok : rows_wf 2 ex_nn /\ Forall (fun p => 0 <= ls_w (fst p)) ex_nn /\
  (exists x, nnls_draw 2 ex_nn = Some x /\ rto_draw 2 ex_nn <> Some x).
Proof.
  split; [repeat constructor | ].
  split; [repeat constructor; unfold Qcle; cbn; discriminate | ].
  eexists. split; [vm_compute; reflexivity | vm_compute; discriminate].
Qed.
