(* C05 -- covariance of an affine image of a standard normal vector, for matrices of every size over
   any field (mathcomp / ssreflect style; logical path CVmc).

   A draw is  s = mu + T e  with  e ~ N(0, I), so  Cov s = T T^T.  What the sampler must achieve is
   Cov s = (S^T S)^-1  where S is the stored square root of the precision (the density is
   exp(-1/2 |S (x - mu)|^2)).  The solver selected by Gaussian._sample returns T with  S_eff T = I. *)
From mathcomp Require Import all_ssreflect all_algebra.
Set Implicit Arguments.
Unset Strict Implicit.
Unset Printing Implicit Defensive.
Import GRing.Theory.
Local Open Scope ring_scope.

Section Cov.
Variable F : fieldType.

Lemma trmx_scale m n (a : F) (A : 'M[F]_(m, n)) : (a *: A)^T = a *: A^T.
Proof. by apply/matrixP=> i j; rewrite !mxE. Qed.

(* S T = I  =>  (S^T S) (T T^T) = I *)
Lemma prec_times_cov n (S T : 'M[F]_n) : S *m T = 1%:M -> (S^T *m S) *m (T *m T^T) = 1%:M.
Proof.
move=> H.
have H' : T *m S = 1%:M by exact: (mulmx1C H).
by rewrite mulmxA -(mulmxA S^T S T) H mulmx1 -trmx_mul H' trmx1.
Qed.

(* ... hence the precision is invertible and the covariance of the draws is its inverse *)
Theorem gaussian_cov n (S T : 'M[F]_n) :
  S *m T = 1%:M -> (S^T *m S) \in unitmx /\ T *m T^T = invmx (S^T *m S).
Proof.
move=> H; have P := prec_times_cov H.
have [U _] := mulmx1_unit P.
split=> //.
by rewrite -[LHS](mulKmx U) P mulmx1.
Qed.

(* the same with the mean: the map e |-> mu + T e sends 0 to mu (offset) and is T on differences *)
Lemma affine_offset n (mu : 'cV[F]_n) (T : 'M[F]_n) : mu + T *m 0 = mu.
Proof. by rewrite mulmx0 addr0. Qed.

Lemma affine_linear n m (mu : 'cV[F]_n) (T : 'M[F]_(n, m)) (e1 e2 : 'cV[F]_m) :
  (mu + T *m e1) - (mu + T *m e2) = T *m (e1 - e2).
Proof. by rewrite mulmxBr opprD addrACA subrr add0r. Qed.

(* GMRF, zero boundary: s = mu + (1/r) U^-1 e with U = L^T, L L^T = P, r^2 = prec:
   with T the read-off map,  r L^T T = I  =>  (prec P) (T T^T) = I *)
Theorem gmrf_zero_cov n (L P T : 'M[F]_n) (r prec : F) :
  L *m L^T = P -> r * r = prec -> (r *: L^T) *m T = 1%:M ->
  (prec *: P) *m (T *m T^T) = 1%:M.
Proof.
move=> HL Hr H.
have E : (r *: L^T)^T *m (r *: L^T) = prec *: P.
  by rewrite trmx_scale trmxK -scalemxAl -scalemxAr scalerA Hr HL.
by rewrite -E; exact: prec_times_cov.
Qed.

(* GMRF, neumann boundary: s = mu + (1/r) (L L^T)^-1 D^T e,  L L^T = P + eps I (regularised), P = D^T D.
   With A = r (L L^T):  A T = D^T  =>  A (T T^T) A^T = D^T D = P, i.e. the covariance is the
   (eps-regularised) generalised inverse of the density's precision: P_eps C P_eps = P / prec. *)
Theorem sandwich_cov n m (A : 'M[F]_n) (T B : 'M[F]_(n, m)) :
  A *m T = B -> A *m (T *m T^T) *m A^T = B *m B^T.
Proof. by move=> H; rewrite mulmxA H -mulmxA -trmx_mul H. Qed.

Theorem gmrf_neumann_cov n m (Pe : 'M[F]_n) (D : 'M[F]_(m, n)) (T : 'M[F]_(n, m)) (r prec : F) :
  r * r = prec -> (r *: Pe) *m T = D^T ->
  (prec *: Pe) *m (T *m T^T) *m Pe^T = D^T *m D.
Proof.
move=> Hr H.
have := sandwich_cov H.
rewrite trmxK trmx_scale -!scalemxAl -scalemxAr scalerA Hr => <-.
by [].
Qed.

(* the defective branch, abstractly: if the solver inverts another matrix S' than the one the density uses,
   the covariance is that of S', and it equals the wanted one only if S'^T S' = S^T S *)
Theorem wrong_matrix_cov n (S S' T : 'M[F]_n) :
  S' *m T = 1%:M -> (S^T *m S) *m (T *m T^T) = 1%:M -> S'^T *m S' = S^T *m S.
Proof.
move=> H H2.
have [_ E] := gaussian_cov H.
have [U _] := mulmx1_unit (prec_times_cov H).
have [U2 _] := mulmx1_unit H2.
have E2 : T *m T^T = invmx (S^T *m S) by rewrite -[LHS](mulKmx U2) H2 mulmx1.
have : invmx (S'^T *m S') = invmx (S^T *m S) by rewrite -E -E2.
by move/(congr1 invmx); rewrite !invmxK.
Qed.

(* --- deepening round 2 --- *)
(* neumann boundary with the regularisation eps as a variable: for EVERY eps (the code uses sqrt(machine eps)), with
   Pe = P + eps I, P = D^T D, r^2 = prec and the sampler's map T = (r Pe)^-1 D^T, the covariance C = T T^T satisfies
   prec Pe C Pe = P exactly, and therefore
        prec P C P = P - prec (eps (P C + C P) + eps^2 C):
   the deviation from the generalised-inverse identity prec P C P = P is explicit and vanishes with eps.
   (The limit itself -- C converges to the pseudo-inverse of prec P as eps -> 0 -- needs a norm bound on C and is not proved.) *)
Theorem gmrf_neumann_cov_eps n m (D : 'M[F]_(m, n)) (T : 'M[F]_(n, m)) (r prec eps : F) :
  let P := D^T *m D in let Pe := P + eps%:M in let C := T *m T^T in
  r * r = prec -> (r *: Pe) *m T = D^T ->
  (prec *: Pe) *m C *m Pe = P /\
  prec *: (P *m C *m P) = P - prec *: (eps *: (P *m C + C *m P) + (eps * eps) *: C).
Proof.
move=> P Pe C Hr H.
have PeT : Pe^T = Pe.
  by rewrite /Pe /P linearD /= trmx_mul trmxK tr_scalar_mx.
have E1 : (prec *: Pe) *m C *m Pe = P.
  by have := gmrf_neumann_cov Hr H; rewrite PeT.
split=> //.
have X : Pe *m C *m Pe = P *m C *m P + (eps *: (P *m C + C *m P) + (eps * eps) *: C).
  rewrite /Pe !mulmxDl !mulmxDr !mul_scalar_mx !mul_mx_scalar.
  by rewrite -scalemxAl scalerA scalerDr -!addrA.
have E2 : prec *: (Pe *m C *m Pe) = P by rewrite -E1 -!scalemxAl.
by apply/eqP; rewrite eq_sym subr_eq -scalerDr -X E2.
Qed.

(* the correct pairing for a spectral (DFT-type) sampler: if P = U L U^T with U orthogonal (real Fourier basis) and the
   sampler's covariance is C = U W2 U^T, then prec-free  P C P = P  holds as soon as each weight is paired with the
   eigenvalue OF THE SAME basis vector:  L W2 L = L  (w_k^2 lambda_k^2 = lambda_k; zero eigenvalues impose nothing).
   The code pairs eigsh-sorted eigenvalues with DFT frequencies instead (C05_gmrf_periodic_cov_refuted). *)
Theorem spectral_pairing n (U L W2 : 'M[F]_n) :
  U^T *m U = 1%:M -> L *m W2 *m L = L ->
  let P := U *m L *m U^T in let C := U *m W2 *m U^T in P *m C *m P = P.
Proof.
move=> HU HL P C; rewrite /P /C.
have E : forall A B : 'M[F]_n, (U *m A *m U^T) *m (U *m B *m U^T) = U *m (A *m B) *m U^T.
  by move=> A B; rewrite !mulmxA -(mulmxA (U *m A)) HU mulmx1.
by rewrite E E HL.
Qed.

End Cov.
