(* C12 -- PDEModel inside the model: the forward callable assemble/solve/observe is a function of the input alone
   whatever state the PDE object is in, the checked solver returns THE solution, and the representation theorem
   holds for PDE models without any guard. *)
From CV Require Import Base.Tac Base.LinAlg Base.QcLin Base.Cmp Model.C12_Model Model.C12_Jac Model.C12_Pde
     Proofs.C12_Model Proofs.C12_Chain Proofs.C12_Instances.
From Coq Require Import QArith Qcanon Ring.
Local Open Scope Qc_scope.

(* ---- the PDE object's state does not matter ---------------------------------------------------- *)
Theorem pde_forward_is_function_of_input P slv st x :
  fst (pde_forward_func P slv st x) = Ok (f_apply (pde_fwd P slv) x) /\
  snd (pde_forward_func P slv st x) = Some (pde_form P x).
Proof.
  unfold pde_forward_func, pde_assemble, pde_solve, pde_fwd. cbn [fst snd f_apply].
  destruct (pde_form P x) as [Aop rhs]. split; reflexivity.
Qed.

Corollary pde_forward_history_independent P slv st st' x :
  fst (pde_forward_func P slv st x) = fst (pde_forward_func P slv st' x).
Proof.
  rewrite (proj1 (pde_forward_is_function_of_input P slv st x)),
          (proj1 (pde_forward_is_function_of_input P slv st' x)). reflexivity.
Qed.

(* a whole sample collection on one PDE object: every column's observation is what that column gives on a fresh object (in
   any order, from any initial state), and the object ends in the state of the LAST column *)
Theorem pde_columns_are_independent P slv st cols :
  fst (pde_forward_columns P slv st cols) = map (fun x => Ok (f_apply (pde_fwd P slv) x)) cols /\
  snd (pde_forward_columns P slv st cols) = match rev cols with x :: _ => Some (pde_form P x) | [] => st end.
Proof.
  revert st; induction cols as [|x r IH]; intros st; [split; reflexivity|].
  cbn [pde_forward_columns].
  destruct (pde_forward_func P slv st x) as [y st1] eqn:E1.
  pose proof (pde_forward_is_function_of_input P slv st x) as [Hy Hs]. rewrite E1 in Hy, Hs. cbn [fst snd] in Hy, Hs.
  destruct (pde_forward_columns P slv st1 r) as [ys st2] eqn:E2.
  specialize (IH st1). rewrite E2 in IH. cbn [fst snd] in IH. destruct IH as [IH1 IH2]. cbn [fst snd map]. split.
  - rewrite Hy, IH1. reflexivity.
  - rewrite IH2. cbn [rev]. destruct (rev r) as [|z l] eqn:Er; cbn [app]; [exact Hs | reflexivity].
Qed.

(* ---- linear algebra for the checked solver ------------------------------------------------------ *)
Lemma qdot_cons a r b h : qdot (a :: r) (b :: h) = a * b + qdot r h.
Proof. reflexivity. Qed.

Lemma qdot_vzero_l n h : qdot (qvzero n) h = 0.
Proof. apply (dot_vzero_l Qc 0 1 Qcplus Qcmult Qcminus Qcopp Qcrt). Qed.

Lemma matvec_cons0 B b h : qmatvec (map (cons 0) B) (b :: h) = qmatvec B h.
Proof.
  unfold qmatvec, matvec. rewrite map_map. apply map_ext. intros r. fold qdot. rewrite qdot_cons. ring.
Qed.

(* diag(s) h = s * h *)
Lemma matvec_diag s h : length h = length s -> qmatvec (diagmat s) h = vmul s h.
Proof.
  revert h; induction s as [|a s IH]; intros [|b h] H; simpl in H; try discriminate; [reflexivity|].
  cbn [diagmat]. change (qmatvec ((a :: qvzero (length s)) :: map (cons 0) (diagmat s)) (b :: h))
    with (qdot (a :: qvzero (length s)) (b :: h) :: qmatvec (map (cons 0) (diagmat s)) (b :: h)).
  rewrite matvec_cons0, IH by lia. rewrite qdot_cons, qdot_vzero_l. cbn [vmul]. f_equal. ring.
Qed.

Lemma vmul_repeat1 x : vmul (repeat 1 (length x)) x = x.
Proof. induction x as [|a x IH]; [reflexivity|]. cbn [length repeat vmul]. rewrite IH. f_equal. ring. Qed.

Lemma matvec_idmat n x : length x = n -> qmatvec (idmat n) x = x.
Proof.
  intros H. unfold idmat. rewrite matvec_diag by (rewrite repeat_length; exact H). subst n. apply vmul_repeat1.
Qed.

Lemma qdot_comm x y : qdot x y = qdot y x.
Proof. apply (dot_comm Qc 0 1 Qcplus Qcmult Qcminus Qcopp Qcrt). Qed.

(* (A B) x = A (B x): B has n columns *)
Lemma matvec_matmul n (A B : mat) x : wf_mat n B -> length x = n ->
  qmatvec (qmatmul n A B) x = qmatvec A (qmatvec B x).
Proof.
  intros HB Hx. unfold qmatmul, matmul, qmatvec, matvec. rewrite map_map. apply map_ext. intros row.
  change (qdot (qmattvec n B row) x = qdot row (qmatvec B x)).
  rewrite (qdot_comm (qmattvec n B row) x), (qdot_comm row (qmatvec B x)).
  symmetry. apply (qc_adjoint n B x row HB Hx).
Qed.

Lemma is_inverse_spec n L A : is_inverse n L A = true ->
  length A = n /\ length L = n /\ wf_mat n A /\ wf_mat n L /\ qmatmul n L A = idmat n /\ qmatmul n A L = idmat n.
Proof.
  unfold is_inverse. intros H. repeat (apply andb_prop in H; destruct H as [H ?]).
  repeat split; try (apply Nat.eqb_eq; assumption); try (apply lin_wf_spec; assumption); apply qcll_eqb_eq; assumption.
Qed.

(* the checked solver returns a solution, and every solution is the one it returns *)
Theorem model_solve_correct n A rhs : inv_ok n A = true -> length rhs = n ->
  qmatvec A (model_solve n A rhs) = rhs /\
  (forall u, length u = n -> qmatvec A u = rhs -> u = model_solve n A rhs).
Proof.
  unfold inv_ok, model_solve. destruct (gauss_inv n A) as [L|]; [|discriminate]. intros H Hr.
  destruct (is_inverse_spec n L A H) as (LA & LL & WA & WL & E1 & E2). split.
  - rewrite <- (matvec_matmul n A L rhs WL Hr), E2. apply matvec_idmat. exact Hr.
  - intros u Hu Hsol. rewrite <- Hsol, <- (matvec_matmul n L A u WA Hu), E1. symmetry. apply matvec_idmat. exact Hu.
Qed.

(* hence ANY linear solver that returns a solution of the right size agrees with the model's on certified operators
   (scipy.linalg.solve up to rounding: exact in the exact cells, 1e-9 in the tolerance class) *)
Corollary any_solver_agrees n A rhs (slv : mat -> vec -> vec) : inv_ok n A = true -> length rhs = n ->
  length (slv A rhs) = n -> qmatvec A (slv A rhs) = rhs -> slv A rhs = model_solve n A rhs.
Proof. intros H Hr Hl Hs. apply (proj2 (model_solve_correct n A rhs H Hr)); assumption. Qed.

(* the generated PDE_form: the model's forward value is A0 phi(x) + b0, passed through the observation map *)
Theorem pde_case_forward n (xdep : bool) T A0 cs b0 obs x :
  inv_ok n (if xdep then pde_xop T x else T) = true -> length (poly_forward A0 cs b0 x) = n ->
  f_apply (pde_fwd (mkPde (pde_case_form xdep T A0 cs b0) obs) (model_solve n)) x =
  match obs with Some f => f (poly_forward A0 cs b0 x) | None => poly_forward A0 cs b0 x end.
Proof.
  intros Hok Hl. unfold pde_fwd, pde_case_form, pde_observe. cbn [f_apply fst snd pde_form pde_obsmap].
  set (Aop := if xdep then pde_xop T x else T) in *.
  assert (E : model_solve n Aop (qmatvec Aop (poly_forward A0 cs b0 x)) = poly_forward A0 cs b0 x).
  { assert (Lr : length (qmatvec Aop (poly_forward A0 cs b0 x)) = n).
    { unfold qmatvec. rewrite matvec_length. unfold inv_ok in Hok. destruct (gauss_inv n Aop) as [L|]; [|discriminate].
      apply is_inverse_spec in Hok. tauto. }
    symmetry. apply (proj2 (model_solve_correct n Aop _ Hok Lr)); [exact Hl | reflexivity]. }
  rewrite E. reflexivity.
Qed.

(* ---- PDE models: every representation of the input gives the same output, with NO guard ---------- *)
Theorem pde_representations_agree q P slv rg dg p fv :
  g_par2fun dg p = Ok fv ->
  let F := pde_fwd P slv in
  forward q F rg dg (InVec p) true = rmap (out_of false rg) (core F rg fv) /\
  forward q F rg dg (InVec fv) false = rmap (out_of false rg) (core F rg fv) /\
  (forall flag, forward q F rg dg (InArr dg true p) flag = rmap (out_of true rg) (core F rg fv)) /\
  (forall flag, forward q F rg dg (InArr dg false fv) flag = rmap (out_of true rg) (core F rg fv)) /\
  (* ... and that common value is the observation of the PDE object's own assemble/solve/observe run on fv, from any state *)
  (forall st, rmap (fun y => g_fun2par rg y) (fst (pde_forward_func P slv st fv)) = Ok (core F rg fv)).
Proof.
  intros H F.
  destruct (forward_representations_agree q F rg dg p fv H) as (H1 & H2 & H3 & H4); [intros K; discriminate K|].
  repeat split; try assumption.
  intros st. rewrite (proj1 (pde_forward_is_function_of_input P slv st fv)). reflexivity.
Qed.

(* Samples through a PDE model: column by column, each column as a single vector (the PDE object is re-assembled
   per column; by pde_forward_history_independent the order of the columns does not matter) *)
Theorem pde_samples_columnwise q P slv rg dg cols outs :
  forward q (pde_fwd P slv) rg dg (InSamples false cols) true = Ok (OutSamples rg outs) <->
  Forall2 (fun c o => forward q (pde_fwd P slv) rg dg (InVec c) true = Ok (out_of false rg o)) cols outs.
Proof. apply forward_samples_columnwise. destruct (q_samples_par q); reflexivity. Qed.

(* non-vacuity: a row-swapped, scaled 3x3 operator is certified; a parameter-dependent unit triangular one too *)
Example pde_example :
  inv_ok 3 (qmat [[0#1; 2#1; 0#1]; [1#1; 0#1; 0#1]; [1#2; 1#1; 4#1]]) = true /\
  inv_ok 3 (pde_xop (qmat [[1#1; 0#1; 0#1]; [-1#1; 1#1; 0#1]; [1#1; 1#1; 1#1]]) (qvec [1#2; -2#1; 3#1])) = true /\
  inv_ok 2 (qmat [[1#1; 2#1]; [2#1; 4#1]]) = false.
Proof. vm_compute. repeat split; reflexivity. Qed.
