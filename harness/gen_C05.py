"""C05 -- direct samples follow the distribution's own density and the given random stream.

Correspondence of cuqi.distribution.*._sample / Distribution.sample with Model/C05_Sample.v (exact, Q) and
Model/C05_SampleR.v (real-valued, one `interval` proof per case):
  * Gaussian / GMRF / Lognormal: scripted standard normals 0, e_i read off the affine map (offset, T); the model checks
    the certificate law of the solver its faithful selection picks (S_eff T = I, L L^T = P, ...);
  * univariate families: the generator call (which generator, which fields, which size) is recorded and compared;
  * ModifiedHalfNormal: proposal parameters, scheme selection and accept/reject decisions under scripted proposals;
  * the wrapper: kinds/shapes/geometry for N = 1, 2, 5 and the refusal of conditional distributions;
  * RNG isolation: facts extracted by tr_rngflow.py (coq/gen/Gen_C05.v, re-proved on every run) + behaviour.
Independent oracle (never a copy of the code): covariance T T^T against the Hessian of the SAME object's logd;
reference densities of the generator as called against the object's logpdf; acceptance probabilities read off by
bisection against target/proposal ratios; global numpy state before/after; shapes from the property text."""
import io, os, sys, contextlib, math, warnings, itertools, tempfile
from fractions import Fraction
import numpy as np
from common import *
import tr_rngflow

IMPORTS = ("From CV Require Import Base.Cmp Model.C05_Sample Model.C05_SampleR Model.C05_Push Model.C05_EpsLaw.\n"
           "From Coq Require Import Lra.\n"
           "From Coq Require Import QArith Reals.\nFrom Interval Require Import Tactic.\n"
           "From Coq Require String. Import String.StringSyntax.\nOpen Scope string_scope. Open Scope R_scope.")
RULE = ("lattice: Gaussian {sqrtprec,prec,cov,sqrtcov} x {scalar,vector,diag,lower,upper,nearly-lower,full(non)symmetric,sparse} "
        "x mean {scalar,vector} x dim {1..6, thorough 74..77} x interface {rng object, global numpy, N=1 calls}; GMRF bc {zero,"
        "neumann,periodic} x order {0,1,2} x dim (1-d 3..8, 2-d 3x3/4x4) x prec; univariate families x {scalar,vector,mixed} "
        "parameters x N {1,2,5} x {rng,global}; MHN three schemes x accept/reject; wrapper N {1,2,5} per family + conditional "
        "distributions; rng isolation per class; push/<family> x {scalar,vector} x {RandomState,PCG64,MT19937,global state} x N {1,3,dim} "
        "(twin stream of base variates); gmrf-eps-law {neumann,periodic} x order {0,1,2} x {1d,2d}; mhn-layout {vector,scalar} x dim {1,2,3} "
        "x N {1,2,3}. distinct = distinct (configuration, numbers); trivial = identity square root "
        "with zero mean, and bookkeeping cases carrying only an oracle verdict")

SIG_TRI = "Gaussian._sample|sqrtprec:lower-tri-nondiag"
SIG_PER = "GMRF._sample|periodic:dft-eigenvalue-pairing"
SIG_N1 = "GMRF._sample|N=1:neumann-periodic-broadcast"
SIG_MHN_ACC = "ModifiedHalfNormal._MHN_sample_normal_proposal|acceptance-above-one"
SIG_MHN_DIM = "ModifiedHalfNormal._sample|dim>1"
SIG_UDD = "UserDefinedDistribution._sample|rng-ignored"
SIG_TINY = "Gaussian._sample|sqrtprec:tiny-entries-judged-triangular"


def quiet(f, *a, **k):
    with contextlib.redirect_stdout(io.StringIO()), warnings.catch_warnings():
        warnings.simplefilter("ignore")
        return f(*a, **k)


def failing_input(cls, as_list=False):
    """an exception raised by the implementation inside a VALID cell is a failing input of the property (the sampler does
    not deliver draws), to be reported with its own replay -- not a crash of the generator"""
    def deco(fn):
        import functools, traceback
        @functools.wraps(fn)
        def wrapped(ctx, meta, *a, **k):
            try:
                return fn(ctx, meta, *a, **k)
            except Exception as e:
                tb = traceback.extract_tb(e.__traceback__)
                where = next(("%s:%d %s" % (os.path.basename(f.filename), f.lineno, f.name) for f in reversed(tb)
                              if "cuqi" in f.filename), "harness")
                name = cls(meta) if callable(cls) else cls
                c = Case(expr="false", meta=meta, cell="%s/raises" % name, kind="DECISION",
                         impl_fail="%s: %s: %s (raised at %s) in a cell where the implementation is expected to deliver draws"
                                   % (name, type(e).__name__, str(e)[:160], where),
                         signature="%s._sample|raises:%s" % (name, type(e).__name__))
                return [c] if as_list else c
        return wrapped
    return deco


def dy(rng, lo=-4, hi=4, den=4):
    """small dyadic number"""
    return rng.randint(lo * den, hi * den) / den


def fmat(M):
    return [[frac(x) for x in row] for row in np.asarray(M, dtype=float)]


def cqm(M):
    return cqmat(fmat(np.atleast_2d(M)))


def cqv(v):
    return cqvec([frac(x) for x in np.asarray(v, dtype=float).ravel()])


def dense(A):
    import scipy.sparse as spa
    return A.toarray() if spa.issparse(A) else np.asarray(A, dtype=float)


# ------------------------------------------------------------------------------------------------
# scripted generators
# ------------------------------------------------------------------------------------------------
class NormalScript:
    """rng object for Gaussian/GMRF: randn / standard_normal return the queued arrays"""
    def __init__(self, arrays):
        self.q = [np.array(a, dtype=float) for a in arrays]
        self.calls = []

    def _pop(self, shape):
        a = self.q.pop(0)
        assert tuple(a.shape) == tuple(shape), "scripted shape %s requested %s" % (a.shape, shape)
        return a.copy()

    def randn(self, *shape):
        self.calls.append(("randn", tuple(int(s) for s in shape)))
        return self._pop(shape)

    def standard_normal(self, shape):
        self.calls.append(("standard_normal", tuple(int(s) for s in shape)))
        return self._pop(shape)


def read_affine(d, m, ncalls=1, mode="rng"):
    """offset and linear part of z |-> d._sample(., z): scripted normals [0 | e_1 .. e_m] (per randn call: block k active)"""
    blocks = []
    for k in range(ncalls):
        Z = np.zeros((m, 1 + ncalls * m))
        Z[:, 1 + k * m: 1 + (k + 1) * m] = np.eye(m)
        blocks.append(Z)
    N = 1 + ncalls * m
    if mode == "rng":
        scr = NormalScript(blocks)
        s = quiet(d._sample, N, rng=scr)
        calls = scr.calls
    elif mode == "global":
        scr = NormalScript(blocks)
        def script(kind, a, k, idx):
            if kind == "randn":
                return scr.randn(*a)
            if kind == "standard_normal":
                return scr.standard_normal(*a)
            raise AssertionError("unexpected global generator " + kind)
        with ScriptedRandom(script=script) as SR:
            s = quiet(d._sample, N)
        calls = scr.calls
    elif mode == "N1":
        cols, calls = [], []
        for j in range(N):
            scr = NormalScript([b[:, j:j + 1] for b in blocks])
            c = np.asarray(quiet(d._sample, 1, rng=scr))
            cols.append(c.reshape(-1, 1) if c.ndim == 1 else c)
            calls = scr.calls
        s = np.hstack(cols)
    else:
        raise ValueError(mode)
    s = np.asarray(s, dtype=float)
    off = s[:, 0].copy()
    T = s[:, 1:] - off[:, None]
    return off, T, calls


def hessian_of_logd(d, n, center=None, step=1.0):
    """-Hessian of the object's own log-density (exact second differences of a quadratic up to rounding); `step` is a power of
    two chosen so that the quadratic term is O(1) whatever the scale of the parameters"""
    c = np.zeros(n) if center is None else np.asarray(center, dtype=float)
    if step != 1.0:
        E = np.eye(n) * step
        def f1(x):
            try:
                v = d.logd(x)
                if not np.all(np.isfinite(np.ravel(v))) and hasattr(d, "_logupdf"):
                    v = d._logupdf(x)
            except NotImplementedError:
                v = d._logupdf(x)
            return float(np.ravel(v)[0])
        f0 = f1(c); fi = [f1(c + E[i]) for i in range(n)]
        H = np.zeros((n, n))
        for i in range(n):
            for j in range(i, n):
                H[i, j] = H[j, i] = -(f1(c + E[i] + E[j]) - fi[i] - fi[j] + f0) / step ** 2
        return H
    def f(x):
        try:
            v = d.logd(x)
            if not np.all(np.isfinite(np.ravel(v))) and hasattr(d, "_logupdf"):
                v = d._logupdf(x)       # normalising constant inf/nan (e.g. logdet over stored DIA padding, C04's finding): the
                                        # un-normalised log-density has the same quadratic form
        except NotImplementedError:
            v = d._logupdf(x)
        return float(np.ravel(v)[0])
    f0 = f(c)
    if not np.isfinite(f0):
        # the object's normalising constant is nan (GMRF neumann order 2, C20's finding) and there is no un-normalised density:
        # take the quadratic form from the gradient the same object reports,  H e_i = -(grad(c + e_i) - grad(c))
        g0 = np.asarray(d.gradient(c), dtype=float).ravel()
        H = np.column_stack([-(np.asarray(d.gradient(c + np.eye(n)[i]), dtype=float).ravel() - g0) for i in range(n)])
        return 0.5 * (H + H.T)
    fi = [f(c + np.eye(n)[i]) for i in range(n)]
    H = np.zeros((n, n))
    for i in range(n):
        for j in range(i, n):
            H[i, j] = H[j, i] = -(f(c + np.eye(n)[i] + np.eye(n)[j]) - fi[i] - fi[j] + f0)
    return H


def cov_defect(H, T, tol):
    """|H C H - H| relative: zero iff the draws' covariance C = T T^T is the (generalised) inverse of the density's precision"""
    C = T @ T.T
    R = H @ C @ H - H
    if not (np.all(np.isfinite(H)) and np.all(np.isfinite(R))):
        return float("inf"), tol          # a density that cannot be evaluated never passes silently
    hmax = float(np.abs(H).max())
    return float(np.abs(R).max() / (hmax if hmax > 0 else 1.0)), tol      # relative at every scale


def split_verdict(c):
    """bin/check does not look at a model disagreement of a case that already carries an oracle failure.  Inside the
    defect classes the model reproduces faithfully (triangular solve, periodic DFT, single-draw broadcast) the two
    must stay separate: the correspondence case goes without verdict, the verdict goes into a bookkeeping case."""
    if not c.impl_fail:
        return [c]
    m2 = dict(c.meta); m2["verdict_only"] = True
    v = Case(expr="true", meta=m2, cell=c.cell + "/verdict", trivial=True, kind="DECISION", impl_fail=c.impl_fail, signature=c.signature)
    c.impl_fail, c.signature = None, ""
    return [c, v]


FAITHFUL_CLASSES = (SIG_TRI, SIG_PER, SIG_N1, SIG_TINY)


# ------------------------------------------------------------------------------------------------
# Gaussian
# ------------------------------------------------------------------------------------------------
def rand_lower(rng, n, unit=False):
    L = np.zeros((n, n))
    for i in range(n):
        if n > 10:          # large dimensions: banded and diagonally dominant, so that the condition number stays small
            L[i, i] = rng.choice([1.0, 2.0, 1.5])
            for j in range(max(0, i - 2), i):
                L[i, j] = rng.choice([0, 0.25, -0.25, 0.5])
            continue
        L[i, i] = 1.0 if unit else rng.choice([1.0, 2.0, 0.5, 1.5, -1.0, 4.0])
        for j in range(i):
            L[i, j] = rng.choice([0, 0, 1, -1, 0.5, -0.5, 2, 0.25])
    if n > 1 and not np.any(np.tril(L, -1)):
        L[n - 1, 0] = 1.0
    return L


def well_conditioned(M, cap=2e3):
    try:
        return np.linalg.cond(M) < cap
    except Exception:
        return False


def rand_matrix(rng, n, shape):
    for _ in range(200):
        if shape == "diag":
            M = np.diag([rng.choice([1.0, 2.0, 0.5, 4.0, 0.25, 1.5, 3.0]) for _ in range(n)])
        elif shape == "lower":
            M = rand_lower(rng, n)
        elif shape == "upper":
            M = rand_lower(rng, n).T.copy()
        elif shape == "nearly-lower":
            M = rand_lower(rng, n)
            for i in range(n):
                for j in range(i + 1, n):
                    M[i, j] = rng.choice([2.0 ** -30, -2.0 ** -31, 2.0 ** -28])
        elif shape == "almost-lower":      # upper entries small but far above every tolerance: must take the general solve
            M = rand_lower(rng, n)
            for i in range(n):
                for j in range(i + 1, n):
                    M[i, j] = rng.choice([2.0 ** -12, -2.0 ** -18, 2.0 ** -22, 2.0 ** -7])
        elif shape == "full":
            M = rand_lower(rng, n) + np.triu(rand_lower(rng, n).T, 1)
        elif shape == "spd":
            A = rand_lower(rng, n) + np.triu(rand_lower(rng, n).T, 1)
            M = A.T @ A + np.eye(n)
        else:
            raise ValueError(shape)
        if well_conditioned(M):
            return M
    raise RuntimeError("no well-conditioned matrix")


def input_precision(meta, n):
    """precision matrix implied by the constructor arguments (documented meaning of cov / prec / sqrtprec), computed from the
    numbers in the case description alone; None where the documented meaning and the code's convention differ (sqrtcov)"""
    form, shp, val = meta["form"], meta["shape"], meta["value"]
    if meta.get("mean_variant") or form == "sqrtcov":
        return None
    if shp == "scalar":
        M = np.eye(n) * float(val)
    elif shp == "vector":
        M = np.diag(np.asarray(val, dtype=float))
    else:
        M = np.asarray(val, dtype=float)
    if form == "sqrtprec":
        return M.T @ M
    if form == "prec":
        return M
    if form == "cov":
        return np.linalg.inv(M)
    return None


def gaussian_configs(ctx):
    """(form, shape, sparse_input, dim) cells"""
    cfgs = []
    dims = [2, 3, 5] if not ctx.thorough else [1, 2, 3, 4, 5, 6]
    for n in dims:
        for form in ("sqrtprec", "prec", "cov", "sqrtcov"):
            shapes = ["scalar", "vector", "diag"]
            if form in ("sqrtprec", "sqrtcov"):
                shapes += ["lower", "upper", "full"] + (["nearly-lower", "almost-lower"] if form == "sqrtprec" else [])
            else:
                shapes += ["spd"]
            for shp in shapes:
                if n == 1 and shp not in ("scalar", "vector"):
                    continue
                cfgs.append((form, shp, False, n))
            if n >= 2:
                if form == "sqrtprec":
                    cfgs += [(form, "lower", True, n), (form, "upper", True, n), (form, "full", True, n), (form, "diag", True, n)]
                elif form in ("prec", "cov"):
                    cfgs.append((form, "spd", True, n))
    big = [75, 76] if not ctx.thorough else [74, 75, 76, 77]      # MIN_DIM_SPARSE = 75: `dim > 75` switches the storage
    for n in big:
        cfgs += [("sqrtprec", "vector", False, n), ("cov", "scalar", False, n)]
        if ctx.thorough:
            cfgs += [("sqrtprec", "lower", False, n), ("prec", "vector", False, n), ("sqrtprec", "upper", True, n)]
    return cfgs


SPARSE_FORMATS = ("dia", "csr", "csc", "coo", "bsr", "lil")
STRUCTURES = ("diag", "upper-bidiag", "lower-bidiag", "tridiag", "full")
DENSE_VARIANTS = {
    "matrix": lambda M: np.matrix(np.asarray(M, dtype=float)),                 # ndarray subclass
    "fortran": lambda M: np.asfortranarray(np.asarray(M, dtype=float)),        # column-major memory
    "int": lambda M: np.asarray(M).astype(int),                                # integer dtype
    "list": lambda M: np.asarray(M, dtype=float).tolist(),                     # nested python lists
    "float32": lambda M: np.asarray(M).astype(np.float32),
    "noncontig": lambda M: np.kron(np.asarray(M, dtype=float), np.ones((1, 2)))[..., ::2] if np.ndim(M) == 2
                 else np.repeat(np.asarray(M, dtype=float), 2)[::2],           # strided view
}
MEAN_VARIANTS = {       # name -> (constructor of the mean from a list of n floats, inside the documented domain?)
    "pyint": (lambda v: int(v[0]), True), "pyfloat": (lambda v: float(v[0]), True), "list": (lambda v: list(v), True),
    "intarr": (lambda v: np.array([int(x) for x in v]), True), "1elem": (lambda v: np.array([v[0]]), True),
    "tuple": (lambda v: tuple(v), True),
    "0d": (lambda v: np.array(v[0]), False), "col": (lambda v: np.array(v).reshape(-1, 1), False),
    "row": (lambda v: np.array(v).reshape(1, -1), False), "1x1": (lambda v: np.array([[v[0]]]), False),
    "matrixrow": (lambda v: np.matrix([v]), False),
}


def to_sparse(M, fmt):
    """dense M in the given scipy storage format.  DIA with bands is built the way the class docstring does it, by
    spdiags with FULL data rows (the entries DIA never reads are filled with the band's value, not with zero), so that
    the storage holds more numbers than the matrix has -- storage format and structure are different things."""
    import scipy.sparse as spa
    M = np.asarray(M, dtype=float)
    n = M.shape[0]
    if fmt == "dia":
        offs = [o for o in range(-(n - 1), n) if np.any(np.diag(M, o))]
        if len(offs) <= 3:
            data = np.zeros((len(offs), n))
            for k, o in enumerate(offs):
                dg = np.diag(M, o)
                row = np.full(n, dg[0])
                if o >= 0:
                    row[o:] = dg
                else:
                    row[:n + o] = dg
                data[k] = row
            A = spa.spdiags(data, offs, n, n)
            assert np.array_equal(A.toarray(), M)
            return A
        return spa.dia_matrix(M)
    if fmt.endswith("_array"):          # scipy's sparse ARRAY classes: issparse() is true, isspmatrix_*() is false
        return getattr(spa, fmt)(M)
    return getattr(spa, fmt + "_matrix")(M)


def build_gaussian(meta):
    import cuqi, scipy.sparse as spa
    form, shp = meta["form"], meta["shape"]
    val = meta["value"]
    if shp == "scalar":
        v = float(val)
    elif shp == "vector":
        v = np.array(val, dtype=float)
    else:
        v = np.array(val, dtype=float)
        if meta.get("sparse_format"):
            v = to_sparse(v, meta["sparse_format"])
        elif meta["sparse_input"]:
            v = spa.csr_matrix(v)
    if meta.get("variant"):
        v = DENSE_VARIANTS[meta["variant"]](val)
    mean = meta["mean"]
    if meta.get("mean_variant"):
        mean = MEAN_VARIANTS[meta["mean_variant"]][0](mean if isinstance(mean, list) else [mean])
        return quiet(cuqi.distribution.Gaussian, mean, **{form: v})
    mean = float(mean) if not isinstance(mean, list) else np.array(mean, dtype=float)
    kw = {form: v}
    if isinstance(mean, float) and shp == "scalar":
        kw["geometry"] = meta["dim"]
    return quiet(cuqi.distribution.Gaussian, mean, **kw)


def gaussian_cases(ctx, cases):
    import scipy.sparse as spa
    rng = ctx.rng
    states = {}
    for (form, shp, sp_in, n) in gaussian_configs(ctx):
        reps = 1 if n > 10 else ctx.n(2, 4)
        for rep in range(reps):
            if shp == "scalar":
                val = rng.choice([1.0, 4.0, 0.25, 2.25, 2.0])
            elif shp == "vector":
                val = [rng.choice([1.0, 4.0, 0.25, 2.25, 2.0, 9.0]) for _ in range(n)]
            else:
                val = rand_matrix(rng, n, shp if shp != "spd" else "spd").tolist()
                if form in ("prec", "cov") and shp == "diag":
                    val = np.abs(np.array(val)).tolist()
            mean_kind = ["scalar", "vector"][rep % 2] if n > 1 else "vector"
            mean = dy(rng) if mean_kind == "scalar" else [dy(rng) for _ in range(n)]
            if rep == 0 and shp == "scalar" and not isinstance(mean, list):
                mean = 0.0
            iface = ["rng", "global", "N1"][(rep + n + len(form)) % 3] if n <= 10 else "rng"
            meta = {"op": "gaussian", "form": form, "shape": shp, "sparse_input": sp_in, "dim": n, "value": val, "mean": mean,
                    "mean_kind": mean_kind, "iface": iface}
            cases.extend(split_verdict(gaussian_case(ctx, meta, states)))
    ctx.note("gaussian: repair state per triangular case (1 = code as it stands, 2 = repaired, 3 = both agree): %s" % dict(states))


@failing_input('Gaussian')
def gaussian_case(ctx, meta, states=None):
    import scipy.sparse as spa
    n = meta["dim"]
    if meta.get("may_refuse"):
        # inputs the code may refuse (outside the documented domain, or refused by a proposed repair of another property):
        # an exception anywhere is a refusal; silently wrong draws are not
        try:
            d = build_gaussian(meta)
            S_st = d.sqrtprec
            off, T, calls = read_affine(d, n, 1, meta["iface"])
            hessian_of_logd(d, n, center=np.zeros(n))
            if np.asarray(d.mean).ndim != 1 or d.dim != n:
                raise ValueError("mean is stored with shape %s" % (np.shape(d.mean),))
        except Exception as e:
            return Case(expr="true", meta=meta, cell="gaussian/%s/refused" % meta.get("cellname", "input"), trivial=True, kind="DECISION")
    d = build_gaussian(meta)
    S_st = d.sqrtprec
    sparse = bool(spa.issparse(S_st))
    S = dense(S_st)
    off, T, calls = read_affine(d, n, 1, meta["iface"])
    mean = np.atleast_1d(np.asarray(d.mean, dtype=float))
    lower = bool(np.allclose(S, np.tril(S)))
    nondiag = bool(np.any(np.abs(S - np.diag(np.diag(S))) > 0))
    branch = "sparse" if sparse else ("tri" if lower else "general")
    cell = "gaussian/%s:%s%s/%s/%s" % (meta["form"], meta["shape"], "(sparse)" if meta["sparse_input"] else "", branch,
                                       "big" if n > 10 else "small")
    if meta.get("cellname"):
        cell = "gaussian/%s/%s/%s" % (meta["cellname"], branch, "big" if n > 10 else "small")
    expr = "check_gauss %s %s %s %s %s" % (cbool(sparse), cqv(mean), cqm(S), cqv(off), cqm(T))
    if meta["form"] == "sqrtprec":
        v = meta["value"]
        f = ("(SPscalar %s)" % cq(v)) if meta["shape"] == "scalar" else ("(SPvector %s)" % cqv(v)) if meta["shape"] == "vector" \
            else "(SPmatrix %s)" % cqm(v)
        expr += " && check_stored %s %s %s" % (cnat(n), f, cqm(S))
    expected_calls = [("randn", (n, n + 1))] if meta["iface"] != "N1" else [("randn", (n, 1))]
    expr += " && %s" % cbool(calls == expected_calls)
    # independent oracle: covariance of the draws vs the Hessian of the same object's log-density; offset vs its mode
    bm = np.repeat(mean, n) if len(mean) == 1 else mean
    H = hessian_of_logd(d, n, center=np.zeros(n) if "hstep" not in meta else bm, step=float(meta.get("hstep", 1.0)))
    defect, tol = cov_defect(H, T, 1e-6)
    fail, sig = None, ""
    Hin = input_precision(meta, n)          # reference that does NOT come from the object under test
    full_lower_by_tolerance = (not sparse) and lower and bool(np.any(np.triu(S, 1)))
    if Hin is not None and not (float(np.abs(H - Hin).max()) <= (1e-4 if meta.get("variant") == "float32" else 1e-6) * float(np.abs(Hin).max())):
        fail = ("the object's logd is not the Gaussian log-density of the parameters it was given (%s:%s): Hessian differs from the "
                "precision implied by the constructor arguments by %.3g (relative)" % (meta["form"], meta["shape"],
                float(np.abs(H - Hin).max() / np.abs(Hin).max())))
        sig = "Gaussian.logd|parameters:%s" % meta["form"]
    elif not np.allclose(off, bm, atol=1e-12):
        fail = "offset of the draws %s is not the mean %s" % (off, bm)
        sig = "Gaussian._sample|offset"
    elif defect > tol:
        fail = ("covariance of the draws T T^T is not the inverse of the precision implied by logd: |H C H - H|/|H| = %.3g "
                "(form %s:%s dim %d, stored sqrtprec %s)" % (defect, meta["form"], meta["shape"], n, branch))
        sig = SIG_TINY if full_lower_by_tolerance else SIG_TRI if (branch == "tri" and nondiag) \
            else "Gaussian._sample|covariance:%s:%s" % (meta["form"], branch)
    if states is not None and branch == "tri" and nondiag:
        st = 1 if np.allclose(np.triu(S) @ T, np.eye(n), atol=1e-9) else 0
        st += 2 if np.allclose(np.tril(S) @ T, np.eye(n), atol=1e-9) else 0
        states[st] = states.get(st, 0) + 1
    trivial = bool(np.array_equal(S, np.eye(n)) and not np.any(bm))
    return Case(expr=expr, meta=meta, cell=cell, trivial=trivial, kind="EXACT", impl_fail=fail, signature=sig)


def struct_matrix(rng, n, struct, spd=False):
    """well-conditioned (diagonally dominant) dyadic matrix with the given sparsity structure"""
    dg = np.array([rng.choice([1.0, 2.0, 1.5, 3.0]) for _ in range(n)])
    M = np.diag(dg)
    band = lambda: np.array([rng.choice([0.5, -0.25, 0.25, -0.5]) for _ in range(n - 1)])
    if spd:
        if struct == "tridiag":
            b = band()
            M = np.diag(dg + 1.0) + np.diag(b, 1) + np.diag(b, -1)
        elif struct == "full":
            A = np.array([[rng.choice([1, -1, 2, 3]) / 64.0 for _ in range(n)] for _ in range(n)])
            M = np.diag(dg + 3.0) + (A + A.T) / 2
        return M
    if struct in ("upper-bidiag", "tridiag"):
        M = M + np.diag(band(), 1)
    if struct in ("lower-bidiag", "tridiag"):
        M = M + np.diag(band(), -1)
    if struct == "tridiag":
        M = M + np.eye(n)
    if struct == "full":
        A = np.array([[rng.choice([1, -1, 2, 3]) / 64.0 for _ in range(n)] for _ in range(n)])
        M = np.diag(dg + 3.0) + A
    return M


def gaussian_format_cases(ctx, cases):
    """storage format x structure: every scipy sparse format holding every structure, for every parameterisation that
    accepts a sparse matrix, on both sides of the dense/sparse threshold (MIN_DIM_SPARSE = 75)"""
    rng = ctx.rng
    states = {}
    k = 0
    def emit(form, struct, fmt, n, iface):
        spd = form in ("prec", "cov")
        M = struct_matrix(rng, n, struct, spd=spd)
        meta = {"op": "gaussian", "form": form, "shape": struct, "sparse_input": True, "sparse_format": fmt, "dim": n,
                "value": M.tolist(), "mean": [dy(rng) for _ in range(n)] if n <= 10 else dy(rng), "mean_kind": "vector" if n <= 10 else "scalar",
                "iface": iface, "cellname": "%s:%s[%s]" % (form, struct, fmt),
                # refusals that are not this property's business: fixes/C04_gaussian_sqrtprec_dia_bands.diff may refuse banded DIA;
                # cuqi.utilities.sparse_cholesky refuses some valid sparse SPD matrices (SuperLU permutes rows although the
                # natural column order is requested, e.g. [[5,0,0,-1/128],[0,5.03125,0,1/128],[0,0,3.984375,0],[-1/128,1/128,0,4.015625]])
                "may_refuse": (fmt == "dia" and struct != "diag") or (spd and struct != "diag")}
        cases.extend(split_verdict(gaussian_case(ctx, meta, states)))
    forms = {"sqrtprec": STRUCTURES, "sqrtcov": STRUCTURES, "prec": ("diag", "tridiag", "full"), "cov": ("diag", "tridiag", "full")}
    small = [4] if not ctx.thorough else [3, 5, 6]
    for n in small:
        for form, structs in forms.items():
            for struct in structs:
                for fmt in SPARSE_FORMATS:
                    k += 1
                    emit(form, struct, fmt, n, ["rng", "global", "N1"][k % 3])
    # above the threshold (a sparse input takes the same route on both sides of it; each 77 x 77 case costs ~15 s of Coq
    # time, so the quick tier takes one banded case per storage format and the thorough tier the rest)
    bigs = [76, 77] if not ctx.thorough else [74, 75, 76, 77]
    banded = ("upper-bidiag", "lower-bidiag", "tridiag")
    big_cfgs = [("sqrtprec", banded[(i + ctx.seed) % 3], fmt) for i, fmt in enumerate(SPARSE_FORMATS)]
    if ctx.thorough:
        big_cfgs = [("sqrtprec", st, fmt) for st in banded for fmt in SPARSE_FORMATS]
        big_cfgs += [(form, "tridiag", fmt) for form in ("sqrtcov", "prec", "cov") for fmt in ("dia", "csr", "coo")]
        big_cfgs += [(form, "full", "csr") for form in forms] + [("sqrtprec", "diag", "dia"), ("sqrtprec", "full", "dia")]
    for (form, struct, fmt) in big_cfgs:
        k += 1
        emit(form, struct, fmt, bigs[k % len(bigs)], ["rng", "N1"][k % 2])


def gaussian_scale_cases(ctx, cases):
    """the same matrices at dyadic scales 2^k (standard deviations from 1e-12 to 1e12): every test in the code that uses an
    absolute tolerance sees them differently; comparisons here are relative (model: S_eff T = I; oracle: |HCH-H|/|H|)"""
    rng = ctx.rng
    states = {}
    n = 3
    k = 0
    for form, shape in (("sqrtprec", "full"), ("sqrtprec", "upper"), ("sqrtprec", "lower"), ("cov", "spd"), ("prec", "spd"),
                        ("sqrtcov", "full"), ("sqrtcov", "lower"), ("sqrtprec", "vector"), ("cov", "scalar")):
        for e in ((-40, -27, 20) if not ctx.thorough else (-40, -30, -27, -20, -10, 10, 20, 40)):
            k += 1
            if shape == "scalar":
                base = float(rng.choice([1, 4, 2]))
            elif shape == "vector":
                base = np.array([float(rng.choice([1, 4, 9, 2])) for _ in range(n)])
            else:
                base = int_matrix(rng, n, shape)
            # scale of the stored sqrtprec is 2^e: cov scales with 4^-e, prec with 4^e, sqrtcov with 2^-e
            f = {"sqrtprec": 2.0 ** e, "prec": 4.0 ** e, "cov": 4.0 ** (-e), "sqrtcov": 2.0 ** (-e)}[form]
            val = (np.asarray(base) * f).tolist() if shape != "scalar" else base * f
            meta = {"op": "gaussian", "form": form, "shape": shape, "sparse_input": False, "dim": n, "value": val,
                    # the mean lives on the scale of the standard deviations (2^-e), so that the read-off T = draws - offset
                    # keeps its relative accuracy
                    "mean": [dy(rng) * 2.0 ** (-e) for _ in range(n)], "mean_kind": "vector", "iface": ["rng", "global", "N1"][k % 3],
                    "hstep": 2.0 ** (-e), "cellname": "%s:%s*2^%d" % (form, shape, e)}
            cases.extend(split_verdict(gaussian_case(ctx, meta, states)))


def int_matrix(rng, n, shape):
    for _ in range(200):
        L = np.zeros((n, n))
        for i in range(n):
            L[i, i] = rng.choice([1, 2, -1, 4])
            for j in range(i):
                L[i, j] = rng.choice([0, 1, -1, 2])
        if not np.any(np.tril(L, -1)):
            L[n - 1, 0] = 1
        if shape == "lower":
            M = L
        elif shape == "upper":
            M = L.T.copy()
        elif shape == "full":
            M = L + np.triu(np.roll(L, 1, axis=0).T, 1)
        elif shape == "spd":
            M = L.T @ L + np.eye(n)
        if well_conditioned(M, 500):
            return M
    raise RuntimeError("no well-conditioned integer matrix")


def gaussian_variant_cases(ctx, cases):
    """representation x content: the same numbers as ndarray subclasses, column-major / strided memory, integer and single
    precision dtypes, nested lists; and the mean in every scalar / 0-d / 1-d / 2-d guise"""
    rng = ctx.rng
    states = {}
    k = 0
    n = 3
    for variant in DENSE_VARIANTS:
        for form, shape in (("sqrtprec", "lower"), ("sqrtprec", "upper"), ("sqrtprec", "full"), ("cov", "spd"), ("prec", "spd"),
                            ("sqrtcov", "lower"), ("sqrtcov", "full"), ("cov", "vector"), ("sqrtprec", "vector")):
            for rep in range(ctx.n(1, 3)):
                k += 1
                if shape == "vector":
                    if variant == "matrix":
                        continue
                    val = [float(rng.choice([1, 4, 9, 2])) for _ in range(n)]
                else:
                    val = int_matrix(rng, n, shape).tolist()
                meta = {"op": "gaussian", "form": form, "shape": shape, "sparse_input": False, "variant": variant, "dim": n, "value": val,
                        "mean": [float(rng.randint(-3, 3)) for _ in range(n)], "mean_kind": "vector", "iface": ["rng", "global", "N1"][k % 3],
                        "cellname": "%s:%s<%s>" % (form, shape, variant)}
                cases.extend(split_verdict(gaussian_case(ctx, meta, states)))
    for mv, (_, in_domain) in MEAN_VARIANTS.items():
        for form, shape in (("sqrtprec", "upper"), ("cov", "spd"), ("cov", "vector")):
            k += 1
            val = int_matrix(rng, n, shape).tolist() if shape != "vector" else [float(rng.choice([1, 4, 9, 2])) for _ in range(n)]
            meta = {"op": "gaussian", "form": form, "shape": shape, "sparse_input": False, "mean_variant": mv, "dim": n, "value": val,
                    "mean": [float(rng.randint(-3, 3)) for _ in range(n)], "mean_kind": mv, "iface": ["rng", "global", "N1"][k % 3],
                    "cellname": "%s:%s|mean=%s" % (form, shape, mv), "may_refuse": not in_domain}
            cases.extend(split_verdict(gaussian_case(ctx, meta, states)))


def exact_matrix(rng, n, shape):
    """power-of-two diagonal, small dyadic off-diagonal entries: triangular / diagonal solves are exact in binary64"""
    M = np.diag([rng.choice([1.0, 2.0, 0.5, -1.0, 4.0, -0.25]) for _ in range(n)])
    for i in range(n):
        for j in range(n):
            if (shape == "upper" and j > i) or (shape == "lower" and j < i):
                M[i, j] = rng.choice([0, 1, -1, 0.5, 2, -0.25])
    if shape != "diag" and not np.any(M - np.diag(np.diag(M))):
        M[(0, n - 1) if shape == "upper" else (n - 1, 0)] = 1.0
    return M


@failing_input('Gaussian')
def gaussian_exact_case(ctx, meta):
    """EXACT comparison (no tolerance): S T = T S = I over Q, every draw = mean + T z over Q, and columns of the public
    sample(N) with N == dim are the draws for the columns of the scripted normals in order"""
    import scipy.sparse as spa
    d = build_gaussian(meta)
    n = meta["dim"]
    S = dense(d.sqrtprec)
    off, T, _ = read_affine(d, n, 1, meta["iface"])
    mean = np.atleast_1d(np.asarray(d.mean, dtype=float))
    Z = np.array(meta["Z"], dtype=float)                      # n x n scripted normals, not symmetric
    w = quiet(d.sample, n, rng=NormalScript([Z]))             # public entry point, N == dim
    cols = np.asarray(w.samples, dtype=float)
    expr = "check_gauss_exact %s %s %s %s" % (cqv(mean), cqm(S), cqv(off), cqm(T))
    for j in range(n):
        expr += " && check_draw_exact %s %s %s %s" % (cqv(off), cqm(T), cqv(Z[:, j]), cqv(cols[:, j]))
    # independent reference: exact inverse of the matrix GIVEN to the constructor, in rational arithmetic
    Sin = [[frac(x) for x in row] for row in meta["value"]] if meta["shape"] != "vector" else \
        [[frac(meta["value"][i]) if i == j else Fraction(0) for j in range(n)] for i in range(n)]
    Tf = [[frac(x) for x in row] for row in T]
    prod = [[sum(Sin[i][k] * Tf[k][j] for k in range(n)) for j in range(n)] for i in range(n)]
    fail = None
    if prod != [[Fraction(int(i == j)) for j in range(n)] for i in range(n)]:
        fail = "the linear part of the draws is not the exact inverse of the given sqrtprec (dyadic data, exact solves)"
    else:
        mf = [frac(x) for x in (np.repeat(mean, n) if len(mean) == 1 else mean)]
        for j in range(n):
            ref = [mf[i] + sum(Tf[i][k] * frac(Z[k, j]) for k in range(n)) for i in range(n)]
            if [frac(x) for x in cols[:, j]] != ref:
                fail = "column %d of sample(N=%d) is not the draw for column %d of the normals (N == dim)" % (j, n, j)
                break
    return Case(expr=expr, meta=meta, cell="gaussian-exact/%s%s" % (meta["shape"], "(sparse)" if meta.get("sparse_format") else ""),
                kind="EXACT", impl_fail=fail, signature="Gaussian._sample|exact" if fail else "")


def gaussian_exact_cases(ctx, cases):
    rng = ctx.rng
    k = 0
    for n in ((3, 4) if not ctx.thorough else (2, 3, 4, 5)):
        # sparse LU (SuperLU) is not exact to the last bit even on triangular dyadic matrices (observed 1 ulp on a 5 x 5 lower
        # CSC matrix), so the sparse EXACT cells are the diagonal ones; dense triangular solves are exact
        for shape, fmt in (("diag", None), ("upper", None), ("lower", None), ("vector", None), ("diag", "csr"), ("diag", "dia"),
                           ("diag", "coo")):
            for rep in range(ctx.n(1, 3)):
                k += 1
                if shape == "vector":
                    val = [rng.choice([1.0, 2.0, 0.5, 4.0, 0.25]) for _ in range(n)]
                else:
                    val = exact_matrix(rng, n, shape).tolist()
                meta = {"op": "gauss_exact", "form": "sqrtprec", "shape": shape, "sparse_input": bool(fmt), "sparse_format": fmt, "dim": n,
                        "value": val, "mean": [dy(rng) for _ in range(n)] if k % 3 else dy(rng), "mean_kind": "vector",
                        "iface": ["rng", "global", "N1"][k % 3], "Z": [[rng.randint(-8, 8) / 4 for _ in range(n)] for _ in range(n)]}
                cases.append(gaussian_exact_case(ctx, meta))


def refusal_cases(ctx, cases):
    """classes of the anchored files that have no direct sampler: they must refuse, not return something"""
    import cuqi
    D = cuqi.distribution
    specs = {"JointGaussianSqrtPrec": lambda: D.JointGaussianSqrtPrec([np.zeros(2), np.zeros(2)], [np.eye(2), 2 * np.eye(2)]),
             "UserDefined(no sample_func)": lambda: D.UserDefinedDistribution(dim=2, logpdf_func=lambda x: -0.5 * np.sum(x ** 2)),
             "Gallery(donut)": lambda: D.DistributionGallery("donut"), "Gallery(banana)": lambda: D.DistributionGallery("banana"),
             "SmoothedLaplace": lambda: D.SmoothedLaplace(np.zeros(2), 1.0, 0.25)}     # _sample raises NotImplementedError: no transformation to model
    for name, mk in specs.items():
        for N in (1, 3):
            try:
                d = quiet(mk)
                w = quiet(d.sample, N, rng=np.random.RandomState(0))
                fail = "%s.sample(%d) returned %s although the class has no direct sampler" % (name, N, type(w).__name__)
            except Exception as e:
                fail = None
            cases.append(Case(expr=cbool(fail is None), meta={"op": "refusal", "name": name, "N": N}, cell="refusal/%s" % name, kind="DECISION",
                              trivial=True, impl_fail=fail, signature="Distribution.sample|no-sampler-but-draws" if fail else ""))


ENTRY_SPECS = [["Normal", [0.0, 1.0, -1.0], 2.0], ["Normal", 0.5, 2.0], ["Gamma", [1.0, 2.0, 3.0], [1.0, 1.0, 2.0]],
               ["Gaussian", [0.0, 1.0], "sqrtprec", [[2.0, 1.0], [0.0, 1.0]]], ["GMRF", [0.0, 0.0, 0.0, 0.0], 2.0, "zero", 1],
               ["GMRF", [0.0, 0.0, 0.0, 0.0], 2.0, "neumann", 1], ["Beta", 2.0, 3.0], ["Uniform", [0.0, 1.0, 2.0], [1.0, 3.0, 5.0]],
               ["Lognormal", [0.0, 1.0], 1.0], ["Laplace", 0.0, 1.0], ["Cauchy", [0.0, 1.0, 2.0], 1.0], ["InverseGamma", 3.0, 1.0, 2.0]]


@failing_input(lambda m: m['spec'][0])
def entry_case(ctx, meta):
    """every way of calling the entry point sample(N=1, rng=None): N omitted, positional, keyword, numpy integer; rng positional or
    keyword -- same seeded generator => identical result, of the kind the property prescribes"""
    spec, seed = meta["spec"], meta["seed"]
    d = build_named(spec)
    RS = lambda: np.random.RandomState(seed)
    raw1 = np.asarray(quiet(d._sample, 1, rng=RS()))
    raw3 = np.asarray(quiet(d._sample, 3, rng=RS()))
    ones = {"sample(rng=g)": quiet(d.sample, rng=RS()), "sample(1, g)": quiet(d.sample, 1, RS()),
            "sample(N=1, rng=g)": quiet(d.sample, N=1, rng=RS()), "sample(np.int64(1), rng=g)": quiet(d.sample, np.int64(1), rng=RS()),
            "sample(np.int32(1), g)": quiet(d.sample, np.int32(1), RS())}
    threes = {"sample(3, g)": quiet(d.sample, 3, RS()), "sample(N=3, rng=g)": quiet(d.sample, N=3, rng=RS()),
              "sample(np.int64(3), rng=g)": quiet(d.sample, np.int64(3), rng=RS())}
    exprs, fail = [], None
    for nm, w in ones.items():
        exprs.append("check_wrap false 1%%nat %s %s" % (enc_raw(raw1), enc_wrapped(w)))
        fail = fail or (("%s: " % nm) + shape_verdict(d, w, 1) if shape_verdict(d, w, 1) else None)
    for nm, w in threes.items():
        exprs.append("check_wrap false 3%%nat %s %s" % (enc_raw(raw3), enc_wrapped(w)))
        fail = fail or (("%s: " % nm) + shape_verdict(d, w, 3) if shape_verdict(d, w, 3) else None)
    if not fail:
        # the wrapper must hand on the numbers _sample produced, bit for bit (same generator state)
        for nm, w in ones.items():
            if not np.array_equal(np.ravel(np.asarray(w)).astype(float), np.ravel(raw1)) or np.asarray(w).dtype != raw1.dtype:
                fail = "%s does not hold the numbers (dtype %s) that _sample produced under the same generator state (dtype %s)" % (nm, np.asarray(w).dtype, raw1.dtype)
        for nm, w in threes.items():
            if not np.array_equal(np.asarray(w.samples), raw3) or np.asarray(w.samples).dtype != raw3.dtype:
                fail = "%s does not hold the numbers that _sample produced under the same generator state" % nm
    if not fail:
        a0 = np.asarray(list(ones.values())[0], dtype=float)
        for nm, w in ones.items():
            if not np.array_equal(np.asarray(w, dtype=float), a0):
                fail = "%s differs from sample(rng=g) under the same generator state" % nm
        b0 = np.asarray(list(threes.values())[0].samples, dtype=float)
        for nm, w in threes.items():
            if not np.array_equal(np.asarray(w.samples, dtype=float), b0):
                fail = "%s differs from sample(3, g) under the same generator state" % nm
    if not fail:
        # keep-alive / aliasing: overwrite every array that was handed out, then draw again under the same generator state
        keep1 = np.array(np.asarray(list(ones.values())[0], dtype=float), copy=True)
        keep3 = np.array(np.asarray(list(threes.values())[0].samples, dtype=float), copy=True)
        for w in ones.values():
            a = np.asarray(w)
            if a.ndim >= 1 and a.flags.writeable:
                a[...] = 777.0
        for w in threes.values():
            if np.asarray(w.samples).flags.writeable:
                np.asarray(w.samples)[...] = 777.0
        again1 = np.asarray(quiet(d.sample, 1, RS()), dtype=float)
        again3 = np.asarray(quiet(d.sample, 3, RS()).samples, dtype=float)
        if not (np.array_equal(again1, keep1) and np.array_equal(again3, keep3)):
            fail = "after overwriting the arrays returned by earlier sample() calls, the same generator state gives other draws (outputs alias internal state)"
    return Case(expr=" && ".join(exprs), meta=meta, cell="entry/%s" % spec[0], kind="EXACT", impl_fail=fail,
                signature=("Distribution.sample|call-style:%s" % spec[0]) if fail else "")


def entry_cases(ctx, cases):
    for spec in ENTRY_SPECS:
        cases.append(entry_case(ctx, {"op": "entry", "spec": spec, "seed": ctx.rng.randint(0, 10 ** 6)}))


def lognormal_cases(ctx, cases):
    import cuqi
    rng = ctx.rng
    for rep in range(ctx.n(6, 40)):
        n = rng.choice([1, 2, 3])
        shp = rng.choice(["scalar", "vector", "spd"]) if n > 1 else "scalar"
        if shp == "scalar":
            cov = rng.choice([1.0, 0.25, 4.0])
        elif shp == "vector":
            cov = [rng.choice([1.0, 0.25, 4.0]) for _ in range(n)]
        else:
            cov = rand_matrix(rng, n, "spd").tolist()
        mean = [dy(rng, -2, 2) for _ in range(n)]
        z = [dy(rng, -2, 2) for _ in range(n)]
        meta = {"op": "lognormal", "dim": n, "cov": cov, "mean": mean, "z": z, "shape": shp}
        cases.append(lognormal_case(ctx, meta))


@failing_input('Lognormal')
def lognormal_case(ctx, meta):
    import cuqi
    n = meta["dim"]
    cov = meta["cov"] if not isinstance(meta["cov"], list) else np.array(meta["cov"], dtype=float)
    mean = np.array(meta["mean"], dtype=float)
    d = quiet(cuqi.distribution.Lognormal, mean, cov)
    g = quiet(cuqi.distribution.Gaussian, mean, cov)
    off, T, _ = read_affine(g, n, 1, "rng")
    z = np.array(meta["z"], dtype=float)
    scr = NormalScript([z.reshape(n, 1)])
    s = np.asarray(quiet(d._sample, 1, scr), dtype=float).ravel()
    lnobs = np.log(s)
    expr = "check_lognormal %s %s %s %s && %s" % (cqv(off), cqm(T), cqv(z), cqv(lnobs), cbool(scr.calls == [("randn", (n, 1))]))
    # oracle: the density the object reports at the draw is the Gaussian density of ln(draw) times the Jacobian 1/prod(x)
    fail = None
    ref = float(np.ravel(g.logpdf(np.log(s)))[0]) - float(np.sum(np.log(s)))
    got = float(np.ravel(d.logpdf(s))[0])
    if not (np.all(s > 0) and abs(ref - got) <= 1e-8 * (1 + abs(ref))):
        fail = "Lognormal: logpdf(draw)=%r but Gaussian logpdf(ln draw) - sum ln draw = %r" % (got, ref)
    elif not np.allclose(lnobs, off + T @ z, atol=1e-9):
        fail = "Lognormal draw is not exp of the Gaussian(mean, cov) draw under the same normals"
    return Case(expr=expr, meta=meta, cell="lognormal/%s" % meta["shape"], kind="EXACT", impl_fail=fail,
                signature="Lognormal._sample" if fail else "")


# ------------------------------------------------------------------------------------------------
# GMRF
# ------------------------------------------------------------------------------------------------
def build_gmrf(meta):
    import cuqi
    n, bc, order = meta["dim"], meta["bc"], meta["order"]
    mean = meta["mean"]
    kw = {}
    if meta.get("two_d"):
        k = int(round(math.sqrt(n)))
        kw["geometry"] = cuqi.geometry.Image2D((k, k))
    if isinstance(mean, list):
        mean = np.array(mean, dtype=float)
    else:
        mean = float(mean)
        kw.setdefault("geometry", n)
    if meta.get("defaults"):
        return quiet(cuqi.distribution.GMRF, mean, meta["prec"], **kw)         # bc_type, order at their shipped defaults
    return quiet(cuqi.distribution.GMRF, mean, meta["prec"], bc, order=order, **kw)


class ShapeProbe:
    """generator that records which standard-normal arrays are requested and returns zeros"""
    def __init__(self):
        self.shapes = []

    def standard_normal(self, shape):
        self.shapes.append(tuple(int(x) for x in shape))
        return np.zeros(shape)

    def randn(self, *shape):
        self.shapes.append(tuple(int(x) for x in shape))
        return np.zeros(shape)


def gmrf_protocol(d, bc):
    """(rows of the normal array, number of arrays, kind) the sampler asks for.  periodic: 'dft' = the code as it stands (two
    n x N arrays, real and imaginary part), 'solve' = fixes/C05_gmrf_periodic_sampler.diff (the neumann construction)"""
    n = d.dim
    if bc == "zero":
        return n, 1, "chol"
    if bc == "neumann":
        return d._diff_op.shape[0], 1, "solve"
    pr = ShapeProbe()
    quiet(d._sample, 2, rng=pr)
    if pr.shapes == [(n, 2), (n, 2)]:
        return n, 2, "dft"
    if pr.shapes == [(d._diff_op.shape[0], 2)]:
        return d._diff_op.shape[0], 1, "solve"
    raise AssertionError("GMRF periodic sampler requests standard normals of shapes %s" % (pr.shapes,))


def gmrf_configs(ctx):
    cfgs = []
    dims = [3, 4, 5] if not ctx.thorough else [3, 4, 5, 6, 7, 8, 12]
    for bc in ("zero", "neumann", "periodic"):
        for order in (0, 1, 2):
            for n in dims:
                if bc == "periodic" and order == 2 and n < 4:
                    continue        # below the stencil width the periodic operator itself is C20's finding
                if bc == "neumann" and order == 2 and n < 4:
                    continue
                cfgs.append((bc, order, n, False))
            if bc != "periodic":
                cfgs.append((bc, order, 9, True))
                if ctx.thorough:
                    cfgs.append((bc, order, 16, True))
    return cfgs


def gmrf_cases(ctx, cases):
    rng = ctx.rng
    precs = [1.0, 4.0, 0.25, 2.25, 2.0, 3.0]
    k = 0
    n1_states = {}
    for (bc, order, n, two_d) in gmrf_configs(ctx):
        for rep in range(ctx.n(1, 3)):
            k += 1
            mean = [dy(rng) for _ in range(n)] if (k % 4 != 0) else dy(rng)
            meta = {"op": "gmrf", "bc": bc, "order": order, "dim": n, "two_d": two_d, "prec": precs[k % len(precs)],
                    "mean": mean, "iface": ["rng", "global"][k % 2], "z": [dy(rng, -2, 2) for _ in range(3 * n + 8)]}
            for c in gmrf_case(ctx, meta, n1_states):
                cases.extend(split_verdict(c))
    # refusal: periodic boundary in 2-d
    meta = {"op": "gmrf_refuse", "bc": "periodic", "order": 1, "dim": 9, "two_d": True, "prec": 1.0, "mean": [0.0] * 9}
    cases.append(gmrf_refuse_case(ctx, meta))
    ctx.note("gmrf: single-draw repair state (1 = broadcast n x n as the code stands, 2 = column): %s" % dict(n1_states))


@failing_input('GMRF')
def gmrf_refuse_case(ctx, meta):
    d = build_gmrf(meta)
    try:
        quiet(d.sample, 2)
        refused = False
    except NotImplementedError:
        refused = True
    if not refused:
        # fixes/C05_gmrf_periodic_sampler.diff: 2-d periodic is sampled like neumann; then it must be right
        cs = gmrf_case(ctx, dict(meta, op="gmrf", iface="rng", z=[0.5] * 80))
        return cs[0]
    return Case(expr=cbool(refused), meta=meta, cell="gmrf/periodic-2d-refused", kind="DECISION",
                impl_fail=None if refused else "GMRF periodic 2-d sampling no longer refused", signature="" if refused else "GMRF._sample|periodic-2d",
                trivial=True)


@failing_input('GMRF', as_list=True)
def gmrf_case(ctx, meta, n1_states=None):
    from scipy.linalg import dft
    d = build_gmrf(meta)
    n, bc = meta["dim"], meta["bc"]
    P = dense(d._prec_op.get_matrix())
    D = dense(d._diff_op.get_matrix())
    prec = float(meta["prec"])
    r = float(np.sqrt(prec))
    mean = np.atleast_1d(np.asarray(d.mean, dtype=float))
    m, ncalls, proto = gmrf_protocol(d, bc)
    off, T, calls = read_affine(d, m, ncalls, meta["iface"])
    kind = "standard_normal" if meta["iface"] == "rng" else "randn"
    exp_calls = [(kind, (m, 1 + ncalls * m))] * ncalls
    common = "%s %s %s %s %s %s" % (cnat(n), cqv(mean), cq(prec), cq(r), cqm(P), cqm(D))
    if proto == "dft":
        F = dft(n, scale="sqrtn")
        ev = np.asarray(d._L_eigval, dtype=float)
        evc = np.hstack([ev, ev[-1]])
        w = 1.0 / np.sqrt(evc)
        expr = "check_gmrf_periodic %s %s %s %s %s %s %s" % (common, cqm(F.real), cqm(F.imag), cqv(ev), cqv(w), cqv(off), cqm(T))
    else:
        L = dense(d._chol)
        expr = "check_gmrf_%s %s %s %s %s" % ("zero" if proto == "chol" else "neumann", common, cqm(L), cqv(off), cqm(T))
    expr += " && %s" % cbool(calls == exp_calls)
    # the difference operator itself is computed by the model (stencil per boundary condition / order / 1-d or 2-d)
    nodes = int(round(math.sqrt(n))) if meta.get("two_d") else n
    bcq0 = {"zero": "Zero", "neumann": "Neumann", "periodic": "Periodic"}[bc]
    expr += " && check_diffop %s %s %s %s %s" % (bcq0, cnat(meta["order"]), cbool(bool(meta.get("two_d"))), cnat(nodes), cqm(D))
    # oracle: the density's precision is the Hessian of the object's own logd; draws' covariance must be its generalised inverse
    H = hessian_of_logd(d, n, center=np.zeros(n))
    defect, tol = cov_defect(H, T, 1e-5)
    fail, sig = None, ""
    bm = np.repeat(mean, n) if len(mean) == 1 else mean
    Hin = prec * (D.T @ D)       # D is a certificate checked exactly against the model's stencil (check_diffop)
    if not (float(np.abs(H - Hin).max()) <= 1e-6 * float(np.abs(Hin).max())):
        fail = ("GMRF(%s, order %d): the Hessian of the object's logd is not prec * D^T D for the documented difference operator "
                "(relative difference %.3g)" % (bc, meta["order"], float(np.abs(H - Hin).max() / np.abs(Hin).max())))
        sig = "GMRF.logd|parameters"
    elif not np.allclose(off, bm, atol=1e-12):
        fail, sig = "offset of the draws is not the mean", "GMRF._sample|offset"
    elif defect > tol:
        fail = ("GMRF(%s, order %d, dim %d%s): covariance of the draws is not the generalised inverse of the precision implied by "
                "logd: |H C H - H|/|H| = %.3g" % (bc, meta["order"], n, " 2-d" if meta.get("two_d") else "", defect))
        sig = SIG_PER if (proto == "dft" and meta["order"] >= 1) else "GMRF._sample|covariance:%s:order%d" % (bc, meta["order"])
    cell = "gmrf/%s/order%d/%s" % (bc, meta["order"], "2d" if meta.get("two_d") else "1d")
    if meta.get("defaults"):
        cell = "L22-defaults/gmrf"
        twin = build_gmrf(dict(meta, defaults=False))           # bc_type="zero", order=1 spelled out (the documented defaults)
        a = np.asarray(quiet(d.sample, 3, rng=np.random.RandomState(2)).samples); b = np.asarray(quiet(twin.sample, 3, rng=np.random.RandomState(2)).samples)
        if not fail and not np.allclose(a, b, rtol=1e-12, atol=1e-12):
            fail, sig = "GMRF(mean, prec) with bc_type/order left at their defaults does not draw like GMRF(mean, prec, 'zero', order=1)", "GMRF|defaults"
    out = [Case(expr=expr, meta=meta, cell=cell, kind="EXACT", impl_fail=fail, signature=sig)]
    # one draw (N = 1) through _sample and through sample
    z = np.array(meta["z"][:ncalls * m], dtype=float)
    scr = NormalScript([z[k * m:(k + 1) * m].reshape(m, 1) for k in range(ncalls)])
    raw = np.asarray(quiet(d._sample, 1, rng=scr), dtype=float)
    raw2 = raw.reshape(-1, 1) if raw.ndim == 1 else raw
    bcq = {"zero": "Zero", "neumann": "Neumann", "periodic": "Periodic"}[bc]
    expr1 = "check_gmrf_raw1 %s %s %s %s %s %s" % (bcq, cnat(n), cqv(mean), cqm(T), cqv(z), cqm(raw2))
    scr2 = NormalScript([z[k * m:(k + 1) * m].reshape(m, 1) for k in range(ncalls)])
    one = quiet(d.sample, 1, rng=scr2)
    fail1, sig1 = None, ""
    if np.asarray(one).shape != (n,):
        fail1 = ("GMRF(%s).sample(1) returns an array of shape %s for a distribution of dimension %d (the (n,1) mean is "
                 "broadcast against the 1-d solve result)" % (bc, np.asarray(one).shape, n))
        sig1 = SIG_N1 if bc in ("neumann", "periodic") else "GMRF._sample|N=1:shape:" + bc
    elif not np.allclose(np.asarray(one), bm + T @ z, atol=1e-6):
        fail1, sig1 = "GMRF.sample(1) is not mean + T z", "GMRF._sample|N=1:value:" + bc
    if n1_states is not None and bc != "zero":
        st = 2 if raw2.shape == (n, 1) else 1 if raw2.shape in ((n, n), (1, n)) else 0
        n1_states[st] = n1_states.get(st, 0) + 1
    m1 = dict(meta); m1["op"] = "gmrf_n1"
    out.append(Case(expr=expr1, meta=m1, cell=cell + "/N=1", kind="EXACT", impl_fail=fail1, signature=sig1))
    return out


# ------------------------------------------------------------------------------------------------
# univariate families: which generator is called with which fields
# ------------------------------------------------------------------------------------------------
NUMPY_SIG = {"normal": ("loc", "scale", "size"), "laplace": ("loc", "scale", "size"), "uniform": ("low", "high", "size"),
             "gamma": ("shape", "scale", "size")}
FAMILY_GEN = {"Normal": ("numpy", "normal", ("loc", "scale")), "Laplace": ("numpy", "laplace", ("loc", "scale")),
              "Uniform": ("numpy", "uniform", ("low", "high")), "Gamma": ("numpy", "gamma", ("shape", "scale")),
              "InverseGamma": ("scipy", "invgamma", ("a", "loc", "scale")), "Beta": ("scipy", "beta", ("a", "b")),
              "Cauchy": ("scipy", "cauchy", ("loc", "scale"))}
SCIPY_MODULE = {"InverseGamma": "_inverse_gamma", "Beta": "_beta", "Cauchy": "_cauchy"}


def bind_numpy(name, a, k):
    names = NUMPY_SIG[name]
    out = dict(zip(names, a))
    out.update(k)
    return out


class RecGen:
    """stands for a numpy generator: records (name, bound arguments), returns the scripted array"""
    def __init__(self, G):
        self.G, self.calls = np.array(G, dtype=float), []

    def __getattr__(self, name):
        if name not in NUMPY_SIG:
            raise AttributeError(name)
        def f(*a, **k):
            self.calls.append((name, bind_numpy(name, a, k)))
            return self.G.copy()
        return f


class SpsProxy:
    """stands for the module object `sps` inside one cuqi.distribution module: <dist>.rvs is recorded"""
    def __init__(self, real, G, calls):
        self._real, self._G, self._calls = real, G, calls

    def __getattr__(self, name):
        real = getattr(self._real, name)
        proxy = self
        class D:
            def rvs(self_, *a, **k):
                proxy._calls.append((name, dict(k), a))
                return np.array(proxy._G, dtype=float).copy()
            def __getattr__(self_, n2):
                return getattr(real, n2)
        return D()


def build_univariate(meta):
    import cuqi
    fam = meta["family"]
    ps = [np.array(p, dtype=float) if isinstance(p, list) else float(p) for p in meta["params"]]
    style = meta.get("pstyle", "float")
    def restyle(p):
        integral = bool(np.all(np.asarray(p) == np.round(np.asarray(p))))
        if style == "int" and integral:          # python ints / integer arrays
            return np.asarray(p).astype(int) if isinstance(p, np.ndarray) else int(p)
        if style == "list" and isinstance(p, np.ndarray) and meta["family"] in ("Gamma", "InverseGamma", "Beta", "Cauchy"):
            return p.tolist()        # Normal / Uniform / Laplace do not coerce their parameters: their logpdf refuses python lists (TypeError)
        if style == "f32" and isinstance(p, np.ndarray) and meta["family"] != "Gamma":     # Gamma divides (scale = 1/rate): single precision there
            return p.astype(np.float32)
        return p
    ps = [restyle(p) for p in ps]
    kw = {}
    if all(not isinstance(p, (np.ndarray, list)) for p in ps) and meta["dim"] > 1:
        kw["geometry"] = meta["dim"]
    return quiet(getattr(cuqi.distribution, fam), *ps, **kw)


def rand_params(rng, fam, form, n):
    def pos():
        return rng.choice([0.5, 1.0, 2.0, 4.0, 1.5, 3.0, 0.25])
    def anyv():
        return dy(rng, -3, 3)
    def vec(f):
        return [f() for _ in range(n)]
    spec = {"Normal": (anyv, pos), "Laplace": (anyv, pos), "Gamma": (pos, pos), "InverseGamma": (pos, anyv, pos),
            "Beta": (pos, pos), "Cauchy": (anyv, pos), "Uniform": (anyv, None)}[fam]
    ps = []
    for k, f in enumerate(spec):
        if fam == "Uniform" and k == 1:
            lo = ps[0]
            ps.append([l + pos() for l in lo] if isinstance(lo, list) else lo + pos())
            continue
        asvec = form == "vector" or (form == "mixed" and k % 2 == 0)
        ps.append(vec(f) if asvec else f())
    if fam == "Laplace" and isinstance(ps[1], list):
        ps[1] = ps[1][0]            # Laplace documents a scalar scale
    if fam == "Uniform" and form == "mixed":
        ps[1] = max(ps[0]) + pos() if isinstance(ps[0], list) else ps[1]
    return ps


def univariate_cases(ctx, cases):
    rng = ctx.rng
    k = 0
    for fam in FAMILY_GEN:
        for form in ("scalar", "vector", "mixed"):
            for N0 in (1, 2, 5, "dim"):
                for rep in range(ctx.n(1, 4)):
                    k += 1
                    n = 1 if (form == "scalar" and rep % 2 == 0 and N0 != "dim") else rng.choice([2, 3, 4])
                    N = n if N0 == "dim" else N0          # N == dim: (dim, N) and (N, dim) have the same shape
                    ps = rand_params(rng, fam, form, n)
                    G = [[rng.randint(1, 63) / 64 for _ in range(n)] for _ in range(N)]
                    meta = {"op": "wiring", "family": fam, "form": form, "dim": n, "N": N, "params": ps, "G": G,
                            "iface": ["rng", "global"][k % 2], "xseed": rng.randint(0, 10 ** 6),
                            "pstyle": ["float", "int", "list", "f32"][(k // 2) % 4]}
                    cases.append(wiring_case(ctx, meta))


def ref_logpdf(api_name, args, x):
    """density of the generator AS CALLED (numpy/scipy documented parameterisation), via scipy.stats"""
    import scipy.stats as st
    a = [np.asarray(v, dtype=float) for v in args]
    dist = {"normal": lambda: st.norm(loc=a[0], scale=a[1]), "laplace": lambda: st.laplace(loc=a[0], scale=a[1]),
            "uniform": lambda: st.uniform(loc=a[0], scale=a[1] - a[0]), "gamma": lambda: st.gamma(a=a[0], scale=a[1]),
            "invgamma": lambda: st.invgamma(a=a[0], loc=a[1], scale=a[2]), "beta": lambda: st.beta(a=a[0], b=a[1]),
            "cauchy": lambda: st.cauchy(loc=a[0], scale=a[1])}[api_name]()
    return dist, float(np.sum(dist.logpdf(x)))


@failing_input(lambda m: m.get('family'))
def wiring_case(ctx, meta, dist=None):
    import cuqi, importlib
    fam, N, n = meta["family"], meta["N"], meta["dim"]
    d = build_univariate(meta) if dist is None else dist
    api, gname, argnames = FAMILY_GEN[fam]
    G = np.array(meta["G"], dtype=float)
    rs_ok = True
    if api == "numpy":
        rec = RecGen(G)
        if meta["iface"] == "rng":
            raw = d._sample(N, rng=rec)
            pub = d.sample(N, rng=RecGen(G))          # the public entry point under the same scripted generator
        else:
            def script(kind, a, k, idx):
                return getattr(rec, kind)(*a, **k)
            with ScriptedRandom(script=script):
                raw = d._sample(N)
            calls0 = list(rec.calls)
            with ScriptedRandom(script=script):
                pub = d.sample(N)
            rec.calls = calls0
        calls = [(nm, b) for nm, b in rec.calls]
    else:
        mod = importlib.import_module("cuqi.distribution." + SCIPY_MODULE[fam])
        real = mod.sps
        got = []
        mod.sps = SpsProxy(real, G, got)
        rs = np.random.RandomState(3) if meta["iface"] == "rng" else None
        try:
            raw = d._sample(N, rng=rs) if rs is not None else d._sample(N)
            ncalls = len(got)
            pub = d.sample(N, rng=rs) if rs is not None else d.sample(N)
            del got[ncalls:]
        finally:
            mod.sps = real
        calls = [(nm, k) for nm, k, a in got]
        rs_ok = all((k.get("random_state") is rs) and not a for nm, k, a in got)
    raw = np.asarray(raw, dtype=float)
    ok_one = len(calls) == 1 and calls[0][0] == gname and rs_ok
    if ok_one:
        b = calls[0][1]
        try:
            args = [np.atleast_1d(np.asarray(b[nm], dtype=float)).ravel() for nm in argnames]
            size = tuple(int(s) for s in b["size"])
        except Exception:
            ok_one, args, size = False, [], (0, 0)
    else:
        args, size = [], (0, 0)
    params = [np.atleast_1d(np.asarray(p, dtype=float)).ravel() for p in meta["params"]]
    obs = "(GC \"%s\" \"%s\" %s %s %s)" % (api, calls[0][0] if calls else "none", clist([cqv(a) for a in args]),
                                        cnat(size[0] if len(size) == 2 else 0), cnat(size[1] if len(size) == 2 else 0))
    expr = "check_wiring \"%s\" %s %s %s %s %s %s && %s" % (fam, clist([cqv(p) for p in params]), cnat(N), cnat(n), obs, cqm(G),
                                                         cqm(raw if raw.ndim == 2 else raw.reshape(1, -1)), cbool(ok_one))
    # oracle: the density of the generator as called, at a point of its support, is the density the object reports
    fail = None
    skip_density = fam == "Uniform" and n > 1 and all(len(p) == 1 for p in params)      # C04 finding #3 (Uniform.logpdf, scalar bounds)
    if not ok_one:
        fail = "%s._sample made the generator calls %s" % (fam, [(c[0], sorted(c[1])) for c in calls])
    elif raw.shape != (n, N) or not np.array_equal(raw, G.T):
        fail = "%s._sample does not return the generated N x dim array transposed (shape %s)" % (fam, raw.shape)
    elif N > 1 and not (np.shape(pub.samples) == (n, N) and all(np.array_equal(np.asarray(pub.samples)[:, j], G[j]) for j in range(N))):
        fail = ("%s.sample(%d): draw j (column j of the Samples) is not the j-th generated vector (dim %d%s)"
                % (fam, N, n, ", N == dim" if N == n else ""))
    elif N == 1 and not np.array_equal(np.ravel(np.asarray(pub, dtype=float)), G[0]):
        fail = "%s.sample(1) is not the generated vector" % fam
    elif not skip_density:
        bargs = [np.broadcast_to(a, (n,)) if len(a) in (1, n) else a for a in args]
        dist, _ = ref_logpdf(gname, bargs, np.zeros(n))
        x = np.asarray(dist.rvs(size=n, random_state=np.random.RandomState(meta["xseed"])), dtype=float)
        _, ref = ref_logpdf(gname, bargs, x)
        got = float(np.ravel(d.logpdf(x))[0])
        if not (abs(ref - got) <= (1e-5 if meta.get("pstyle") == "f32" else 1e-8) * (1 + abs(ref))):
            fail = ("%s: the generator is called as %s(%s) whose log-density at x=%s is %.12g, but the object's logpdf(x) = %.12g"
                    % (fam, gname, ", ".join("%s=%s" % (nm, a.tolist()) for nm, a in zip(argnames, args)), x.tolist(), ref, got))
    return Case(expr=expr, meta=meta, cell="wiring/%s/%s/N=%d/%s" % (fam, meta["form"], N, meta["iface"]), kind="EXACT",
                impl_fail=fail, signature=("%s._sample|wiring" % fam) if fail else "")


# ------------------------------------------------------------------------------------------------
# the wrapper Distribution.sample, conditional distributions, RNG behaviour
# ------------------------------------------------------------------------------------------------
def build_named(spec):
    """distribution instances by a JSON-able spec [name, args...]"""
    import cuqi
    D = cuqi.distribution
    nm = spec[0]
    a = spec[1:]
    arr = lambda v: np.array(v, dtype=float) if isinstance(v, list) else v
    if nm in ("Normal", "Gamma", "InverseGamma", "Beta", "Laplace", "Uniform", "Cauchy", "Lognormal", "ModifiedHalfNormal"):
        kw = a[-1] if a and isinstance(a[-1], dict) else {}
        pos = [arr(v) for v in (a[:-1] if kw else a)]
        return quiet(getattr(D, nm), *pos, **kw)
    if nm == "Gaussian":
        return quiet(D.Gaussian, arr(a[0]), **{a[1]: arr(a[2])})
    if nm == "GMRF":
        return quiet(D.GMRF, arr(a[0]), a[1], a[2], order=a[3])
    if nm == "UserDefined":
        dim, seed, use_global = a
        loc = np.random.RandomState(seed)
        if use_global == "accepts_rng":      # a user function written to receive the generator
            f = lambda rng=None: (np.random if rng is None else rng).standard_normal(dim)
        elif use_global:
            f = lambda: np.random.randn(dim)
        else:
            f = lambda: loc.randn(dim)
        return D.UserDefinedDistribution(dim=dim, logpdf_func=lambda x: -0.5 * np.sum(x ** 2), sample_func=f)
    if nm == "Gallery":
        return D.DistributionGallery(a[0])
    if nm == "Conditioned":            # a conditional distribution conditioned on all its variables (a copy made by _condition)
        d, steps = quiet(build_cond, a[0])
        for kw in steps:
            d = quiet(d, **kw)
        return d
    raise ValueError(nm)


WRAP_SPECS = [
    ["Normal", 0.5, 2.0], ["Normal", [0.0, 1.0, -1.0], 2.0], ["Normal", 0.0, 1.0, {"geometry": 3}],
    ["Gamma", 2.0, 3.0], ["Gamma", [1.0, 2.0, 3.0], [1.0, 1.0, 2.0]],
    ["InverseGamma", 3.0, 0.0, 2.0], ["InverseGamma", [2.0, 3.0], 0.0, [1.0, 2.0]],
    ["Beta", 2.0, 3.0], ["Beta", [2.0, 3.0, 4.0], [1.0, 2.0, 3.0]],
    ["Laplace", 0.0, 1.0], ["Laplace", [0.0, 1.0], 2.0],
    ["Uniform", 0.0, 1.0], ["Uniform", [0.0, 1.0, 2.0], [1.0, 3.0, 5.0]],
    ["Cauchy", 0.0, 1.0], ["Cauchy", [0.0, 1.0, 2.0], 1.0],
    ["Lognormal", [0.0, 1.0], 1.0], ["Lognormal", 0.0, 1.0],
    ["Gaussian", 0.0, "cov", 1.0], ["Gaussian", [0.0, 1.0, 2.0], "cov", [[2.0, 1.0, 0.0], [1.0, 2.0, 0.0], [0.0, 0.0, 1.0]]],
    ["Gaussian", [0.0, 1.0], "sqrtprec", [[2.0, 1.0], [0.0, 1.0]]],
    ["GMRF", [0.0, 0.0, 0.0, 0.0], 2.0, "zero", 1], ["GMRF", [0.0, 1.0, 2.0, 3.0, 4.0], 1.0, "zero", 2],
    ["ModifiedHalfNormal", 2.0, 3.0, 1.0], ["ModifiedHalfNormal", 0.5, 1.0, -2.0],
    ["UserDefined", 2, 5, False], ["UserDefined", 1, 5, False], ["Gallery", "BivariateGaussian"],
]
WRAP_DEFECT_SPECS = [     # classes with a known shape defect: oracle verdict only (no faithful model of the crash paths)
    (["ModifiedHalfNormal", 2.0, 3.0, 1.0, {"geometry": 3}], SIG_MHN_DIM),
    (["ModifiedHalfNormal", [2.0, 3.0, 4.0], [1.0, 2.0, 3.0], [1.0, -1.0, 2.0]], SIG_MHN_DIM),
]


def enc_raw(a):
    a = np.asarray(a, dtype=float)
    if a.ndim == 1:
        return "(Raw1 %s)" % cqv(a)
    if a.ndim == 2:
        return "(Raw2 %s)" % cqm(a)
    raise ValueError("raw array of ndim %d" % a.ndim)


def enc_wrapped(w):
    from cuqi.samples import Samples
    from cuqi.array import CUQIarray
    if isinstance(w, Samples):
        return "(WSamples %s)" % enc_raw(w.samples)
    if isinstance(w, CUQIarray):
        a = np.asarray(w, dtype=float)
        return "(WScalar %s)" % cq(float(a)) if a.ndim == 0 else "(WArray %s)" % cqv(a)
    return "WRefused"


def shape_verdict(d, w, N):
    """the property's own words: one draw -> array with the distribution's geometry; several -> one column per draw"""
    from cuqi.samples import Samples
    from cuqi.array import CUQIarray
    dim = d.dim
    if N == 1:
        if not isinstance(w, CUQIarray):
            return "sample(1) returns %s, not a CUQIarray" % type(w).__name__
        if np.size(w) != dim or np.ndim(w) > 1:
            return "sample(1) returns an array of shape %s for a distribution of dimension %d" % (np.shape(w), dim)
        if w.geometry is not d.geometry:
            return "sample(1) does not carry the distribution's geometry"
    else:
        if not isinstance(w, Samples):
            return "sample(%d) returns %s, not Samples" % (N, type(w).__name__)
        shp = np.shape(w.samples)
        if w.Ns != N or int(np.prod(shp[:-1])) != dim:
            return "sample(%d) holds an array of shape %s for dimension %d: not one column per draw" % (N, shp, dim)
        if w.geometry is not d.geometry:
            return "sample(%d) does not carry the distribution's geometry" % N
    return None


def wrapper_cases(ctx, cases):
    for spec in WRAP_SPECS:
        for N in (1, 2, 5):
            cases.append(wrapper_case(ctx, {"op": "wrap", "spec": spec, "N": N, "seed": ctx.rng.randint(0, 10 ** 6)}))
    for spec, sig in WRAP_DEFECT_SPECS:
        for N in (1, 2, 5):
            cases.append(wrapper_defect_case(ctx, {"op": "wrap_defect", "spec": spec, "N": N, "sig": sig}))


@failing_input(lambda m: m['spec'][0])
def wrapper_case(ctx, meta):
    N = meta["N"]
    d = build_named(meta["spec"])
    try:
        with time_limit(30):
            raw = np.asarray(quiet(d._sample, N, rng=np.random.RandomState(meta["seed"])), dtype=float)
            d2 = build_named(meta["spec"])
            w = quiet(d2.sample, N, rng=np.random.RandomState(meta["seed"]))
    except TimeoutError as e:
        return Case(expr="false", meta=meta, cell="wrap/%s/N=%d" % (meta["spec"][0], N), kind="DECISION",
                    impl_fail="%s.sample(%d) does not finish (%s)" % (meta["spec"][0], N, e),
                    signature="%s._sample|does-not-terminate" % meta["spec"][0])
    expr = "check_wrap false %s %s %s" % (cnat(N), enc_raw(raw), enc_wrapped(w))
    fail = shape_verdict(d2, w, N)
    return Case(expr=expr, meta=meta, cell="wrap/%s/N=%d" % (meta["spec"][0], N), kind="EXACT", impl_fail=fail,
                signature=("Distribution.sample|shape:%s" % meta["spec"][0]) if fail else "")


@failing_input(lambda m: m['spec'][0])
def wrapper_defect_case(ctx, meta):
    N = meta["N"]
    d = build_named(meta["spec"])
    try:
        w = quiet(d.sample, N, rng=np.random.RandomState(1))
        fail = shape_verdict(d, w, N)
    except Exception as e:
        fail = "sample(%d) raises %s: %s" % (N, type(e).__name__, str(e)[:100])
    if not fail and isinstance(meta["spec"][1], list):
        # repaired state (fixes/C05_mhn_sample_components.diff): component i must be drawn with the i-th parameters -- the proposal calls
        # of the vector object are those of the scalar objects MHN(alpha_i, beta_i, gamma_i), component after component
        try:
            mk = lambda: MHNScript([1.0] * 400, [1e-300] * 400)
            sv = mk(); quiet(d.sample, N, rng=sv)
            ref = []
            for i in range(len(meta["spec"][1])):
                si = mk(); quiet(build_named([meta["spec"][0]] + [p[i] for p in meta["spec"][1:4]]).sample, N, rng=si)
                ref += si.calls
            if sv.calls != ref:
                fail = "component i is not drawn with the i-th parameters (proposal calls differ from those of the scalar objects)"
        except Exception as e:
            fail = "scripted sampling raises %s: %s" % (type(e).__name__, e)
    if fail:
        fail = "%s with parameters %s (dimension %d): %s" % (meta["spec"][0], meta["spec"][1:], d.dim, fail)
    return Case(expr="true", meta=meta, cell="wrap-oracle/%s" % meta["spec"][0], kind="DECISION", trivial=True, impl_fail=fail,
                signature=meta["sig"] if fail else "")


COND_SPECS = ["gauss_name_coincidence", "gauss_all_defaults", "gauss_cov", "gauss_prec", "gauss_mean_cov", "normal_mean", "normal_std_none", "gamma_rate", "gmrf_prec", "laplace_loc",
              "uniform_high_none", "beta_fun"]


COND_EXPECT = {     # what the fully conditioned object must be, by the documented meaning of callable parameters
    "gauss_name_coincidence": lambda D: D.Gaussian(np.zeros(2), cov=6.0),        # cov = (lambda cov: 2*cov)(3.0)
    "gauss_cov": lambda D: D.Gaussian(np.zeros(2), cov=2.0), "gauss_prec": lambda D: D.Gaussian(np.zeros(2), prec=2.0),
    "gauss_mean_cov": lambda D: D.Gaussian(np.ones(2), cov=2.0), "normal_mean": lambda D: D.Normal(mean=1.0, std=1.0),
    "gamma_rate": lambda D: D.Gamma(shape=2.0, rate=2.0), "beta_fun": lambda D: D.Beta(2.0, 2.0),
    "gauss_all_defaults": lambda D: D.Gaussian(np.zeros(2), cov=2.0),
}


def build_cond(name):
    import cuqi
    D = cuqi.distribution
    z2 = np.zeros(2)
    return {
        # L17: the conditioning variable is NAMED like the attribute it enters through a non-identity callable
        "gauss_name_coincidence": lambda: (D.Gaussian(z2, cov=lambda cov: 2 * cov), [{"cov": 3.0}]),
        # L22: every constructor argument at its shipped default (only the geometry is given)
        "gauss_all_defaults": lambda: (D.Gaussian(geometry=2), [{"mean": z2}, {"cov": 2.0}]),
        "gauss_cov": lambda: (D.Gaussian(z2, cov=lambda s: s), [{"s": 2.0}]),
        "gauss_prec": lambda: (D.Gaussian(z2, prec=lambda d: d), [{"d": 2.0}]),
        "gauss_mean_cov": lambda: (D.Gaussian(lambda m: m * np.ones(2), cov=lambda s: s, geometry=2), [{"m": 1.0}, {"s": 2.0}]),
        "normal_mean": lambda: (D.Normal(mean=lambda m: m, std=1.0), [{"m": 1.0}]),
        "normal_std_none": lambda: (D.Normal(mean=0.0), [{"std": 2.0}]),
        "gamma_rate": lambda: (D.Gamma(shape=2.0, rate=lambda r: r), [{"r": 2.0}]),
        "gmrf_prec": lambda: (quiet(D.GMRF, np.zeros(4), lambda d: d), [{"d": 2.0}]),
        "laplace_loc": lambda: (D.Laplace(location=lambda l: l, scale=1.0), [{"l": 1.0}]),
        "uniform_high_none": lambda: (D.Uniform(low=0.0), [{"high": 2.0}]),
        "lognormal_mean": lambda: (D.Lognormal(lambda m: m * np.ones(2), 1.0), [{"m": 0.0}]),
        "beta_fun": lambda: (D.Beta(lambda a: a, 2.0), [{"a": 2.0}]),
    }[name]()


def conditional_cases(ctx, cases):
    for name in COND_SPECS:
        for N in (1, 3):
            for with_rng in (False, True):
                cases.append(conditional_case(ctx, {"op": "cond", "name": name, "N": N, "rng": with_rng}))


@failing_input('Distribution')
def conditional_case(ctx, meta):
    d, steps = quiet(build_cond, meta["name"])
    N = meta["N"]
    results = []           # (is_cond, refused) along the conditioning chain
    cur = d
    chain = [cur]
    for kw in steps:
        cur = quiet(cur, **kw)
        chain.append(cur)
    st0 = np.random.get_state()
    for c in chain:
        try:
            w = quiet(c.sample, N, rng=np.random.RandomState(0)) if meta["rng"] else quiet(c.sample, N)
            refused, msg = False, ""
        except ValueError as e:
            refused, msg, w = True, str(e), None
        except Exception as e:
            refused, msg, w = False, "%s: %s" % (type(e).__name__, e), None
        results.append((bool(c.is_cond), refused, msg,
                        None if refused else (shape_verdict(c, w, N) if w is not None else "sample raised " + msg[:120])))
    if meta["rng"] is False:
        np.random.set_state(st0)
    exprs = ["check_wrap %s %s (Raw1 []) %s" % (cbool(ic), cnat(N), "WRefused" if rf else "(WArray [])") if (ic or rf) else "true"
             for ic, rf, _, _ in results]
    fail = None
    if meta["name"] in COND_EXPECT and not results[-1][1]:
        import cuqi
        ref = quiet(COND_EXPECT[meta["name"]], cuqi.distribution)
        a = quiet(chain[-1].sample, N, rng=np.random.RandomState(5)); b = quiet(ref.sample, N, rng=np.random.RandomState(5))
        A = np.asarray(a if N == 1 else a.samples, dtype=float); B = np.asarray(b if N == 1 else b.samples, dtype=float)
        x = np.ravel(B if N == 1 else B[:, 0])
        if not np.array_equal(A, B):
            fail = ("%s: after conditioning, the draws differ from those of the distribution the callables define (same generator state): %s vs %s"
                    % (meta["name"], A.tolist(), B.tolist()))
        elif abs(float(np.ravel(chain[-1].logd(x))[0]) - float(np.ravel(ref.logd(x))[0])) > 1e-9:
            fail = "%s: after conditioning, logd differs from that of the distribution the callables define" % meta["name"]
        exprs.append(cbool(fail is None))
    for k, (ic, rf, msg, sv) in enumerate(results):
        last = k == len(results) - 1
        if not last and not rf:
            fail = "%s: sampling was not refused although conditioning variables %s are missing" % (meta["name"], chain[k].get_conditioning_variables())
        elif not last and "onditioning variables" not in msg:
            fail = "%s: refusal does not name the missing conditioning variables: %r" % (meta["name"], msg)
        elif last and (rf or ic):
            fail = "%s: fully conditioned distribution still refuses to sample (%r)" % (meta["name"], msg)
        elif last and sv:
            fail = "%s after conditioning: %s" % (meta["name"], sv)
        if fail:
            break
    return Case(expr=" && ".join(exprs), meta=meta, cell="conditional/%s" % meta["name"], kind="DECISION", impl_fail=fail,
                signature="Distribution.sample|conditional" if fail else "")


RNG_SPECS = WRAP_SPECS + [["GMRF", [0.0, 0.0, 0.0, 0.0], 2.0, "neumann", 1], ["GMRF", [0.0, 0.0, 0.0, 0.0], 2.0, "periodic", 1],
                          ["ModifiedHalfNormal", 128.0, 3.0, -4.0], ["UserDefined", 2, 5, True], ["UserDefined", 2, 5, "accepts_rng"]]
RNG_SPECS += [["Conditioned", "gauss_cov"], ["Conditioned", "gauss_mean_cov"], ["Conditioned", "normal_mean"], ["Conditioned", "gamma_rate"],
              ["Conditioned", "gmrf_prec"], ["Conditioned", "beta_fun"], ["Conditioned", "gauss_name_coincidence"]]
COND_CLASS = {"gauss_cov": "Gaussian", "gauss_mean_cov": "Gaussian", "normal_mean": "Normal", "gamma_rate": "Gamma", "gmrf_prec": "GMRF",
              "beta_fun": "Beta", "gauss_name_coincidence": "Gaussian"}
CLASS_OF = {"UserDefined": ["UserDefinedDistribution"], "Gallery": ["DistributionGallery", "Gaussian"], "Lognormal": ["Lognormal", "Gaussian"]}


RNG_KINDS = ("RandomState", "Generator-PCG64", "Generator-MT19937", "duck-legacy", "duck-new", "duck-falsy")


class DuckRng:
    """an object that is not a numpy generator but offers some of the generator methods (forwarded to a private RandomState)"""
    def __init__(self, seed, names):
        self._rs = np.random.RandomState(seed)
        self._names = set(names)
        self.calls = 0

    def __getattr__(self, name):
        if name.startswith("_") or name not in self._names:
            raise AttributeError(name)
        f = getattr(self._rs, name)
        def g(*a, **k):
            self.calls += 1
            return f(*a, **k)
        return g


class FalsyRng(DuckRng):
    def __bool__(self):
        return False

    def __len__(self):
        return 0


def mk_rng(kind, seed):
    if kind == "RandomState":
        return np.random.RandomState(seed)
    if kind == "Generator-PCG64":
        return np.random.Generator(np.random.PCG64(seed))
    if kind == "Generator-MT19937":
        return np.random.Generator(np.random.MT19937(seed))
    if kind == "duck-legacy":       # the legacy spelling only: randn, no standard_normal
        return DuckRng(seed, ["randn", "normal", "gamma", "uniform", "laplace"])
    if kind == "duck-falsy":        # a complete generator that is FALSY (`if rng:` instead of `if rng is not None:` would drop it)
        return FalsyRng(seed, ["randn", "standard_normal", "normal", "gamma", "uniform", "laplace"])
    if kind == "duck-new":          # the new spelling only: standard_normal, no randn
        return DuckRng(seed, ["standard_normal", "normal", "gamma", "uniform", "laplace"])
    raise ValueError(kind)


def rng_cases(ctx, cases, sites):
    for spec in RNG_SPECS:
        for kind in RNG_KINDS:
            for N in ((1, 3) if (kind == "RandomState" or ctx.thorough) else (3,)):
                cases.append(rng_case(ctx, {"op": "rng", "spec": spec, "N": N, "kind": kind}, sites))


@failing_input(lambda m: m['spec'][0])
def rng_case(ctx, meta, sites=None):
    try:
        with time_limit(60):
            return rng_case_(ctx, meta, sites)
    except TimeoutError as e:
        return Case(expr="false", meta=meta, cell="rng/%s" % meta["spec"][0], kind="DECISION",
                    impl_fail="%s.sample(%d) does not finish (%s)" % (meta["spec"][0], meta["N"], e),
                    signature="%s._sample|does-not-terminate" % meta["spec"][0])


def same_global_state(a, b):
    return a[0] == b[0] and np.array_equal(a[1], b[1]) and a[2:] == b[2:]


def rng_case_(ctx, meta, sites=None):
    """the three clauses of the property for one (distribution, kind of generator): the draws are a deterministic function of
    the generator's state, they do depend on it, and the global numpy state is left alone.  A generator the method cannot
    work with must be REFUSED (an exception, same under every global state) -- never silently replaced by the global one."""
    if sites is None:
        sites, _ = tr_rngflow.extract(ctx.repo)
    spec, N, kind = meta["spec"], meta["N"], meta.get("kind", "RandomState")
    classes = CLASS_OF.get(spec[0], [spec[0]]) if spec[0] != "Conditioned" else [COND_CLASS[spec[1]]]
    mine = [s for s in sites if s[0].split(".")[0] in classes]
    st_saved = np.random.get_state()
    def draw(d, seed):
        try:
            w = quiet(d.sample, N, rng=mk_rng(kind, seed))
            return np.asarray(w, dtype=float) if N == 1 else np.asarray(w.samples, dtype=float)
        except (AttributeError, TypeError, ValueError) as e:
            return "refused: %s" % type(e).__name__
    same = lambda x, y: (isinstance(x, str) and isinstance(y, str) and x == y) or \
        (not isinstance(x, str) and not isinstance(y, str) and x.shape == y.shape and bool(np.array_equal(x, y)))
    try:
        np.random.seed(123)
        d = build_named(spec)
        st0 = np.random.get_state()
        a = draw(d, 7)
        st1 = np.random.get_state()
        untouched = same_global_state(st0, st1)
        np.random.seed(456)        # same object, other global state (constructors may use the global state: eigsh in GMRF)
        b = draw(d, 7)
        deterministic = same(a, b)
        np.random.seed(123)        # same global state as for a, other generator state
        c = draw(d, 8)
        depends = isinstance(a, str) or isinstance(c, str) or not same(a, c)
        # and the global path does use the global state (so that "untouched" is not vacuous)
        np.random.seed(99)
        g0 = np.random.get_state()
        quiet(build_named(spec).sample, N)
        g1 = np.random.get_state()
        global_used = not same_global_state(g0, g1)
    finally:
        np.random.set_state(st_saved)
    refused = isinstance(a, str)
    expr = "implb (isolated %s) (%s && %s) && %s" % (tr_rngflow.coq_sites(mine), cbool(untouched), cbool(deterministic),
                                                  cbool(len(mine) > 0))
    fail, sig = None, ""
    if not (untouched and deterministic and depends):
        fail = ("%s.sample(%d, rng=<%s seeded 7>): global numpy state %s; draws %s under a different global seed; draws %s "
                "under a differently seeded generator" % (spec[0], N, kind, "untouched" if untouched else "ADVANCED",
                                                         "identical" if deterministic else "DIFFERENT",
                                                         "different" if depends else "IDENTICAL (the generator is ignored)"))
        sig = SIG_UDD if spec[0] == "UserDefined" else "%s._sample|rng-isolation" % spec[0]
    meta2 = dict(meta); meta2["global_path_uses_global_state"] = bool(global_used); meta2["refused"] = a if refused else None
    return Case(expr=expr, meta=meta2, cell="rng/%s/%s%s" % (spec[0] if spec[0] != "Conditioned" else "L16-conditioned:" + spec[1], kind, "/refused" if refused else ""), kind="DECISION",
                impl_fail=fail, signature=sig)


# ------------------------------------------------------------------------------------------------
# ModifiedHalfNormal: the three rejection schemes under scripted proposals
# ------------------------------------------------------------------------------------------------
class MHNScript:
    def __init__(self, props, us):
        self.props, self.us, self.calls = list(props), list(us), []

    def gamma(self, shape, scale):
        self.calls.append(("gamma", float(shape), float(scale)))
        return self.props.pop(0)

    def normal(self, mu, sd):
        self.calls.append(("normal", float(mu), float(sd)))
        return self.props.pop(0)

    def uniform(self):
        self.calls.append(("uniform",))
        return self.us.pop(0)


def cr(x):
    f = frac(x)
    return "(IZR (%d) / IZR (%d))" % (f.numerator, f.denominator) if f.denominator != 1 else "(IZR (%d))" % f.numerator


def mhn_quantities(a, b, g):
    """plain-float evaluation of the published algorithm's quantities (used for margins and forced accepts only)"""
    from scipy.special import gamma as Gamma
    q = {}
    if g <= 0:
        m = 1.0 if a <= 1 else (g + math.sqrt(g * g + 8 * b * a)) / (4 * b)
        q.update(scheme="neg", m=m, v1=(b * m - g) / (2 * b * m - g), v2=m * (b * m - g), center=1.0)
        return q
    delta = b + (g * g - g * math.sqrt(g * g + 8 * b * a)) / (4 * a)
    q.update(delta=delta)
    if a > 1:
        mu = (g + math.sqrt(g * g + 8 * b * (a - 1))) / (4 * b)
        K1 = 2 * math.sqrt(math.pi) * ((math.sqrt(b) * (a - 1)) / (2 * b * mu - g)) ** (a - 1) * math.exp(-(a - 1) + b * mu * mu)
        K2 = (b / delta) ** (0.5 * a) * Gamma(a / 2) * math.exp(g * g / (4 * (b - delta)))
        q.update(mu=mu, K1=K1, K2=K2, Gam=float(Gamma(a / 2)))
        if K2 > K1:
            q.update(scheme="norm", center=mu)
            return q
    q.update(scheme="gam", center=(g / (2 * (b - delta))) ** 2)
    return q


def mhn_logacc(q, a, b, g, p):
    if q["scheme"] == "gam":
        x = math.sqrt(p)
        return -(b - q["delta"]) * p + g * x - g * g / (4 * (b - q["delta"]))
    if q["scheme"] == "norm":
        return (a - 1) * math.log(p) - math.log(q["mu"]) + (2 * b * q["mu"] - g) * (q["mu"] - p) if p > 0 else -math.inf
    x = q["m"] * p ** q["v1"]
    return q["v2"] * p - b * x * x + g * x


def mhn_run(dobj, a, b, g, p, u, q):
    """one scripted call: first proposal p with uniform u, then forced accepts at the scheme's centre. -> (accepted_first, calls)"""
    scr = MHNScript([p] + [q["center"]] * 6, [u] + [1e-300] * 6)
    x = dobj._MHN_sample(a, b, g, rng=scr)
    return len(scr.calls) == 2, scr.calls, float(x)


MHN_PARAMS = [(5, 1, 3), (3, 1, 2), (1, 1, 0), (3, 2, 0), (4, 2, 5), (10, 0.5, 4), (8, 1, 6), (1.5, 1.5, 1.5), (3, 3, 3), (1.5, 1, 1), (6, 6, 6),
              (0.5, 1, 1), (1, 2, 3), (0.75, 2, 0.5), (2, 3, -1), (0.5, 1, -2), (4, 0.5, -0.5), (16, 3, -4), (2.5, 2, 0.25),
              (7, 2, 9), (2, 1, 4)]


def mhn_cases(ctx, cases):
    import cuqi
    rng = ctx.rng
    dobj = cuqi.distribution.ModifiedHalfNormal(1.0, 1.0, 1.0)
    plist = MHN_PARAMS if ctx.thorough else MHN_PARAMS[:16]
    for (a, b, g) in plist:
        q = mhn_quantities(a, b, g)
        try:
            oracle = mhn_acceptance_oracle(dobj, a, b, g, q)
        except Exception as e:
            oracle = ("_MHN_sample(%s, %s, %s): the rejection loop does not return for scripted proposals at the scheme's centre with "
                      "U = 1e-300 (%s: %s)" % (a, b, g, type(e).__name__, e), "ModifiedHalfNormal._MHN_sample|never-accepts")
        for rep in range(ctx.n(2, 6)):
            for attempt in range(50):
                if q["scheme"] == "norm":
                    p = q["mu"] * rng.choice([0.5, 0.75, 1.0, 1.25, 1.5, 2.0]) + rng.randint(-8, 8) / 64
                    p = round(p * 64) / 64
                else:
                    p = max(1, round(q["center"] * rng.choice([0.25, 0.5, 1.0, 1.5, 2.5, 4.0]) * 64)) / 64
                if p <= 0:
                    continue
                L = mhn_logacc(q, a, b, g, p)
                # the normal scheme is checked in both states of the proposed repair: keep a margin to both ratios
                L2 = L - (a - 2) * math.log(q["mu"]) if q["scheme"] == "norm" else L
                target = rng.choice([L, L2]) + rng.choice([-1.0, -0.1, 0.1, 1.0, -3.0])
                u = min(max(math.exp(min(target, 0.0)), 2.0 ** -40), 1 - 2.0 ** -20)
                u = round(u * 2 ** 40) / 2 ** 40
                if 0 < u < 1 and abs(math.log(u) - L) > 1e-4 and abs(math.log(u) - L2) > 1e-4:
                    break
            else:
                continue
            meta = {"op": "mhn", "a": a, "b": b, "g": g, "p": p, "u": u}
            cases.append(mhn_case(ctx, meta, dobj))
        if oracle:
            cases.append(Case(expr="true", meta={"op": "mhn", "a": a, "b": b, "g": g, "p": q["center"], "u": 0.5, "verdict_only": True},
                              cell="mhn/%s/verdict" % q["scheme"], trivial=True, kind="DECISION", impl_fail=oracle[0], signature=oracle[1]))
    mhn_helper_cases(ctx, cases)
    # the public path: the parameters the sampler works with are those of the density the object reports
    for (a, b, g) in [(2.0, 3.0, 1.0), (0.5, 0.5, 0.5), (3.0, 3.0, 3.0), (1.0, 2.0, 3.0), (6.0, 3.0, -4.0)]:
        for N in (1, 2):
            cases.append(mhn_public_case(ctx, {"op": "mhn_public", "a": a, "b": b, "g": g, "N": N}))


def mhn_prop(a, b, g, first, p, u, accepted, Gam=None):
    """the Coq proposition (over R) saying that the model, on these inputs, does what the implementation did"""
    A, B, G = cr(a), cr(b), cr(g)
    props = []
    tol = "(1 / 1000000000)"
    if g <= 0:
        m = "1" if a <= 1 else "(mhn_neg_m %s %s %s)" % (A, B, G)
        props.append("Rabs (%s * mhn_neg_v1 %s %s %s - %s) <= %s" % (A, B, G, m, cr(first[1]), tol))
        props.append("Rabs (mhn_neg_v2 %s %s %s * %s - 1) <= %s" % (B, G, m, cr(first[2]), tol))
        L = "mhn_neg_logacc %s %s %s %s" % (B, G, m, cr(p))
        unf = "unfold mhn_neg_logacc, mhn_neg_x, mhn_neg_v1, mhn_neg_v2, mhn_neg_m."
    elif first[0] == "gamma":
        props.append("Rabs (%s / 2 - %s) <= %s" % (A, cr(first[1]), tol))
        props.append("Rabs (mhn_delta %s %s %s * %s - 1) <= %s" % (A, B, G, cr(first[2]), tol))
        if a > 1:
            props.append("mhn_K2 %s %s %s %s <= mhn_K1 %s %s %s" % (cr(Gam), A, B, G, A, B, G))
        L = "mhn_gam_logacc %s %s (mhn_delta %s %s %s) (sqrt %s)" % (B, G, A, B, G, cr(p))
        unf = "unfold mhn_K1, mhn_K2, mhn_gam_logacc, mhn_delta, mhn_mu."
    else:
        props.append("Rabs (mhn_mu %s %s %s - %s) <= %s" % (A, B, G, cr(first[1]), tol))
        props.append("Rabs (mhn_norm_sd %s - %s) <= %s" % (B, cr(first[2]), tol))
        props.append("mhn_K1 %s %s %s < mhn_K2 %s %s %s %s" % (A, B, G, cr(Gam), A, B, G))
        L = "mhn_norm_logacc %s %s %s (mhn_mu %s %s %s) %s" % (A, B, G, A, B, G, cr(p))
        L2 = "mhn_norm_logacc_fixed %s %s %s (mhn_mu %s %s %s) %s" % (A, B, G, A, B, G, cr(p))
        unf = "unfold mhn_K1, mhn_K2, mhn_norm_logacc, mhn_norm_logacc_fixed, mhn_norm_sd, mhn_delta, mhn_mu."
        # either state of fixes/C05_mhn_normal_acceptance.diff (the acceptance oracle reports the defect itself)
        props.append(("ln %s < %s \\/ ln %s < %s" % (cr(u), L, cr(u), L2)) if accepted
                     else ("%s <= ln %s \\/ %s <= ln %s" % (L, cr(u), L2, cr(u))))
        return (" /\\ ".join("(%s)" % s for s in props),
                unf + " repeat split; first [interval with (i_prec 90) | left; interval with (i_prec 90) | right; interval with (i_prec 90)].")
    props.append(("ln %s < %s" % (cr(u), L)) if accepted else ("%s <= ln %s" % (L, cr(u))))
    return " /\\ ".join("(%s)" % s for s in props), unf + " repeat split; interval with (i_prec 90)."


@failing_input('ModifiedHalfNormal')
def mhn_case(ctx, meta, dobj=None):
    import cuqi
    if dobj is None:
        dobj = cuqi.distribution.ModifiedHalfNormal(1.0, 1.0, 1.0)
    a, b, g, p, u = meta["a"], meta["b"], meta["g"], meta["p"], meta["u"]
    q = mhn_quantities(a, b, g)
    accepted, calls, x = mhn_run(dobj, a, b, g, p, u, q)
    first = calls[0]
    prop, tac = mhn_prop(a, b, g, first, p, u, accepted, q.get("Gam"))
    scheme = "neg" if g <= 0 else ("gam" if first[0] == "gamma" else "norm")
    return Case(expr=prop, tac=tac, meta=meta, cell="mhn/%s/%s" % (scheme, "accept" if accepted else "reject"), kind="ENCLOSURE")


@failing_input('ModifiedHalfNormal')
def mhn_helper_case(ctx, meta):
    """the rejection helpers called directly, with their optional arguments left at None (delta / mu computed inside) or, for the
    gamma <= 0 scheme, with an explicit matching point m (number or 'mode')"""
    import cuqi
    dobj = cuqi.distribution.ModifiedHalfNormal(1.0, 1.0, 1.0)
    a, b, g, which = meta["a"], meta["b"], meta["g"], meta["which"]
    p, u = meta["p"], meta["u"]
    scr = MHNScript([p] * 8, [u] * 8)
    if which == "gamma_proposal":
        dobj._MHN_sample_gamma_proposal(a, b, g, scr)            # delta=None
    elif which == "normal_proposal":
        dobj._MHN_sample_normal_proposal(a, b, g, None, scr)     # mu=None
    else:
        dobj._MHN_sample_negative_gamma(a, b, g, scr, m=meta["m"])
    first = scr.calls[0]
    A, B, G = cr(a), cr(b), cr(g)
    tol = "(1 / 1000000000)"
    if which == "gamma_proposal":
        props = ["Rabs (%s / 2 - %s) <= %s" % (A, cr(first[1]), tol), "Rabs (mhn_delta %s %s %s * %s - 1) <= %s" % (A, B, G, cr(first[2]), tol)]
        unf = "unfold mhn_delta."
    elif which == "normal_proposal":
        props = ["Rabs (mhn_mu %s %s %s - %s) <= %s" % (A, B, G, cr(first[1]), tol), "Rabs (mhn_norm_sd %s - %s) <= %s" % (B, cr(first[2]), tol)]
        unf = "unfold mhn_mu, mhn_norm_sd."
    else:
        m = meta["m"]
        mq = "(mhn_neg_m %s %s %s)" % (A, B, G) if (m == "mode" or (m is None and a > 1)) else ("1" if m is None else cr(m))
        props = ["Rabs (%s * mhn_neg_v1 %s %s %s - %s) <= %s" % (A, B, G, mq, cr(first[1]), tol),
                 "Rabs (mhn_neg_v2 %s %s %s * %s - 1) <= %s" % (B, G, mq, cr(first[2]), tol)]
        unf = "unfold mhn_neg_v1, mhn_neg_v2, mhn_neg_m."
    ok_len = len(scr.calls) == 2           # forced accept at the first proposal
    props.append("0 < 1" if ok_len else "1 < 0")
    return Case(expr=" /\\ ".join("(%s)" % x for x in props), tac=unf + " repeat split; interval with (i_prec 90).", meta=meta,
                cell="mhn/helper/%s" % which, kind="ENCLOSURE")


def mhn_helper_cases(ctx, cases):
    for (a, b, g, which, m) in [(0.75, 2, 0.5, "gamma_proposal", None), (3, 3, 3, "gamma_proposal", None), (5, 1, 3, "normal_proposal", None),
                                (4, 2, 5, "normal_proposal", None), (2, 3, -1, "neg", None), (0.5, 1, -2, "neg", None), (2, 3, -1, "neg", "mode"),
                                (0.5, 1, -2, "neg", 0.75), (4, 0.5, -0.5, "neg", 1.5), (1, 1, 0, "neg", "mode")]:
        q = mhn_quantities(a, b, g)
        center = {"gamma_proposal": (g / (2 * (b - (b + (g * g - g * math.sqrt(g * g + 8 * b * a)) / (4 * a))))) ** 2 if g > 0 else 1.0,
                  "normal_proposal": (g + math.sqrt(g * g + 8 * b * (a - 1))) / (4 * b) if a > 1 else 1.0, "neg": 1.0}[which]
        cases.append(mhn_helper_case(ctx, {"op": "mhn_helper", "a": a, "b": b, "g": g, "which": which, "m": m,
                                           "p": round(center * 64) / 64 or 1 / 64, "u": 2.0 ** -200}))


def mhn_acceptance_oracle(dobj, a, b, g, q):
    """Read the acceptance probability acc(p) = P(accept | proposal p) off the implementation by bisection on the uniform, and
    compare with target / proposal density (scipy.stats, observed proposal arguments): for a rejection sampler to return the
    target law, acc must be proportional to target/proposal AND never be capped at 1 where that ratio still varies."""
    import scipy.stats as st
    _, calls, _ = mhn_run(dobj, a, b, g, q["center"], 0.5, q)
    first = calls[0]
    if first[0] == "gamma":
        prop = st.gamma(a=first[1], scale=first[2])
        grid = [prop.ppf(t) for t in (0.02, 0.1, 0.25, 0.4, 0.5, 0.6, 0.75, 0.9, 0.98)]
        if g <= 0:
            # the map T -> X = m T^v1 is read off the implementation (two forced accepts), not assumed
            x1 = mhn_run(dobj, a, b, g, 1.0, 1e-300, q)[2]
            x4 = mhn_run(dobj, a, b, g, 4.0, 1e-300, q)[2]
            v1e = math.log(x4 / x1) / math.log(4.0)
            me = x1
            tox = lambda t: me * t ** v1e
            jac = lambda t: math.log(me * v1e) + (v1e - 1) * math.log(t)
        else:
            tox = lambda t: math.sqrt(t)
            jac = lambda t: -math.log(2 * math.sqrt(t))
        logprop = lambda t: float(prop.logpdf(t)) - jac(t)          # density of X = tox(T)
    else:
        prop = st.norm(loc=first[1], scale=first[2])
        grid = [v for v in (prop.ppf(t) for t in (0.02, 0.1, 0.25, 0.4, 0.5, 0.6, 0.75, 0.9, 0.98)) if v > 0]
        tox = lambda t: t
        logprop = lambda t: float(prop.logpdf(t))
    logf = lambda x: (a - 1) * math.log(x) - b * x * x + g * x
    rows = []
    for t in grid:
        hi_u = 1 - 2.0 ** -53
        if mhn_run(dobj, a, b, g, t, hi_u, q)[0]:
            rows.append((t, None))                # accepted whatever the uniform: acc = 1 (capped)
            continue
        lo, hi = 0.0, 1.0
        for _ in range(60):
            mid = 0.5 * (lo + hi)
            if mid <= 0:
                break
            if mhn_run(dobj, a, b, g, t, mid, q)[0]:
                lo = mid
            else:
                hi = mid
        rows.append((t, math.log(hi) if hi > 0 else -math.inf))
    ratio = lambda t: logf(tox(t)) - logprop(t)
    free = [(t, la) for t, la in rows if la is not None and la > -600]
    sig_site = {"gamma": "_MHN_sample_gamma_proposal" if g > 0 else "_MHN_sample_negative_gamma", "normal": "_MHN_sample_normal_proposal"}[first[0]]
    if len(free) < 2:
        if all(la is None for _, la in rows):
            rr = [ratio(t) for t, _ in rows]
            if max(rr) - min(rr) <= 1e-6 * (1 + abs(rr[0])):
                return None            # the proposal IS the target (e.g. alpha=1, gamma=0: half-normal): acceptance 1 is exact
            return ("MHN(%s,%s,%s): every proposal is accepted with probability 1 although target/proposal varies" % (a, b, g),
                    SIG_MHN_ACC if first[0] == "normal" else "ModifiedHalfNormal.%s|acceptance" % sig_site)
        return None
    cs = [la - ratio(t) for t, la in free]
    c = sum(cs) / len(cs)
    if max(abs(v - c) for v in cs) > 1e-6 * (1 + abs(c)):
        return ("MHN(%s,%s,%s) %s: acceptance probability is not proportional to target/proposal (log-ratio spread %.3g)"
                % (a, b, g, sig_site, max(abs(v - c) for v in cs)), "ModifiedHalfNormal.%s|acceptance-not-proportional" % sig_site)
    capped = [(t, c + ratio(t)) for t, la in rows if la is None and c + ratio(t) > 1e-6]
    if capped:
        t, L = max(capped, key=lambda r: r[1])
        return ("ModifiedHalfNormal.%s(alpha=%s, beta=%s, gamma=%s): the acceptance ratio exceeds 1 (ln ratio %.3f at proposal %.4g), so "
                "acceptance is capped where target/proposal still varies and the draws do not follow x^(alpha-1) exp(-beta x^2 + gamma x)"
                % (sig_site, a, b, g, L, t), SIG_MHN_ACC if first[0] == "normal" else "ModifiedHalfNormal.%s|acceptance-above-one" % sig_site)
    return None


@failing_input('ModifiedHalfNormal')
def mhn_public_case(ctx, meta):
    """sample() must work with the parameters of the density the same object reports (whatever its getters return)"""
    import cuqi
    a, b, g, N = meta["a"], meta["b"], meta["g"], meta["N"]
    d = cuqi.distribution.ModifiedHalfNormal(a, b, g)
    # parameters implied by the reported density: logpdf(x) = (A-1) ln x - B x^2 + C x at three points
    xs = [1.0, 2.0, 0.5]
    M = np.array([[math.log(x), -x * x, x] for x in xs])
    rhs = np.array([float(np.ravel(d.logpdf(np.array([x])))[0]) for x in xs])
    A1, B, C = np.linalg.solve(M, rhs)
    A = A1 + 1
    A, B, C = [round(v * 64) / 64 for v in (A, B, C)]
    q = mhn_quantities(A, B, C)
    scr = MHNScript([q["center"]] * (4 * N), [2.0 ** -30] * (4 * N))
    w = d.sample(N, rng=scr)
    first = scr.calls[0]
    prop, tac = mhn_prop(A, B, C, first, q["center"], 2.0 ** -30, True, q.get("Gam"))
    ok_calls = len(scr.calls) == 2 * N
    fail = None
    if not ok_calls:
        fail = "MHN.sample(%d): %d generator calls for forced-accept proposals" % (N, len(scr.calls))
    meta2 = dict(meta); meta2["density_params"] = [A, B, C]
    return Case(expr=prop, tac=tac, meta=meta2, cell="mhn/public/N=%d" % N, kind="ENCLOSURE", impl_fail=fail,
                signature="ModifiedHalfNormal._sample|public" if fail else "")


# ------------------------------------------------------------------------------------------------
# histories on ONE object: sample -> re-assign a settable parameter -> sample again
# ------------------------------------------------------------------------------------------------
def hist_value(rng, form_shape, n):
    form, shp = form_shape
    if shp == "scalar":
        return rng.choice([1.0, 4.0, 0.25, 2.25, 2.0, 9.0])
    if shp == "vector":
        return [rng.choice([1.0, 4.0, 0.25, 2.25, 2.0, 9.0]) for _ in range(n)]
    if shp in STRUCTURES:
        return struct_matrix(rng, n, shp, spd=form in ("prec", "cov")).tolist()
    return rand_matrix(rng, n, shp).tolist()


def as_param(val, shp, fmt):
    if shp == "scalar":
        return float(val)
    v = np.array(val, dtype=float)
    if shp != "vector" and fmt:
        v = to_sparse(v, fmt)
    return v


@failing_input('Gaussian')
def gaussian_history_case(ctx, meta):
    """one Gaussian object through a sequence of assignments; after every step the object is read off (affine map under
    scripted normals), compared bit for bit with a FRESH object built from the current parameters, checked by the model
    against the stored square root, and its covariance compared with the Hessian of its own logd.  Earlier read-offs are
    kept and the object is re-read at the end after restoring the first parameters (stale caches show up there)."""
    import cuqi, scipy.sparse as spa
    n, form = meta["dim"], meta["form"]
    steps = meta["steps"]            # list of {"attr": "mean"|form, "shape":…, "value":…, "fmt":…}
    cur = {"mean": meta["mean"], form: (meta["shape"], meta["value"], meta.get("fmt"))}
    def fresh():
        shp, val, fmt = cur[form]
        return quiet(cuqi.distribution.Gaussian, np.array(cur["mean"], dtype=float), **{form: as_param(val, shp, fmt)})
    d = fresh()
    exprs, fails = [], []
    def observe(tag):
        iface = meta["iface"]
        off, T, _ = read_affine(d, n, 1, iface)
        f = fresh()
        off2, T2, _ = read_affine(f, n, 1, iface)
        S = dense(d.sqrtprec)
        sparse = bool(spa.issparse(d.sqrtprec))
        same = bool(np.array_equal(off, off2) and np.array_equal(T, T2) and np.array_equal(S, dense(f.sqrtprec)))
        mean = np.atleast_1d(np.asarray(d.mean, dtype=float))
        exprs.append("check_gauss %s %s %s %s %s && %s" % (cbool(sparse), cqv(np.array(cur["mean"], dtype=float)), cqm(dense(f.sqrtprec)),
                                                         cqv(off), cqm(T), cbool(same)))
        H = hessian_of_logd(d, n, center=np.zeros(n))
        Hf = hessian_of_logd(f, n, center=np.zeros(n))
        defect, tol = cov_defect(H, T, 1e-6)
        lower_nondiag = (not sparse) and np.allclose(S, np.tril(S)) and np.any(S != np.diag(np.diag(S)))
        if not np.allclose(H, Hf, atol=1e-9 * max(1.0, np.abs(Hf).max())):
            fails.append("%s: logd of the re-assigned object is not the logd of a fresh object with the same parameters" % tag)
        elif not np.allclose(off, np.array(cur["mean"], dtype=float), atol=1e-12):
            fails.append("%s: offset of the draws %s is not the current mean %s" % (tag, off, cur["mean"]))
        elif defect > tol and not lower_nondiag:
            fails.append("%s: covariance of the draws does not follow the object's own logd after the assignment (|HCH-H|/|H| = %.3g)" % (tag, defect))
        elif not same:
            fails.append("%s: draws of the re-assigned object differ from those of a fresh object with the same parameters" % tag)
    observe("initial")
    first = dict(cur)
    for k, st in enumerate(steps + [{"restore": True}]):
        if st.get("restore"):
            for attr in ("mean", form):
                val = first[attr]
                cur[attr] = val
                setattr(d, attr, np.array(val, dtype=float) if attr == "mean" else as_param(val[1], val[0], val[2]))
            observe("after restoring the initial parameters")
            continue
        if st["attr"] == "mean":
            cur["mean"] = st["value"]
            d.mean = np.array(st["value"], dtype=float)
        else:
            cur[form] = (st["shape"], st["value"], st.get("fmt"))
            setattr(d, form, as_param(st["value"], st["shape"], st.get("fmt")))
        observe("after step %d (%s := %s)" % (k + 1, st["attr"], st.get("shape", "vector")))
    fail = fails[0] if fails else None
    return Case(expr=" && ".join(exprs), meta=meta, cell="history/Gaussian/%s" % form, kind="EXACT", impl_fail=fail,
                signature="Gaussian|history:%s" % form if fail else "")


@failing_input('GMRF')
def gmrf_history_case(ctx, meta):
    n, bc, order = meta["dim"], meta["bc"], meta["order"]
    m0 = dict(meta, op="gmrf", mean=meta["mean"], prec=meta["prec"], two_d=False)
    d = build_gmrf(m0)
    mrows, ncalls, proto = gmrf_protocol(d, bc)
    exprs, fails = [], []
    cur = {"mean": meta["mean"], "prec": meta["prec"]}
    def observe(tag):
        off, T, _ = read_affine(d, mrows, ncalls, "rng")
        f = build_gmrf(dict(m0, mean=cur["mean"], prec=cur["prec"]))
        off2, T2, _ = read_affine(f, mrows, ncalls, "rng")
        same = bool(np.allclose(off, off2, atol=1e-12) and np.allclose(T, T2, rtol=1e-9, atol=1e-12))   # eigsh start vectors differ in the last bits
        exprs.append(cbool(same))
        H, Hf = hessian_of_logd(d, n, center=np.zeros(n)), hessian_of_logd(f, n, center=np.zeros(n))
        defect, tol = cov_defect(H, T, 1e-5)
        if not np.allclose(H, Hf, atol=1e-9 * max(1.0, np.abs(Hf).max())):
            fails.append("%s: logd differs from a fresh object's" % tag)
        elif not np.allclose(off, np.array(cur["mean"], dtype=float), atol=1e-12):
            fails.append("%s: offset of the draws is not the current mean" % tag)
        elif defect > tol and not (proto == "dft" and order >= 1):
            fails.append("%s: covariance of the draws does not follow the object's own logd (|HCH-H|/|H| = %.3g)" % (tag, defect))
        elif not same:
            fails.append("%s: draws differ from those of a fresh object with the same parameters" % tag)
    observe("initial")
    for k, st in enumerate(meta["steps"]):
        cur[st["attr"]] = st["value"]
        setattr(d, st["attr"], np.array(st["value"], dtype=float) if st["attr"] == "mean" else st["value"])
        observe("after step %d (%s)" % (k + 1, st["attr"]))
    fail = fails[0] if fails else None
    return Case(expr=" && ".join(exprs), meta=meta, cell="history/GMRF/%s" % bc, kind="DECISION", impl_fail=fail,
                signature="GMRF|history" if fail else "")


UNI_ATTRS = {"Normal": ("mean", "std"), "Laplace": ("location", "scale"), "Uniform": ("low", "high"), "Gamma": ("shape", "rate"),
             "InverseGamma": ("shape", "location", "scale"), "Beta": ("alpha", "beta"), "Cauchy": ("location", "scale")}


@failing_input(lambda m: m.get('family'))
def univariate_history_case(ctx, meta):
    """sample -> assign one parameter -> sample: the generator call after the assignment is the one the model predicts for the
    NEW parameters and the density of the generator as called is the object's own logpdf"""
    fam, n, N = meta["family"], meta["dim"], meta["N"]
    d = build_univariate(meta)
    ps = [p for p in meta["params"]]
    cases = [wiring_case(ctx, dict(meta, op="wiring"), dist=d)]
    for st in meta["steps"]:
        k = UNI_ATTRS[fam].index(st["attr"])
        ps = list(ps); ps[k] = st["value"]
        v = np.array(st["value"], dtype=float) if isinstance(st["value"], list) else float(st["value"])
        setattr(d, st["attr"], v)
        cases.append(wiring_case(ctx, dict(meta, op="wiring", params=ps), dist=d))
    fail = next((c.impl_fail for c in cases if c.impl_fail), None)
    if fail:
        fail = "after re-assigning %s on the same object: %s" % ([s["attr"] for s in meta["steps"]], fail)
    return Case(expr=" && ".join("(%s)" % c.expr for c in cases), meta=meta, cell="history/%s" % fam, kind="EXACT", impl_fail=fail,
                signature="%s|history" % fam if fail else "")


@failing_input('Lognormal')
def lognormal_history_case(ctx, meta):
    import cuqi
    n = meta["dim"]
    d = quiet(cuqi.distribution.Lognormal, np.array(meta["mean"], dtype=float), as_param(meta["cov"][1], meta["cov"][0], None))
    cur = {"mean": meta["mean"], "cov": meta["cov"]}
    exprs, fails = [], []
    z = np.array(meta["z"], dtype=float)
    def observe(tag):
        g = quiet(cuqi.distribution.Gaussian, np.array(cur["mean"], dtype=float), cov=as_param(cur["cov"][1], cur["cov"][0], None))
        off, T, _ = read_affine(g, n, 1, "rng")
        scr = NormalScript([z.reshape(n, 1)])
        s = np.asarray(quiet(d._sample, 1, scr), dtype=float).ravel()
        exprs.append("check_lognormal %s %s %s %s" % (cqv(off), cqm(T), cqv(z), cqv(np.log(s))))
        ref = float(np.ravel(g.logpdf(np.log(s)))[0]) - float(np.sum(np.log(s)))
        got = float(np.ravel(d.logpdf(s))[0])
        if abs(ref - got) > 1e-8 * (1 + abs(ref)):
            fails.append("%s: Lognormal.logpdf(draw) = %r but the Gaussian(mean, cov) density of ln(draw) with Jacobian gives %r" % (tag, got, ref))
        elif not np.allclose(np.log(s), off + T @ z, atol=1e-9):
            fails.append("%s: the draw is not exp of the Gaussian(current mean, current cov) draw" % tag)
    observe("initial")
    for k, st in enumerate(meta["steps"]):
        cur[st["attr"]] = st["value"]
        setattr(d, st["attr"], np.array(st["value"], dtype=float) if st["attr"] == "mean" else as_param(st["value"][1], st["value"][0], None))
        observe("after step %d (%s)" % (k + 1, st["attr"]))
    fail = fails[0] if fails else None
    return Case(expr=" && ".join(exprs), meta=meta, cell="history/Lognormal", kind="EXACT", impl_fail=fail,
                signature="Lognormal|history" if fail else "")


def history_cases(ctx, cases):
    rng = ctx.rng
    k = 0
    n = 3
    combos = [("sqrtprec", "upper", None), ("sqrtprec", "full", None), ("sqrtprec", "tridiag", "csr"), ("sqrtprec", "upper-bidiag", "dia"),
              ("sqrtprec", "vector", None), ("sqrtprec", "scalar", None),
              ("cov", "spd", None), ("cov", "tridiag", "csc"), ("cov", "vector", None), ("cov", "scalar", None),
              ("prec", "spd", None), ("prec", "tridiag", "csr"), ("prec", "vector", None), ("prec", "scalar", None),
              ("sqrtcov", "upper", None), ("sqrtcov", "full", None), ("sqrtcov", "lower-bidiag", "coo"), ("sqrtcov", "vector", None)]
    for form in ("sqrtprec", "cov", "prec", "sqrtcov"):
        mine = [c for c in combos if c[0] == form]
        for a in mine:
            for b in (mine if ctx.thorough else [mine[(mine.index(a) + 1) % len(mine)], mine[(mine.index(a) + 3) % len(mine)]]):
                k += 1
                steps = []
                if k % 3 == 0:
                    steps.append({"attr": "mean", "value": [dy(rng) for _ in range(n)]})
                steps.append({"attr": form, "shape": b[1], "fmt": b[2], "value": hist_value(rng, (form, b[1]), n)})
                if k % 3 == 1:
                    steps.append({"attr": "mean", "value": [dy(rng) for _ in range(n)]})
                if k % 2 == 0:       # same shape class again, other numbers (a cache keyed on the kind of input would survive)
                    steps.append({"attr": form, "shape": b[1], "fmt": b[2], "value": hist_value(rng, (form, b[1]), n)})
                meta = {"op": "hist_gauss", "form": form, "dim": n, "shape": a[1], "fmt": a[2], "value": hist_value(rng, (form, a[1]), n),
                        "mean": [dy(rng) for _ in range(n)], "steps": steps, "iface": ["rng", "global", "N1"][k % 3]}
                cases.append(gaussian_history_case(ctx, meta))
    for bc in ("zero", "neumann", "periodic"):
        for order in (0, 1, 2):
            k += 1
            nn = 5
            meta = {"op": "hist_gmrf", "bc": bc, "order": order, "dim": nn, "mean": [dy(rng) for _ in range(nn)], "prec": rng.choice([1.0, 4.0, 2.0]),
                    "steps": [{"attr": "prec", "value": rng.choice([0.25, 9.0, 3.0])}, {"attr": "mean", "value": [dy(rng) for _ in range(nn)]},
                              {"attr": "prec", "value": rng.choice([16.0, 0.5])}]}
            cases.append(gmrf_history_case(ctx, meta))
    for fam in FAMILY_GEN:
        for form in ("scalar", "vector"):
            for rep in range(ctx.n(1, 3)):
                k += 1
                nn = 1 if form == "scalar" else 3
                ps = rand_params(rng, fam, form, nn)
                ps2 = rand_params(rng, fam, form, nn)
                attrs = UNI_ATTRS[fam]
                steps = [{"attr": attrs[i], "value": ps2[i]} for i in ([k % len(attrs)] if rep == 0 else range(len(attrs)))]
                if fam == "Uniform":      # keep low < high along the way: assign high first when it grows
                    steps = [{"attr": "high", "value": ps2[1]}, {"attr": "low", "value": ps2[0]}] if (np.max(ps2[1]) > np.max(ps[1])) else \
                            [{"attr": "low", "value": ps2[0]}, {"attr": "high", "value": ps2[1]}]
                    if np.min(np.asarray(ps[1]) - np.asarray(ps2[0])) <= 0 or np.min(np.asarray(ps2[1]) - np.asarray(ps[0])) <= 0:
                        steps = [{"attr": "high", "value": (np.asarray(ps[1]) + 8).tolist() if isinstance(ps[1], list) else ps[1] + 8}]
                N = [1, 2, 5][k % 3]
                meta = {"op": "hist_uni", "family": fam, "form": form, "dim": nn, "N": N, "params": ps, "steps": steps,
                        "G": [[rng.randint(1, 63) / 64 for _ in range(nn)] for _ in range(N)], "iface": ["rng", "global"][k % 2],
                        "xseed": rng.randint(0, 10 ** 6)}
                cases.append(univariate_history_case(ctx, meta))
    for rep in range(ctx.n(4, 12)):
        nn = 2
        shapes = ["scalar", "vector", "spd"]
        meta = {"op": "hist_lognormal", "dim": nn, "mean": [dy(rng, -2, 2) for _ in range(nn)],
                "cov": (shapes[rep % 3], hist_value(rng, ("cov", shapes[rep % 3]), nn)),
                "z": [dy(rng, -2, 2) for _ in range(nn)],
                "steps": [{"attr": "cov", "value": (shapes[(rep + 1) % 3], hist_value(rng, ("cov", shapes[(rep + 1) % 3]), nn))},
                          {"attr": "mean", "value": [dy(rng, -2, 2) for _ in range(nn)]},
                          {"attr": "cov", "value": (shapes[(rep + 2) % 3], hist_value(rng, ("cov", shapes[(rep + 2) % 3]), nn))}]}
        cases.append(lognormal_history_case(ctx, meta))


# ------------------------------------------------------------------------------------------------
# round-4 lessons (L14 .. L26): cell families
# ------------------------------------------------------------------------------------------------
def gauss_observe(d, n, expect_mean=None, fresh=None, iface="rng", hstep=1.0):
    """(coq expression, failure or None) for one Gaussian-like object in its present state: the model on the stored square root,
    the covariance implied by its own logd, optionally bit-for-bit agreement with a fresh object"""
    import scipy.sparse as spa
    off, T, _ = read_affine(d, n, 1, iface)
    S = dense(d.sqrtprec)
    sparse = bool(spa.issparse(d.sqrtprec))
    mean = np.atleast_1d(np.asarray(d.mean, dtype=float))
    bm = np.repeat(mean, n) if len(mean) == 1 else mean
    expr = "check_gauss %s %s %s %s %s" % (cbool(sparse), cqv(mean if expect_mean is None else np.asarray(expect_mean, dtype=float)),
                                          cqm(S), cqv(off), cqm(T))
    H = hessian_of_logd(d, n, center=bm, step=hstep)
    defect, tol = cov_defect(H, T, 1e-6)
    fail = None
    if expect_mean is not None and not np.array_equal(off, np.asarray(expect_mean, dtype=float)):
        fail = "offset of the draws %s is not the expected mean %s" % (off, list(np.asarray(expect_mean)))
    elif not np.allclose(off, bm, atol=1e-12 * (1 + float(np.abs(bm).max()))):
        fail = "offset of the draws is not the object's mean"
    elif defect > tol:
        fail = "covariance of the draws does not follow the object's own logd (|HCH-H|/|H| = %.3g)" % defect
    elif fresh is not None:
        off2, T2, _ = read_affine(fresh, n, 1, iface)
        Hf = hessian_of_logd(fresh, n, center=bm, step=hstep)
        if not (np.array_equal(off, off2) and np.array_equal(T, T2)):
            fail = "draws differ from those of a fresh object built with the same parameters"
        elif not np.allclose(H, Hf, atol=1e-9 * max(1.0, float(np.abs(Hf).max()))):
            fail = "logd differs from that of a fresh object built with the same parameters"
    return expr, fail


@failing_input('Distribution')
def lifecycle_case(ctx, meta):
    """L14: the refusal clause in every life-cycle state of ONE object.  `expected` (conditional or not) is the scenario's
    ground truth, never read from the object."""
    import cuqi
    D = cuqi.distribution
    N = meta["N"]
    z2 = np.zeros(2)
    G = D.Gaussian(z2, cov=lambda s: s) if meta["kind"] == "gauss" else D.Normal(mean=lambda m: m, std=1.0)
    key = "s" if meta["kind"] == "gauss" else "m"
    attr = "cov" if meta["kind"] == "gauss" else "mean"
    states = []            # (label, object, expected_conditional)
    def attempt(label, obj, expected_cond):
        try:
            w = quiet(obj.sample, N, rng=np.random.RandomState(1))
            refused, sv = False, shape_verdict(obj, w, N)
        except ValueError as e:
            refused, sv = True, None
        states.append((label, expected_cond, refused, sv))
    attempt("fresh", G, True)
    attempt("after a refused call", G, True)
    c = quiet(G, **{key: 2.0})
    attempt("original after conditioning a copy", G, True)
    attempt("the conditioned copy", c, False)
    attempt("original after the copy was sampled", G, True)
    try:
        quiet(G.logd, np.zeros(2) if meta["kind"] == "gauss" else 0.5, **{key: 2.0})
    except Exception:
        pass
    attempt("original after logd(x, %s=2)" % key, G, True)
    setattr(G, attr, 2.0)
    attempt("after assigning a number to %s" % attr, G, False)
    attempt("again", G, False)
    setattr(G, attr, (lambda s: s) if meta["kind"] == "gauss" else (lambda m: m))
    attempt("after assigning a callable to %s again" % attr, G, True)
    setattr(G, attr, None)
    attempt("after assigning None to %s" % attr, G, True)
    exprs = ["check_wrap %s %s (Raw1 []) %s" % (cbool(ec), cnat(N), "WRefused" if rf else "(WArray [])") if (ec or rf) else "true"
             for _, ec, rf, _ in states]
    fail = None
    for label, ec, rf, sv in states:
        if ec and not rf:
            fail = "%s: sampling was not refused although a conditioning variable is missing" % label
        elif not ec and rf:
            fail = "%s: sampling is refused although every conditioning variable is given" % label
        elif sv:
            fail = "%s: %s" % (label, sv)
        if fail:
            break
    return Case(expr=" && ".join(exprs), meta=meta, cell="L14-lifecycle/%s" % meta["kind"], kind="DECISION", impl_fail=fail,
                signature="Distribution.sample|conditional-lifecycle" if fail else "")


@failing_input('Gaussian')
def alias_time_case(ctx, meta):
    """L15: the distribution keeps references to the caller's arrays; the caller overwrites them IN PLACE between draws.  After
    every overwrite sampler and logd must still describe the same law (both read the same array), sampling must never write into
    the caller's arrays (scipy solves work in place on float64 column-major arrays), and a draw must not depend on earlier draws."""
    import cuqi
    n = meta["dim"]
    order = meta["order"]
    S = np.array(meta["S"], dtype=float, order=order)
    mu = np.array(meta["mean"], dtype=float)
    d = quiet(cuqi.distribution.Gaussian, mu, sqrtprec=S)
    exprs, fail = [], None
    keepS, keepmu = S.copy(), mu.copy()
    e1, f1 = gauss_observe(d, n, expect_mean=keepmu, iface=meta["iface"])
    exprs.append(e1); fail = fail or f1
    quiet(d.sample, 3, rng=np.random.RandomState(0)); quiet(d.sample, 1, rng=np.random.RandomState(0))
    if not (np.array_equal(S, keepS) and np.array_equal(mu, keepmu)):
        fail = fail or "sampling wrote into the arrays the caller handed to the constructor (%s-ordered float64 sqrtprec)" % order
    e2, f2 = gauss_observe(d, n, expect_mean=keepmu, iface=meta["iface"])
    exprs.append(e2); fail = fail or (("second read-off: " + f2) if f2 else None)
    mu[:] = np.array(meta["mean2"], dtype=float)             # the caller re-uses its arrays
    if meta.get("S2") is not None:
        S[...] = np.array(meta["S2"], dtype=float)
    e3, f3 = gauss_observe(d, n, expect_mean=np.array(meta["mean2"], dtype=float), iface=meta["iface"])
    exprs.append(e3); fail = fail or (("after the caller overwrote its arrays in place: " + f3) if f3 else None)
    return Case(expr=" && ".join(exprs), meta=meta, cell="L15-alias-over-time/gaussian-%s" % order, kind="EXACT", impl_fail=fail,
                signature="Gaussian._sample|aliasing-over-time" if fail else "")


@failing_input(lambda m: m.get('family'))
def alias_time_uni_case(ctx, meta):
    """L15 for the univariate families that store the caller's arrays as they are (Normal, Laplace, Uniform): overwrite in place,
    the next generator call and the logpdf must both see the new numbers"""
    fam, n, N = meta["family"], meta["dim"], meta["N"]
    import cuqi
    arrs = [np.array(p, dtype=float) for p in meta["params"]]
    d = quiet(getattr(cuqi.distribution, fam), *arrs)
    c1 = wiring_case(ctx, dict(meta, op="wiring"), dist=d)
    for a, new in zip(arrs, meta["params2"]):
        a[:] = np.array(new, dtype=float)
    c2 = wiring_case(ctx, dict(meta, op="wiring", params=meta["params2"]), dist=d)
    fail = c1.impl_fail or (("after the caller overwrote the parameter arrays in place: " + c2.impl_fail) if c2.impl_fail else None)
    return Case(expr="(%s) && (%s)" % (c1.expr, c2.expr), meta=meta, cell="L15-alias-over-time/%s" % fam, kind="EXACT", impl_fail=fail,
                signature="%s._sample|aliasing-over-time" % fam if fail else "")


@failing_input('Gaussian')
def zeros_case(ctx, meta):
    """L18: exact zeros inside otherwise generic data (means like [0, 2], block-decoupled matrices whose factors have exact
    structural zeros), every parameterisation, dense and sparse"""
    import cuqi
    n = meta["dim"]
    d = build_gaussian(meta)
    fresh = None
    expr, fail = gauss_observe(d, n, expect_mean=np.array(meta["mean"], dtype=float), iface=meta["iface"])
    Hin = input_precision(meta, n)
    if not fail and Hin is not None:
        H = hessian_of_logd(d, n, center=np.array(meta["mean"], dtype=float))
        if float(np.abs(H - Hin).max()) > 1e-6 * float(np.abs(Hin).max()):
            fail = "logd is not the Gaussian log-density of the given (block-decoupled) parameters"
    return Case(expr=expr, meta=meta, cell="L18-exact-zeros/%s:%s%s" % (meta["form"], meta["shape"], "[%s]" % meta["sparse_format"] if meta.get("sparse_format") else ""),
                kind="EXACT", impl_fail=fail, signature="Gaussian._sample|exact-zeros" if fail else "")


@failing_input('UserDefinedDistribution')
def udd_buffer_case(ctx, meta):
    """L19: a user sample_func that fills and returns ONE reused work buffer, a non-contiguous view, a Fortran-ordered column or a
    CUQIarray: column j of sample(N) must hold the j-th vector the function produced"""
    import cuqi
    from cuqi.array import CUQIarray
    dim, N, style = meta["dim"], meta["N"], meta["style"]
    produced = []
    buf = np.zeros(dim)
    big = np.zeros(2 * dim)
    state = {"k": 0}
    def f():
        state["k"] += 1
        v = np.array([state["k"] * 10 + i + 0.25 for i in range(dim)])
        produced.append(v.copy())
        if style == "buffer":
            buf[:] = v
            return buf
        if style == "strided":
            big[::2] = v
            return big[::2]
        if style == "cuqiarray":
            return CUQIarray(v.copy())
        if style == "column-F":
            return np.asfortranarray(v.reshape(dim, 1))
        return v
    d = cuqi.distribution.UserDefinedDistribution(dim=dim, logpdf_func=lambda x: -0.5 * np.sum(x ** 2), sample_func=f)
    try:
        w = quiet(d.sample, N)
    except ValueError as e:
        if style == "column-F" and N > 1:       # (dim, 1) results are outside what `out[:, i] = f()` accepts: a refusal
            return Case(expr="true", meta=meta, cell="L19-user-buffers/refused", trivial=True, kind="DECISION")
        raise
    got = np.asarray(w, dtype=float).reshape(dim, 1) if N == 1 else np.asarray(w.samples, dtype=float)
    want = np.column_stack(produced[-N:])
    fail = shape_verdict(d, w, N)
    if not fail and not np.array_equal(got, want):
        fail = "sample(%d) with a sample_func returning %s: columns %s are not the vectors the function produced %s" % (N, style, got.tolist(), want.tolist())
    expr = "check_wrap false %s %s %s" % (cnat(N), enc_raw(want if N > 1 else want.ravel()), enc_wrapped(w))
    return Case(expr=expr, meta=meta, cell="L19-user-buffers/%s" % style, kind="EXACT", impl_fail=fail,
                signature="UserDefinedDistribution._sample|user-buffer" if fail else "")


@failing_input(lambda m: m.get('cls'))
def int_twin_case(ctx, meta):
    """L20 / L23: the same numbers given as integers (python ints, integer arrays) or as CUQIarray (an ndarray subclass) must give
    the same draws, under the same generator state, as the float64 ndarray twin -- and a consistent density"""
    import cuqi
    from cuqi.array import CUQIarray
    D = cuqi.distribution
    cls, style = meta["cls"], meta["style"]
    def conv(v):
        if isinstance(v, list):
            a = np.array(v, dtype=float)
            return a.astype(int) if style == "int" else CUQIarray(a) if style == "cuqiarray" else a
        return int(v) if (style == "int" and float(v).is_integer()) else float(v)
    args = meta["args"]
    def mk(convert):
        a = [convert(v) for v in args]
        if cls == "GMRF":
            return quiet(D.GMRF, a[0], a[1], meta.get("bc", "zero"))
        return quiet(getattr(D, cls), *a)
    d, t = mk(conv), mk(lambda v: np.array(v, dtype=float) if isinstance(v, list) else float(v))
    N = meta["N"]
    seed = meta["seed"]
    a = quiet(d.sample, N, rng=np.random.RandomState(seed)); b = quiet(t.sample, N, rng=np.random.RandomState(seed))
    A = np.asarray(a if N == 1 else a.samples, dtype=float); B = np.asarray(b if N == 1 else b.samples, dtype=float)
    raw = np.asarray(quiet(d._sample, N, rng=np.random.RandomState(seed)), dtype=float)
    fail = shape_verdict(d, a, N)
    if not fail and not (A.shape == B.shape and np.array_equal(A, B)):
        fail = "%s with %s parameters %s draws %s, its float64 twin draws %s under the same generator state" % (cls, style, args, A.tolist(), B.tolist())
    if not fail:
        x = np.ravel(B if N == 1 else B[:, 0])
        la, lb = float(np.ravel(d.logd(x))[0]), float(np.ravel(t.logd(x))[0])
        if not (abs(la - lb) <= 1e-9 * (1 + abs(lb))):
            fail = "%s with %s parameters: logd %r differs from the float64 twin's %r" % (cls, style, la, lb)
    expr = "check_wrap false %s %s %s" % (cnat(N), enc_raw(raw), enc_wrapped(a))
    return Case(expr=expr, meta=meta, cell="L20-L23-twins/%s/%s" % (cls, style), kind="EXACT", impl_fail=fail,
                signature="%s._sample|%s-parameters" % (cls, style) if fail else "")


@failing_input(lambda m: m.get('kind'))
def shallow_copy_case(ctx, meta):
    """L25: two instances alive at once that may share an inner mutable object (copy.copy, conditioned copies); the FIRST is
    evaluated after the second was created, re-assigned and sampled"""
    import cuqi, copy
    D = cuqi.distribution
    kind, n = meta["kind"], 2
    m1, m2 = np.array(meta["m1"], dtype=float), np.array(meta["m2"], dtype=float)
    c1, c2 = float(meta["c1"]), float(meta["c2"])
    z = np.array(meta["z"], dtype=float)
    exprs, fail = [], None
    if kind == "Lognormal":
        d1 = quiet(D.Lognormal, m1.copy(), c1)
        d2 = copy.copy(d1); d2.mean = m2.copy(); d2.cov = c2
        def draw(d):
            return np.log(np.asarray(quiet(d._sample, 1, NormalScript([z.reshape(n, 1)])), dtype=float).ravel())
        s2 = draw(d2); s1 = draw(d1); s2b = draw(d2)
        for (s, m, c, lab) in ((s2, m2, c2, "the copy"), (s1, m1, c1, "the original, evaluated after the copy was re-assigned and sampled"),
                               (s2b, m2, c2, "the copy again")):
            g = quiet(D.Gaussian, m.copy(), c)
            off, T, _ = read_affine(g, n, 1, "rng")
            exprs.append("check_lognormal %s %s %s %s" % (cqv(off), cqm(T), cqv(z), cqv(s)))
            if not np.allclose(s, m + z * math.sqrt(c), atol=1e-9):
                fail = fail or "%s: ln(draw) = %s, expected mean + sqrt(cov) z = %s" % (lab, s.tolist(), (m + z * math.sqrt(c)).tolist())
        for d, m, c, lab in ((d1, m1, c1, "original"), (d2, m2, c2, "copy")):
            x = np.exp(m + 0.5)
            ref = float(np.sum(-0.5 * np.log(2 * np.pi * c) - 0.5 * (np.log(x) - m) ** 2 / c - np.log(x)))
            got = float(np.ravel(d.logpdf(x))[0])
            if abs(ref - got) > 1e-9 * (1 + abs(ref)):
                fail = fail or "%s: logpdf %r is not the lognormal density of its own parameters (%r)" % (lab, got, ref)
    else:
        if kind == "Gaussian-conditioned":
            G = quiet(D.Gaussian, lambda m: m * np.ones(2), cov=lambda s: s, geometry=2)
            d1 = quiet(G, m=float(m1[0]), s=c1); d2 = quiet(G, m=float(m2[0]), s=c2)
            m1, m2 = np.full(2, m1[0]), np.full(2, m2[0])
        else:
            d1 = quiet(D.Gaussian, m1.copy(), cov=c1)
            d2 = copy.copy(d1); d2.mean = m2.copy(); d2.cov = c2
        e2, f2 = gauss_observe(d2, n, expect_mean=m2, fresh=quiet(D.Gaussian, m2.copy(), cov=c2))
        e1, f1 = gauss_observe(d1, n, expect_mean=m1, fresh=quiet(D.Gaussian, m1.copy(), cov=c1))
        exprs += [e2, e1]
        fail = (("the second instance: " + f2) if f2 else None) or (("the FIRST instance, evaluated after the second was created: " + f1) if f1 else None)
    return Case(expr=" && ".join(exprs), meta=meta, cell="L25-shallow-copies/%s" % kind, kind="EXACT", impl_fail=fail,
                signature="%s|shared-inner-object" % kind if fail else "")


def lessons4_cases(ctx, cases):
    rng = ctx.rng
    k = 0
    # L14
    for kind in ("gauss", "normal"):
        for N in (1, 3):
            cases.append(lifecycle_case(ctx, {"op": "l4_lifecycle", "kind": kind, "N": N}))
    # L15
    for order in ("C", "F"):
        for shape in ("upper", "full", "lower"):
            k += 1
            n = 3
            meta = {"op": "l4_alias", "dim": n, "order": order, "S": int_matrix(rng, n, shape).tolist(), "mean": [dy(rng) for _ in range(n)],
                    "mean2": [dy(rng) + 8 for _ in range(n)], "S2": int_matrix(rng, n, shape).tolist() if k % 2 else None,
                    "iface": ["rng", "global", "N1"][k % 3]}
            cases.append(alias_time_case(ctx, meta))
    for fam in ("Normal", "Laplace", "Uniform"):
        n, N = 3, 2
        ps = rand_params(rng, fam, "vector", n); ps2 = rand_params(rng, fam, "vector", n)
        if fam == "Laplace":
            continue                                   # scalar scale is a python float: nothing to overwrite in place but the location
        cases.append(alias_time_uni_case(ctx, {"op": "l4_alias_uni", "family": fam, "form": "vector", "dim": n, "N": N, "params": ps, "params2": ps2,
                                               "G": [[rng.randint(1, 63) / 64 for _ in range(n)] for _ in range(N)], "iface": "rng",
                                               "xseed": rng.randint(0, 10 ** 6)}))
    # L18
    n = 3
    for form in ("sqrtprec", "cov", "prec", "sqrtcov"):
        for fmt in (None, "csr", "dia", "csr_array", "dia_array", "coo_array"):
            k += 1
            B = int_matrix(rng, 2, "spd" if form in ("cov", "prec") else ["upper", "full", "lower"][k % 3])
            M = np.zeros((3, 3)); M[:2, :2] = B; M[2, 2] = rng.choice([1.0, 4.0, 2.0])
            if k % 2:
                M = M[::-1, ::-1].copy()                      # the decoupled 1 x 1 block first
            meta = {"op": "l4_zeros", "form": form, "shape": "block", "sparse_input": bool(fmt), "sparse_format": fmt, "dim": n, "value": M.tolist(),
                    "mean": [[0.0, 2.0, 0.0], [0.0, 0.0, -1.5], [2.5, 0.0, 0.0], [0.0, 0.0, 0.0]][k % 4], "mean_kind": "vector",
                    "iface": ["rng", "global", "N1"][k % 3]}
            if fmt and form == "sqrtprec" and fmt.startswith("dia") is False and False:
                pass
            meta["may_refuse_ctor"] = bool(fmt)               # sparse SPD inputs may be refused by sparse_cholesky (see note)
            cases.append(zeros_or_refused(ctx, meta))
    for rep in range(3):
        m0 = [[0.0, 2.0], [1.0, 0.0], [0.0, 0.0]][rep]
        m1 = [m0[0], m0[1] + 1.0]; m2 = [m1[0] - 2.0, m1[1]]
        cases.append(lognormal_history_case(ctx, {"op": "hist_lognormal", "dim": 2, "mean": m0, "cov": ("vector", [1.0, 4.0]), "z": [dy(rng, -2, 2) for _ in range(2)],
                                                  "steps": [{"attr": "mean", "value": m1}, {"attr": "cov", "value": ("vector", [1.0, 0.25])},
                                                            {"attr": "mean", "value": m2}, {"attr": "cov", "value": ("vector", [9.0, 0.25])}], "one_component": True}))
    for fam in ("Normal", "Uniform", "Gamma", "InverseGamma", "Cauchy"):
        ps = rand_params(rng, fam, "vector", 3)
        if fam == "Normal":
            ps[0] = [0.0, 2.0, 0.0]
        k0 = 0 if fam != "Uniform" else 1
        newv = list(ps[k0]); newv[1] = newv[1] + 0.5
        cases.append(univariate_history_case(ctx, {"op": "hist_uni", "family": fam, "form": "vector", "dim": 3, "N": 2, "params": ps,
                                                   "steps": [{"attr": UNI_ATTRS[fam][k0], "value": newv}], "G": [[rng.randint(1, 63) / 64 for _ in range(3)] for _ in range(2)],
                                                   "iface": "rng", "xseed": rng.randint(0, 10 ** 6), "one_component": True}))
    # L19
    for style in ("buffer", "strided", "cuqiarray", "column-F", "fresh"):
        for N in (1, 3):
            cases.append(udd_buffer_case(ctx, {"op": "l4_udd", "dim": 2, "N": N, "style": style}))
    # L20 / L23
    twins = [("GMRF", [[0.0, 1.0, 2.0, 3.0], 4.0]), ("Lognormal", [[0.0, 1.0], [1.0, 4.0]]), ("Normal", [[0.0, 2.0, -1.0], [1.0, 2.0, 4.0]]),
             ("Gamma", [[2.0, 4.0, 10.0], [2.0, 4.0, 10.0]]), ("InverseGamma", [[3.0, 4.0], [0.0, 1.0], [2.0, 3.0]]), ("Beta", [[2.0, 3.0], [1.0, 4.0]]),
             ("Cauchy", [[0.0, 2.0], [1.0, 3.0]]), ("Uniform", [[0.0, 1.0], [2.0, 4.0]]), ("Laplace", [[0.0, 3.0], 2.0]),
             ("Gaussian", [[0.0, 2.0, 1.0], [4.0, 1.0, 9.0]])]
    for cls, args in twins:
        for style in ("int", "cuqiarray"):
            k += 1
            cases.append(int_twin_case(ctx, {"op": "l4_twin", "cls": cls, "style": style, "args": args, "N": [1, 3][k % 2], "seed": rng.randint(0, 10 ** 6)}))
    # L21: 1 x 1 matrices in every parameterisation (dense; sparse 1 x 1 may be refused)
    for form in ("sqrtprec", "cov", "prec", "sqrtcov"):
        for fmt in (None, "csr"):
            meta = {"op": "l4_zeros", "form": form, "shape": "1x1", "sparse_input": bool(fmt), "sparse_format": fmt, "dim": 1, "value": [[rng.choice([4.0, 0.25, 9.0])]],
                    "mean": [dy(rng)], "mean_kind": "vector", "iface": "rng", "may_refuse_ctor": bool(fmt)}
            cases.append(zeros_or_refused(ctx, meta))
    # L22: GMRF with its shipped defaults (bc_type, order not given)
    cases.extend(gmrf_case(ctx, {"op": "gmrf", "bc": "zero", "order": 1, "dim": 5, "two_d": False, "prec": 2.0, "mean": [dy(rng) for _ in range(5)],
                                 "iface": "rng", "z": [dy(rng, -2, 2) for _ in range(30)], "defaults": True}))
    # L25
    for kind in ("Lognormal", "Gaussian-copy", "Gaussian-conditioned"):
        cases.append(shallow_copy_case(ctx, {"op": "l4_copy", "kind": kind, "m1": [0.0, 1.0], "m2": [5.0, 5.0] if kind != "Gaussian-copy" else [2.0, -3.0],
                                             "c1": 1.0, "c2": 4.0, "z": [dy(rng, -2, 2) for _ in range(2)]}))
    # L26: large offsets
    for fam in ("Normal", "Laplace", "Cauchy", "Uniform"):
        ps = rand_params(rng, fam, "vector", 2)
        ps = [(np.array(p) + 2.0 ** 20).tolist() if (i == 0 or fam == "Uniform") and isinstance(p, list) else p for i, p in enumerate(ps)]
        cases.append(wiring_case(ctx, {"op": "wiring", "family": fam, "form": "vector", "dim": 2, "N": 2, "params": ps,
                                       "G": [[2.0 ** 20 + rng.randint(1, 63) / 64 for _ in range(2)] for _ in range(2)], "iface": "rng", "xseed": rng.randint(0, 10 ** 6),
                                       "big_offset": True}))
    for shape in ("upper", "lower", "diag"):
        n = 3
        cases.append(gaussian_exact_case(ctx, {"op": "gauss_exact", "form": "sqrtprec", "shape": shape, "sparse_input": False, "sparse_format": None, "dim": n,
                                               "value": exact_matrix(rng, n, shape).tolist(), "mean": [2.0 ** 20 * rng.choice([1, -3, 5]) + dy(rng) for _ in range(n)],
                                               "mean_kind": "vector", "iface": "rng", "Z": [[rng.randint(-8, 8) / 4 for _ in range(n)] for _ in range(n)]}))


# ------------------------------------------------------------------------------------------------
# third deepening round: (i) push/* -- the transformation of BASE variates (Model/C05_Push.v, theorems C05_push_*) against
# a twin stream; (ii) gmrf-eps-law/* -- the law of the regularised neumann / periodic draws direction by direction
# (C05_gmrf_eps_law); (iii) mhn-layout/* -- the repaired ModifiedHalfNormal._sample (C05_mhn_layout)
# ------------------------------------------------------------------------------------------------
PUSH_FAMILIES = ("Normal", "Uniform", "Gamma", "Beta", "Laplace", "Cauchy", "Lognormal", "InverseGamma")
PUSH_KINDS = ("RandomState", "Generator-PCG64", "Generator-MT19937", "global")      # global: no rng given, numpy's global state seeded (the other branch of every _sample)


def twin_uniform(t, shape):
    return t.random_sample(shape) if hasattr(t, "random_sample") else t.random(shape)


def push_params(rng, fam, form, n):
    if fam == "Lognormal":
        return [[dy(rng, -2, 2) for _ in range(n)], rng.choice([1.0, 0.25, 4.0])]
    if fam == "Beta":           # numpy draws Ga/(Ga+Gb) when a > 1 or b > 1 (both <= 1: Johnk's rejection algorithm, not modelled)
        def pair():
            a = rng.choice([0.5, 1.0, 2.0, 4.0, 1.5, 3.0, 0.25]); b = rng.choice([1.5, 2.0, 3.0, 4.0]) if a <= 1 else rng.choice([0.5, 1.0, 2.0, 1.5, 0.25])
            return (a, b) if rng.random() < 0.5 else (b, a)
        if form == "scalar":
            return list(pair())
        ps = [pair() for _ in range(n)]
        return [[a for a, _ in ps], [b for _, b in ps]]
    return rand_params(rng, fam, form, n)


def push_cases(ctx, cases):
    rng = ctx.rng
    k = 0
    for fam in PUSH_FAMILIES:
        enclosure = fam in ("Laplace", "Cauchy", "Lognormal")
        for kind in PUSH_KINDS:
            for form in ("scalar", "vector"):
                for N0 in ((2,) if (enclosure and not ctx.thorough) else (1, 3, "dim")):
                    k += 1
                    n = 1 if (form == "scalar" and k % 2 == 0 and N0 != "dim") else rng.choice([2, 3])
                    N = n if N0 == "dim" else N0        # N == dim: (dim, N) and (N, dim) have the same shape (a transposition goes unnoticed by shapes)
                    if fam == "Lognormal" and form == "vector":
                        n = max(n, 2)
                    if fam == "Lognormal" and kind.startswith("Generator"):
                        kind = "RandomState"      # Gaussian._sample calls rng.randn: a numpy Generator is refused (AttributeError; rng/* cells)
                    meta = {"op": "push", "family": fam, "form": form, "dim": n, "N": N, "kind": kind, "N_is_dim": N0 == "dim",
                            "params": push_params(rng, fam, form, n), "seed": rng.randint(0, 10 ** 6), "pstyle": "float"}
                    cases.append(push_case(ctx, meta))


def rtol_const(x, rel=1e-9):
    """a rational tolerance rel * (1 + |x|), rounded up to a dyadic"""
    return cr(math.ldexp(math.ceil(math.ldexp(rel * (1 + abs(x)), 60)), -60))


@failing_input(lambda m: m.get('family'))
def push_case(ctx, meta):
    import cuqi
    from scipy.special import gammaincc
    fam, N, n, kind = meta["family"], meta["N"], meta["dim"], meta["kind"]
    cell = "push/%s/%s/%s/N=%s" % (fam, meta["form"], kind, "dim" if meta.get("N_is_dim") else N)
    twin_rng = lambda: np.random.RandomState(meta["seed"]) if kind == "global" else mk_rng(kind, meta["seed"])
    def draw(dobj):
        if kind != "global":
            return quiet(dobj.sample, N, rng=mk_rng(kind, meta["seed"]))
        st = np.random.get_state()
        try:
            np.random.seed(meta["seed"])
            return quiet(dobj.sample, N)
        finally:
            np.random.set_state(st)
    if fam == "Lognormal":
        mean = np.array(meta["params"][0], dtype=float); cov = meta["params"][1]
        d = quiet(cuqi.distribution.Lognormal, mean, cov)
        tw = quiet(cuqi.distribution.Gaussian, mean, cov)           # a separately built Gaussian under the twin generator
        base = np.asarray(quiet(tw._sample, N, rng=twin_rng()), dtype=float).reshape(n, N)
    else:
        d = build_univariate(meta)
        t = twin_rng()
        ps = [np.broadcast_to(np.asarray(p, dtype=float), (N, n)) for p in meta["params"]]
        if fam == "Normal":
            base = t.standard_normal((N, n)).T
        elif fam in ("Uniform", "Laplace"):
            base = twin_uniform(t, (N, n)).T
        elif fam in ("Cauchy", "InverseGamma"):
            base = t.uniform(size=(N, n)).T                  # scipy's default _rvs: random_state.uniform(size=...), then ppf
        elif fam == "Gamma":
            base = t.standard_gamma(ps[0]).T
        elif fam == "Beta":
            g2 = t.standard_gamma(np.stack([ps[0], ps[1]], axis=-1))        # per element: Ga then Gb
            base = np.stack([g2[..., 0].T, g2[..., 1].T], axis=-1)         # (n, N, 2)
    w = draw(d)
    obs = np.asarray(w.samples if hasattr(w, "samples") else w, dtype=float).reshape(n, N)
    par = lambda k, i: float(np.broadcast_to(np.asarray(meta["params"][k], dtype=float), (n,))[i])
    rows, props, fail = [], [], None
    def bad(i, j, ref):
        return "%s(%s).sample(%d, rng=%s(seed %d)): component %d of draw %d is %.17g, but the transformation of the base variate %s " \
               "of the same generator state gives %.17g" % (fam, meta["params"], N, kind, meta["seed"], i, j, obs[i, j],
                                                            np.ravel(base[i, j]).tolist(), ref)
    for i in range(n):
        for j in range(N):
            o = float(obs[i, j])
            if fam == "Normal":
                m_, s_, z = par(0, i), par(1, i), float(base[i, j])
                ref = float(Fraction(m_) + Fraction(s_) * Fraction(z))
                rows.append("PNormal %s %s %s %s" % (cq(m_), cq(s_), cq(z), cq(o)))
            elif fam == "Uniform":
                lo, hi, u = par(0, i), par(1, i), float(base[i, j])
                ref = float(Fraction(lo) + (Fraction(hi) - Fraction(lo)) * Fraction(u))
                rows.append("PUniform %s %s %s %s" % (cq(lo), cq(hi), cq(u), cq(o)))
            elif fam == "Gamma":
                rate, g = par(1, i), float(base[i, j])
                ref = float(Fraction(g) / Fraction(rate))
                rows.append("PGamma %s %s %s" % (cq(rate), cq(g), cq(o)))
            elif fam == "Beta":
                ga, gb = float(base[i, j, 0]), float(base[i, j, 1])
                ref = float(Fraction(ga) / (Fraction(ga) + Fraction(gb)))
                rows.append("PBeta %s %s %s" % (cq(ga), cq(gb), cq(o)))
            elif fam == "Laplace":
                loc, sc, u = par(0, i), par(1, i), float(base[i, j])
                ref = loc - sc * math.log(2 - 2 * u) if u >= 0.5 else loc + sc * math.log(2 * u)
                props.append("Rabs (laplace_push %s %s %s - %s) <= %s" % (cr(loc), cr(sc), cr(u), cr(o), rtol_const(o)))
                props.append("Rabs (laplace_inv %s %s %s - %s) <= %s" % (cr(loc), cr(sc), cr(o), cr(u), rtol_const(0.0)))
            elif fam == "Cauchy":
                loc, sc, u = par(0, i), par(1, i), float(base[i, j])
                ref = loc + sc * math.tan(math.pi * u - math.pi / 2)
                props.append("Rabs (cauchy_inv %s %s %s - %s) <= %s" % (cr(loc), cr(sc), cr(o), cr(u), rtol_const(0.0)))
                if abs(ref - loc) <= 1e3 * sc:       # away from the poles of tan the forward form is well conditioned too
                    props.append("Rabs (cauchy_push %s %s %s - %s) <= %s" % (cr(loc), cr(sc), cr(u), cr(o), rtol_const(o, 1e-8)))
            elif fam == "Lognormal":
                y = float(base[i, j])
                ref = math.exp(y)
                props.append("Rabs (exp %s - %s) <= %s" % (cr(y), cr(o), rtol_const(o)))
            elif fam == "InverseGamma":
                a_, loc, sc, u = par(0, i), par(1, i), par(2, i), float(base[i, j])
                # inversion: u = F((x - loc)/scale), F the standard inverse-gamma distribution function Gamma(a, 1/y)/Gamma(a)
                back = float(gammaincc(a_, sc / (o - loc))) if o > loc else float("nan")
                ref = o if abs(back - u) <= 1e-9 else float("nan")
                if not abs(back - u) <= 1e-9 and fail is None:
                    fail = ("InverseGamma(%s).sample(%d, rng=%s(seed %d)): component %d of draw %d is x=%.17g, but the distribution "
                            "function of the documented law at x is %.12g while the uniform variate of the same generator state is %.12g"
                            % (meta["params"], N, kind, meta["seed"], i, j, o, back, u))
            if fail is None and not (abs(o - ref) <= 1e-9 * (1 + abs(ref))):
                fail = bad(i, j, ref)
    sig = ("%s._sample|push" % fam) if fail else ""
    if fam == "InverseGamma":
        # no Coq evaluation of the incomplete gamma function: oracle verdict only (theorem C05_push_invgamma takes F, Finv as hypotheses)
        return Case(expr="true", meta=meta, cell=cell, kind="DECISION", trivial=True, impl_fail=fail, signature=sig)
    if rows:
        return Case(expr="check_push %s" % clist(rows), meta=meta, cell=cell, kind="EXACT", impl_fail=fail, signature=sig)
    tac = ("unfold laplace_push, laplace_push_lo, laplace_push_hi, laplace_inv, laplace_inv_lo, laplace_inv_hi, cauchy_inv, cauchy_push. "
           "repeat match goal with |- context [Rle_dec ?a ?b] => destruct (Rle_dec a b); [try (exfalso; lra) | try (exfalso; lra)] end. "
           "repeat split; interval with (i_prec 100).")
    return Case(expr=" /\\ ".join("(%s)" % q for q in props), tac=tac, meta=meta, cell=cell, kind="ENCLOSURE", impl_fail=fail, signature=sig)


def eps_law_cases(ctx, cases):
    rng = ctx.rng
    precs = [1.0, 4.0, 0.25, 2.25]
    k = 0
    for bc in ("neumann", "periodic"):
        for order in (0, 1, 2):
            for (n, two_d) in ([(4, False), (5, False)] + ([(9, True)] if bc == "neumann" else []) + ([(7, False)] if ctx.thorough else [])):
                k += 1
                meta = {"op": "eps_law", "bc": bc, "order": order, "dim": n, "two_d": two_d, "prec": precs[k % len(precs)],
                        "mean": [dy(rng) for _ in range(n)], "iface": ["rng", "global"][k % 2]}
                cases.append(eps_law_case(ctx, meta))


@failing_input('GMRF')
def eps_law_case(ctx, meta):
    d = build_gmrf(meta)
    n, bc = meta["dim"], meta["bc"]
    cell = "gmrf-eps-law/%s/order%d/%s" % (bc, meta["order"], "2d" if meta.get("two_d") else "1d")
    m, ncalls, proto = gmrf_protocol(d, bc)
    if proto != "solve":        # the unrepaired periodic sampler (DFT): another construction, covered by gmrf/periodic cells
        return Case(expr="true", meta=meta, cell=cell + "/not-the-solve-construction", kind="DECISION", trivial=True)
    prec = float(meta["prec"])
    D = dense(d._diff_op.get_matrix())
    P = D.T @ D                         # D is checked against the model's stencil in the gmrf/* cells
    off, T, _ = read_affine(d, m, ncalls, meta["iface"])
    lam, V = np.linalg.eigh(P)
    lam = np.where(np.abs(lam) < 1e-12, 0.0, lam)
    es = clist(["(%s, %s)" % (cq(float(lam[k])), cqv(V[:, k])) for k in range(n)])
    expr = "check_eps_law %s %s %s %s %s && check_eps_law_discriminates %s %s %s" % (cnat(n), cq(prec), cqm(P), cqm(T), es, cq(prec), cqm(T), es)
    # oracle (the property, with the explicit bound of C05_gmrf_eps_deviation): along every eigen-direction of the precision prec*P
    # implied by logd the variance of the draws is the documented 1/(prec lam) up to the relative amount 2 sqrt(eps)/lam, and there
    # is no variance along its null space
    eps = float(np.sqrt(np.finfo(float).eps))
    C = T @ T.T
    fail = None
    H = hessian_of_logd(d, n, center=np.zeros(n))
    if not np.allclose(H, prec * P, atol=1e-6 * max(1.0, float(np.abs(P).max()) * prec)):
        fail = "GMRF(%s, order %d): the Hessian of logd is not prec * D^T D" % (bc, meta["order"])
    for k in range(n):
        if fail:
            break
        v = V[:, k]
        var = float(v @ C @ v)
        if lam[k] == 0.0:
            if abs(var) > 1e-10:
                fail = ("GMRF(%s, order %d, dim %d): the draws have variance %.3g along a null direction of the precision "
                        "(documented: a degenerate law with no variance there)" % (bc, meta["order"], n, var))
        else:
            doc = 1.0 / (prec * lam[k])
            # the quadratic form v^T C v is accurate to ~1e-15 (the rounding noise of the 1/eps-conditioned solves lies in the null
            # direction, orthogonal to v): the bound of C05_gmrf_eps_deviation is tested with a slack of 1e-10 only
            if not (-1e-10 * doc <= doc - var <= doc * (2 * eps / lam[k]) + 1e-10 * doc):
                fail = ("GMRF(%s, order %d, dim %d): variance of the draws along the eigen-direction with eigenvalue %.6g of P is %.9g, "
                        "documented 1/(prec lam) = %.9g (allowed relative deviation 2 sqrt(eps)/lam = %.3g)"
                        % (bc, meta["order"], n, lam[k], var, doc, 2 * eps / lam[k]))
    return Case(expr=expr, meta=meta, cell=cell, kind="EXACT", impl_fail=fail,
                signature=("GMRF._sample|eps-law:%s:order%d" % (bc, meta["order"])) if fail else "")


class MHNKernelRecorder:
    def __init__(self, vals):
        self.vals, self.calls, self.rngs = list(vals), [], []

    def __call__(self, alpha, beta, gamma, rng=None):
        self.calls.append((float(alpha), float(beta), float(gamma)))
        self.rngs.append(rng)
        return self.vals.pop(0)


def mhn_layout_cases(ctx, cases):
    rng = ctx.rng
    for vector in (True, False):
        for n in (1, 2, 3):
            for N in (1, 2, 3):
                a = [rng.choice([0.5, 1.0, 2.0, 3.0, 1.5]) for _ in range(n)]
                b = [rng.choice([0.5, 1.0, 2.0, 4.0]) for _ in range(n)]
                g = [dy(rng, -2, 2) for _ in range(n)]
                if not vector:
                    a, b, g = a[0], b[0], g[0]
                meta = {"op": "mhn_layout", "vector": vector, "dim": n, "N": N, "a": a, "b": b, "g": g,
                        "vals": [rng.randint(1, 255) / 64 for _ in range(n * N)]}
                cases.append(mhn_layout_case(ctx, meta))


@failing_input('ModifiedHalfNormal')
def mhn_layout_case(ctx, meta):
    import cuqi
    n, N, vector = meta["dim"], meta["N"], meta["vector"]
    def mk():
        if vector:
            return quiet(cuqi.distribution.ModifiedHalfNormal, np.array(meta["a"], dtype=float), np.array(meta["b"], dtype=float),
                         np.array(meta["g"], dtype=float))
        return quiet(cuqi.distribution.ModifiedHalfNormal, float(meta["a"]), float(meta["b"]), float(meta["g"]), geometry=n)
    d = mk()
    # the parameters the object reports (its getters; C04's open finding: beta / gamma return alpha) -- what its logpdf uses
    rep = [np.atleast_1d(np.asarray(x, dtype=float)).ravel() for x in (d.alpha, d.beta, d.gamma)]
    ps = [(float(rep[0][i]), float(rep[1][i]), float(rep[2][i])) for i in range(len(rep[0]))]
    token = object()
    rec = MHNKernelRecorder(meta["vals"])
    d._MHN_sample = rec
    raw = np.asarray(d._sample(N, rng=token), dtype=float)
    rng_ok = all(r is token for r in rec.rngs)
    d2 = mk(); rec2 = MHNKernelRecorder(meta["vals"]); d2._MHN_sample = rec2
    w = quiet(d2.sample, N, rng=token)
    raw2 = raw if raw.ndim == 2 else raw.reshape(1, -1)
    tr = lambda t: "(%s, %s, %s)" % (cq(t[0]), cq(t[1]), cq(t[2]))
    expr = "check_mhn_layout %s %s %s %s %s %s %s && %s" % (cbool(vector), cnat(n), cnat(N), clist([tr(t) for t in ps]), cqv(meta["vals"]),
                                                         clist([tr(t) for t in rec.calls]), cqm(raw2) if raw2.size else "[]", cbool(rng_ok))
    vals = np.array(meta["vals"], dtype=float)
    comp = lambda i: ps[i] if vector else ps[0]
    fail = None
    if raw.shape != (n, N):
        fail = "_sample(%d) returns an array of shape %s for dimension %d: not one row per component and one column per draw" % (N, raw.shape, n)
    elif not np.array_equal(raw, vals.reshape(n, N)):
        fail = "_sample(%d): entry (i, j) is not the (i N + j)-th value returned by the scalar sampler" % N
    elif rec.calls != [comp(i) for i in range(n) for _ in range(N)]:
        fail = "_sample(%d): component i is not drawn with the i-th parameters: scalar sampler called with %s" % (N, rec.calls)
    elif not rng_ok:
        fail = "_sample does not hand the given generator to the scalar sampler"
    else:
        fail = shape_verdict(d2, w, N)
        if not fail and not np.array_equal(np.asarray(w.samples if N > 1 else w, dtype=float).reshape(n, N), vals.reshape(n, N)):
            fail = "sample(%d): draw j is not column j of the array of scalar draws" % N
    if fail:
        fail = "ModifiedHalfNormal(%s, %s, %s) of dimension %d: %s" % (meta["a"], meta["b"], meta["g"], n, fail)
    return Case(expr=expr, meta=meta, cell="mhn-layout/%s/dim=%d/N=%d" % ("vector" if vector else "scalar", n, N), kind="EXACT",
                impl_fail=fail, signature=SIG_MHN_DIM if fail else "")


def deepen3_cases(ctx, cases):
    push_cases(ctx, cases)
    eps_law_cases(ctx, cases)
    mhn_layout_cases(ctx, cases)



def zeros_or_refused(ctx, meta):
    if meta.get("may_refuse_ctor"):
        try:
            build_gaussian(meta)
        except Exception:
            return Case(expr="true", meta=meta, cell="L18-exact-zeros/refused-by-constructor", trivial=True, kind="DECISION")
    return zeros_case(ctx, meta)


# ------------------------------------------------------------------------------------------------
# translator stage: coq/gen/Gen_C05.v, re-proved on every run
# ------------------------------------------------------------------------------------------------
def translator_stage(ctx):
    """-> (sites, n_obligations, failures)"""
    fails = []
    try:
        with warnings.catch_warnings():
            warnings.simplefilter("ignore")
            sites, methods = tr_rngflow.extract(ctx.repo)
    except Exception as e:
        return [], 1, ["tr_rngflow: %s: %s" % (type(e).__name__, e)]
    txt = tr_rngflow.render(sites, methods, ctx.repo)
    os.makedirs(GEN, exist_ok=True)
    path = os.path.join(GEN, "Gen_C05.v")
    tmp = path + ".tmp%d" % os.getpid()
    with open(tmp, "w") as f:
        f.write(txt)
    os.replace(tmp, path)
    # compile a private copy (concurrent runs against scratch repos must not clobber each other's objects)
    rdir = os.path.join(GEN, "gen_C05_%d" % os.getpid())
    os.makedirs(rdir, exist_ok=True)
    priv = os.path.join(rdir, "Gen_C05.v")
    with open(priv, "w") as f:
        f.write(txt)
    n_obl = txt.count("\nLemma ")
    if not os.path.exists(os.path.join(COQ, "theories", "Proofs", "C05_Sample.vo")):
        make_target("theories/Proofs/C05_Sample.vo", jobs=4)
    rc, out = sh(["coqc"] + coq_flags() + [priv], timeout=COQC_TIMEOUT)
    import shutil
    shutil.rmtree(rdir, ignore_errors=True)
    if rc != 0:
        fails.append("coq/gen/Gen_C05.v (RNG call sites extracted from %s) no longer proves its obligations:\n%s" % (ctx.repo, out[-1500:]))
    return sites, n_obl, fails


# ------------------------------------------------------------------------------------------------
# driver interface
# ------------------------------------------------------------------------------------------------
def run(ctx):
    import cuqi
    cases = []
    sites, n_obl, gen_fail = translator_stage(ctx)
    ctx.note("translator: %d RNG call sites, %d generated obligations, %d broken" % (len(sites), n_obl, len(gen_fail)))
    st_saved = np.random.get_state()
    try:
        gaussian_cases(ctx, cases)
        gaussian_format_cases(ctx, cases)
        gaussian_variant_cases(ctx, cases)
        gaussian_scale_cases(ctx, cases)
        gaussian_exact_cases(ctx, cases)
        entry_cases(ctx, cases)
        refusal_cases(ctx, cases)
        lognormal_cases(ctx, cases)
        gmrf_cases(ctx, cases)
        univariate_cases(ctx, cases)
        wrapper_cases(ctx, cases)
        conditional_cases(ctx, cases)
        history_cases(ctx, cases)
        lessons4_cases(ctx, cases)
        deepen3_cases(ctx, cases)
        rng_cases(ctx, cases, sites)      # also when the translator failed (no sites): the behavioural clauses still find failing inputs
        mhn_cases(ctx, cases)
    finally:
        np.random.set_state(st_saved)
    # spread the expensive (dimension > 10) cases evenly over the case list, hence over the shards evaluated in parallel
    big = [c for c in cases if isinstance(c.meta.get("dim"), int) and c.meta["dim"] > 10 and c.meta.get("op") == "gaussian"]
    if big:
        small = [c for c in cases if not any(c is b for b in big)]
        step = max(1, len(small) // len(big))
        cases = []
        for i, c in enumerate(small):
            if i % step == 0 and big:
                cases.append(big.pop())
            cases.append(c)
        cases += big
    return Result(cases=cases, rule=RULE, generated_obligations=n_obl, generated_failed=gen_fail,
                  extra={"rng_call_sites": len(sites)},
                  assumptions=[
                      "solve/spsolve/solve_triangular/cholesky/eigsh/dft/sqrt enter the model only as certificates whose law is checked exactly over Q",
                      "the laws of numpy/scipy generators (documented densities) are oracles; 'draws are distributed as pi' is proved only as "
                      "offset/covariance of the affine map, generator wiring and proposal x acceptance identities",
                      "tr_rngflow.py: the syntactic RNG call sites over-approximate the semantic ones (aliasing/reflection are rejected)",
                      "D = _diff_op of GMRF is recomputed by the model (check_diffop) and P = D^T D is checked; eigenpairs of P in the gmrf-eps-law cells are numpy certificates checked by the model",
                      "push/* cells: a second numpy generator in the same state delivers the base variates the implementation's generator consumes (numpy's documented algorithms "
                      "normal = loc + scale*standard_normal, uniform = low + (high-low)*random_sample, gamma = scale*standard_gamma, laplace by inversion, beta = Ga/(Ga+Gb) for a>1 or b>1; "
                      "scipy 1.12 cauchy / invgamma rvs = loc + scale*ppf(uniform)); the laws of those base variates are oracles",
                      "change of variables is proved in differential form and for probabilities of intervals (Riemann integral); general measurable sets and independence of successive draws are not formalised"])


def classify(meta, detail):
    op = meta.get("op")
    d = str(detail)
    if op == "gaussian":
        return SIG_TRI if "stored sqrtprec tri" in d and meta.get("form") == "sqrtprec" and meta.get("shape") in ("lower", "nearly-lower") \
            else "Gaussian._sample|covariance:%s" % meta.get("form")
    if op == "gmrf":
        return SIG_PER if (meta.get("bc") == "periodic" and meta.get("order", 0) >= 1) else "GMRF._sample|covariance:%s:order%s" % (meta.get("bc"), meta.get("order"))
    if op == "gmrf_n1":
        return SIG_N1 if meta.get("bc") in ("neumann", "periodic") else "GMRF._sample|N=1:" + str(meta.get("bc"))
    if op == "wiring":
        return "%s._sample|wiring" % meta.get("family")
    if op in ("wrap", "wrap_defect"):
        return meta.get("sig") or "Distribution.sample|shape:%s" % meta.get("spec", ["?"])[0]
    if op == "cond":
        return "Distribution.sample|conditional"
    if op == "rng":
        return SIG_UDD if meta.get("spec", [""])[0] == "UserDefined" else "%s._sample|rng-isolation" % meta.get("spec", ["?"])[0]
    if op == "lognormal":
        return "Lognormal._sample"
    if op and op.startswith("hist_"):
        return "%s|history" % {"hist_gauss": "Gaussian", "hist_gmrf": "GMRF", "hist_uni": str(meta.get("family")), "hist_lognormal": "Lognormal"}[op]
    if op in ("mhn", "mhn_public"):
        return "ModifiedHalfNormal._MHN_sample|scheme"
    if op == "push":
        return "%s._sample|push" % meta.get("family")
    if op == "eps_law":
        return "GMRF._sample|eps-law:%s:order%s" % (meta.get("bc"), meta.get("order"))
    if op == "mhn_layout":
        return SIG_MHN_DIM
    return "C05"


REBUILD = {"gaussian": lambda ctx, m: [gaussian_case(ctx, m)], "lognormal": lambda ctx, m: [lognormal_case(ctx, m)],
           "gmrf": lambda ctx, m: gmrf_case(ctx, m), "gmrf_n1": lambda ctx, m: gmrf_case(ctx, dict(m, op="gmrf")),
           "gmrf_refuse": lambda ctx, m: [gmrf_refuse_case(ctx, m)], "wiring": lambda ctx, m: [wiring_case(ctx, m)],
           "wrap": lambda ctx, m: [wrapper_case(ctx, m)], "wrap_defect": lambda ctx, m: [wrapper_defect_case(ctx, m)],
           "cond": lambda ctx, m: [conditional_case(ctx, m)], "rng": lambda ctx, m: [rng_case(ctx, m)],
           "mhn": lambda ctx, m: [mhn_case(ctx, m)], "mhn_public": lambda ctx, m: [mhn_public_case(ctx, m)],
           "l4_lifecycle": lambda ctx, m: [lifecycle_case(ctx, m)], "l4_alias": lambda ctx, m: [alias_time_case(ctx, m)],
           "l4_alias_uni": lambda ctx, m: [alias_time_uni_case(ctx, m)], "l4_zeros": lambda ctx, m: [zeros_or_refused(ctx, m)],
           "l4_udd": lambda ctx, m: [udd_buffer_case(ctx, m)], "l4_twin": lambda ctx, m: [int_twin_case(ctx, m)],
           "l4_copy": lambda ctx, m: [shallow_copy_case(ctx, m)],
           "push": lambda ctx, m: [push_case(ctx, m)], "eps_law": lambda ctx, m: [eps_law_case(ctx, m)],
           "mhn_layout": lambda ctx, m: [mhn_layout_case(ctx, m)],
           "mhn_helper": lambda ctx, m: [mhn_helper_case(ctx, m)], "gauss_exact": lambda ctx, m: [gaussian_exact_case(ctx, m)], "entry": lambda ctx, m: [entry_case(ctx, m)],
           "hist_gauss": lambda ctx, m: [gaussian_history_case(ctx, m)], "hist_gmrf": lambda ctx, m: [gmrf_history_case(ctx, m)],
           "hist_uni": lambda ctx, m: [univariate_history_case(ctx, m)], "hist_lognormal": lambda ctx, m: [lognormal_history_case(ctx, m)]}


def oracle(ctx, meta):
    """re-check the property itself on the implementation for one case (independent of the Coq model)"""
    op = meta.get("op")
    if op not in REBUILD:
        return None
    st = np.random.get_state()
    try:
        cs = REBUILD[op](ctx, meta)
    finally:
        np.random.set_state(st)
    for c in cs:
        if c.meta.get("op") == op and c.impl_fail:
            if c.signature in FAITHFUL_CLASSES and not meta.get("verdict_only"):
                continue        # the model is faithful inside this class: its known failure does not explain a disagreement
            return c.impl_fail
    if op == "mhn" and meta.get("verdict_only"):
        import cuqi
        dobj = cuqi.distribution.ModifiedHalfNormal(1.0, 1.0, 1.0)
        r = mhn_acceptance_oracle(dobj, meta["a"], meta["b"], meta["g"], mhn_quantities(meta["a"], meta["b"], meta["g"]))
        return r[0] if r else None
    return None


WITNESSES = {
    SIG_TRI: {"op": "gaussian", "form": "sqrtprec", "shape": "lower", "sparse_input": False, "dim": 3,
              "value": [[1.0, 0.0, 0.0], [2.0, 1.0, 0.0], [0.0, -1.0, 2.0]], "mean": [1.0, 2.0, 3.0], "mean_kind": "vector", "iface": "rng"},
    SIG_TINY: {"op": "gaussian", "form": "sqrtprec", "shape": "full", "sparse_input": False, "dim": 3,
               "value": (np.array([[2.0, 1.0, 0.0], [0.5, 1.0, 1.0], [1.0, 0.0, 2.0]]) * 2.0 ** -30).tolist(), "mean": [0.0, 0.0, 0.0],
               "mean_kind": "vector", "iface": "rng", "hstep": 2.0 ** 30, "cellname": "sqrtprec:full*2^-30"},
    SIG_PER: {"op": "gmrf", "bc": "periodic", "order": 1, "dim": 5, "two_d": False, "prec": 4.0, "mean": [0.0, 1.0, 2.0, 3.0, 4.0],
              "iface": "rng", "z": [0.5] * 30},
    SIG_N1: {"op": "gmrf_n1", "bc": "neumann", "order": 1, "dim": 4, "two_d": False, "prec": 4.0, "mean": [0.0, 1.0, 2.0, 3.0],
             "iface": "rng", "z": [0.5] * 30},
    SIG_MHN_ACC: {"op": "mhn", "a": 5, "b": 1, "g": 3, "p": 2.0, "u": 0.5},
    SIG_MHN_DIM: {"op": "wrap_defect", "spec": ["ModifiedHalfNormal", [2.0, 3.0, 4.0], [1.0, 2.0, 3.0], [1.0, -1.0, 2.0]], "N": 5, "sig": SIG_MHN_DIM},
    SIG_UDD: {"op": "rng", "spec": ["UserDefined", 2, 5, True], "N": 3},
}


def known_witnesses(ctx):
    out = {}
    for sig, meta in WITNESSES.items():
        try:
            detail = oracle(ctx, dict(meta, verdict_only=True))
        except Exception as e:
            detail = "witness crashed: %s: %s" % (type(e).__name__, e)
        out[sig] = (bool(detail), detail or "witness no longer fails")
    return out


@contextlib.contextmanager
def time_limit(seconds):
    import signal
    def handler(signum, frame):
        raise TimeoutError("time limit of %ss exceeded" % seconds)
    old_h = signal.signal(signal.SIGALRM, handler)
    signal.setitimer(signal.ITIMER_REAL, seconds)
    try:
        yield
    finally:
        signal.setitimer(signal.ITIMER_REAL, 0)
        signal.signal(signal.SIGALRM, old_h)


def search(ctx):
    """wider search for a failing input when something broke: every witness, then large-sample moment tests of every family
    against the density the same object reports (6-sigma thresholds; search only, never the verdict of a green run)"""
    found = []
    for sig, meta in WITNESSES.items():
        try:
            for c in REBUILD[meta["op"]](ctx, meta):
                if c.impl_fail:
                    found.append(c)
        except Exception:
            pass
    import scipy.integrate as integ
    Ns = 20000
    for spec in WRAP_SPECS:
        if spec[0] in ("UserDefined", "Gallery", "GMRF", "Gaussian", "Cauchy"):
            continue
        try:
            d = build_named(spec)
            with time_limit(20):       # a broken rejection sampler may practically never accept
                s = np.asarray(quiet(d.sample, Ns, rng=np.random.RandomState(11)).samples, dtype=float).reshape(d.dim, -1)
            if d.dim != 1:
                continue
            pdf = lambda x: math.exp(float(np.ravel(d.logd(np.array([x])))[0]))
            lo, hi = float(s.min()) - 10 * float(s.std()), float(s.max()) + 10 * float(s.std())
            if spec[0] in ("Gamma", "InverseGamma", "Lognormal", "ModifiedHalfNormal", "Beta"):
                lo = 1e-12
            if spec[0] in ("Beta",):
                hi = 1 - 1e-12
            if spec[0] == "Uniform":
                lo, hi = float(spec[1]), float(spec[2])
            Z = integ.quad(pdf, lo, hi, limit=400)[0]
            m1 = integ.quad(lambda x: x * pdf(x), lo, hi, limit=400)[0] / Z
            m2 = integ.quad(lambda x: x * x * pdf(x), lo, hi, limit=400)[0] / Z
            sd = math.sqrt(max(m2 - m1 * m1, 1e-300))
            zscore = abs(float(s.mean()) - m1) / (sd / math.sqrt(Ns))
            if zscore > 6:
                found.append(Case(expr="true", meta={"op": "moment", "spec": spec, "mean_of_draws": float(s.mean()), "mean_of_density": m1},
                                  impl_fail="%s: mean of %d draws %.5g vs mean of the reported density %.5g (%.1f sigma)" % (spec, Ns, float(s.mean()), m1, zscore),
                                  signature="%s._sample|moments" % spec[0]))
        except TimeoutError as e:
            found.append(Case(expr="true", meta={"op": "moment", "spec": spec},
                              impl_fail="%s: drawing %d samples does not finish (%s): the sampler practically never accepts" % (spec, Ns, e),
                              signature="%s._sample|does-not-terminate" % spec[0]))
        except Exception:
            continue
    return found


def replay(ctx, meta):
    print(json.dumps(meta, indent=1, default=str)[:6000])
    m = meta.get("meta", meta)
    if "witness" in m and m["witness"] in WITNESSES:
        m = WITNESSES[m["witness"]]
    op = m.get("op")
    if op not in REBUILD:
        print("nothing to re-run for this replay file (no implementation case attached)")
        return 0
    rc = 0
    try:
        if op in ("gaussian", "gmrf", "gmrf_n1"):
            d = build_gaussian(m) if op == "gaussian" else build_gmrf(m)
            n = m["dim"]
            mm, nc = (n, 1) if op == "gaussian" else gmrf_protocol(d, m["bc"])[:2]
            off, T, _ = read_affine(d, mm, nc, m.get("iface", "rng") if m.get("iface") != "N1" else "rng")
            H = hessian_of_logd(d, n, center=np.zeros(n))
            np.set_printoptions(precision=5, suppress=True, linewidth=160)
            print("offset of the draws (scripted normals = 0):", off)
            print("covariance of the draws T T^T (T read off with scripted unit normals):\n", T @ T.T)
            print("(generalised) inverse of the precision = -Hessian of the object's own logd:\n", np.linalg.pinv(H, rcond=1e-6))
            print("one draw, sample(1):", np.asarray(quiet(d.sample, 1, rng=np.random.RandomState(0))))
    except Exception as e:
        print("(could not print both sides: %s)" % e)
    for c in REBUILD[op](ctx, m):
        print("cell:", c.cell)
        print("oracle verdict on the current tree:", c.impl_fail or "property holds on this input")
        if c.kind == "ENCLOSURE":
            rcq, out = eval_goal(c)
        else:
            rcq, out = eval_in_coq(IMPORTS, c.expr, tag="replay_C05")
        print("model vs implementation (Coq):", out[-600:])
        if c.impl_fail:
            rc = 1
    if op == "mhn":
        print("acceptance oracle:", oracle(ctx, m))
    return rc


def eval_goal(c):
    path = os.path.join(GEN, "replay_C05_%d.v" % os.getpid())
    with open(path, "w") as f:
        f.write(IMPORTS + "\nGoal %s.\nProof. %s Qed.\n" % (c.expr, c.tac))
    rc, out = sh(["coqc"] + coq_flags() + [path], timeout=300)
    for ext in (".v", ".vo", ".vok", ".vos", ".glob"):
        try:
            os.remove(path[:-2] + ext)
        except OSError:
            pass
    try:
        os.remove(os.path.join(GEN, ".replay_C05_%d.aux" % os.getpid()))
    except OSError:
        pass
    return rc, ("proved" if rc == 0 else "NOT proved: " + out[-500:])
