(* C08 (continued) -- the cache clause through the LIFE CYCLE of the experimental sampler object (lesson L14):
   property theorems only.  Model/C08_Life.v models the target setter, initial_point re-assignment, reinitialize()
   and set_state(get_state()) on (target, initial point, chain state with its cached gradient). *)
From CV Require Import Base.Tac Base.Ext Base.QcLin Model.C08_NUTS Model.C08_Life.
From CV Require Import Proofs.C08_Prog Proofs.C08_Tree Proofs.C08_Top Proofs.C08_Life.
From Coq Require Import QArith Qcanon.

(* A live sampler restarted where it stands on ANOTHER target (target replaced, initial_point := current_point,
   reinitialize() -- the HybridGibbs protocol for a NUTS block): the chain has not moved, the caches are the NEW
   target's at that point, the state the next transition starts from is the model's initial state for the new target,
   and after that transition (any depth, step size, momentum, slice draw) the cached gradient again belongs to the
   current point under the new target.  For every previous target, state and history. *)
Theorem C08_cache_consistent_restart :
  forall (t' : target) (s : sampler) (guard : bool) (max_depth : nat) (heps : Qc) (z : list Qc) (e : Q),
  sm_cache_ok (sm_restart_on t' s) /\
  c_init t' (ps_x (sm_state s)) z = mkPS (ps_x (sm_state (sm_restart_on t' s))) z (ps_g (sm_state (sm_restart_on t' s))) /\
  all_out (fun tp => ps_g (p_cur tp) = t_grad t' (ps_x (p_cur tp)))
          (c_transition t' guard max_depth heps (ps_x (sm_state (sm_restart_on t' s))) z e).
Proof. exact restart_then_transition. Qed.
Print Assumptions C08_cache_consistent_restart.

(* reinitialize() in any state gives consistent caches; a second one changes nothing *)
Theorem C08_cache_consistent_reinitialize :
  forall s : sampler, sm_cache_ok (sm_reinitialize s) /\
                      sm_state (sm_reinitialize (sm_reinitialize s)) = sm_state (sm_reinitialize s).
Proof. intros s. split; [exact (reinitialize_cache_ok s) | exact (reinitialize_twice s)]. Qed.
Print Assumptions C08_cache_consistent_reinitialize.

(* a saved consistent state put back into a sampler on the same target is consistent *)
Theorem C08_cache_consistent_set_state :
  forall s s' : sampler, sm_cache_ok s -> sm_target s' = sm_target s -> sm_cache_ok (sm_set_state (sm_get_state s) s').
Proof. exact set_get_state_cache_ok. Qed.
Print Assumptions C08_cache_consistent_set_state.

(* replacing the target WITHOUT re-initialising leaves the old target's caches behind (faithful to the code; the
   harness checks this history only through what the next transition computes) *)
Theorem C08_cache_retarget_alone_refuted :
  exists t t' x, sm_cache_ok (sm_new t x) /\ ~ sm_cache_ok (sm_retarget t' (sm_new t x)).
Proof. exact retarget_alone_stale. Qed.
Print Assumptions C08_cache_retarget_alone_refuted.

(* non-vacuity *)
Example C08_life_example :
  sm_cache_ok (sm_restart_on (TGauss (qc 2 :: nil)) (sm_new (TGauss (qc 1 :: nil)) (qc 1 :: nil))).
Proof. reflexivity. Qed.
